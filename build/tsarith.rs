#![allow(unused, non_snake_case, non_upper_case_globals)]
use vstd::prelude::*;
verus! {
// ---- include lib/stdspecs.vrs ----
// Specifications of core integer methods that vstd 0.2026.09.13 does not provide (trusted; each mirrors the std documentation).
// Included by every unit so that an edited body that starts using one of them is still decided.
pub assume_specification[ i8::div_euclid ](x: i8, y: i8) -> (r: i8) requires y != 0, !(x == i8::MIN && y == -1), ensures y > 0 ==> r as int == (x as int) / (y as int);
pub assume_specification[ i8::rem_euclid ](x: i8, y: i8) -> (r: i8) requires y != 0, !(x == i8::MIN && y == -1), ensures y > 0 ==> r as int == (x as int) % (y as int), y < 0 ==> r as int == (x as int) % (-(y as int));
pub assume_specification[ i8::abs ](x: i8) -> (r: i8) requires x != i8::MIN, ensures r as int == (if x < 0 { -(x as int) } else { x as int });
pub assume_specification[ i8::signum ](x: i8) -> (r: i8) ensures r == (if x > 0 { 1int } else if x < 0 { -1int } else { 0int });
pub assume_specification[ i8::is_positive ](x: i8) -> (r: bool) ensures r == (x > 0);
pub assume_specification[ i8::is_negative ](x: i8) -> (r: bool) ensures r == (x < 0);
pub assume_specification[ i8::checked_neg ](x: i8) -> (r: Option<i8>) ensures x == i8::MIN ==> r.is_none(), x != i8::MIN ==> r == Some((-x) as i8);
pub assume_specification[ i8::saturating_add ](x: i8, y: i8) -> (r: i8) ensures i8::MIN <= x + y <= i8::MAX ==> r == x + y, x + y > i8::MAX ==> r == i8::MAX, x + y < i8::MIN ==> r == i8::MIN;
pub assume_specification[ i8::saturating_sub ](x: i8, y: i8) -> (r: i8) ensures i8::MIN <= x - y <= i8::MAX ==> r == x - y, x - y > i8::MAX ==> r == i8::MAX, x - y < i8::MIN ==> r == i8::MIN;
pub assume_specification[ i8::saturating_neg ](x: i8) -> (r: i8) ensures x == i8::MIN ==> r == i8::MAX, x != i8::MIN ==> r == -x;
pub assume_specification[ i8::unsigned_abs ](x: i8) -> (r: u8) ensures r as int == (if x < 0 { -(x as int) } else { x as int });
pub assume_specification[ i8::checked_abs ](x: i8) -> (r: Option<i8>) ensures x == i8::MIN ==> r.is_none(), x != i8::MIN ==> r == Some((if x < 0 { -x } else { x as int }) as i8);
pub assume_specification[ i16::div_euclid ](x: i16, y: i16) -> (r: i16) requires y != 0, !(x == i16::MIN && y == -1), ensures y > 0 ==> r as int == (x as int) / (y as int);
pub assume_specification[ i16::rem_euclid ](x: i16, y: i16) -> (r: i16) requires y != 0, !(x == i16::MIN && y == -1), ensures y > 0 ==> r as int == (x as int) % (y as int), y < 0 ==> r as int == (x as int) % (-(y as int));
pub assume_specification[ i16::abs ](x: i16) -> (r: i16) requires x != i16::MIN, ensures r as int == (if x < 0 { -(x as int) } else { x as int });
pub assume_specification[ i16::signum ](x: i16) -> (r: i16) ensures r == (if x > 0 { 1int } else if x < 0 { -1int } else { 0int });
pub assume_specification[ i16::is_positive ](x: i16) -> (r: bool) ensures r == (x > 0);
pub assume_specification[ i16::is_negative ](x: i16) -> (r: bool) ensures r == (x < 0);
pub assume_specification[ i16::checked_neg ](x: i16) -> (r: Option<i16>) ensures x == i16::MIN ==> r.is_none(), x != i16::MIN ==> r == Some((-x) as i16);
pub assume_specification[ i16::saturating_add ](x: i16, y: i16) -> (r: i16) ensures i16::MIN <= x + y <= i16::MAX ==> r == x + y, x + y > i16::MAX ==> r == i16::MAX, x + y < i16::MIN ==> r == i16::MIN;
pub assume_specification[ i16::saturating_sub ](x: i16, y: i16) -> (r: i16) ensures i16::MIN <= x - y <= i16::MAX ==> r == x - y, x - y > i16::MAX ==> r == i16::MAX, x - y < i16::MIN ==> r == i16::MIN;
pub assume_specification[ i16::saturating_neg ](x: i16) -> (r: i16) ensures x == i16::MIN ==> r == i16::MAX, x != i16::MIN ==> r == -x;
pub assume_specification[ i16::unsigned_abs ](x: i16) -> (r: u16) ensures r as int == (if x < 0 { -(x as int) } else { x as int });
pub assume_specification[ i16::checked_abs ](x: i16) -> (r: Option<i16>) ensures x == i16::MIN ==> r.is_none(), x != i16::MIN ==> r == Some((if x < 0 { -x } else { x as int }) as i16);
pub assume_specification[ i32::div_euclid ](x: i32, y: i32) -> (r: i32) requires y != 0, !(x == i32::MIN && y == -1), ensures y > 0 ==> r as int == (x as int) / (y as int);
pub assume_specification[ i32::rem_euclid ](x: i32, y: i32) -> (r: i32) requires y != 0, !(x == i32::MIN && y == -1), ensures y > 0 ==> r as int == (x as int) % (y as int), y < 0 ==> r as int == (x as int) % (-(y as int));
pub assume_specification[ i32::abs ](x: i32) -> (r: i32) requires x != i32::MIN, ensures r as int == (if x < 0 { -(x as int) } else { x as int });
pub assume_specification[ i32::signum ](x: i32) -> (r: i32) ensures r == (if x > 0 { 1int } else if x < 0 { -1int } else { 0int });
pub assume_specification[ i32::is_positive ](x: i32) -> (r: bool) ensures r == (x > 0);
pub assume_specification[ i32::is_negative ](x: i32) -> (r: bool) ensures r == (x < 0);
pub assume_specification[ i32::checked_neg ](x: i32) -> (r: Option<i32>) ensures x == i32::MIN ==> r.is_none(), x != i32::MIN ==> r == Some((-x) as i32);
pub assume_specification[ i32::saturating_add ](x: i32, y: i32) -> (r: i32) ensures i32::MIN <= x + y <= i32::MAX ==> r == x + y, x + y > i32::MAX ==> r == i32::MAX, x + y < i32::MIN ==> r == i32::MIN;
pub assume_specification[ i32::saturating_sub ](x: i32, y: i32) -> (r: i32) ensures i32::MIN <= x - y <= i32::MAX ==> r == x - y, x - y > i32::MAX ==> r == i32::MAX, x - y < i32::MIN ==> r == i32::MIN;
pub assume_specification[ i32::saturating_neg ](x: i32) -> (r: i32) ensures x == i32::MIN ==> r == i32::MAX, x != i32::MIN ==> r == -x;
pub assume_specification[ i32::unsigned_abs ](x: i32) -> (r: u32) ensures r as int == (if x < 0 { -(x as int) } else { x as int });
pub assume_specification[ i32::checked_abs ](x: i32) -> (r: Option<i32>) ensures x == i32::MIN ==> r.is_none(), x != i32::MIN ==> r == Some((if x < 0 { -x } else { x as int }) as i32);
pub assume_specification[ i64::div_euclid ](x: i64, y: i64) -> (r: i64) requires y != 0, !(x == i64::MIN && y == -1), ensures y > 0 ==> r as int == (x as int) / (y as int);
pub assume_specification[ i64::rem_euclid ](x: i64, y: i64) -> (r: i64) requires y != 0, !(x == i64::MIN && y == -1), ensures y > 0 ==> r as int == (x as int) % (y as int), y < 0 ==> r as int == (x as int) % (-(y as int));
pub assume_specification[ i64::abs ](x: i64) -> (r: i64) requires x != i64::MIN, ensures r as int == (if x < 0 { -(x as int) } else { x as int });
pub assume_specification[ i64::signum ](x: i64) -> (r: i64) ensures r == (if x > 0 { 1int } else if x < 0 { -1int } else { 0int });
pub assume_specification[ i64::is_positive ](x: i64) -> (r: bool) ensures r == (x > 0);
pub assume_specification[ i64::is_negative ](x: i64) -> (r: bool) ensures r == (x < 0);
pub assume_specification[ i64::checked_neg ](x: i64) -> (r: Option<i64>) ensures x == i64::MIN ==> r.is_none(), x != i64::MIN ==> r == Some((-x) as i64);
pub assume_specification[ i64::saturating_add ](x: i64, y: i64) -> (r: i64) ensures i64::MIN <= x + y <= i64::MAX ==> r == x + y, x + y > i64::MAX ==> r == i64::MAX, x + y < i64::MIN ==> r == i64::MIN;
pub assume_specification[ i64::saturating_sub ](x: i64, y: i64) -> (r: i64) ensures i64::MIN <= x - y <= i64::MAX ==> r == x - y, x - y > i64::MAX ==> r == i64::MAX, x - y < i64::MIN ==> r == i64::MIN;
pub assume_specification[ i64::saturating_neg ](x: i64) -> (r: i64) ensures x == i64::MIN ==> r == i64::MAX, x != i64::MIN ==> r == -x;
pub assume_specification[ i64::unsigned_abs ](x: i64) -> (r: u64) ensures r as int == (if x < 0 { -(x as int) } else { x as int });
pub assume_specification[ i64::checked_abs ](x: i64) -> (r: Option<i64>) ensures x == i64::MIN ==> r.is_none(), x != i64::MIN ==> r == Some((if x < 0 { -x } else { x as int }) as i64);
pub assume_specification[ i128::div_euclid ](x: i128, y: i128) -> (r: i128) requires y != 0, !(x == i128::MIN && y == -1), ensures y > 0 ==> r as int == (x as int) / (y as int);
pub assume_specification[ i128::rem_euclid ](x: i128, y: i128) -> (r: i128) requires y != 0, !(x == i128::MIN && y == -1), ensures y > 0 ==> r as int == (x as int) % (y as int), y < 0 ==> r as int == (x as int) % (-(y as int));
pub assume_specification[ i128::abs ](x: i128) -> (r: i128) requires x != i128::MIN, ensures r as int == (if x < 0 { -(x as int) } else { x as int });
pub assume_specification[ i128::signum ](x: i128) -> (r: i128) ensures r == (if x > 0 { 1int } else if x < 0 { -1int } else { 0int });
pub assume_specification[ i128::is_positive ](x: i128) -> (r: bool) ensures r == (x > 0);
pub assume_specification[ i128::is_negative ](x: i128) -> (r: bool) ensures r == (x < 0);
pub assume_specification[ i128::checked_neg ](x: i128) -> (r: Option<i128>) ensures x == i128::MIN ==> r.is_none(), x != i128::MIN ==> r == Some((-x) as i128);
pub assume_specification[ i128::saturating_add ](x: i128, y: i128) -> (r: i128) ensures i128::MIN <= x + y <= i128::MAX ==> r == x + y, x + y > i128::MAX ==> r == i128::MAX, x + y < i128::MIN ==> r == i128::MIN;
pub assume_specification[ i128::saturating_sub ](x: i128, y: i128) -> (r: i128) ensures i128::MIN <= x - y <= i128::MAX ==> r == x - y, x - y > i128::MAX ==> r == i128::MAX, x - y < i128::MIN ==> r == i128::MIN;
pub assume_specification[ i128::saturating_neg ](x: i128) -> (r: i128) ensures x == i128::MIN ==> r == i128::MAX, x != i128::MIN ==> r == -x;
pub assume_specification[ i128::unsigned_abs ](x: i128) -> (r: u128) ensures r as int == (if x < 0 { -(x as int) } else { x as int });
pub assume_specification[ i128::checked_abs ](x: i128) -> (r: Option<i128>) ensures x == i128::MIN ==> r.is_none(), x != i128::MIN ==> r == Some((if x < 0 { -x } else { x as int }) as i128);

// ---- include lib/rangeint.vrs ----
// GENERATED by lib/gen_rangeint.py -- the rangeint model (T2).  Do not edit by hand.
use vstd::std_specs::cmp::*;
use vstd::std_specs::ops::*;
use core::cmp::Ordering;

#[derive(Clone, Copy)]
pub struct Constant(pub i64);
#[allow(non_snake_case)]
pub fn C(v: i64) -> (r: ri64) ensures r.val == v { ri64 { val: v } }
#[allow(non_snake_case)]
pub fn C128(v: i64) -> (r: ri128) ensures r.val == v { ri128 { val: v as i128 } }
impl Constant {
    pub fn value(self) -> (r: i64) ensures r == self.0 { self.0 }
    pub fn bound(self) -> (r: i128) ensures r == self.0 { self.0 as i128 }
}
pub open spec fn int_cmp(a: int, b: int) -> Ordering { if a < b { Ordering::Less } else if a > b { Ordering::Greater } else { Ordering::Equal } }
/// truncating division / remainder (Rust `/`, `%` on primitives), b != 0
pub open spec fn tdiv(a: int, b: int) -> int {
    if b > 0 { if a >= 0 { a / b } else { -((-a) / b) } } else { if a >= 0 { -(a / (-b)) } else { (-a) / (-b) } }
}
pub open spec fn trem(a: int, b: int) -> int { a - tdiv(a, b) * b }

pub trait RInto<T>: Sized {
    spec fn rinto_spec(self) -> T;
    spec fn rinto_req(self) -> bool;
    fn rinto(self) -> (r: T) requires self.rinto_req() ensures r == self.rinto_spec();
}
pub trait RFrom<T>: Sized {
    spec fn rfrom_spec(t: T) -> Self;
    spec fn rfrom_req(t: T) -> bool;
    fn rfrom(t: T) -> (r: Self) requires Self::rfrom_req(t) ensures r == Self::rfrom_spec(t);
}


// ------------------------------------------------------------------ ri8
#[derive(Clone, Copy)]
pub struct ri8 { pub val: i8 }
impl ri8 {
    pub fn new_unchecked(val: i8) -> (r: Self) ensures r.val == val { ri8 { val } }
    pub fn get(self) -> (r: i8) ensures r == self.val { self.val }
    pub fn get_unchecked(self) -> (r: i8) ensures r == self.val { self.val }
    pub fn without_bounds(self) -> (r: Self) ensures r == self { self }
    // `T::N::<VAL>()` is rewritten to `T::verif_N(VAL)`: the constant VAL (release: `Self { val: VAL }`, no bound is consulted).
    // (Not modelled with a const generic: Verus 0.2026.09.13 derives `false` from a negative const generic argument.)
    pub const fn verif_N(v: i8) -> (r: Self) ensures r.val == v { ri8 { val: v } }
    #[verifier::external_body]
    pub fn abs(self) -> (r: Self)
        requires self.val > i8::MIN,
        ensures r.val == (if self.val < 0 { -self.val } else { self.val as int })
    { unimplemented!() }
    // real: returns `riN<-1, 1>` of the SAME width
    pub fn signum(self) -> (r: Self) ensures r.val == (if self.val < 0 { -1int } else if self.val > 0 { 1int } else { 0int })
    { if self.val < 0 { ri8 { val: -1 } } else if self.val > 0 { ri8 { val: 1 } } else { ri8 { val: 0 } } }
    pub fn min<R: RInto<Self>>(self, other: R) -> (r: Self)
        requires other.rinto_req(),
        ensures r.val == (if other.rinto_spec().val < self.val { other.rinto_spec().val } else { self.val })
    { let o = other.rinto(); if o.val < self.val { o } else { self } }
    pub fn max<R: RInto<Self>>(self, other: R) -> (r: Self)
        requires other.rinto_req(),
        ensures r.val == (if other.rinto_spec().val > self.val { other.rinto_spec().val } else { self.val })
    { let o = other.rinto(); if o.val > self.val { o } else { self } }
    // truncating
    #[verifier::external_body]
    pub fn div_ceil<R: RInto<Self>>(self, rhs: R) -> (r: Self)
        requires rhs.rinto_req(), rhs.rinto_spec().val != 0, !(self.val == i8::MIN && rhs.rinto_spec().val == -1),
        ensures r.val == tdiv(self.val as int, rhs.rinto_spec().val as int)
    { unimplemented!() }
    #[verifier::external_body]
    pub fn rem_ceil<R: RInto<Self>>(self, rhs: R) -> (r: Self)
        requires rhs.rinto_req(), rhs.rinto_spec().val != 0, !(self.val == i8::MIN && rhs.rinto_spec().val == -1),
        ensures r.val == trem(self.val as int, rhs.rinto_spec().val as int)
    { unimplemented!() }
    // Euclidean (divisor > 0 required here; every use in jiff divides by a positive quantity)
    #[verifier::external_body]
    pub fn div_floor<R: RInto<Self>>(self, rhs: R) -> (r: Self)
        requires rhs.rinto_req(), rhs.rinto_spec().val > 0,
        ensures r.val == (self.val as int) / (rhs.rinto_spec().val as int)
    { unimplemented!() }
    #[verifier::external_body]
    pub fn rem_floor<R: RInto<Self>>(self, rhs: R) -> (r: Self)
        requires rhs.rinto_req(), rhs.rinto_spec().val > 0,
        ensures r.val == (self.val as int) % (rhs.rinto_spec().val as int)
    { unimplemented!() }
    #[verifier::external_body]
    pub fn saturating_mul<R: RInto<Self>>(self, rhs: R) -> (r: Self)
        requires rhs.rinto_req(),
        ensures i8::MIN <= self.val * rhs.rinto_spec().val <= i8::MAX ==> r.val == self.val * rhs.rinto_spec().val,
                self.val * rhs.rinto_spec().val > i8::MAX ==> r.val == i8::MAX,
                self.val * rhs.rinto_spec().val < i8::MIN ==> r.val == i8::MIN,
    { unimplemented!() }
    #[verifier::external_body]
    pub fn saturating_add<R: RInto<Self>>(self, rhs: R) -> (r: Self)
        requires rhs.rinto_req(),
        ensures i8::MIN <= self.val + rhs.rinto_spec().val <= i8::MAX ==> r.val == self.val + rhs.rinto_spec().val,
                self.val + rhs.rinto_spec().val > i8::MAX ==> r.val == i8::MAX,
                self.val + rhs.rinto_spec().val < i8::MIN ==> r.val == i8::MIN,
    { unimplemented!() }
}
// `type Range = ri8<{ LO }, { HI }>; Range::try_new("what", v)`: the bounds of an anonymous range are passed explicitly
#[verifier::external_body]
pub fn verif_try_new_range_8(lo: i128, hi: i128, v: i64) -> (res: Result<ri8, Error>)
    requires i8::MIN <= lo, hi <= i8::MAX,
    ensures res.is_ok() <==> lo <= v <= hi, res.is_ok() ==> res.unwrap().val == v
{ unimplemented!() }
impl RInto<ri8> for ri8 {
    open spec fn rinto_spec(self) -> ri8 { self }
    open spec fn rinto_req(self) -> bool { true }
    fn rinto(self) -> (r: ri8) { self }
}
impl RFrom<ri8> for ri8 {
    open spec fn rfrom_spec(t: ri8) -> ri8 { t }
    open spec fn rfrom_req(t: ri8) -> bool { true }
    fn rfrom(t: ri8) -> (r: ri8) { t }
}
impl RInto<ri8> for Constant {
    open spec fn rinto_spec(self) -> ri8 { ri8 { val: self.0 as i8 } }
    open spec fn rinto_req(self) -> bool { i8::MIN <= self.0 <= i8::MAX }
    #[verifier::external_body]
    fn rinto(self) -> (r: ri8) { unimplemented!() }
}
impl RFrom<Constant> for ri8 {
    open spec fn rfrom_spec(t: Constant) -> ri8 { ri8 { val: t.0 as i8 } }
    open spec fn rfrom_req(t: Constant) -> bool { i8::MIN <= t.0 <= i8::MAX }
    #[verifier::external_body]
    fn rfrom(t: Constant) -> (r: ri8) { unimplemented!() }
}
impl RInto<i8> for ri8 {
    open spec fn rinto_spec(self) -> i8 { self.val }
    open spec fn rinto_req(self) -> bool { true }
    fn rinto(self) -> (r: i8) { self.val }
}

impl PartialEqSpecImpl<ri8> for ri8 {
    open spec fn obeys_eq_spec() -> bool { true }
    open spec fn eq_spec(&self, other: &ri8) -> bool { self.val == other.val }
}
impl PartialEq<ri8> for ri8 {
    #[verifier::external_body]
    fn eq(&self, other: &ri8) -> bool { unimplemented!() }
}
impl PartialOrdSpecImpl<ri8> for ri8 {
    open spec fn obeys_partial_cmp_spec() -> bool { true }
    open spec fn partial_cmp_spec(&self, other: &ri8) -> Option<Ordering> { Some(int_cmp(self.val as int, other.val as int)) }
}
impl PartialOrd<ri8> for ri8 {
    #[verifier::external_body]
    fn partial_cmp(&self, other: &ri8) -> Option<Ordering> { unimplemented!() }
}

impl PartialEqSpecImpl<Constant> for ri8 {
    open spec fn obeys_eq_spec() -> bool { true }
    open spec fn eq_spec(&self, other: &Constant) -> bool { self.val == other.0 }
}
impl PartialEq<Constant> for ri8 {
    #[verifier::external_body]
    fn eq(&self, other: &Constant) -> bool { unimplemented!() }
}
impl PartialOrdSpecImpl<Constant> for ri8 {
    open spec fn obeys_partial_cmp_spec() -> bool { true }
    open spec fn partial_cmp_spec(&self, other: &Constant) -> Option<Ordering> { Some(int_cmp(self.val as int, other.0 as int)) }
}
impl PartialOrd<Constant> for ri8 {
    #[verifier::external_body]
    fn partial_cmp(&self, other: &Constant) -> Option<Ordering> { unimplemented!() }
}

impl PartialEqSpecImpl<ri16> for ri8 {
    open spec fn obeys_eq_spec() -> bool { true }
    open spec fn eq_spec(&self, other: &ri16) -> bool { self.val == other.val }
}
impl PartialEq<ri16> for ri8 {
    #[verifier::external_body]
    fn eq(&self, other: &ri16) -> bool { unimplemented!() }
}
impl PartialOrdSpecImpl<ri16> for ri8 {
    open spec fn obeys_partial_cmp_spec() -> bool { true }
    open spec fn partial_cmp_spec(&self, other: &ri16) -> Option<Ordering> { Some(int_cmp(self.val as int, other.val as int)) }
}
impl PartialOrd<ri16> for ri8 {
    #[verifier::external_body]
    fn partial_cmp(&self, other: &ri16) -> Option<Ordering> { unimplemented!() }
}

impl PartialEqSpecImpl<ri32> for ri8 {
    open spec fn obeys_eq_spec() -> bool { true }
    open spec fn eq_spec(&self, other: &ri32) -> bool { self.val == other.val }
}
impl PartialEq<ri32> for ri8 {
    #[verifier::external_body]
    fn eq(&self, other: &ri32) -> bool { unimplemented!() }
}
impl PartialOrdSpecImpl<ri32> for ri8 {
    open spec fn obeys_partial_cmp_spec() -> bool { true }
    open spec fn partial_cmp_spec(&self, other: &ri32) -> Option<Ordering> { Some(int_cmp(self.val as int, other.val as int)) }
}
impl PartialOrd<ri32> for ri8 {
    #[verifier::external_body]
    fn partial_cmp(&self, other: &ri32) -> Option<Ordering> { unimplemented!() }
}

impl PartialEqSpecImpl<ri64> for ri8 {
    open spec fn obeys_eq_spec() -> bool { true }
    open spec fn eq_spec(&self, other: &ri64) -> bool { self.val == other.val }
}
impl PartialEq<ri64> for ri8 {
    #[verifier::external_body]
    fn eq(&self, other: &ri64) -> bool { unimplemented!() }
}
impl PartialOrdSpecImpl<ri64> for ri8 {
    open spec fn obeys_partial_cmp_spec() -> bool { true }
    open spec fn partial_cmp_spec(&self, other: &ri64) -> Option<Ordering> { Some(int_cmp(self.val as int, other.val as int)) }
}
impl PartialOrd<ri64> for ri8 {
    #[verifier::external_body]
    fn partial_cmp(&self, other: &ri64) -> Option<Ordering> { unimplemented!() }
}

impl PartialEqSpecImpl<ri128> for ri8 {
    open spec fn obeys_eq_spec() -> bool { true }
    open spec fn eq_spec(&self, other: &ri128) -> bool { self.val == other.val }
}
impl PartialEq<ri128> for ri8 {
    #[verifier::external_body]
    fn eq(&self, other: &ri128) -> bool { unimplemented!() }
}
impl PartialOrdSpecImpl<ri128> for ri8 {
    open spec fn obeys_partial_cmp_spec() -> bool { true }
    open spec fn partial_cmp_spec(&self, other: &ri128) -> Option<Ordering> { Some(int_cmp(self.val as int, other.val as int)) }
}
impl PartialOrd<ri128> for ri8 {
    #[verifier::external_body]
    fn partial_cmp(&self, other: &ri128) -> Option<Ordering> { unimplemented!() }
}

impl AddSpecImpl<ri8> for ri8 {
    open spec fn obeys_add_spec() -> bool { true }
    open spec fn add_req(self, rhs: ri8) -> bool { i8::MIN <= self.val + rhs.val <= i8::MAX }
    open spec fn add_spec(self, rhs: ri8) -> ri8 { ri8 { val: (self.val + rhs.val) as i8 } }
}
impl core::ops::Add<ri8> for ri8 {
    type Output = ri8;
    #[verifier::external_body]
    fn add(self, rhs: ri8) -> ri8 { unimplemented!() }
}
impl AddAssignSpecImpl<ri8> for ri8 {
    open spec fn obeys_add_assign_spec() -> bool { true }
    open spec fn add_assign_req(&self, rhs: ri8) -> bool { i8::MIN <= self.val + rhs.val <= i8::MAX }
    open spec fn add_assign_spec(&self, rhs: ri8) -> &ri8 { &ri8 { val: (self.val + rhs.val) as i8 } }
}
impl core::ops::AddAssign<ri8> for ri8 {
    #[verifier::external_body]
    fn add_assign(&mut self, rhs: ri8) { unimplemented!() }
}

impl SubSpecImpl<ri8> for ri8 {
    open spec fn obeys_sub_spec() -> bool { true }
    open spec fn sub_req(self, rhs: ri8) -> bool { i8::MIN <= self.val - rhs.val <= i8::MAX }
    open spec fn sub_spec(self, rhs: ri8) -> ri8 { ri8 { val: (self.val - rhs.val) as i8 } }
}
impl core::ops::Sub<ri8> for ri8 {
    type Output = ri8;
    #[verifier::external_body]
    fn sub(self, rhs: ri8) -> ri8 { unimplemented!() }
}
impl SubAssignSpecImpl<ri8> for ri8 {
    open spec fn obeys_sub_assign_spec() -> bool { true }
    open spec fn sub_assign_req(&self, rhs: ri8) -> bool { i8::MIN <= self.val - rhs.val <= i8::MAX }
    open spec fn sub_assign_spec(&self, rhs: ri8) -> &ri8 { &ri8 { val: (self.val - rhs.val) as i8 } }
}
impl core::ops::SubAssign<ri8> for ri8 {
    #[verifier::external_body]
    fn sub_assign(&mut self, rhs: ri8) { unimplemented!() }
}

impl MulSpecImpl<ri8> for ri8 {
    open spec fn obeys_mul_spec() -> bool { true }
    open spec fn mul_req(self, rhs: ri8) -> bool { i8::MIN <= self.val * rhs.val <= i8::MAX }
    open spec fn mul_spec(self, rhs: ri8) -> ri8 { ri8 { val: (self.val * rhs.val) as i8 } }
}
impl core::ops::Mul<ri8> for ri8 {
    type Output = ri8;
    #[verifier::external_body]
    fn mul(self, rhs: ri8) -> ri8 { unimplemented!() }
}
impl MulAssignSpecImpl<ri8> for ri8 {
    open spec fn obeys_mul_assign_spec() -> bool { true }
    open spec fn mul_assign_req(&self, rhs: ri8) -> bool { i8::MIN <= self.val * rhs.val <= i8::MAX }
    open spec fn mul_assign_spec(&self, rhs: ri8) -> &ri8 { &ri8 { val: (self.val * rhs.val) as i8 } }
}
impl core::ops::MulAssign<ri8> for ri8 {
    #[verifier::external_body]
    fn mul_assign(&mut self, rhs: ri8) { unimplemented!() }
}

impl DivSpecImpl<ri8> for ri8 {
    open spec fn obeys_div_spec() -> bool { true }
    open spec fn div_req(self, rhs: ri8) -> bool { rhs.val > 0 }
    open spec fn div_spec(self, rhs: ri8) -> ri8 { ri8 { val: (self.val as int / rhs.val as int) as i8 } }
}
impl core::ops::Div<ri8> for ri8 {
    type Output = ri8;
    #[verifier::external_body]
    fn div(self, rhs: ri8) -> ri8 { unimplemented!() }
}
impl RemSpecImpl<ri8> for ri8 {
    open spec fn obeys_rem_spec() -> bool { true }
    open spec fn rem_req(self, rhs: ri8) -> bool { rhs.val > 0 }
    open spec fn rem_spec(self, rhs: ri8) -> ri8 { ri8 { val: (self.val as int % rhs.val as int) as i8 } }
}
impl core::ops::Rem<ri8> for ri8 {
    type Output = ri8;
    #[verifier::external_body]
    fn rem(self, rhs: ri8) -> ri8 { unimplemented!() }
}

impl AddSpecImpl<Constant> for ri8 {
    open spec fn obeys_add_spec() -> bool { true }
    open spec fn add_req(self, rhs: Constant) -> bool { i8::MIN <= self.val + rhs.0 <= i8::MAX }
    open spec fn add_spec(self, rhs: Constant) -> ri8 { ri8 { val: (self.val + rhs.0) as i8 } }
}
impl core::ops::Add<Constant> for ri8 {
    type Output = ri8;
    #[verifier::external_body]
    fn add(self, rhs: Constant) -> ri8 { unimplemented!() }
}
impl AddAssignSpecImpl<Constant> for ri8 {
    open spec fn obeys_add_assign_spec() -> bool { true }
    open spec fn add_assign_req(&self, rhs: Constant) -> bool { i8::MIN <= self.val + rhs.0 <= i8::MAX }
    open spec fn add_assign_spec(&self, rhs: Constant) -> &ri8 { &ri8 { val: (self.val + rhs.0) as i8 } }
}
impl core::ops::AddAssign<Constant> for ri8 {
    #[verifier::external_body]
    fn add_assign(&mut self, rhs: Constant) { unimplemented!() }
}

impl SubSpecImpl<Constant> for ri8 {
    open spec fn obeys_sub_spec() -> bool { true }
    open spec fn sub_req(self, rhs: Constant) -> bool { i8::MIN <= self.val - rhs.0 <= i8::MAX }
    open spec fn sub_spec(self, rhs: Constant) -> ri8 { ri8 { val: (self.val - rhs.0) as i8 } }
}
impl core::ops::Sub<Constant> for ri8 {
    type Output = ri8;
    #[verifier::external_body]
    fn sub(self, rhs: Constant) -> ri8 { unimplemented!() }
}
impl SubAssignSpecImpl<Constant> for ri8 {
    open spec fn obeys_sub_assign_spec() -> bool { true }
    open spec fn sub_assign_req(&self, rhs: Constant) -> bool { i8::MIN <= self.val - rhs.0 <= i8::MAX }
    open spec fn sub_assign_spec(&self, rhs: Constant) -> &ri8 { &ri8 { val: (self.val - rhs.0) as i8 } }
}
impl core::ops::SubAssign<Constant> for ri8 {
    #[verifier::external_body]
    fn sub_assign(&mut self, rhs: Constant) { unimplemented!() }
}

impl MulSpecImpl<Constant> for ri8 {
    open spec fn obeys_mul_spec() -> bool { true }
    open spec fn mul_req(self, rhs: Constant) -> bool { i8::MIN <= self.val * rhs.0 <= i8::MAX }
    open spec fn mul_spec(self, rhs: Constant) -> ri8 { ri8 { val: (self.val * rhs.0) as i8 } }
}
impl core::ops::Mul<Constant> for ri8 {
    type Output = ri8;
    #[verifier::external_body]
    fn mul(self, rhs: Constant) -> ri8 { unimplemented!() }
}
impl MulAssignSpecImpl<Constant> for ri8 {
    open spec fn obeys_mul_assign_spec() -> bool { true }
    open spec fn mul_assign_req(&self, rhs: Constant) -> bool { i8::MIN <= self.val * rhs.0 <= i8::MAX }
    open spec fn mul_assign_spec(&self, rhs: Constant) -> &ri8 { &ri8 { val: (self.val * rhs.0) as i8 } }
}
impl core::ops::MulAssign<Constant> for ri8 {
    #[verifier::external_body]
    fn mul_assign(&mut self, rhs: Constant) { unimplemented!() }
}

impl DivSpecImpl<Constant> for ri8 {
    open spec fn obeys_div_spec() -> bool { true }
    open spec fn div_req(self, rhs: Constant) -> bool { rhs.0 > 0 }
    open spec fn div_spec(self, rhs: Constant) -> ri8 { ri8 { val: (self.val as int / rhs.0 as int) as i8 } }
}
impl core::ops::Div<Constant> for ri8 {
    type Output = ri8;
    #[verifier::external_body]
    fn div(self, rhs: Constant) -> ri8 { unimplemented!() }
}
impl RemSpecImpl<Constant> for ri8 {
    open spec fn obeys_rem_spec() -> bool { true }
    open spec fn rem_req(self, rhs: Constant) -> bool { rhs.0 > 0 }
    open spec fn rem_spec(self, rhs: Constant) -> ri8 { ri8 { val: (self.val as int % rhs.0 as int) as i8 } }
}
impl core::ops::Rem<Constant> for ri8 {
    type Output = ri8;
    #[verifier::external_body]
    fn rem(self, rhs: Constant) -> ri8 { unimplemented!() }
}

impl AddSpecImpl<ri16> for ri8 {
    open spec fn obeys_add_spec() -> bool { true }
    open spec fn add_req(self, rhs: ri16) -> bool { i8::MIN <= self.val + rhs.val <= i8::MAX }
    open spec fn add_spec(self, rhs: ri16) -> ri8 { ri8 { val: (self.val + rhs.val) as i8 } }
}
impl core::ops::Add<ri16> for ri8 {
    type Output = ri8;
    #[verifier::external_body]
    fn add(self, rhs: ri16) -> ri8 { unimplemented!() }
}
impl AddAssignSpecImpl<ri16> for ri8 {
    open spec fn obeys_add_assign_spec() -> bool { true }
    open spec fn add_assign_req(&self, rhs: ri16) -> bool { i8::MIN <= self.val + rhs.val <= i8::MAX }
    open spec fn add_assign_spec(&self, rhs: ri16) -> &ri8 { &ri8 { val: (self.val + rhs.val) as i8 } }
}
impl core::ops::AddAssign<ri16> for ri8 {
    #[verifier::external_body]
    fn add_assign(&mut self, rhs: ri16) { unimplemented!() }
}

impl SubSpecImpl<ri16> for ri8 {
    open spec fn obeys_sub_spec() -> bool { true }
    open spec fn sub_req(self, rhs: ri16) -> bool { i8::MIN <= self.val - rhs.val <= i8::MAX }
    open spec fn sub_spec(self, rhs: ri16) -> ri8 { ri8 { val: (self.val - rhs.val) as i8 } }
}
impl core::ops::Sub<ri16> for ri8 {
    type Output = ri8;
    #[verifier::external_body]
    fn sub(self, rhs: ri16) -> ri8 { unimplemented!() }
}
impl SubAssignSpecImpl<ri16> for ri8 {
    open spec fn obeys_sub_assign_spec() -> bool { true }
    open spec fn sub_assign_req(&self, rhs: ri16) -> bool { i8::MIN <= self.val - rhs.val <= i8::MAX }
    open spec fn sub_assign_spec(&self, rhs: ri16) -> &ri8 { &ri8 { val: (self.val - rhs.val) as i8 } }
}
impl core::ops::SubAssign<ri16> for ri8 {
    #[verifier::external_body]
    fn sub_assign(&mut self, rhs: ri16) { unimplemented!() }
}

impl MulSpecImpl<ri16> for ri8 {
    open spec fn obeys_mul_spec() -> bool { true }
    open spec fn mul_req(self, rhs: ri16) -> bool { i8::MIN <= self.val * rhs.val <= i8::MAX }
    open spec fn mul_spec(self, rhs: ri16) -> ri8 { ri8 { val: (self.val * rhs.val) as i8 } }
}
impl core::ops::Mul<ri16> for ri8 {
    type Output = ri8;
    #[verifier::external_body]
    fn mul(self, rhs: ri16) -> ri8 { unimplemented!() }
}
impl MulAssignSpecImpl<ri16> for ri8 {
    open spec fn obeys_mul_assign_spec() -> bool { true }
    open spec fn mul_assign_req(&self, rhs: ri16) -> bool { i8::MIN <= self.val * rhs.val <= i8::MAX }
    open spec fn mul_assign_spec(&self, rhs: ri16) -> &ri8 { &ri8 { val: (self.val * rhs.val) as i8 } }
}
impl core::ops::MulAssign<ri16> for ri8 {
    #[verifier::external_body]
    fn mul_assign(&mut self, rhs: ri16) { unimplemented!() }
}

impl DivSpecImpl<ri16> for ri8 {
    open spec fn obeys_div_spec() -> bool { true }
    open spec fn div_req(self, rhs: ri16) -> bool { rhs.val > 0 }
    open spec fn div_spec(self, rhs: ri16) -> ri8 { ri8 { val: (self.val as int / rhs.val as int) as i8 } }
}
impl core::ops::Div<ri16> for ri8 {
    type Output = ri8;
    #[verifier::external_body]
    fn div(self, rhs: ri16) -> ri8 { unimplemented!() }
}
impl RemSpecImpl<ri16> for ri8 {
    open spec fn obeys_rem_spec() -> bool { true }
    open spec fn rem_req(self, rhs: ri16) -> bool { rhs.val > 0 }
    open spec fn rem_spec(self, rhs: ri16) -> ri8 { ri8 { val: (self.val as int % rhs.val as int) as i8 } }
}
impl core::ops::Rem<ri16> for ri8 {
    type Output = ri8;
    #[verifier::external_body]
    fn rem(self, rhs: ri16) -> ri8 { unimplemented!() }
}

impl AddSpecImpl<ri32> for ri8 {
    open spec fn obeys_add_spec() -> bool { true }
    open spec fn add_req(self, rhs: ri32) -> bool { i8::MIN <= self.val + rhs.val <= i8::MAX }
    open spec fn add_spec(self, rhs: ri32) -> ri8 { ri8 { val: (self.val + rhs.val) as i8 } }
}
impl core::ops::Add<ri32> for ri8 {
    type Output = ri8;
    #[verifier::external_body]
    fn add(self, rhs: ri32) -> ri8 { unimplemented!() }
}
impl AddAssignSpecImpl<ri32> for ri8 {
    open spec fn obeys_add_assign_spec() -> bool { true }
    open spec fn add_assign_req(&self, rhs: ri32) -> bool { i8::MIN <= self.val + rhs.val <= i8::MAX }
    open spec fn add_assign_spec(&self, rhs: ri32) -> &ri8 { &ri8 { val: (self.val + rhs.val) as i8 } }
}
impl core::ops::AddAssign<ri32> for ri8 {
    #[verifier::external_body]
    fn add_assign(&mut self, rhs: ri32) { unimplemented!() }
}

impl SubSpecImpl<ri32> for ri8 {
    open spec fn obeys_sub_spec() -> bool { true }
    open spec fn sub_req(self, rhs: ri32) -> bool { i8::MIN <= self.val - rhs.val <= i8::MAX }
    open spec fn sub_spec(self, rhs: ri32) -> ri8 { ri8 { val: (self.val - rhs.val) as i8 } }
}
impl core::ops::Sub<ri32> for ri8 {
    type Output = ri8;
    #[verifier::external_body]
    fn sub(self, rhs: ri32) -> ri8 { unimplemented!() }
}
impl SubAssignSpecImpl<ri32> for ri8 {
    open spec fn obeys_sub_assign_spec() -> bool { true }
    open spec fn sub_assign_req(&self, rhs: ri32) -> bool { i8::MIN <= self.val - rhs.val <= i8::MAX }
    open spec fn sub_assign_spec(&self, rhs: ri32) -> &ri8 { &ri8 { val: (self.val - rhs.val) as i8 } }
}
impl core::ops::SubAssign<ri32> for ri8 {
    #[verifier::external_body]
    fn sub_assign(&mut self, rhs: ri32) { unimplemented!() }
}

impl MulSpecImpl<ri32> for ri8 {
    open spec fn obeys_mul_spec() -> bool { true }
    open spec fn mul_req(self, rhs: ri32) -> bool { i8::MIN <= self.val * rhs.val <= i8::MAX }
    open spec fn mul_spec(self, rhs: ri32) -> ri8 { ri8 { val: (self.val * rhs.val) as i8 } }
}
impl core::ops::Mul<ri32> for ri8 {
    type Output = ri8;
    #[verifier::external_body]
    fn mul(self, rhs: ri32) -> ri8 { unimplemented!() }
}
impl MulAssignSpecImpl<ri32> for ri8 {
    open spec fn obeys_mul_assign_spec() -> bool { true }
    open spec fn mul_assign_req(&self, rhs: ri32) -> bool { i8::MIN <= self.val * rhs.val <= i8::MAX }
    open spec fn mul_assign_spec(&self, rhs: ri32) -> &ri8 { &ri8 { val: (self.val * rhs.val) as i8 } }
}
impl core::ops::MulAssign<ri32> for ri8 {
    #[verifier::external_body]
    fn mul_assign(&mut self, rhs: ri32) { unimplemented!() }
}

impl DivSpecImpl<ri32> for ri8 {
    open spec fn obeys_div_spec() -> bool { true }
    open spec fn div_req(self, rhs: ri32) -> bool { rhs.val > 0 }
    open spec fn div_spec(self, rhs: ri32) -> ri8 { ri8 { val: (self.val as int / rhs.val as int) as i8 } }
}
impl core::ops::Div<ri32> for ri8 {
    type Output = ri8;
    #[verifier::external_body]
    fn div(self, rhs: ri32) -> ri8 { unimplemented!() }
}
impl RemSpecImpl<ri32> for ri8 {
    open spec fn obeys_rem_spec() -> bool { true }
    open spec fn rem_req(self, rhs: ri32) -> bool { rhs.val > 0 }
    open spec fn rem_spec(self, rhs: ri32) -> ri8 { ri8 { val: (self.val as int % rhs.val as int) as i8 } }
}
impl core::ops::Rem<ri32> for ri8 {
    type Output = ri8;
    #[verifier::external_body]
    fn rem(self, rhs: ri32) -> ri8 { unimplemented!() }
}

impl AddSpecImpl<ri64> for ri8 {
    open spec fn obeys_add_spec() -> bool { true }
    open spec fn add_req(self, rhs: ri64) -> bool { i8::MIN <= self.val + rhs.val <= i8::MAX }
    open spec fn add_spec(self, rhs: ri64) -> ri8 { ri8 { val: (self.val + rhs.val) as i8 } }
}
impl core::ops::Add<ri64> for ri8 {
    type Output = ri8;
    #[verifier::external_body]
    fn add(self, rhs: ri64) -> ri8 { unimplemented!() }
}
impl AddAssignSpecImpl<ri64> for ri8 {
    open spec fn obeys_add_assign_spec() -> bool { true }
    open spec fn add_assign_req(&self, rhs: ri64) -> bool { i8::MIN <= self.val + rhs.val <= i8::MAX }
    open spec fn add_assign_spec(&self, rhs: ri64) -> &ri8 { &ri8 { val: (self.val + rhs.val) as i8 } }
}
impl core::ops::AddAssign<ri64> for ri8 {
    #[verifier::external_body]
    fn add_assign(&mut self, rhs: ri64) { unimplemented!() }
}

impl SubSpecImpl<ri64> for ri8 {
    open spec fn obeys_sub_spec() -> bool { true }
    open spec fn sub_req(self, rhs: ri64) -> bool { i8::MIN <= self.val - rhs.val <= i8::MAX }
    open spec fn sub_spec(self, rhs: ri64) -> ri8 { ri8 { val: (self.val - rhs.val) as i8 } }
}
impl core::ops::Sub<ri64> for ri8 {
    type Output = ri8;
    #[verifier::external_body]
    fn sub(self, rhs: ri64) -> ri8 { unimplemented!() }
}
impl SubAssignSpecImpl<ri64> for ri8 {
    open spec fn obeys_sub_assign_spec() -> bool { true }
    open spec fn sub_assign_req(&self, rhs: ri64) -> bool { i8::MIN <= self.val - rhs.val <= i8::MAX }
    open spec fn sub_assign_spec(&self, rhs: ri64) -> &ri8 { &ri8 { val: (self.val - rhs.val) as i8 } }
}
impl core::ops::SubAssign<ri64> for ri8 {
    #[verifier::external_body]
    fn sub_assign(&mut self, rhs: ri64) { unimplemented!() }
}

impl MulSpecImpl<ri64> for ri8 {
    open spec fn obeys_mul_spec() -> bool { true }
    open spec fn mul_req(self, rhs: ri64) -> bool { i8::MIN <= self.val * rhs.val <= i8::MAX }
    open spec fn mul_spec(self, rhs: ri64) -> ri8 { ri8 { val: (self.val * rhs.val) as i8 } }
}
impl core::ops::Mul<ri64> for ri8 {
    type Output = ri8;
    #[verifier::external_body]
    fn mul(self, rhs: ri64) -> ri8 { unimplemented!() }
}
impl MulAssignSpecImpl<ri64> for ri8 {
    open spec fn obeys_mul_assign_spec() -> bool { true }
    open spec fn mul_assign_req(&self, rhs: ri64) -> bool { i8::MIN <= self.val * rhs.val <= i8::MAX }
    open spec fn mul_assign_spec(&self, rhs: ri64) -> &ri8 { &ri8 { val: (self.val * rhs.val) as i8 } }
}
impl core::ops::MulAssign<ri64> for ri8 {
    #[verifier::external_body]
    fn mul_assign(&mut self, rhs: ri64) { unimplemented!() }
}

impl DivSpecImpl<ri64> for ri8 {
    open spec fn obeys_div_spec() -> bool { true }
    open spec fn div_req(self, rhs: ri64) -> bool { rhs.val > 0 }
    open spec fn div_spec(self, rhs: ri64) -> ri8 { ri8 { val: (self.val as int / rhs.val as int) as i8 } }
}
impl core::ops::Div<ri64> for ri8 {
    type Output = ri8;
    #[verifier::external_body]
    fn div(self, rhs: ri64) -> ri8 { unimplemented!() }
}
impl RemSpecImpl<ri64> for ri8 {
    open spec fn obeys_rem_spec() -> bool { true }
    open spec fn rem_req(self, rhs: ri64) -> bool { rhs.val > 0 }
    open spec fn rem_spec(self, rhs: ri64) -> ri8 { ri8 { val: (self.val as int % rhs.val as int) as i8 } }
}
impl core::ops::Rem<ri64> for ri8 {
    type Output = ri8;
    #[verifier::external_body]
    fn rem(self, rhs: ri64) -> ri8 { unimplemented!() }
}

impl AddSpecImpl<ri128> for ri8 {
    open spec fn obeys_add_spec() -> bool { true }
    open spec fn add_req(self, rhs: ri128) -> bool { i8::MIN <= self.val + rhs.val <= i8::MAX }
    open spec fn add_spec(self, rhs: ri128) -> ri8 { ri8 { val: (self.val + rhs.val) as i8 } }
}
impl core::ops::Add<ri128> for ri8 {
    type Output = ri8;
    #[verifier::external_body]
    fn add(self, rhs: ri128) -> ri8 { unimplemented!() }
}
impl AddAssignSpecImpl<ri128> for ri8 {
    open spec fn obeys_add_assign_spec() -> bool { true }
    open spec fn add_assign_req(&self, rhs: ri128) -> bool { i8::MIN <= self.val + rhs.val <= i8::MAX }
    open spec fn add_assign_spec(&self, rhs: ri128) -> &ri8 { &ri8 { val: (self.val + rhs.val) as i8 } }
}
impl core::ops::AddAssign<ri128> for ri8 {
    #[verifier::external_body]
    fn add_assign(&mut self, rhs: ri128) { unimplemented!() }
}

impl SubSpecImpl<ri128> for ri8 {
    open spec fn obeys_sub_spec() -> bool { true }
    open spec fn sub_req(self, rhs: ri128) -> bool { i8::MIN <= self.val - rhs.val <= i8::MAX }
    open spec fn sub_spec(self, rhs: ri128) -> ri8 { ri8 { val: (self.val - rhs.val) as i8 } }
}
impl core::ops::Sub<ri128> for ri8 {
    type Output = ri8;
    #[verifier::external_body]
    fn sub(self, rhs: ri128) -> ri8 { unimplemented!() }
}
impl SubAssignSpecImpl<ri128> for ri8 {
    open spec fn obeys_sub_assign_spec() -> bool { true }
    open spec fn sub_assign_req(&self, rhs: ri128) -> bool { i8::MIN <= self.val - rhs.val <= i8::MAX }
    open spec fn sub_assign_spec(&self, rhs: ri128) -> &ri8 { &ri8 { val: (self.val - rhs.val) as i8 } }
}
impl core::ops::SubAssign<ri128> for ri8 {
    #[verifier::external_body]
    fn sub_assign(&mut self, rhs: ri128) { unimplemented!() }
}

impl MulSpecImpl<ri128> for ri8 {
    open spec fn obeys_mul_spec() -> bool { true }
    open spec fn mul_req(self, rhs: ri128) -> bool { i8::MIN <= self.val * rhs.val <= i8::MAX }
    open spec fn mul_spec(self, rhs: ri128) -> ri8 { ri8 { val: (self.val * rhs.val) as i8 } }
}
impl core::ops::Mul<ri128> for ri8 {
    type Output = ri8;
    #[verifier::external_body]
    fn mul(self, rhs: ri128) -> ri8 { unimplemented!() }
}
impl MulAssignSpecImpl<ri128> for ri8 {
    open spec fn obeys_mul_assign_spec() -> bool { true }
    open spec fn mul_assign_req(&self, rhs: ri128) -> bool { i8::MIN <= self.val * rhs.val <= i8::MAX }
    open spec fn mul_assign_spec(&self, rhs: ri128) -> &ri8 { &ri8 { val: (self.val * rhs.val) as i8 } }
}
impl core::ops::MulAssign<ri128> for ri8 {
    #[verifier::external_body]
    fn mul_assign(&mut self, rhs: ri128) { unimplemented!() }
}

impl DivSpecImpl<ri128> for ri8 {
    open spec fn obeys_div_spec() -> bool { true }
    open spec fn div_req(self, rhs: ri128) -> bool { rhs.val > 0 }
    open spec fn div_spec(self, rhs: ri128) -> ri8 { ri8 { val: (self.val as int / rhs.val as int) as i8 } }
}
impl core::ops::Div<ri128> for ri8 {
    type Output = ri8;
    #[verifier::external_body]
    fn div(self, rhs: ri128) -> ri8 { unimplemented!() }
}
impl RemSpecImpl<ri128> for ri8 {
    open spec fn obeys_rem_spec() -> bool { true }
    open spec fn rem_req(self, rhs: ri128) -> bool { rhs.val > 0 }
    open spec fn rem_spec(self, rhs: ri128) -> ri8 { ri8 { val: (self.val as int % rhs.val as int) as i8 } }
}
impl core::ops::Rem<ri128> for ri8 {
    type Output = ri8;
    #[verifier::external_body]
    fn rem(self, rhs: ri128) -> ri8 { unimplemented!() }
}

impl NegSpecImpl for ri8 {
    open spec fn obeys_neg_spec() -> bool { true }
    open spec fn neg_req(self) -> bool { self.val > i8::MIN }
    open spec fn neg_spec(self) -> ri8 { ri8 { val: (-self.val) as i8 } }
}
impl core::ops::Neg for ri8 {
    type Output = ri8;
    #[verifier::external_body]
    fn neg(self) -> ri8 { unimplemented!() }
}


// ------------------------------------------------------------------ ri16
#[derive(Clone, Copy)]
pub struct ri16 { pub val: i16 }
impl ri16 {
    pub fn new_unchecked(val: i16) -> (r: Self) ensures r.val == val { ri16 { val } }
    pub fn get(self) -> (r: i16) ensures r == self.val { self.val }
    pub fn get_unchecked(self) -> (r: i16) ensures r == self.val { self.val }
    pub fn without_bounds(self) -> (r: Self) ensures r == self { self }
    // `T::N::<VAL>()` is rewritten to `T::verif_N(VAL)`: the constant VAL (release: `Self { val: VAL }`, no bound is consulted).
    // (Not modelled with a const generic: Verus 0.2026.09.13 derives `false` from a negative const generic argument.)
    pub const fn verif_N(v: i16) -> (r: Self) ensures r.val == v { ri16 { val: v } }
    #[verifier::external_body]
    pub fn abs(self) -> (r: Self)
        requires self.val > i16::MIN,
        ensures r.val == (if self.val < 0 { -self.val } else { self.val as int })
    { unimplemented!() }
    // real: returns `riN<-1, 1>` of the SAME width
    pub fn signum(self) -> (r: Self) ensures r.val == (if self.val < 0 { -1int } else if self.val > 0 { 1int } else { 0int })
    { if self.val < 0 { ri16 { val: -1 } } else if self.val > 0 { ri16 { val: 1 } } else { ri16 { val: 0 } } }
    pub fn min<R: RInto<Self>>(self, other: R) -> (r: Self)
        requires other.rinto_req(),
        ensures r.val == (if other.rinto_spec().val < self.val { other.rinto_spec().val } else { self.val })
    { let o = other.rinto(); if o.val < self.val { o } else { self } }
    pub fn max<R: RInto<Self>>(self, other: R) -> (r: Self)
        requires other.rinto_req(),
        ensures r.val == (if other.rinto_spec().val > self.val { other.rinto_spec().val } else { self.val })
    { let o = other.rinto(); if o.val > self.val { o } else { self } }
    // truncating
    #[verifier::external_body]
    pub fn div_ceil<R: RInto<Self>>(self, rhs: R) -> (r: Self)
        requires rhs.rinto_req(), rhs.rinto_spec().val != 0, !(self.val == i16::MIN && rhs.rinto_spec().val == -1),
        ensures r.val == tdiv(self.val as int, rhs.rinto_spec().val as int)
    { unimplemented!() }
    #[verifier::external_body]
    pub fn rem_ceil<R: RInto<Self>>(self, rhs: R) -> (r: Self)
        requires rhs.rinto_req(), rhs.rinto_spec().val != 0, !(self.val == i16::MIN && rhs.rinto_spec().val == -1),
        ensures r.val == trem(self.val as int, rhs.rinto_spec().val as int)
    { unimplemented!() }
    // Euclidean (divisor > 0 required here; every use in jiff divides by a positive quantity)
    #[verifier::external_body]
    pub fn div_floor<R: RInto<Self>>(self, rhs: R) -> (r: Self)
        requires rhs.rinto_req(), rhs.rinto_spec().val > 0,
        ensures r.val == (self.val as int) / (rhs.rinto_spec().val as int)
    { unimplemented!() }
    #[verifier::external_body]
    pub fn rem_floor<R: RInto<Self>>(self, rhs: R) -> (r: Self)
        requires rhs.rinto_req(), rhs.rinto_spec().val > 0,
        ensures r.val == (self.val as int) % (rhs.rinto_spec().val as int)
    { unimplemented!() }
    #[verifier::external_body]
    pub fn saturating_mul<R: RInto<Self>>(self, rhs: R) -> (r: Self)
        requires rhs.rinto_req(),
        ensures i16::MIN <= self.val * rhs.rinto_spec().val <= i16::MAX ==> r.val == self.val * rhs.rinto_spec().val,
                self.val * rhs.rinto_spec().val > i16::MAX ==> r.val == i16::MAX,
                self.val * rhs.rinto_spec().val < i16::MIN ==> r.val == i16::MIN,
    { unimplemented!() }
    #[verifier::external_body]
    pub fn saturating_add<R: RInto<Self>>(self, rhs: R) -> (r: Self)
        requires rhs.rinto_req(),
        ensures i16::MIN <= self.val + rhs.rinto_spec().val <= i16::MAX ==> r.val == self.val + rhs.rinto_spec().val,
                self.val + rhs.rinto_spec().val > i16::MAX ==> r.val == i16::MAX,
                self.val + rhs.rinto_spec().val < i16::MIN ==> r.val == i16::MIN,
    { unimplemented!() }
}
// `type Range = ri16<{ LO }, { HI }>; Range::try_new("what", v)`: the bounds of an anonymous range are passed explicitly
#[verifier::external_body]
pub fn verif_try_new_range_16(lo: i128, hi: i128, v: i64) -> (res: Result<ri16, Error>)
    requires i16::MIN <= lo, hi <= i16::MAX,
    ensures res.is_ok() <==> lo <= v <= hi, res.is_ok() ==> res.unwrap().val == v
{ unimplemented!() }
impl RInto<ri16> for ri16 {
    open spec fn rinto_spec(self) -> ri16 { self }
    open spec fn rinto_req(self) -> bool { true }
    fn rinto(self) -> (r: ri16) { self }
}
impl RFrom<ri16> for ri16 {
    open spec fn rfrom_spec(t: ri16) -> ri16 { t }
    open spec fn rfrom_req(t: ri16) -> bool { true }
    fn rfrom(t: ri16) -> (r: ri16) { t }
}
impl RInto<ri16> for Constant {
    open spec fn rinto_spec(self) -> ri16 { ri16 { val: self.0 as i16 } }
    open spec fn rinto_req(self) -> bool { i16::MIN <= self.0 <= i16::MAX }
    #[verifier::external_body]
    fn rinto(self) -> (r: ri16) { unimplemented!() }
}
impl RFrom<Constant> for ri16 {
    open spec fn rfrom_spec(t: Constant) -> ri16 { ri16 { val: t.0 as i16 } }
    open spec fn rfrom_req(t: Constant) -> bool { i16::MIN <= t.0 <= i16::MAX }
    #[verifier::external_body]
    fn rfrom(t: Constant) -> (r: ri16) { unimplemented!() }
}
impl RInto<i16> for ri16 {
    open spec fn rinto_spec(self) -> i16 { self.val }
    open spec fn rinto_req(self) -> bool { true }
    fn rinto(self) -> (r: i16) { self.val }
}

impl PartialEqSpecImpl<ri16> for ri16 {
    open spec fn obeys_eq_spec() -> bool { true }
    open spec fn eq_spec(&self, other: &ri16) -> bool { self.val == other.val }
}
impl PartialEq<ri16> for ri16 {
    #[verifier::external_body]
    fn eq(&self, other: &ri16) -> bool { unimplemented!() }
}
impl PartialOrdSpecImpl<ri16> for ri16 {
    open spec fn obeys_partial_cmp_spec() -> bool { true }
    open spec fn partial_cmp_spec(&self, other: &ri16) -> Option<Ordering> { Some(int_cmp(self.val as int, other.val as int)) }
}
impl PartialOrd<ri16> for ri16 {
    #[verifier::external_body]
    fn partial_cmp(&self, other: &ri16) -> Option<Ordering> { unimplemented!() }
}

impl PartialEqSpecImpl<Constant> for ri16 {
    open spec fn obeys_eq_spec() -> bool { true }
    open spec fn eq_spec(&self, other: &Constant) -> bool { self.val == other.0 }
}
impl PartialEq<Constant> for ri16 {
    #[verifier::external_body]
    fn eq(&self, other: &Constant) -> bool { unimplemented!() }
}
impl PartialOrdSpecImpl<Constant> for ri16 {
    open spec fn obeys_partial_cmp_spec() -> bool { true }
    open spec fn partial_cmp_spec(&self, other: &Constant) -> Option<Ordering> { Some(int_cmp(self.val as int, other.0 as int)) }
}
impl PartialOrd<Constant> for ri16 {
    #[verifier::external_body]
    fn partial_cmp(&self, other: &Constant) -> Option<Ordering> { unimplemented!() }
}

impl PartialEqSpecImpl<ri8> for ri16 {
    open spec fn obeys_eq_spec() -> bool { true }
    open spec fn eq_spec(&self, other: &ri8) -> bool { self.val == other.val }
}
impl PartialEq<ri8> for ri16 {
    #[verifier::external_body]
    fn eq(&self, other: &ri8) -> bool { unimplemented!() }
}
impl PartialOrdSpecImpl<ri8> for ri16 {
    open spec fn obeys_partial_cmp_spec() -> bool { true }
    open spec fn partial_cmp_spec(&self, other: &ri8) -> Option<Ordering> { Some(int_cmp(self.val as int, other.val as int)) }
}
impl PartialOrd<ri8> for ri16 {
    #[verifier::external_body]
    fn partial_cmp(&self, other: &ri8) -> Option<Ordering> { unimplemented!() }
}

impl PartialEqSpecImpl<ri32> for ri16 {
    open spec fn obeys_eq_spec() -> bool { true }
    open spec fn eq_spec(&self, other: &ri32) -> bool { self.val == other.val }
}
impl PartialEq<ri32> for ri16 {
    #[verifier::external_body]
    fn eq(&self, other: &ri32) -> bool { unimplemented!() }
}
impl PartialOrdSpecImpl<ri32> for ri16 {
    open spec fn obeys_partial_cmp_spec() -> bool { true }
    open spec fn partial_cmp_spec(&self, other: &ri32) -> Option<Ordering> { Some(int_cmp(self.val as int, other.val as int)) }
}
impl PartialOrd<ri32> for ri16 {
    #[verifier::external_body]
    fn partial_cmp(&self, other: &ri32) -> Option<Ordering> { unimplemented!() }
}

impl PartialEqSpecImpl<ri64> for ri16 {
    open spec fn obeys_eq_spec() -> bool { true }
    open spec fn eq_spec(&self, other: &ri64) -> bool { self.val == other.val }
}
impl PartialEq<ri64> for ri16 {
    #[verifier::external_body]
    fn eq(&self, other: &ri64) -> bool { unimplemented!() }
}
impl PartialOrdSpecImpl<ri64> for ri16 {
    open spec fn obeys_partial_cmp_spec() -> bool { true }
    open spec fn partial_cmp_spec(&self, other: &ri64) -> Option<Ordering> { Some(int_cmp(self.val as int, other.val as int)) }
}
impl PartialOrd<ri64> for ri16 {
    #[verifier::external_body]
    fn partial_cmp(&self, other: &ri64) -> Option<Ordering> { unimplemented!() }
}

impl PartialEqSpecImpl<ri128> for ri16 {
    open spec fn obeys_eq_spec() -> bool { true }
    open spec fn eq_spec(&self, other: &ri128) -> bool { self.val == other.val }
}
impl PartialEq<ri128> for ri16 {
    #[verifier::external_body]
    fn eq(&self, other: &ri128) -> bool { unimplemented!() }
}
impl PartialOrdSpecImpl<ri128> for ri16 {
    open spec fn obeys_partial_cmp_spec() -> bool { true }
    open spec fn partial_cmp_spec(&self, other: &ri128) -> Option<Ordering> { Some(int_cmp(self.val as int, other.val as int)) }
}
impl PartialOrd<ri128> for ri16 {
    #[verifier::external_body]
    fn partial_cmp(&self, other: &ri128) -> Option<Ordering> { unimplemented!() }
}

impl AddSpecImpl<ri16> for ri16 {
    open spec fn obeys_add_spec() -> bool { true }
    open spec fn add_req(self, rhs: ri16) -> bool { i16::MIN <= self.val + rhs.val <= i16::MAX }
    open spec fn add_spec(self, rhs: ri16) -> ri16 { ri16 { val: (self.val + rhs.val) as i16 } }
}
impl core::ops::Add<ri16> for ri16 {
    type Output = ri16;
    #[verifier::external_body]
    fn add(self, rhs: ri16) -> ri16 { unimplemented!() }
}
impl AddAssignSpecImpl<ri16> for ri16 {
    open spec fn obeys_add_assign_spec() -> bool { true }
    open spec fn add_assign_req(&self, rhs: ri16) -> bool { i16::MIN <= self.val + rhs.val <= i16::MAX }
    open spec fn add_assign_spec(&self, rhs: ri16) -> &ri16 { &ri16 { val: (self.val + rhs.val) as i16 } }
}
impl core::ops::AddAssign<ri16> for ri16 {
    #[verifier::external_body]
    fn add_assign(&mut self, rhs: ri16) { unimplemented!() }
}

impl SubSpecImpl<ri16> for ri16 {
    open spec fn obeys_sub_spec() -> bool { true }
    open spec fn sub_req(self, rhs: ri16) -> bool { i16::MIN <= self.val - rhs.val <= i16::MAX }
    open spec fn sub_spec(self, rhs: ri16) -> ri16 { ri16 { val: (self.val - rhs.val) as i16 } }
}
impl core::ops::Sub<ri16> for ri16 {
    type Output = ri16;
    #[verifier::external_body]
    fn sub(self, rhs: ri16) -> ri16 { unimplemented!() }
}
impl SubAssignSpecImpl<ri16> for ri16 {
    open spec fn obeys_sub_assign_spec() -> bool { true }
    open spec fn sub_assign_req(&self, rhs: ri16) -> bool { i16::MIN <= self.val - rhs.val <= i16::MAX }
    open spec fn sub_assign_spec(&self, rhs: ri16) -> &ri16 { &ri16 { val: (self.val - rhs.val) as i16 } }
}
impl core::ops::SubAssign<ri16> for ri16 {
    #[verifier::external_body]
    fn sub_assign(&mut self, rhs: ri16) { unimplemented!() }
}

impl MulSpecImpl<ri16> for ri16 {
    open spec fn obeys_mul_spec() -> bool { true }
    open spec fn mul_req(self, rhs: ri16) -> bool { i16::MIN <= self.val * rhs.val <= i16::MAX }
    open spec fn mul_spec(self, rhs: ri16) -> ri16 { ri16 { val: (self.val * rhs.val) as i16 } }
}
impl core::ops::Mul<ri16> for ri16 {
    type Output = ri16;
    #[verifier::external_body]
    fn mul(self, rhs: ri16) -> ri16 { unimplemented!() }
}
impl MulAssignSpecImpl<ri16> for ri16 {
    open spec fn obeys_mul_assign_spec() -> bool { true }
    open spec fn mul_assign_req(&self, rhs: ri16) -> bool { i16::MIN <= self.val * rhs.val <= i16::MAX }
    open spec fn mul_assign_spec(&self, rhs: ri16) -> &ri16 { &ri16 { val: (self.val * rhs.val) as i16 } }
}
impl core::ops::MulAssign<ri16> for ri16 {
    #[verifier::external_body]
    fn mul_assign(&mut self, rhs: ri16) { unimplemented!() }
}

impl DivSpecImpl<ri16> for ri16 {
    open spec fn obeys_div_spec() -> bool { true }
    open spec fn div_req(self, rhs: ri16) -> bool { rhs.val > 0 }
    open spec fn div_spec(self, rhs: ri16) -> ri16 { ri16 { val: (self.val as int / rhs.val as int) as i16 } }
}
impl core::ops::Div<ri16> for ri16 {
    type Output = ri16;
    #[verifier::external_body]
    fn div(self, rhs: ri16) -> ri16 { unimplemented!() }
}
impl RemSpecImpl<ri16> for ri16 {
    open spec fn obeys_rem_spec() -> bool { true }
    open spec fn rem_req(self, rhs: ri16) -> bool { rhs.val > 0 }
    open spec fn rem_spec(self, rhs: ri16) -> ri16 { ri16 { val: (self.val as int % rhs.val as int) as i16 } }
}
impl core::ops::Rem<ri16> for ri16 {
    type Output = ri16;
    #[verifier::external_body]
    fn rem(self, rhs: ri16) -> ri16 { unimplemented!() }
}

impl AddSpecImpl<Constant> for ri16 {
    open spec fn obeys_add_spec() -> bool { true }
    open spec fn add_req(self, rhs: Constant) -> bool { i16::MIN <= self.val + rhs.0 <= i16::MAX }
    open spec fn add_spec(self, rhs: Constant) -> ri16 { ri16 { val: (self.val + rhs.0) as i16 } }
}
impl core::ops::Add<Constant> for ri16 {
    type Output = ri16;
    #[verifier::external_body]
    fn add(self, rhs: Constant) -> ri16 { unimplemented!() }
}
impl AddAssignSpecImpl<Constant> for ri16 {
    open spec fn obeys_add_assign_spec() -> bool { true }
    open spec fn add_assign_req(&self, rhs: Constant) -> bool { i16::MIN <= self.val + rhs.0 <= i16::MAX }
    open spec fn add_assign_spec(&self, rhs: Constant) -> &ri16 { &ri16 { val: (self.val + rhs.0) as i16 } }
}
impl core::ops::AddAssign<Constant> for ri16 {
    #[verifier::external_body]
    fn add_assign(&mut self, rhs: Constant) { unimplemented!() }
}

impl SubSpecImpl<Constant> for ri16 {
    open spec fn obeys_sub_spec() -> bool { true }
    open spec fn sub_req(self, rhs: Constant) -> bool { i16::MIN <= self.val - rhs.0 <= i16::MAX }
    open spec fn sub_spec(self, rhs: Constant) -> ri16 { ri16 { val: (self.val - rhs.0) as i16 } }
}
impl core::ops::Sub<Constant> for ri16 {
    type Output = ri16;
    #[verifier::external_body]
    fn sub(self, rhs: Constant) -> ri16 { unimplemented!() }
}
impl SubAssignSpecImpl<Constant> for ri16 {
    open spec fn obeys_sub_assign_spec() -> bool { true }
    open spec fn sub_assign_req(&self, rhs: Constant) -> bool { i16::MIN <= self.val - rhs.0 <= i16::MAX }
    open spec fn sub_assign_spec(&self, rhs: Constant) -> &ri16 { &ri16 { val: (self.val - rhs.0) as i16 } }
}
impl core::ops::SubAssign<Constant> for ri16 {
    #[verifier::external_body]
    fn sub_assign(&mut self, rhs: Constant) { unimplemented!() }
}

impl MulSpecImpl<Constant> for ri16 {
    open spec fn obeys_mul_spec() -> bool { true }
    open spec fn mul_req(self, rhs: Constant) -> bool { i16::MIN <= self.val * rhs.0 <= i16::MAX }
    open spec fn mul_spec(self, rhs: Constant) -> ri16 { ri16 { val: (self.val * rhs.0) as i16 } }
}
impl core::ops::Mul<Constant> for ri16 {
    type Output = ri16;
    #[verifier::external_body]
    fn mul(self, rhs: Constant) -> ri16 { unimplemented!() }
}
impl MulAssignSpecImpl<Constant> for ri16 {
    open spec fn obeys_mul_assign_spec() -> bool { true }
    open spec fn mul_assign_req(&self, rhs: Constant) -> bool { i16::MIN <= self.val * rhs.0 <= i16::MAX }
    open spec fn mul_assign_spec(&self, rhs: Constant) -> &ri16 { &ri16 { val: (self.val * rhs.0) as i16 } }
}
impl core::ops::MulAssign<Constant> for ri16 {
    #[verifier::external_body]
    fn mul_assign(&mut self, rhs: Constant) { unimplemented!() }
}

impl DivSpecImpl<Constant> for ri16 {
    open spec fn obeys_div_spec() -> bool { true }
    open spec fn div_req(self, rhs: Constant) -> bool { rhs.0 > 0 }
    open spec fn div_spec(self, rhs: Constant) -> ri16 { ri16 { val: (self.val as int / rhs.0 as int) as i16 } }
}
impl core::ops::Div<Constant> for ri16 {
    type Output = ri16;
    #[verifier::external_body]
    fn div(self, rhs: Constant) -> ri16 { unimplemented!() }
}
impl RemSpecImpl<Constant> for ri16 {
    open spec fn obeys_rem_spec() -> bool { true }
    open spec fn rem_req(self, rhs: Constant) -> bool { rhs.0 > 0 }
    open spec fn rem_spec(self, rhs: Constant) -> ri16 { ri16 { val: (self.val as int % rhs.0 as int) as i16 } }
}
impl core::ops::Rem<Constant> for ri16 {
    type Output = ri16;
    #[verifier::external_body]
    fn rem(self, rhs: Constant) -> ri16 { unimplemented!() }
}

impl AddSpecImpl<ri8> for ri16 {
    open spec fn obeys_add_spec() -> bool { true }
    open spec fn add_req(self, rhs: ri8) -> bool { i16::MIN <= self.val + rhs.val <= i16::MAX }
    open spec fn add_spec(self, rhs: ri8) -> ri16 { ri16 { val: (self.val + rhs.val) as i16 } }
}
impl core::ops::Add<ri8> for ri16 {
    type Output = ri16;
    #[verifier::external_body]
    fn add(self, rhs: ri8) -> ri16 { unimplemented!() }
}
impl AddAssignSpecImpl<ri8> for ri16 {
    open spec fn obeys_add_assign_spec() -> bool { true }
    open spec fn add_assign_req(&self, rhs: ri8) -> bool { i16::MIN <= self.val + rhs.val <= i16::MAX }
    open spec fn add_assign_spec(&self, rhs: ri8) -> &ri16 { &ri16 { val: (self.val + rhs.val) as i16 } }
}
impl core::ops::AddAssign<ri8> for ri16 {
    #[verifier::external_body]
    fn add_assign(&mut self, rhs: ri8) { unimplemented!() }
}

impl SubSpecImpl<ri8> for ri16 {
    open spec fn obeys_sub_spec() -> bool { true }
    open spec fn sub_req(self, rhs: ri8) -> bool { i16::MIN <= self.val - rhs.val <= i16::MAX }
    open spec fn sub_spec(self, rhs: ri8) -> ri16 { ri16 { val: (self.val - rhs.val) as i16 } }
}
impl core::ops::Sub<ri8> for ri16 {
    type Output = ri16;
    #[verifier::external_body]
    fn sub(self, rhs: ri8) -> ri16 { unimplemented!() }
}
impl SubAssignSpecImpl<ri8> for ri16 {
    open spec fn obeys_sub_assign_spec() -> bool { true }
    open spec fn sub_assign_req(&self, rhs: ri8) -> bool { i16::MIN <= self.val - rhs.val <= i16::MAX }
    open spec fn sub_assign_spec(&self, rhs: ri8) -> &ri16 { &ri16 { val: (self.val - rhs.val) as i16 } }
}
impl core::ops::SubAssign<ri8> for ri16 {
    #[verifier::external_body]
    fn sub_assign(&mut self, rhs: ri8) { unimplemented!() }
}

impl MulSpecImpl<ri8> for ri16 {
    open spec fn obeys_mul_spec() -> bool { true }
    open spec fn mul_req(self, rhs: ri8) -> bool { i16::MIN <= self.val * rhs.val <= i16::MAX }
    open spec fn mul_spec(self, rhs: ri8) -> ri16 { ri16 { val: (self.val * rhs.val) as i16 } }
}
impl core::ops::Mul<ri8> for ri16 {
    type Output = ri16;
    #[verifier::external_body]
    fn mul(self, rhs: ri8) -> ri16 { unimplemented!() }
}
impl MulAssignSpecImpl<ri8> for ri16 {
    open spec fn obeys_mul_assign_spec() -> bool { true }
    open spec fn mul_assign_req(&self, rhs: ri8) -> bool { i16::MIN <= self.val * rhs.val <= i16::MAX }
    open spec fn mul_assign_spec(&self, rhs: ri8) -> &ri16 { &ri16 { val: (self.val * rhs.val) as i16 } }
}
impl core::ops::MulAssign<ri8> for ri16 {
    #[verifier::external_body]
    fn mul_assign(&mut self, rhs: ri8) { unimplemented!() }
}

impl DivSpecImpl<ri8> for ri16 {
    open spec fn obeys_div_spec() -> bool { true }
    open spec fn div_req(self, rhs: ri8) -> bool { rhs.val > 0 }
    open spec fn div_spec(self, rhs: ri8) -> ri16 { ri16 { val: (self.val as int / rhs.val as int) as i16 } }
}
impl core::ops::Div<ri8> for ri16 {
    type Output = ri16;
    #[verifier::external_body]
    fn div(self, rhs: ri8) -> ri16 { unimplemented!() }
}
impl RemSpecImpl<ri8> for ri16 {
    open spec fn obeys_rem_spec() -> bool { true }
    open spec fn rem_req(self, rhs: ri8) -> bool { rhs.val > 0 }
    open spec fn rem_spec(self, rhs: ri8) -> ri16 { ri16 { val: (self.val as int % rhs.val as int) as i16 } }
}
impl core::ops::Rem<ri8> for ri16 {
    type Output = ri16;
    #[verifier::external_body]
    fn rem(self, rhs: ri8) -> ri16 { unimplemented!() }
}

impl AddSpecImpl<ri32> for ri16 {
    open spec fn obeys_add_spec() -> bool { true }
    open spec fn add_req(self, rhs: ri32) -> bool { i16::MIN <= self.val + rhs.val <= i16::MAX }
    open spec fn add_spec(self, rhs: ri32) -> ri16 { ri16 { val: (self.val + rhs.val) as i16 } }
}
impl core::ops::Add<ri32> for ri16 {
    type Output = ri16;
    #[verifier::external_body]
    fn add(self, rhs: ri32) -> ri16 { unimplemented!() }
}
impl AddAssignSpecImpl<ri32> for ri16 {
    open spec fn obeys_add_assign_spec() -> bool { true }
    open spec fn add_assign_req(&self, rhs: ri32) -> bool { i16::MIN <= self.val + rhs.val <= i16::MAX }
    open spec fn add_assign_spec(&self, rhs: ri32) -> &ri16 { &ri16 { val: (self.val + rhs.val) as i16 } }
}
impl core::ops::AddAssign<ri32> for ri16 {
    #[verifier::external_body]
    fn add_assign(&mut self, rhs: ri32) { unimplemented!() }
}

impl SubSpecImpl<ri32> for ri16 {
    open spec fn obeys_sub_spec() -> bool { true }
    open spec fn sub_req(self, rhs: ri32) -> bool { i16::MIN <= self.val - rhs.val <= i16::MAX }
    open spec fn sub_spec(self, rhs: ri32) -> ri16 { ri16 { val: (self.val - rhs.val) as i16 } }
}
impl core::ops::Sub<ri32> for ri16 {
    type Output = ri16;
    #[verifier::external_body]
    fn sub(self, rhs: ri32) -> ri16 { unimplemented!() }
}
impl SubAssignSpecImpl<ri32> for ri16 {
    open spec fn obeys_sub_assign_spec() -> bool { true }
    open spec fn sub_assign_req(&self, rhs: ri32) -> bool { i16::MIN <= self.val - rhs.val <= i16::MAX }
    open spec fn sub_assign_spec(&self, rhs: ri32) -> &ri16 { &ri16 { val: (self.val - rhs.val) as i16 } }
}
impl core::ops::SubAssign<ri32> for ri16 {
    #[verifier::external_body]
    fn sub_assign(&mut self, rhs: ri32) { unimplemented!() }
}

impl MulSpecImpl<ri32> for ri16 {
    open spec fn obeys_mul_spec() -> bool { true }
    open spec fn mul_req(self, rhs: ri32) -> bool { i16::MIN <= self.val * rhs.val <= i16::MAX }
    open spec fn mul_spec(self, rhs: ri32) -> ri16 { ri16 { val: (self.val * rhs.val) as i16 } }
}
impl core::ops::Mul<ri32> for ri16 {
    type Output = ri16;
    #[verifier::external_body]
    fn mul(self, rhs: ri32) -> ri16 { unimplemented!() }
}
impl MulAssignSpecImpl<ri32> for ri16 {
    open spec fn obeys_mul_assign_spec() -> bool { true }
    open spec fn mul_assign_req(&self, rhs: ri32) -> bool { i16::MIN <= self.val * rhs.val <= i16::MAX }
    open spec fn mul_assign_spec(&self, rhs: ri32) -> &ri16 { &ri16 { val: (self.val * rhs.val) as i16 } }
}
impl core::ops::MulAssign<ri32> for ri16 {
    #[verifier::external_body]
    fn mul_assign(&mut self, rhs: ri32) { unimplemented!() }
}

impl DivSpecImpl<ri32> for ri16 {
    open spec fn obeys_div_spec() -> bool { true }
    open spec fn div_req(self, rhs: ri32) -> bool { rhs.val > 0 }
    open spec fn div_spec(self, rhs: ri32) -> ri16 { ri16 { val: (self.val as int / rhs.val as int) as i16 } }
}
impl core::ops::Div<ri32> for ri16 {
    type Output = ri16;
    #[verifier::external_body]
    fn div(self, rhs: ri32) -> ri16 { unimplemented!() }
}
impl RemSpecImpl<ri32> for ri16 {
    open spec fn obeys_rem_spec() -> bool { true }
    open spec fn rem_req(self, rhs: ri32) -> bool { rhs.val > 0 }
    open spec fn rem_spec(self, rhs: ri32) -> ri16 { ri16 { val: (self.val as int % rhs.val as int) as i16 } }
}
impl core::ops::Rem<ri32> for ri16 {
    type Output = ri16;
    #[verifier::external_body]
    fn rem(self, rhs: ri32) -> ri16 { unimplemented!() }
}

impl AddSpecImpl<ri64> for ri16 {
    open spec fn obeys_add_spec() -> bool { true }
    open spec fn add_req(self, rhs: ri64) -> bool { i16::MIN <= self.val + rhs.val <= i16::MAX }
    open spec fn add_spec(self, rhs: ri64) -> ri16 { ri16 { val: (self.val + rhs.val) as i16 } }
}
impl core::ops::Add<ri64> for ri16 {
    type Output = ri16;
    #[verifier::external_body]
    fn add(self, rhs: ri64) -> ri16 { unimplemented!() }
}
impl AddAssignSpecImpl<ri64> for ri16 {
    open spec fn obeys_add_assign_spec() -> bool { true }
    open spec fn add_assign_req(&self, rhs: ri64) -> bool { i16::MIN <= self.val + rhs.val <= i16::MAX }
    open spec fn add_assign_spec(&self, rhs: ri64) -> &ri16 { &ri16 { val: (self.val + rhs.val) as i16 } }
}
impl core::ops::AddAssign<ri64> for ri16 {
    #[verifier::external_body]
    fn add_assign(&mut self, rhs: ri64) { unimplemented!() }
}

impl SubSpecImpl<ri64> for ri16 {
    open spec fn obeys_sub_spec() -> bool { true }
    open spec fn sub_req(self, rhs: ri64) -> bool { i16::MIN <= self.val - rhs.val <= i16::MAX }
    open spec fn sub_spec(self, rhs: ri64) -> ri16 { ri16 { val: (self.val - rhs.val) as i16 } }
}
impl core::ops::Sub<ri64> for ri16 {
    type Output = ri16;
    #[verifier::external_body]
    fn sub(self, rhs: ri64) -> ri16 { unimplemented!() }
}
impl SubAssignSpecImpl<ri64> for ri16 {
    open spec fn obeys_sub_assign_spec() -> bool { true }
    open spec fn sub_assign_req(&self, rhs: ri64) -> bool { i16::MIN <= self.val - rhs.val <= i16::MAX }
    open spec fn sub_assign_spec(&self, rhs: ri64) -> &ri16 { &ri16 { val: (self.val - rhs.val) as i16 } }
}
impl core::ops::SubAssign<ri64> for ri16 {
    #[verifier::external_body]
    fn sub_assign(&mut self, rhs: ri64) { unimplemented!() }
}

impl MulSpecImpl<ri64> for ri16 {
    open spec fn obeys_mul_spec() -> bool { true }
    open spec fn mul_req(self, rhs: ri64) -> bool { i16::MIN <= self.val * rhs.val <= i16::MAX }
    open spec fn mul_spec(self, rhs: ri64) -> ri16 { ri16 { val: (self.val * rhs.val) as i16 } }
}
impl core::ops::Mul<ri64> for ri16 {
    type Output = ri16;
    #[verifier::external_body]
    fn mul(self, rhs: ri64) -> ri16 { unimplemented!() }
}
impl MulAssignSpecImpl<ri64> for ri16 {
    open spec fn obeys_mul_assign_spec() -> bool { true }
    open spec fn mul_assign_req(&self, rhs: ri64) -> bool { i16::MIN <= self.val * rhs.val <= i16::MAX }
    open spec fn mul_assign_spec(&self, rhs: ri64) -> &ri16 { &ri16 { val: (self.val * rhs.val) as i16 } }
}
impl core::ops::MulAssign<ri64> for ri16 {
    #[verifier::external_body]
    fn mul_assign(&mut self, rhs: ri64) { unimplemented!() }
}

impl DivSpecImpl<ri64> for ri16 {
    open spec fn obeys_div_spec() -> bool { true }
    open spec fn div_req(self, rhs: ri64) -> bool { rhs.val > 0 }
    open spec fn div_spec(self, rhs: ri64) -> ri16 { ri16 { val: (self.val as int / rhs.val as int) as i16 } }
}
impl core::ops::Div<ri64> for ri16 {
    type Output = ri16;
    #[verifier::external_body]
    fn div(self, rhs: ri64) -> ri16 { unimplemented!() }
}
impl RemSpecImpl<ri64> for ri16 {
    open spec fn obeys_rem_spec() -> bool { true }
    open spec fn rem_req(self, rhs: ri64) -> bool { rhs.val > 0 }
    open spec fn rem_spec(self, rhs: ri64) -> ri16 { ri16 { val: (self.val as int % rhs.val as int) as i16 } }
}
impl core::ops::Rem<ri64> for ri16 {
    type Output = ri16;
    #[verifier::external_body]
    fn rem(self, rhs: ri64) -> ri16 { unimplemented!() }
}

impl AddSpecImpl<ri128> for ri16 {
    open spec fn obeys_add_spec() -> bool { true }
    open spec fn add_req(self, rhs: ri128) -> bool { i16::MIN <= self.val + rhs.val <= i16::MAX }
    open spec fn add_spec(self, rhs: ri128) -> ri16 { ri16 { val: (self.val + rhs.val) as i16 } }
}
impl core::ops::Add<ri128> for ri16 {
    type Output = ri16;
    #[verifier::external_body]
    fn add(self, rhs: ri128) -> ri16 { unimplemented!() }
}
impl AddAssignSpecImpl<ri128> for ri16 {
    open spec fn obeys_add_assign_spec() -> bool { true }
    open spec fn add_assign_req(&self, rhs: ri128) -> bool { i16::MIN <= self.val + rhs.val <= i16::MAX }
    open spec fn add_assign_spec(&self, rhs: ri128) -> &ri16 { &ri16 { val: (self.val + rhs.val) as i16 } }
}
impl core::ops::AddAssign<ri128> for ri16 {
    #[verifier::external_body]
    fn add_assign(&mut self, rhs: ri128) { unimplemented!() }
}

impl SubSpecImpl<ri128> for ri16 {
    open spec fn obeys_sub_spec() -> bool { true }
    open spec fn sub_req(self, rhs: ri128) -> bool { i16::MIN <= self.val - rhs.val <= i16::MAX }
    open spec fn sub_spec(self, rhs: ri128) -> ri16 { ri16 { val: (self.val - rhs.val) as i16 } }
}
impl core::ops::Sub<ri128> for ri16 {
    type Output = ri16;
    #[verifier::external_body]
    fn sub(self, rhs: ri128) -> ri16 { unimplemented!() }
}
impl SubAssignSpecImpl<ri128> for ri16 {
    open spec fn obeys_sub_assign_spec() -> bool { true }
    open spec fn sub_assign_req(&self, rhs: ri128) -> bool { i16::MIN <= self.val - rhs.val <= i16::MAX }
    open spec fn sub_assign_spec(&self, rhs: ri128) -> &ri16 { &ri16 { val: (self.val - rhs.val) as i16 } }
}
impl core::ops::SubAssign<ri128> for ri16 {
    #[verifier::external_body]
    fn sub_assign(&mut self, rhs: ri128) { unimplemented!() }
}

impl MulSpecImpl<ri128> for ri16 {
    open spec fn obeys_mul_spec() -> bool { true }
    open spec fn mul_req(self, rhs: ri128) -> bool { i16::MIN <= self.val * rhs.val <= i16::MAX }
    open spec fn mul_spec(self, rhs: ri128) -> ri16 { ri16 { val: (self.val * rhs.val) as i16 } }
}
impl core::ops::Mul<ri128> for ri16 {
    type Output = ri16;
    #[verifier::external_body]
    fn mul(self, rhs: ri128) -> ri16 { unimplemented!() }
}
impl MulAssignSpecImpl<ri128> for ri16 {
    open spec fn obeys_mul_assign_spec() -> bool { true }
    open spec fn mul_assign_req(&self, rhs: ri128) -> bool { i16::MIN <= self.val * rhs.val <= i16::MAX }
    open spec fn mul_assign_spec(&self, rhs: ri128) -> &ri16 { &ri16 { val: (self.val * rhs.val) as i16 } }
}
impl core::ops::MulAssign<ri128> for ri16 {
    #[verifier::external_body]
    fn mul_assign(&mut self, rhs: ri128) { unimplemented!() }
}

impl DivSpecImpl<ri128> for ri16 {
    open spec fn obeys_div_spec() -> bool { true }
    open spec fn div_req(self, rhs: ri128) -> bool { rhs.val > 0 }
    open spec fn div_spec(self, rhs: ri128) -> ri16 { ri16 { val: (self.val as int / rhs.val as int) as i16 } }
}
impl core::ops::Div<ri128> for ri16 {
    type Output = ri16;
    #[verifier::external_body]
    fn div(self, rhs: ri128) -> ri16 { unimplemented!() }
}
impl RemSpecImpl<ri128> for ri16 {
    open spec fn obeys_rem_spec() -> bool { true }
    open spec fn rem_req(self, rhs: ri128) -> bool { rhs.val > 0 }
    open spec fn rem_spec(self, rhs: ri128) -> ri16 { ri16 { val: (self.val as int % rhs.val as int) as i16 } }
}
impl core::ops::Rem<ri128> for ri16 {
    type Output = ri16;
    #[verifier::external_body]
    fn rem(self, rhs: ri128) -> ri16 { unimplemented!() }
}

impl NegSpecImpl for ri16 {
    open spec fn obeys_neg_spec() -> bool { true }
    open spec fn neg_req(self) -> bool { self.val > i16::MIN }
    open spec fn neg_spec(self) -> ri16 { ri16 { val: (-self.val) as i16 } }
}
impl core::ops::Neg for ri16 {
    type Output = ri16;
    #[verifier::external_body]
    fn neg(self) -> ri16 { unimplemented!() }
}


// ------------------------------------------------------------------ ri32
#[derive(Clone, Copy)]
pub struct ri32 { pub val: i32 }
impl ri32 {
    pub fn new_unchecked(val: i32) -> (r: Self) ensures r.val == val { ri32 { val } }
    pub fn get(self) -> (r: i32) ensures r == self.val { self.val }
    pub fn get_unchecked(self) -> (r: i32) ensures r == self.val { self.val }
    pub fn without_bounds(self) -> (r: Self) ensures r == self { self }
    // `T::N::<VAL>()` is rewritten to `T::verif_N(VAL)`: the constant VAL (release: `Self { val: VAL }`, no bound is consulted).
    // (Not modelled with a const generic: Verus 0.2026.09.13 derives `false` from a negative const generic argument.)
    pub const fn verif_N(v: i32) -> (r: Self) ensures r.val == v { ri32 { val: v } }
    #[verifier::external_body]
    pub fn abs(self) -> (r: Self)
        requires self.val > i32::MIN,
        ensures r.val == (if self.val < 0 { -self.val } else { self.val as int })
    { unimplemented!() }
    // real: returns `riN<-1, 1>` of the SAME width
    pub fn signum(self) -> (r: Self) ensures r.val == (if self.val < 0 { -1int } else if self.val > 0 { 1int } else { 0int })
    { if self.val < 0 { ri32 { val: -1 } } else if self.val > 0 { ri32 { val: 1 } } else { ri32 { val: 0 } } }
    pub fn min<R: RInto<Self>>(self, other: R) -> (r: Self)
        requires other.rinto_req(),
        ensures r.val == (if other.rinto_spec().val < self.val { other.rinto_spec().val } else { self.val })
    { let o = other.rinto(); if o.val < self.val { o } else { self } }
    pub fn max<R: RInto<Self>>(self, other: R) -> (r: Self)
        requires other.rinto_req(),
        ensures r.val == (if other.rinto_spec().val > self.val { other.rinto_spec().val } else { self.val })
    { let o = other.rinto(); if o.val > self.val { o } else { self } }
    // truncating
    #[verifier::external_body]
    pub fn div_ceil<R: RInto<Self>>(self, rhs: R) -> (r: Self)
        requires rhs.rinto_req(), rhs.rinto_spec().val != 0, !(self.val == i32::MIN && rhs.rinto_spec().val == -1),
        ensures r.val == tdiv(self.val as int, rhs.rinto_spec().val as int)
    { unimplemented!() }
    #[verifier::external_body]
    pub fn rem_ceil<R: RInto<Self>>(self, rhs: R) -> (r: Self)
        requires rhs.rinto_req(), rhs.rinto_spec().val != 0, !(self.val == i32::MIN && rhs.rinto_spec().val == -1),
        ensures r.val == trem(self.val as int, rhs.rinto_spec().val as int)
    { unimplemented!() }
    // Euclidean (divisor > 0 required here; every use in jiff divides by a positive quantity)
    #[verifier::external_body]
    pub fn div_floor<R: RInto<Self>>(self, rhs: R) -> (r: Self)
        requires rhs.rinto_req(), rhs.rinto_spec().val > 0,
        ensures r.val == (self.val as int) / (rhs.rinto_spec().val as int)
    { unimplemented!() }
    #[verifier::external_body]
    pub fn rem_floor<R: RInto<Self>>(self, rhs: R) -> (r: Self)
        requires rhs.rinto_req(), rhs.rinto_spec().val > 0,
        ensures r.val == (self.val as int) % (rhs.rinto_spec().val as int)
    { unimplemented!() }
    #[verifier::external_body]
    pub fn saturating_mul<R: RInto<Self>>(self, rhs: R) -> (r: Self)
        requires rhs.rinto_req(),
        ensures i32::MIN <= self.val * rhs.rinto_spec().val <= i32::MAX ==> r.val == self.val * rhs.rinto_spec().val,
                self.val * rhs.rinto_spec().val > i32::MAX ==> r.val == i32::MAX,
                self.val * rhs.rinto_spec().val < i32::MIN ==> r.val == i32::MIN,
    { unimplemented!() }
    #[verifier::external_body]
    pub fn saturating_add<R: RInto<Self>>(self, rhs: R) -> (r: Self)
        requires rhs.rinto_req(),
        ensures i32::MIN <= self.val + rhs.rinto_spec().val <= i32::MAX ==> r.val == self.val + rhs.rinto_spec().val,
                self.val + rhs.rinto_spec().val > i32::MAX ==> r.val == i32::MAX,
                self.val + rhs.rinto_spec().val < i32::MIN ==> r.val == i32::MIN,
    { unimplemented!() }
}
// `type Range = ri32<{ LO }, { HI }>; Range::try_new("what", v)`: the bounds of an anonymous range are passed explicitly
#[verifier::external_body]
pub fn verif_try_new_range_32(lo: i128, hi: i128, v: i64) -> (res: Result<ri32, Error>)
    requires i32::MIN <= lo, hi <= i32::MAX,
    ensures res.is_ok() <==> lo <= v <= hi, res.is_ok() ==> res.unwrap().val == v
{ unimplemented!() }
impl RInto<ri32> for ri32 {
    open spec fn rinto_spec(self) -> ri32 { self }
    open spec fn rinto_req(self) -> bool { true }
    fn rinto(self) -> (r: ri32) { self }
}
impl RFrom<ri32> for ri32 {
    open spec fn rfrom_spec(t: ri32) -> ri32 { t }
    open spec fn rfrom_req(t: ri32) -> bool { true }
    fn rfrom(t: ri32) -> (r: ri32) { t }
}
impl RInto<ri32> for Constant {
    open spec fn rinto_spec(self) -> ri32 { ri32 { val: self.0 as i32 } }
    open spec fn rinto_req(self) -> bool { i32::MIN <= self.0 <= i32::MAX }
    #[verifier::external_body]
    fn rinto(self) -> (r: ri32) { unimplemented!() }
}
impl RFrom<Constant> for ri32 {
    open spec fn rfrom_spec(t: Constant) -> ri32 { ri32 { val: t.0 as i32 } }
    open spec fn rfrom_req(t: Constant) -> bool { i32::MIN <= t.0 <= i32::MAX }
    #[verifier::external_body]
    fn rfrom(t: Constant) -> (r: ri32) { unimplemented!() }
}
impl RInto<i32> for ri32 {
    open spec fn rinto_spec(self) -> i32 { self.val }
    open spec fn rinto_req(self) -> bool { true }
    fn rinto(self) -> (r: i32) { self.val }
}

impl PartialEqSpecImpl<ri32> for ri32 {
    open spec fn obeys_eq_spec() -> bool { true }
    open spec fn eq_spec(&self, other: &ri32) -> bool { self.val == other.val }
}
impl PartialEq<ri32> for ri32 {
    #[verifier::external_body]
    fn eq(&self, other: &ri32) -> bool { unimplemented!() }
}
impl PartialOrdSpecImpl<ri32> for ri32 {
    open spec fn obeys_partial_cmp_spec() -> bool { true }
    open spec fn partial_cmp_spec(&self, other: &ri32) -> Option<Ordering> { Some(int_cmp(self.val as int, other.val as int)) }
}
impl PartialOrd<ri32> for ri32 {
    #[verifier::external_body]
    fn partial_cmp(&self, other: &ri32) -> Option<Ordering> { unimplemented!() }
}

impl PartialEqSpecImpl<Constant> for ri32 {
    open spec fn obeys_eq_spec() -> bool { true }
    open spec fn eq_spec(&self, other: &Constant) -> bool { self.val == other.0 }
}
impl PartialEq<Constant> for ri32 {
    #[verifier::external_body]
    fn eq(&self, other: &Constant) -> bool { unimplemented!() }
}
impl PartialOrdSpecImpl<Constant> for ri32 {
    open spec fn obeys_partial_cmp_spec() -> bool { true }
    open spec fn partial_cmp_spec(&self, other: &Constant) -> Option<Ordering> { Some(int_cmp(self.val as int, other.0 as int)) }
}
impl PartialOrd<Constant> for ri32 {
    #[verifier::external_body]
    fn partial_cmp(&self, other: &Constant) -> Option<Ordering> { unimplemented!() }
}

impl PartialEqSpecImpl<ri8> for ri32 {
    open spec fn obeys_eq_spec() -> bool { true }
    open spec fn eq_spec(&self, other: &ri8) -> bool { self.val == other.val }
}
impl PartialEq<ri8> for ri32 {
    #[verifier::external_body]
    fn eq(&self, other: &ri8) -> bool { unimplemented!() }
}
impl PartialOrdSpecImpl<ri8> for ri32 {
    open spec fn obeys_partial_cmp_spec() -> bool { true }
    open spec fn partial_cmp_spec(&self, other: &ri8) -> Option<Ordering> { Some(int_cmp(self.val as int, other.val as int)) }
}
impl PartialOrd<ri8> for ri32 {
    #[verifier::external_body]
    fn partial_cmp(&self, other: &ri8) -> Option<Ordering> { unimplemented!() }
}

impl PartialEqSpecImpl<ri16> for ri32 {
    open spec fn obeys_eq_spec() -> bool { true }
    open spec fn eq_spec(&self, other: &ri16) -> bool { self.val == other.val }
}
impl PartialEq<ri16> for ri32 {
    #[verifier::external_body]
    fn eq(&self, other: &ri16) -> bool { unimplemented!() }
}
impl PartialOrdSpecImpl<ri16> for ri32 {
    open spec fn obeys_partial_cmp_spec() -> bool { true }
    open spec fn partial_cmp_spec(&self, other: &ri16) -> Option<Ordering> { Some(int_cmp(self.val as int, other.val as int)) }
}
impl PartialOrd<ri16> for ri32 {
    #[verifier::external_body]
    fn partial_cmp(&self, other: &ri16) -> Option<Ordering> { unimplemented!() }
}

impl PartialEqSpecImpl<ri64> for ri32 {
    open spec fn obeys_eq_spec() -> bool { true }
    open spec fn eq_spec(&self, other: &ri64) -> bool { self.val == other.val }
}
impl PartialEq<ri64> for ri32 {
    #[verifier::external_body]
    fn eq(&self, other: &ri64) -> bool { unimplemented!() }
}
impl PartialOrdSpecImpl<ri64> for ri32 {
    open spec fn obeys_partial_cmp_spec() -> bool { true }
    open spec fn partial_cmp_spec(&self, other: &ri64) -> Option<Ordering> { Some(int_cmp(self.val as int, other.val as int)) }
}
impl PartialOrd<ri64> for ri32 {
    #[verifier::external_body]
    fn partial_cmp(&self, other: &ri64) -> Option<Ordering> { unimplemented!() }
}

impl PartialEqSpecImpl<ri128> for ri32 {
    open spec fn obeys_eq_spec() -> bool { true }
    open spec fn eq_spec(&self, other: &ri128) -> bool { self.val == other.val }
}
impl PartialEq<ri128> for ri32 {
    #[verifier::external_body]
    fn eq(&self, other: &ri128) -> bool { unimplemented!() }
}
impl PartialOrdSpecImpl<ri128> for ri32 {
    open spec fn obeys_partial_cmp_spec() -> bool { true }
    open spec fn partial_cmp_spec(&self, other: &ri128) -> Option<Ordering> { Some(int_cmp(self.val as int, other.val as int)) }
}
impl PartialOrd<ri128> for ri32 {
    #[verifier::external_body]
    fn partial_cmp(&self, other: &ri128) -> Option<Ordering> { unimplemented!() }
}

impl AddSpecImpl<ri32> for ri32 {
    open spec fn obeys_add_spec() -> bool { true }
    open spec fn add_req(self, rhs: ri32) -> bool { i32::MIN <= self.val + rhs.val <= i32::MAX }
    open spec fn add_spec(self, rhs: ri32) -> ri32 { ri32 { val: (self.val + rhs.val) as i32 } }
}
impl core::ops::Add<ri32> for ri32 {
    type Output = ri32;
    #[verifier::external_body]
    fn add(self, rhs: ri32) -> ri32 { unimplemented!() }
}
impl AddAssignSpecImpl<ri32> for ri32 {
    open spec fn obeys_add_assign_spec() -> bool { true }
    open spec fn add_assign_req(&self, rhs: ri32) -> bool { i32::MIN <= self.val + rhs.val <= i32::MAX }
    open spec fn add_assign_spec(&self, rhs: ri32) -> &ri32 { &ri32 { val: (self.val + rhs.val) as i32 } }
}
impl core::ops::AddAssign<ri32> for ri32 {
    #[verifier::external_body]
    fn add_assign(&mut self, rhs: ri32) { unimplemented!() }
}

impl SubSpecImpl<ri32> for ri32 {
    open spec fn obeys_sub_spec() -> bool { true }
    open spec fn sub_req(self, rhs: ri32) -> bool { i32::MIN <= self.val - rhs.val <= i32::MAX }
    open spec fn sub_spec(self, rhs: ri32) -> ri32 { ri32 { val: (self.val - rhs.val) as i32 } }
}
impl core::ops::Sub<ri32> for ri32 {
    type Output = ri32;
    #[verifier::external_body]
    fn sub(self, rhs: ri32) -> ri32 { unimplemented!() }
}
impl SubAssignSpecImpl<ri32> for ri32 {
    open spec fn obeys_sub_assign_spec() -> bool { true }
    open spec fn sub_assign_req(&self, rhs: ri32) -> bool { i32::MIN <= self.val - rhs.val <= i32::MAX }
    open spec fn sub_assign_spec(&self, rhs: ri32) -> &ri32 { &ri32 { val: (self.val - rhs.val) as i32 } }
}
impl core::ops::SubAssign<ri32> for ri32 {
    #[verifier::external_body]
    fn sub_assign(&mut self, rhs: ri32) { unimplemented!() }
}

impl MulSpecImpl<ri32> for ri32 {
    open spec fn obeys_mul_spec() -> bool { true }
    open spec fn mul_req(self, rhs: ri32) -> bool { i32::MIN <= self.val * rhs.val <= i32::MAX }
    open spec fn mul_spec(self, rhs: ri32) -> ri32 { ri32 { val: (self.val * rhs.val) as i32 } }
}
impl core::ops::Mul<ri32> for ri32 {
    type Output = ri32;
    #[verifier::external_body]
    fn mul(self, rhs: ri32) -> ri32 { unimplemented!() }
}
impl MulAssignSpecImpl<ri32> for ri32 {
    open spec fn obeys_mul_assign_spec() -> bool { true }
    open spec fn mul_assign_req(&self, rhs: ri32) -> bool { i32::MIN <= self.val * rhs.val <= i32::MAX }
    open spec fn mul_assign_spec(&self, rhs: ri32) -> &ri32 { &ri32 { val: (self.val * rhs.val) as i32 } }
}
impl core::ops::MulAssign<ri32> for ri32 {
    #[verifier::external_body]
    fn mul_assign(&mut self, rhs: ri32) { unimplemented!() }
}

impl DivSpecImpl<ri32> for ri32 {
    open spec fn obeys_div_spec() -> bool { true }
    open spec fn div_req(self, rhs: ri32) -> bool { rhs.val > 0 }
    open spec fn div_spec(self, rhs: ri32) -> ri32 { ri32 { val: (self.val as int / rhs.val as int) as i32 } }
}
impl core::ops::Div<ri32> for ri32 {
    type Output = ri32;
    #[verifier::external_body]
    fn div(self, rhs: ri32) -> ri32 { unimplemented!() }
}
impl RemSpecImpl<ri32> for ri32 {
    open spec fn obeys_rem_spec() -> bool { true }
    open spec fn rem_req(self, rhs: ri32) -> bool { rhs.val > 0 }
    open spec fn rem_spec(self, rhs: ri32) -> ri32 { ri32 { val: (self.val as int % rhs.val as int) as i32 } }
}
impl core::ops::Rem<ri32> for ri32 {
    type Output = ri32;
    #[verifier::external_body]
    fn rem(self, rhs: ri32) -> ri32 { unimplemented!() }
}

impl AddSpecImpl<Constant> for ri32 {
    open spec fn obeys_add_spec() -> bool { true }
    open spec fn add_req(self, rhs: Constant) -> bool { i32::MIN <= self.val + rhs.0 <= i32::MAX }
    open spec fn add_spec(self, rhs: Constant) -> ri32 { ri32 { val: (self.val + rhs.0) as i32 } }
}
impl core::ops::Add<Constant> for ri32 {
    type Output = ri32;
    #[verifier::external_body]
    fn add(self, rhs: Constant) -> ri32 { unimplemented!() }
}
impl AddAssignSpecImpl<Constant> for ri32 {
    open spec fn obeys_add_assign_spec() -> bool { true }
    open spec fn add_assign_req(&self, rhs: Constant) -> bool { i32::MIN <= self.val + rhs.0 <= i32::MAX }
    open spec fn add_assign_spec(&self, rhs: Constant) -> &ri32 { &ri32 { val: (self.val + rhs.0) as i32 } }
}
impl core::ops::AddAssign<Constant> for ri32 {
    #[verifier::external_body]
    fn add_assign(&mut self, rhs: Constant) { unimplemented!() }
}

impl SubSpecImpl<Constant> for ri32 {
    open spec fn obeys_sub_spec() -> bool { true }
    open spec fn sub_req(self, rhs: Constant) -> bool { i32::MIN <= self.val - rhs.0 <= i32::MAX }
    open spec fn sub_spec(self, rhs: Constant) -> ri32 { ri32 { val: (self.val - rhs.0) as i32 } }
}
impl core::ops::Sub<Constant> for ri32 {
    type Output = ri32;
    #[verifier::external_body]
    fn sub(self, rhs: Constant) -> ri32 { unimplemented!() }
}
impl SubAssignSpecImpl<Constant> for ri32 {
    open spec fn obeys_sub_assign_spec() -> bool { true }
    open spec fn sub_assign_req(&self, rhs: Constant) -> bool { i32::MIN <= self.val - rhs.0 <= i32::MAX }
    open spec fn sub_assign_spec(&self, rhs: Constant) -> &ri32 { &ri32 { val: (self.val - rhs.0) as i32 } }
}
impl core::ops::SubAssign<Constant> for ri32 {
    #[verifier::external_body]
    fn sub_assign(&mut self, rhs: Constant) { unimplemented!() }
}

impl MulSpecImpl<Constant> for ri32 {
    open spec fn obeys_mul_spec() -> bool { true }
    open spec fn mul_req(self, rhs: Constant) -> bool { i32::MIN <= self.val * rhs.0 <= i32::MAX }
    open spec fn mul_spec(self, rhs: Constant) -> ri32 { ri32 { val: (self.val * rhs.0) as i32 } }
}
impl core::ops::Mul<Constant> for ri32 {
    type Output = ri32;
    #[verifier::external_body]
    fn mul(self, rhs: Constant) -> ri32 { unimplemented!() }
}
impl MulAssignSpecImpl<Constant> for ri32 {
    open spec fn obeys_mul_assign_spec() -> bool { true }
    open spec fn mul_assign_req(&self, rhs: Constant) -> bool { i32::MIN <= self.val * rhs.0 <= i32::MAX }
    open spec fn mul_assign_spec(&self, rhs: Constant) -> &ri32 { &ri32 { val: (self.val * rhs.0) as i32 } }
}
impl core::ops::MulAssign<Constant> for ri32 {
    #[verifier::external_body]
    fn mul_assign(&mut self, rhs: Constant) { unimplemented!() }
}

impl DivSpecImpl<Constant> for ri32 {
    open spec fn obeys_div_spec() -> bool { true }
    open spec fn div_req(self, rhs: Constant) -> bool { rhs.0 > 0 }
    open spec fn div_spec(self, rhs: Constant) -> ri32 { ri32 { val: (self.val as int / rhs.0 as int) as i32 } }
}
impl core::ops::Div<Constant> for ri32 {
    type Output = ri32;
    #[verifier::external_body]
    fn div(self, rhs: Constant) -> ri32 { unimplemented!() }
}
impl RemSpecImpl<Constant> for ri32 {
    open spec fn obeys_rem_spec() -> bool { true }
    open spec fn rem_req(self, rhs: Constant) -> bool { rhs.0 > 0 }
    open spec fn rem_spec(self, rhs: Constant) -> ri32 { ri32 { val: (self.val as int % rhs.0 as int) as i32 } }
}
impl core::ops::Rem<Constant> for ri32 {
    type Output = ri32;
    #[verifier::external_body]
    fn rem(self, rhs: Constant) -> ri32 { unimplemented!() }
}

impl AddSpecImpl<ri8> for ri32 {
    open spec fn obeys_add_spec() -> bool { true }
    open spec fn add_req(self, rhs: ri8) -> bool { i32::MIN <= self.val + rhs.val <= i32::MAX }
    open spec fn add_spec(self, rhs: ri8) -> ri32 { ri32 { val: (self.val + rhs.val) as i32 } }
}
impl core::ops::Add<ri8> for ri32 {
    type Output = ri32;
    #[verifier::external_body]
    fn add(self, rhs: ri8) -> ri32 { unimplemented!() }
}
impl AddAssignSpecImpl<ri8> for ri32 {
    open spec fn obeys_add_assign_spec() -> bool { true }
    open spec fn add_assign_req(&self, rhs: ri8) -> bool { i32::MIN <= self.val + rhs.val <= i32::MAX }
    open spec fn add_assign_spec(&self, rhs: ri8) -> &ri32 { &ri32 { val: (self.val + rhs.val) as i32 } }
}
impl core::ops::AddAssign<ri8> for ri32 {
    #[verifier::external_body]
    fn add_assign(&mut self, rhs: ri8) { unimplemented!() }
}

impl SubSpecImpl<ri8> for ri32 {
    open spec fn obeys_sub_spec() -> bool { true }
    open spec fn sub_req(self, rhs: ri8) -> bool { i32::MIN <= self.val - rhs.val <= i32::MAX }
    open spec fn sub_spec(self, rhs: ri8) -> ri32 { ri32 { val: (self.val - rhs.val) as i32 } }
}
impl core::ops::Sub<ri8> for ri32 {
    type Output = ri32;
    #[verifier::external_body]
    fn sub(self, rhs: ri8) -> ri32 { unimplemented!() }
}
impl SubAssignSpecImpl<ri8> for ri32 {
    open spec fn obeys_sub_assign_spec() -> bool { true }
    open spec fn sub_assign_req(&self, rhs: ri8) -> bool { i32::MIN <= self.val - rhs.val <= i32::MAX }
    open spec fn sub_assign_spec(&self, rhs: ri8) -> &ri32 { &ri32 { val: (self.val - rhs.val) as i32 } }
}
impl core::ops::SubAssign<ri8> for ri32 {
    #[verifier::external_body]
    fn sub_assign(&mut self, rhs: ri8) { unimplemented!() }
}

impl MulSpecImpl<ri8> for ri32 {
    open spec fn obeys_mul_spec() -> bool { true }
    open spec fn mul_req(self, rhs: ri8) -> bool { i32::MIN <= self.val * rhs.val <= i32::MAX }
    open spec fn mul_spec(self, rhs: ri8) -> ri32 { ri32 { val: (self.val * rhs.val) as i32 } }
}
impl core::ops::Mul<ri8> for ri32 {
    type Output = ri32;
    #[verifier::external_body]
    fn mul(self, rhs: ri8) -> ri32 { unimplemented!() }
}
impl MulAssignSpecImpl<ri8> for ri32 {
    open spec fn obeys_mul_assign_spec() -> bool { true }
    open spec fn mul_assign_req(&self, rhs: ri8) -> bool { i32::MIN <= self.val * rhs.val <= i32::MAX }
    open spec fn mul_assign_spec(&self, rhs: ri8) -> &ri32 { &ri32 { val: (self.val * rhs.val) as i32 } }
}
impl core::ops::MulAssign<ri8> for ri32 {
    #[verifier::external_body]
    fn mul_assign(&mut self, rhs: ri8) { unimplemented!() }
}

impl DivSpecImpl<ri8> for ri32 {
    open spec fn obeys_div_spec() -> bool { true }
    open spec fn div_req(self, rhs: ri8) -> bool { rhs.val > 0 }
    open spec fn div_spec(self, rhs: ri8) -> ri32 { ri32 { val: (self.val as int / rhs.val as int) as i32 } }
}
impl core::ops::Div<ri8> for ri32 {
    type Output = ri32;
    #[verifier::external_body]
    fn div(self, rhs: ri8) -> ri32 { unimplemented!() }
}
impl RemSpecImpl<ri8> for ri32 {
    open spec fn obeys_rem_spec() -> bool { true }
    open spec fn rem_req(self, rhs: ri8) -> bool { rhs.val > 0 }
    open spec fn rem_spec(self, rhs: ri8) -> ri32 { ri32 { val: (self.val as int % rhs.val as int) as i32 } }
}
impl core::ops::Rem<ri8> for ri32 {
    type Output = ri32;
    #[verifier::external_body]
    fn rem(self, rhs: ri8) -> ri32 { unimplemented!() }
}

impl AddSpecImpl<ri16> for ri32 {
    open spec fn obeys_add_spec() -> bool { true }
    open spec fn add_req(self, rhs: ri16) -> bool { i32::MIN <= self.val + rhs.val <= i32::MAX }
    open spec fn add_spec(self, rhs: ri16) -> ri32 { ri32 { val: (self.val + rhs.val) as i32 } }
}
impl core::ops::Add<ri16> for ri32 {
    type Output = ri32;
    #[verifier::external_body]
    fn add(self, rhs: ri16) -> ri32 { unimplemented!() }
}
impl AddAssignSpecImpl<ri16> for ri32 {
    open spec fn obeys_add_assign_spec() -> bool { true }
    open spec fn add_assign_req(&self, rhs: ri16) -> bool { i32::MIN <= self.val + rhs.val <= i32::MAX }
    open spec fn add_assign_spec(&self, rhs: ri16) -> &ri32 { &ri32 { val: (self.val + rhs.val) as i32 } }
}
impl core::ops::AddAssign<ri16> for ri32 {
    #[verifier::external_body]
    fn add_assign(&mut self, rhs: ri16) { unimplemented!() }
}

impl SubSpecImpl<ri16> for ri32 {
    open spec fn obeys_sub_spec() -> bool { true }
    open spec fn sub_req(self, rhs: ri16) -> bool { i32::MIN <= self.val - rhs.val <= i32::MAX }
    open spec fn sub_spec(self, rhs: ri16) -> ri32 { ri32 { val: (self.val - rhs.val) as i32 } }
}
impl core::ops::Sub<ri16> for ri32 {
    type Output = ri32;
    #[verifier::external_body]
    fn sub(self, rhs: ri16) -> ri32 { unimplemented!() }
}
impl SubAssignSpecImpl<ri16> for ri32 {
    open spec fn obeys_sub_assign_spec() -> bool { true }
    open spec fn sub_assign_req(&self, rhs: ri16) -> bool { i32::MIN <= self.val - rhs.val <= i32::MAX }
    open spec fn sub_assign_spec(&self, rhs: ri16) -> &ri32 { &ri32 { val: (self.val - rhs.val) as i32 } }
}
impl core::ops::SubAssign<ri16> for ri32 {
    #[verifier::external_body]
    fn sub_assign(&mut self, rhs: ri16) { unimplemented!() }
}

impl MulSpecImpl<ri16> for ri32 {
    open spec fn obeys_mul_spec() -> bool { true }
    open spec fn mul_req(self, rhs: ri16) -> bool { i32::MIN <= self.val * rhs.val <= i32::MAX }
    open spec fn mul_spec(self, rhs: ri16) -> ri32 { ri32 { val: (self.val * rhs.val) as i32 } }
}
impl core::ops::Mul<ri16> for ri32 {
    type Output = ri32;
    #[verifier::external_body]
    fn mul(self, rhs: ri16) -> ri32 { unimplemented!() }
}
impl MulAssignSpecImpl<ri16> for ri32 {
    open spec fn obeys_mul_assign_spec() -> bool { true }
    open spec fn mul_assign_req(&self, rhs: ri16) -> bool { i32::MIN <= self.val * rhs.val <= i32::MAX }
    open spec fn mul_assign_spec(&self, rhs: ri16) -> &ri32 { &ri32 { val: (self.val * rhs.val) as i32 } }
}
impl core::ops::MulAssign<ri16> for ri32 {
    #[verifier::external_body]
    fn mul_assign(&mut self, rhs: ri16) { unimplemented!() }
}

impl DivSpecImpl<ri16> for ri32 {
    open spec fn obeys_div_spec() -> bool { true }
    open spec fn div_req(self, rhs: ri16) -> bool { rhs.val > 0 }
    open spec fn div_spec(self, rhs: ri16) -> ri32 { ri32 { val: (self.val as int / rhs.val as int) as i32 } }
}
impl core::ops::Div<ri16> for ri32 {
    type Output = ri32;
    #[verifier::external_body]
    fn div(self, rhs: ri16) -> ri32 { unimplemented!() }
}
impl RemSpecImpl<ri16> for ri32 {
    open spec fn obeys_rem_spec() -> bool { true }
    open spec fn rem_req(self, rhs: ri16) -> bool { rhs.val > 0 }
    open spec fn rem_spec(self, rhs: ri16) -> ri32 { ri32 { val: (self.val as int % rhs.val as int) as i32 } }
}
impl core::ops::Rem<ri16> for ri32 {
    type Output = ri32;
    #[verifier::external_body]
    fn rem(self, rhs: ri16) -> ri32 { unimplemented!() }
}

impl AddSpecImpl<ri64> for ri32 {
    open spec fn obeys_add_spec() -> bool { true }
    open spec fn add_req(self, rhs: ri64) -> bool { i32::MIN <= self.val + rhs.val <= i32::MAX }
    open spec fn add_spec(self, rhs: ri64) -> ri32 { ri32 { val: (self.val + rhs.val) as i32 } }
}
impl core::ops::Add<ri64> for ri32 {
    type Output = ri32;
    #[verifier::external_body]
    fn add(self, rhs: ri64) -> ri32 { unimplemented!() }
}
impl AddAssignSpecImpl<ri64> for ri32 {
    open spec fn obeys_add_assign_spec() -> bool { true }
    open spec fn add_assign_req(&self, rhs: ri64) -> bool { i32::MIN <= self.val + rhs.val <= i32::MAX }
    open spec fn add_assign_spec(&self, rhs: ri64) -> &ri32 { &ri32 { val: (self.val + rhs.val) as i32 } }
}
impl core::ops::AddAssign<ri64> for ri32 {
    #[verifier::external_body]
    fn add_assign(&mut self, rhs: ri64) { unimplemented!() }
}

impl SubSpecImpl<ri64> for ri32 {
    open spec fn obeys_sub_spec() -> bool { true }
    open spec fn sub_req(self, rhs: ri64) -> bool { i32::MIN <= self.val - rhs.val <= i32::MAX }
    open spec fn sub_spec(self, rhs: ri64) -> ri32 { ri32 { val: (self.val - rhs.val) as i32 } }
}
impl core::ops::Sub<ri64> for ri32 {
    type Output = ri32;
    #[verifier::external_body]
    fn sub(self, rhs: ri64) -> ri32 { unimplemented!() }
}
impl SubAssignSpecImpl<ri64> for ri32 {
    open spec fn obeys_sub_assign_spec() -> bool { true }
    open spec fn sub_assign_req(&self, rhs: ri64) -> bool { i32::MIN <= self.val - rhs.val <= i32::MAX }
    open spec fn sub_assign_spec(&self, rhs: ri64) -> &ri32 { &ri32 { val: (self.val - rhs.val) as i32 } }
}
impl core::ops::SubAssign<ri64> for ri32 {
    #[verifier::external_body]
    fn sub_assign(&mut self, rhs: ri64) { unimplemented!() }
}

impl MulSpecImpl<ri64> for ri32 {
    open spec fn obeys_mul_spec() -> bool { true }
    open spec fn mul_req(self, rhs: ri64) -> bool { i32::MIN <= self.val * rhs.val <= i32::MAX }
    open spec fn mul_spec(self, rhs: ri64) -> ri32 { ri32 { val: (self.val * rhs.val) as i32 } }
}
impl core::ops::Mul<ri64> for ri32 {
    type Output = ri32;
    #[verifier::external_body]
    fn mul(self, rhs: ri64) -> ri32 { unimplemented!() }
}
impl MulAssignSpecImpl<ri64> for ri32 {
    open spec fn obeys_mul_assign_spec() -> bool { true }
    open spec fn mul_assign_req(&self, rhs: ri64) -> bool { i32::MIN <= self.val * rhs.val <= i32::MAX }
    open spec fn mul_assign_spec(&self, rhs: ri64) -> &ri32 { &ri32 { val: (self.val * rhs.val) as i32 } }
}
impl core::ops::MulAssign<ri64> for ri32 {
    #[verifier::external_body]
    fn mul_assign(&mut self, rhs: ri64) { unimplemented!() }
}

impl DivSpecImpl<ri64> for ri32 {
    open spec fn obeys_div_spec() -> bool { true }
    open spec fn div_req(self, rhs: ri64) -> bool { rhs.val > 0 }
    open spec fn div_spec(self, rhs: ri64) -> ri32 { ri32 { val: (self.val as int / rhs.val as int) as i32 } }
}
impl core::ops::Div<ri64> for ri32 {
    type Output = ri32;
    #[verifier::external_body]
    fn div(self, rhs: ri64) -> ri32 { unimplemented!() }
}
impl RemSpecImpl<ri64> for ri32 {
    open spec fn obeys_rem_spec() -> bool { true }
    open spec fn rem_req(self, rhs: ri64) -> bool { rhs.val > 0 }
    open spec fn rem_spec(self, rhs: ri64) -> ri32 { ri32 { val: (self.val as int % rhs.val as int) as i32 } }
}
impl core::ops::Rem<ri64> for ri32 {
    type Output = ri32;
    #[verifier::external_body]
    fn rem(self, rhs: ri64) -> ri32 { unimplemented!() }
}

impl AddSpecImpl<ri128> for ri32 {
    open spec fn obeys_add_spec() -> bool { true }
    open spec fn add_req(self, rhs: ri128) -> bool { i32::MIN <= self.val + rhs.val <= i32::MAX }
    open spec fn add_spec(self, rhs: ri128) -> ri32 { ri32 { val: (self.val + rhs.val) as i32 } }
}
impl core::ops::Add<ri128> for ri32 {
    type Output = ri32;
    #[verifier::external_body]
    fn add(self, rhs: ri128) -> ri32 { unimplemented!() }
}
impl AddAssignSpecImpl<ri128> for ri32 {
    open spec fn obeys_add_assign_spec() -> bool { true }
    open spec fn add_assign_req(&self, rhs: ri128) -> bool { i32::MIN <= self.val + rhs.val <= i32::MAX }
    open spec fn add_assign_spec(&self, rhs: ri128) -> &ri32 { &ri32 { val: (self.val + rhs.val) as i32 } }
}
impl core::ops::AddAssign<ri128> for ri32 {
    #[verifier::external_body]
    fn add_assign(&mut self, rhs: ri128) { unimplemented!() }
}

impl SubSpecImpl<ri128> for ri32 {
    open spec fn obeys_sub_spec() -> bool { true }
    open spec fn sub_req(self, rhs: ri128) -> bool { i32::MIN <= self.val - rhs.val <= i32::MAX }
    open spec fn sub_spec(self, rhs: ri128) -> ri32 { ri32 { val: (self.val - rhs.val) as i32 } }
}
impl core::ops::Sub<ri128> for ri32 {
    type Output = ri32;
    #[verifier::external_body]
    fn sub(self, rhs: ri128) -> ri32 { unimplemented!() }
}
impl SubAssignSpecImpl<ri128> for ri32 {
    open spec fn obeys_sub_assign_spec() -> bool { true }
    open spec fn sub_assign_req(&self, rhs: ri128) -> bool { i32::MIN <= self.val - rhs.val <= i32::MAX }
    open spec fn sub_assign_spec(&self, rhs: ri128) -> &ri32 { &ri32 { val: (self.val - rhs.val) as i32 } }
}
impl core::ops::SubAssign<ri128> for ri32 {
    #[verifier::external_body]
    fn sub_assign(&mut self, rhs: ri128) { unimplemented!() }
}

impl MulSpecImpl<ri128> for ri32 {
    open spec fn obeys_mul_spec() -> bool { true }
    open spec fn mul_req(self, rhs: ri128) -> bool { i32::MIN <= self.val * rhs.val <= i32::MAX }
    open spec fn mul_spec(self, rhs: ri128) -> ri32 { ri32 { val: (self.val * rhs.val) as i32 } }
}
impl core::ops::Mul<ri128> for ri32 {
    type Output = ri32;
    #[verifier::external_body]
    fn mul(self, rhs: ri128) -> ri32 { unimplemented!() }
}
impl MulAssignSpecImpl<ri128> for ri32 {
    open spec fn obeys_mul_assign_spec() -> bool { true }
    open spec fn mul_assign_req(&self, rhs: ri128) -> bool { i32::MIN <= self.val * rhs.val <= i32::MAX }
    open spec fn mul_assign_spec(&self, rhs: ri128) -> &ri32 { &ri32 { val: (self.val * rhs.val) as i32 } }
}
impl core::ops::MulAssign<ri128> for ri32 {
    #[verifier::external_body]
    fn mul_assign(&mut self, rhs: ri128) { unimplemented!() }
}

impl DivSpecImpl<ri128> for ri32 {
    open spec fn obeys_div_spec() -> bool { true }
    open spec fn div_req(self, rhs: ri128) -> bool { rhs.val > 0 }
    open spec fn div_spec(self, rhs: ri128) -> ri32 { ri32 { val: (self.val as int / rhs.val as int) as i32 } }
}
impl core::ops::Div<ri128> for ri32 {
    type Output = ri32;
    #[verifier::external_body]
    fn div(self, rhs: ri128) -> ri32 { unimplemented!() }
}
impl RemSpecImpl<ri128> for ri32 {
    open spec fn obeys_rem_spec() -> bool { true }
    open spec fn rem_req(self, rhs: ri128) -> bool { rhs.val > 0 }
    open spec fn rem_spec(self, rhs: ri128) -> ri32 { ri32 { val: (self.val as int % rhs.val as int) as i32 } }
}
impl core::ops::Rem<ri128> for ri32 {
    type Output = ri32;
    #[verifier::external_body]
    fn rem(self, rhs: ri128) -> ri32 { unimplemented!() }
}

impl NegSpecImpl for ri32 {
    open spec fn obeys_neg_spec() -> bool { true }
    open spec fn neg_req(self) -> bool { self.val > i32::MIN }
    open spec fn neg_spec(self) -> ri32 { ri32 { val: (-self.val) as i32 } }
}
impl core::ops::Neg for ri32 {
    type Output = ri32;
    #[verifier::external_body]
    fn neg(self) -> ri32 { unimplemented!() }
}


// ------------------------------------------------------------------ ri64
#[derive(Clone, Copy)]
pub struct ri64 { pub val: i64 }
impl ri64 {
    pub fn new_unchecked(val: i64) -> (r: Self) ensures r.val == val { ri64 { val } }
    pub fn get(self) -> (r: i64) ensures r == self.val { self.val }
    pub fn get_unchecked(self) -> (r: i64) ensures r == self.val { self.val }
    pub fn without_bounds(self) -> (r: Self) ensures r == self { self }
    // `T::N::<VAL>()` is rewritten to `T::verif_N(VAL)`: the constant VAL (release: `Self { val: VAL }`, no bound is consulted).
    // (Not modelled with a const generic: Verus 0.2026.09.13 derives `false` from a negative const generic argument.)
    pub const fn verif_N(v: i64) -> (r: Self) ensures r.val == v { ri64 { val: v } }
    #[verifier::external_body]
    pub fn abs(self) -> (r: Self)
        requires self.val > i64::MIN,
        ensures r.val == (if self.val < 0 { -self.val } else { self.val as int })
    { unimplemented!() }
    // real: returns `riN<-1, 1>` of the SAME width
    pub fn signum(self) -> (r: Self) ensures r.val == (if self.val < 0 { -1int } else if self.val > 0 { 1int } else { 0int })
    { if self.val < 0 { ri64 { val: -1 } } else if self.val > 0 { ri64 { val: 1 } } else { ri64 { val: 0 } } }
    pub fn min<R: RInto<Self>>(self, other: R) -> (r: Self)
        requires other.rinto_req(),
        ensures r.val == (if other.rinto_spec().val < self.val { other.rinto_spec().val } else { self.val })
    { let o = other.rinto(); if o.val < self.val { o } else { self } }
    pub fn max<R: RInto<Self>>(self, other: R) -> (r: Self)
        requires other.rinto_req(),
        ensures r.val == (if other.rinto_spec().val > self.val { other.rinto_spec().val } else { self.val })
    { let o = other.rinto(); if o.val > self.val { o } else { self } }
    // truncating
    #[verifier::external_body]
    pub fn div_ceil<R: RInto<Self>>(self, rhs: R) -> (r: Self)
        requires rhs.rinto_req(), rhs.rinto_spec().val != 0, !(self.val == i64::MIN && rhs.rinto_spec().val == -1),
        ensures r.val == tdiv(self.val as int, rhs.rinto_spec().val as int)
    { unimplemented!() }
    #[verifier::external_body]
    pub fn rem_ceil<R: RInto<Self>>(self, rhs: R) -> (r: Self)
        requires rhs.rinto_req(), rhs.rinto_spec().val != 0, !(self.val == i64::MIN && rhs.rinto_spec().val == -1),
        ensures r.val == trem(self.val as int, rhs.rinto_spec().val as int)
    { unimplemented!() }
    // Euclidean (divisor > 0 required here; every use in jiff divides by a positive quantity)
    #[verifier::external_body]
    pub fn div_floor<R: RInto<Self>>(self, rhs: R) -> (r: Self)
        requires rhs.rinto_req(), rhs.rinto_spec().val > 0,
        ensures r.val == (self.val as int) / (rhs.rinto_spec().val as int)
    { unimplemented!() }
    #[verifier::external_body]
    pub fn rem_floor<R: RInto<Self>>(self, rhs: R) -> (r: Self)
        requires rhs.rinto_req(), rhs.rinto_spec().val > 0,
        ensures r.val == (self.val as int) % (rhs.rinto_spec().val as int)
    { unimplemented!() }
    #[verifier::external_body]
    pub fn saturating_mul<R: RInto<Self>>(self, rhs: R) -> (r: Self)
        requires rhs.rinto_req(),
        ensures i64::MIN <= self.val * rhs.rinto_spec().val <= i64::MAX ==> r.val == self.val * rhs.rinto_spec().val,
                self.val * rhs.rinto_spec().val > i64::MAX ==> r.val == i64::MAX,
                self.val * rhs.rinto_spec().val < i64::MIN ==> r.val == i64::MIN,
    { unimplemented!() }
    #[verifier::external_body]
    pub fn saturating_add<R: RInto<Self>>(self, rhs: R) -> (r: Self)
        requires rhs.rinto_req(),
        ensures i64::MIN <= self.val + rhs.rinto_spec().val <= i64::MAX ==> r.val == self.val + rhs.rinto_spec().val,
                self.val + rhs.rinto_spec().val > i64::MAX ==> r.val == i64::MAX,
                self.val + rhs.rinto_spec().val < i64::MIN ==> r.val == i64::MIN,
    { unimplemented!() }
}
// `type Range = ri64<{ LO }, { HI }>; Range::try_new("what", v)`: the bounds of an anonymous range are passed explicitly
#[verifier::external_body]
pub fn verif_try_new_range_64(lo: i128, hi: i128, v: i64) -> (res: Result<ri64, Error>)
    requires i64::MIN <= lo, hi <= i64::MAX,
    ensures res.is_ok() <==> lo <= v <= hi, res.is_ok() ==> res.unwrap().val == v
{ unimplemented!() }
impl RInto<ri64> for ri64 {
    open spec fn rinto_spec(self) -> ri64 { self }
    open spec fn rinto_req(self) -> bool { true }
    fn rinto(self) -> (r: ri64) { self }
}
impl RFrom<ri64> for ri64 {
    open spec fn rfrom_spec(t: ri64) -> ri64 { t }
    open spec fn rfrom_req(t: ri64) -> bool { true }
    fn rfrom(t: ri64) -> (r: ri64) { t }
}
impl RInto<ri64> for Constant {
    open spec fn rinto_spec(self) -> ri64 { ri64 { val: self.0 as i64 } }
    open spec fn rinto_req(self) -> bool { i64::MIN <= self.0 <= i64::MAX }
    #[verifier::external_body]
    fn rinto(self) -> (r: ri64) { unimplemented!() }
}
impl RFrom<Constant> for ri64 {
    open spec fn rfrom_spec(t: Constant) -> ri64 { ri64 { val: t.0 as i64 } }
    open spec fn rfrom_req(t: Constant) -> bool { i64::MIN <= t.0 <= i64::MAX }
    #[verifier::external_body]
    fn rfrom(t: Constant) -> (r: ri64) { unimplemented!() }
}
impl RInto<i64> for ri64 {
    open spec fn rinto_spec(self) -> i64 { self.val }
    open spec fn rinto_req(self) -> bool { true }
    fn rinto(self) -> (r: i64) { self.val }
}

impl PartialEqSpecImpl<ri64> for ri64 {
    open spec fn obeys_eq_spec() -> bool { true }
    open spec fn eq_spec(&self, other: &ri64) -> bool { self.val == other.val }
}
impl PartialEq<ri64> for ri64 {
    #[verifier::external_body]
    fn eq(&self, other: &ri64) -> bool { unimplemented!() }
}
impl PartialOrdSpecImpl<ri64> for ri64 {
    open spec fn obeys_partial_cmp_spec() -> bool { true }
    open spec fn partial_cmp_spec(&self, other: &ri64) -> Option<Ordering> { Some(int_cmp(self.val as int, other.val as int)) }
}
impl PartialOrd<ri64> for ri64 {
    #[verifier::external_body]
    fn partial_cmp(&self, other: &ri64) -> Option<Ordering> { unimplemented!() }
}

impl PartialEqSpecImpl<Constant> for ri64 {
    open spec fn obeys_eq_spec() -> bool { true }
    open spec fn eq_spec(&self, other: &Constant) -> bool { self.val == other.0 }
}
impl PartialEq<Constant> for ri64 {
    #[verifier::external_body]
    fn eq(&self, other: &Constant) -> bool { unimplemented!() }
}
impl PartialOrdSpecImpl<Constant> for ri64 {
    open spec fn obeys_partial_cmp_spec() -> bool { true }
    open spec fn partial_cmp_spec(&self, other: &Constant) -> Option<Ordering> { Some(int_cmp(self.val as int, other.0 as int)) }
}
impl PartialOrd<Constant> for ri64 {
    #[verifier::external_body]
    fn partial_cmp(&self, other: &Constant) -> Option<Ordering> { unimplemented!() }
}

impl PartialEqSpecImpl<ri8> for ri64 {
    open spec fn obeys_eq_spec() -> bool { true }
    open spec fn eq_spec(&self, other: &ri8) -> bool { self.val == other.val }
}
impl PartialEq<ri8> for ri64 {
    #[verifier::external_body]
    fn eq(&self, other: &ri8) -> bool { unimplemented!() }
}
impl PartialOrdSpecImpl<ri8> for ri64 {
    open spec fn obeys_partial_cmp_spec() -> bool { true }
    open spec fn partial_cmp_spec(&self, other: &ri8) -> Option<Ordering> { Some(int_cmp(self.val as int, other.val as int)) }
}
impl PartialOrd<ri8> for ri64 {
    #[verifier::external_body]
    fn partial_cmp(&self, other: &ri8) -> Option<Ordering> { unimplemented!() }
}

impl PartialEqSpecImpl<ri16> for ri64 {
    open spec fn obeys_eq_spec() -> bool { true }
    open spec fn eq_spec(&self, other: &ri16) -> bool { self.val == other.val }
}
impl PartialEq<ri16> for ri64 {
    #[verifier::external_body]
    fn eq(&self, other: &ri16) -> bool { unimplemented!() }
}
impl PartialOrdSpecImpl<ri16> for ri64 {
    open spec fn obeys_partial_cmp_spec() -> bool { true }
    open spec fn partial_cmp_spec(&self, other: &ri16) -> Option<Ordering> { Some(int_cmp(self.val as int, other.val as int)) }
}
impl PartialOrd<ri16> for ri64 {
    #[verifier::external_body]
    fn partial_cmp(&self, other: &ri16) -> Option<Ordering> { unimplemented!() }
}

impl PartialEqSpecImpl<ri32> for ri64 {
    open spec fn obeys_eq_spec() -> bool { true }
    open spec fn eq_spec(&self, other: &ri32) -> bool { self.val == other.val }
}
impl PartialEq<ri32> for ri64 {
    #[verifier::external_body]
    fn eq(&self, other: &ri32) -> bool { unimplemented!() }
}
impl PartialOrdSpecImpl<ri32> for ri64 {
    open spec fn obeys_partial_cmp_spec() -> bool { true }
    open spec fn partial_cmp_spec(&self, other: &ri32) -> Option<Ordering> { Some(int_cmp(self.val as int, other.val as int)) }
}
impl PartialOrd<ri32> for ri64 {
    #[verifier::external_body]
    fn partial_cmp(&self, other: &ri32) -> Option<Ordering> { unimplemented!() }
}

impl PartialEqSpecImpl<ri128> for ri64 {
    open spec fn obeys_eq_spec() -> bool { true }
    open spec fn eq_spec(&self, other: &ri128) -> bool { self.val == other.val }
}
impl PartialEq<ri128> for ri64 {
    #[verifier::external_body]
    fn eq(&self, other: &ri128) -> bool { unimplemented!() }
}
impl PartialOrdSpecImpl<ri128> for ri64 {
    open spec fn obeys_partial_cmp_spec() -> bool { true }
    open spec fn partial_cmp_spec(&self, other: &ri128) -> Option<Ordering> { Some(int_cmp(self.val as int, other.val as int)) }
}
impl PartialOrd<ri128> for ri64 {
    #[verifier::external_body]
    fn partial_cmp(&self, other: &ri128) -> Option<Ordering> { unimplemented!() }
}

impl AddSpecImpl<ri64> for ri64 {
    open spec fn obeys_add_spec() -> bool { true }
    open spec fn add_req(self, rhs: ri64) -> bool { i64::MIN <= self.val + rhs.val <= i64::MAX }
    open spec fn add_spec(self, rhs: ri64) -> ri64 { ri64 { val: (self.val + rhs.val) as i64 } }
}
impl core::ops::Add<ri64> for ri64 {
    type Output = ri64;
    #[verifier::external_body]
    fn add(self, rhs: ri64) -> ri64 { unimplemented!() }
}
impl AddAssignSpecImpl<ri64> for ri64 {
    open spec fn obeys_add_assign_spec() -> bool { true }
    open spec fn add_assign_req(&self, rhs: ri64) -> bool { i64::MIN <= self.val + rhs.val <= i64::MAX }
    open spec fn add_assign_spec(&self, rhs: ri64) -> &ri64 { &ri64 { val: (self.val + rhs.val) as i64 } }
}
impl core::ops::AddAssign<ri64> for ri64 {
    #[verifier::external_body]
    fn add_assign(&mut self, rhs: ri64) { unimplemented!() }
}

impl SubSpecImpl<ri64> for ri64 {
    open spec fn obeys_sub_spec() -> bool { true }
    open spec fn sub_req(self, rhs: ri64) -> bool { i64::MIN <= self.val - rhs.val <= i64::MAX }
    open spec fn sub_spec(self, rhs: ri64) -> ri64 { ri64 { val: (self.val - rhs.val) as i64 } }
}
impl core::ops::Sub<ri64> for ri64 {
    type Output = ri64;
    #[verifier::external_body]
    fn sub(self, rhs: ri64) -> ri64 { unimplemented!() }
}
impl SubAssignSpecImpl<ri64> for ri64 {
    open spec fn obeys_sub_assign_spec() -> bool { true }
    open spec fn sub_assign_req(&self, rhs: ri64) -> bool { i64::MIN <= self.val - rhs.val <= i64::MAX }
    open spec fn sub_assign_spec(&self, rhs: ri64) -> &ri64 { &ri64 { val: (self.val - rhs.val) as i64 } }
}
impl core::ops::SubAssign<ri64> for ri64 {
    #[verifier::external_body]
    fn sub_assign(&mut self, rhs: ri64) { unimplemented!() }
}

impl MulSpecImpl<ri64> for ri64 {
    open spec fn obeys_mul_spec() -> bool { true }
    open spec fn mul_req(self, rhs: ri64) -> bool { i64::MIN <= self.val * rhs.val <= i64::MAX }
    open spec fn mul_spec(self, rhs: ri64) -> ri64 { ri64 { val: (self.val * rhs.val) as i64 } }
}
impl core::ops::Mul<ri64> for ri64 {
    type Output = ri64;
    #[verifier::external_body]
    fn mul(self, rhs: ri64) -> ri64 { unimplemented!() }
}
impl MulAssignSpecImpl<ri64> for ri64 {
    open spec fn obeys_mul_assign_spec() -> bool { true }
    open spec fn mul_assign_req(&self, rhs: ri64) -> bool { i64::MIN <= self.val * rhs.val <= i64::MAX }
    open spec fn mul_assign_spec(&self, rhs: ri64) -> &ri64 { &ri64 { val: (self.val * rhs.val) as i64 } }
}
impl core::ops::MulAssign<ri64> for ri64 {
    #[verifier::external_body]
    fn mul_assign(&mut self, rhs: ri64) { unimplemented!() }
}

impl DivSpecImpl<ri64> for ri64 {
    open spec fn obeys_div_spec() -> bool { true }
    open spec fn div_req(self, rhs: ri64) -> bool { rhs.val > 0 }
    open spec fn div_spec(self, rhs: ri64) -> ri64 { ri64 { val: (self.val as int / rhs.val as int) as i64 } }
}
impl core::ops::Div<ri64> for ri64 {
    type Output = ri64;
    #[verifier::external_body]
    fn div(self, rhs: ri64) -> ri64 { unimplemented!() }
}
impl RemSpecImpl<ri64> for ri64 {
    open spec fn obeys_rem_spec() -> bool { true }
    open spec fn rem_req(self, rhs: ri64) -> bool { rhs.val > 0 }
    open spec fn rem_spec(self, rhs: ri64) -> ri64 { ri64 { val: (self.val as int % rhs.val as int) as i64 } }
}
impl core::ops::Rem<ri64> for ri64 {
    type Output = ri64;
    #[verifier::external_body]
    fn rem(self, rhs: ri64) -> ri64 { unimplemented!() }
}

impl AddSpecImpl<Constant> for ri64 {
    open spec fn obeys_add_spec() -> bool { true }
    open spec fn add_req(self, rhs: Constant) -> bool { i64::MIN <= self.val + rhs.0 <= i64::MAX }
    open spec fn add_spec(self, rhs: Constant) -> ri64 { ri64 { val: (self.val + rhs.0) as i64 } }
}
impl core::ops::Add<Constant> for ri64 {
    type Output = ri64;
    #[verifier::external_body]
    fn add(self, rhs: Constant) -> ri64 { unimplemented!() }
}
impl AddAssignSpecImpl<Constant> for ri64 {
    open spec fn obeys_add_assign_spec() -> bool { true }
    open spec fn add_assign_req(&self, rhs: Constant) -> bool { i64::MIN <= self.val + rhs.0 <= i64::MAX }
    open spec fn add_assign_spec(&self, rhs: Constant) -> &ri64 { &ri64 { val: (self.val + rhs.0) as i64 } }
}
impl core::ops::AddAssign<Constant> for ri64 {
    #[verifier::external_body]
    fn add_assign(&mut self, rhs: Constant) { unimplemented!() }
}

impl SubSpecImpl<Constant> for ri64 {
    open spec fn obeys_sub_spec() -> bool { true }
    open spec fn sub_req(self, rhs: Constant) -> bool { i64::MIN <= self.val - rhs.0 <= i64::MAX }
    open spec fn sub_spec(self, rhs: Constant) -> ri64 { ri64 { val: (self.val - rhs.0) as i64 } }
}
impl core::ops::Sub<Constant> for ri64 {
    type Output = ri64;
    #[verifier::external_body]
    fn sub(self, rhs: Constant) -> ri64 { unimplemented!() }
}
impl SubAssignSpecImpl<Constant> for ri64 {
    open spec fn obeys_sub_assign_spec() -> bool { true }
    open spec fn sub_assign_req(&self, rhs: Constant) -> bool { i64::MIN <= self.val - rhs.0 <= i64::MAX }
    open spec fn sub_assign_spec(&self, rhs: Constant) -> &ri64 { &ri64 { val: (self.val - rhs.0) as i64 } }
}
impl core::ops::SubAssign<Constant> for ri64 {
    #[verifier::external_body]
    fn sub_assign(&mut self, rhs: Constant) { unimplemented!() }
}

impl MulSpecImpl<Constant> for ri64 {
    open spec fn obeys_mul_spec() -> bool { true }
    open spec fn mul_req(self, rhs: Constant) -> bool { i64::MIN <= self.val * rhs.0 <= i64::MAX }
    open spec fn mul_spec(self, rhs: Constant) -> ri64 { ri64 { val: (self.val * rhs.0) as i64 } }
}
impl core::ops::Mul<Constant> for ri64 {
    type Output = ri64;
    #[verifier::external_body]
    fn mul(self, rhs: Constant) -> ri64 { unimplemented!() }
}
impl MulAssignSpecImpl<Constant> for ri64 {
    open spec fn obeys_mul_assign_spec() -> bool { true }
    open spec fn mul_assign_req(&self, rhs: Constant) -> bool { i64::MIN <= self.val * rhs.0 <= i64::MAX }
    open spec fn mul_assign_spec(&self, rhs: Constant) -> &ri64 { &ri64 { val: (self.val * rhs.0) as i64 } }
}
impl core::ops::MulAssign<Constant> for ri64 {
    #[verifier::external_body]
    fn mul_assign(&mut self, rhs: Constant) { unimplemented!() }
}

impl DivSpecImpl<Constant> for ri64 {
    open spec fn obeys_div_spec() -> bool { true }
    open spec fn div_req(self, rhs: Constant) -> bool { rhs.0 > 0 }
    open spec fn div_spec(self, rhs: Constant) -> ri64 { ri64 { val: (self.val as int / rhs.0 as int) as i64 } }
}
impl core::ops::Div<Constant> for ri64 {
    type Output = ri64;
    #[verifier::external_body]
    fn div(self, rhs: Constant) -> ri64 { unimplemented!() }
}
impl RemSpecImpl<Constant> for ri64 {
    open spec fn obeys_rem_spec() -> bool { true }
    open spec fn rem_req(self, rhs: Constant) -> bool { rhs.0 > 0 }
    open spec fn rem_spec(self, rhs: Constant) -> ri64 { ri64 { val: (self.val as int % rhs.0 as int) as i64 } }
}
impl core::ops::Rem<Constant> for ri64 {
    type Output = ri64;
    #[verifier::external_body]
    fn rem(self, rhs: Constant) -> ri64 { unimplemented!() }
}

impl AddSpecImpl<ri8> for ri64 {
    open spec fn obeys_add_spec() -> bool { true }
    open spec fn add_req(self, rhs: ri8) -> bool { i64::MIN <= self.val + rhs.val <= i64::MAX }
    open spec fn add_spec(self, rhs: ri8) -> ri64 { ri64 { val: (self.val + rhs.val) as i64 } }
}
impl core::ops::Add<ri8> for ri64 {
    type Output = ri64;
    #[verifier::external_body]
    fn add(self, rhs: ri8) -> ri64 { unimplemented!() }
}
impl AddAssignSpecImpl<ri8> for ri64 {
    open spec fn obeys_add_assign_spec() -> bool { true }
    open spec fn add_assign_req(&self, rhs: ri8) -> bool { i64::MIN <= self.val + rhs.val <= i64::MAX }
    open spec fn add_assign_spec(&self, rhs: ri8) -> &ri64 { &ri64 { val: (self.val + rhs.val) as i64 } }
}
impl core::ops::AddAssign<ri8> for ri64 {
    #[verifier::external_body]
    fn add_assign(&mut self, rhs: ri8) { unimplemented!() }
}

impl SubSpecImpl<ri8> for ri64 {
    open spec fn obeys_sub_spec() -> bool { true }
    open spec fn sub_req(self, rhs: ri8) -> bool { i64::MIN <= self.val - rhs.val <= i64::MAX }
    open spec fn sub_spec(self, rhs: ri8) -> ri64 { ri64 { val: (self.val - rhs.val) as i64 } }
}
impl core::ops::Sub<ri8> for ri64 {
    type Output = ri64;
    #[verifier::external_body]
    fn sub(self, rhs: ri8) -> ri64 { unimplemented!() }
}
impl SubAssignSpecImpl<ri8> for ri64 {
    open spec fn obeys_sub_assign_spec() -> bool { true }
    open spec fn sub_assign_req(&self, rhs: ri8) -> bool { i64::MIN <= self.val - rhs.val <= i64::MAX }
    open spec fn sub_assign_spec(&self, rhs: ri8) -> &ri64 { &ri64 { val: (self.val - rhs.val) as i64 } }
}
impl core::ops::SubAssign<ri8> for ri64 {
    #[verifier::external_body]
    fn sub_assign(&mut self, rhs: ri8) { unimplemented!() }
}

impl MulSpecImpl<ri8> for ri64 {
    open spec fn obeys_mul_spec() -> bool { true }
    open spec fn mul_req(self, rhs: ri8) -> bool { i64::MIN <= self.val * rhs.val <= i64::MAX }
    open spec fn mul_spec(self, rhs: ri8) -> ri64 { ri64 { val: (self.val * rhs.val) as i64 } }
}
impl core::ops::Mul<ri8> for ri64 {
    type Output = ri64;
    #[verifier::external_body]
    fn mul(self, rhs: ri8) -> ri64 { unimplemented!() }
}
impl MulAssignSpecImpl<ri8> for ri64 {
    open spec fn obeys_mul_assign_spec() -> bool { true }
    open spec fn mul_assign_req(&self, rhs: ri8) -> bool { i64::MIN <= self.val * rhs.val <= i64::MAX }
    open spec fn mul_assign_spec(&self, rhs: ri8) -> &ri64 { &ri64 { val: (self.val * rhs.val) as i64 } }
}
impl core::ops::MulAssign<ri8> for ri64 {
    #[verifier::external_body]
    fn mul_assign(&mut self, rhs: ri8) { unimplemented!() }
}

impl DivSpecImpl<ri8> for ri64 {
    open spec fn obeys_div_spec() -> bool { true }
    open spec fn div_req(self, rhs: ri8) -> bool { rhs.val > 0 }
    open spec fn div_spec(self, rhs: ri8) -> ri64 { ri64 { val: (self.val as int / rhs.val as int) as i64 } }
}
impl core::ops::Div<ri8> for ri64 {
    type Output = ri64;
    #[verifier::external_body]
    fn div(self, rhs: ri8) -> ri64 { unimplemented!() }
}
impl RemSpecImpl<ri8> for ri64 {
    open spec fn obeys_rem_spec() -> bool { true }
    open spec fn rem_req(self, rhs: ri8) -> bool { rhs.val > 0 }
    open spec fn rem_spec(self, rhs: ri8) -> ri64 { ri64 { val: (self.val as int % rhs.val as int) as i64 } }
}
impl core::ops::Rem<ri8> for ri64 {
    type Output = ri64;
    #[verifier::external_body]
    fn rem(self, rhs: ri8) -> ri64 { unimplemented!() }
}

impl AddSpecImpl<ri16> for ri64 {
    open spec fn obeys_add_spec() -> bool { true }
    open spec fn add_req(self, rhs: ri16) -> bool { i64::MIN <= self.val + rhs.val <= i64::MAX }
    open spec fn add_spec(self, rhs: ri16) -> ri64 { ri64 { val: (self.val + rhs.val) as i64 } }
}
impl core::ops::Add<ri16> for ri64 {
    type Output = ri64;
    #[verifier::external_body]
    fn add(self, rhs: ri16) -> ri64 { unimplemented!() }
}
impl AddAssignSpecImpl<ri16> for ri64 {
    open spec fn obeys_add_assign_spec() -> bool { true }
    open spec fn add_assign_req(&self, rhs: ri16) -> bool { i64::MIN <= self.val + rhs.val <= i64::MAX }
    open spec fn add_assign_spec(&self, rhs: ri16) -> &ri64 { &ri64 { val: (self.val + rhs.val) as i64 } }
}
impl core::ops::AddAssign<ri16> for ri64 {
    #[verifier::external_body]
    fn add_assign(&mut self, rhs: ri16) { unimplemented!() }
}

impl SubSpecImpl<ri16> for ri64 {
    open spec fn obeys_sub_spec() -> bool { true }
    open spec fn sub_req(self, rhs: ri16) -> bool { i64::MIN <= self.val - rhs.val <= i64::MAX }
    open spec fn sub_spec(self, rhs: ri16) -> ri64 { ri64 { val: (self.val - rhs.val) as i64 } }
}
impl core::ops::Sub<ri16> for ri64 {
    type Output = ri64;
    #[verifier::external_body]
    fn sub(self, rhs: ri16) -> ri64 { unimplemented!() }
}
impl SubAssignSpecImpl<ri16> for ri64 {
    open spec fn obeys_sub_assign_spec() -> bool { true }
    open spec fn sub_assign_req(&self, rhs: ri16) -> bool { i64::MIN <= self.val - rhs.val <= i64::MAX }
    open spec fn sub_assign_spec(&self, rhs: ri16) -> &ri64 { &ri64 { val: (self.val - rhs.val) as i64 } }
}
impl core::ops::SubAssign<ri16> for ri64 {
    #[verifier::external_body]
    fn sub_assign(&mut self, rhs: ri16) { unimplemented!() }
}

impl MulSpecImpl<ri16> for ri64 {
    open spec fn obeys_mul_spec() -> bool { true }
    open spec fn mul_req(self, rhs: ri16) -> bool { i64::MIN <= self.val * rhs.val <= i64::MAX }
    open spec fn mul_spec(self, rhs: ri16) -> ri64 { ri64 { val: (self.val * rhs.val) as i64 } }
}
impl core::ops::Mul<ri16> for ri64 {
    type Output = ri64;
    #[verifier::external_body]
    fn mul(self, rhs: ri16) -> ri64 { unimplemented!() }
}
impl MulAssignSpecImpl<ri16> for ri64 {
    open spec fn obeys_mul_assign_spec() -> bool { true }
    open spec fn mul_assign_req(&self, rhs: ri16) -> bool { i64::MIN <= self.val * rhs.val <= i64::MAX }
    open spec fn mul_assign_spec(&self, rhs: ri16) -> &ri64 { &ri64 { val: (self.val * rhs.val) as i64 } }
}
impl core::ops::MulAssign<ri16> for ri64 {
    #[verifier::external_body]
    fn mul_assign(&mut self, rhs: ri16) { unimplemented!() }
}

impl DivSpecImpl<ri16> for ri64 {
    open spec fn obeys_div_spec() -> bool { true }
    open spec fn div_req(self, rhs: ri16) -> bool { rhs.val > 0 }
    open spec fn div_spec(self, rhs: ri16) -> ri64 { ri64 { val: (self.val as int / rhs.val as int) as i64 } }
}
impl core::ops::Div<ri16> for ri64 {
    type Output = ri64;
    #[verifier::external_body]
    fn div(self, rhs: ri16) -> ri64 { unimplemented!() }
}
impl RemSpecImpl<ri16> for ri64 {
    open spec fn obeys_rem_spec() -> bool { true }
    open spec fn rem_req(self, rhs: ri16) -> bool { rhs.val > 0 }
    open spec fn rem_spec(self, rhs: ri16) -> ri64 { ri64 { val: (self.val as int % rhs.val as int) as i64 } }
}
impl core::ops::Rem<ri16> for ri64 {
    type Output = ri64;
    #[verifier::external_body]
    fn rem(self, rhs: ri16) -> ri64 { unimplemented!() }
}

impl AddSpecImpl<ri32> for ri64 {
    open spec fn obeys_add_spec() -> bool { true }
    open spec fn add_req(self, rhs: ri32) -> bool { i64::MIN <= self.val + rhs.val <= i64::MAX }
    open spec fn add_spec(self, rhs: ri32) -> ri64 { ri64 { val: (self.val + rhs.val) as i64 } }
}
impl core::ops::Add<ri32> for ri64 {
    type Output = ri64;
    #[verifier::external_body]
    fn add(self, rhs: ri32) -> ri64 { unimplemented!() }
}
impl AddAssignSpecImpl<ri32> for ri64 {
    open spec fn obeys_add_assign_spec() -> bool { true }
    open spec fn add_assign_req(&self, rhs: ri32) -> bool { i64::MIN <= self.val + rhs.val <= i64::MAX }
    open spec fn add_assign_spec(&self, rhs: ri32) -> &ri64 { &ri64 { val: (self.val + rhs.val) as i64 } }
}
impl core::ops::AddAssign<ri32> for ri64 {
    #[verifier::external_body]
    fn add_assign(&mut self, rhs: ri32) { unimplemented!() }
}

impl SubSpecImpl<ri32> for ri64 {
    open spec fn obeys_sub_spec() -> bool { true }
    open spec fn sub_req(self, rhs: ri32) -> bool { i64::MIN <= self.val - rhs.val <= i64::MAX }
    open spec fn sub_spec(self, rhs: ri32) -> ri64 { ri64 { val: (self.val - rhs.val) as i64 } }
}
impl core::ops::Sub<ri32> for ri64 {
    type Output = ri64;
    #[verifier::external_body]
    fn sub(self, rhs: ri32) -> ri64 { unimplemented!() }
}
impl SubAssignSpecImpl<ri32> for ri64 {
    open spec fn obeys_sub_assign_spec() -> bool { true }
    open spec fn sub_assign_req(&self, rhs: ri32) -> bool { i64::MIN <= self.val - rhs.val <= i64::MAX }
    open spec fn sub_assign_spec(&self, rhs: ri32) -> &ri64 { &ri64 { val: (self.val - rhs.val) as i64 } }
}
impl core::ops::SubAssign<ri32> for ri64 {
    #[verifier::external_body]
    fn sub_assign(&mut self, rhs: ri32) { unimplemented!() }
}

impl MulSpecImpl<ri32> for ri64 {
    open spec fn obeys_mul_spec() -> bool { true }
    open spec fn mul_req(self, rhs: ri32) -> bool { i64::MIN <= self.val * rhs.val <= i64::MAX }
    open spec fn mul_spec(self, rhs: ri32) -> ri64 { ri64 { val: (self.val * rhs.val) as i64 } }
}
impl core::ops::Mul<ri32> for ri64 {
    type Output = ri64;
    #[verifier::external_body]
    fn mul(self, rhs: ri32) -> ri64 { unimplemented!() }
}
impl MulAssignSpecImpl<ri32> for ri64 {
    open spec fn obeys_mul_assign_spec() -> bool { true }
    open spec fn mul_assign_req(&self, rhs: ri32) -> bool { i64::MIN <= self.val * rhs.val <= i64::MAX }
    open spec fn mul_assign_spec(&self, rhs: ri32) -> &ri64 { &ri64 { val: (self.val * rhs.val) as i64 } }
}
impl core::ops::MulAssign<ri32> for ri64 {
    #[verifier::external_body]
    fn mul_assign(&mut self, rhs: ri32) { unimplemented!() }
}

impl DivSpecImpl<ri32> for ri64 {
    open spec fn obeys_div_spec() -> bool { true }
    open spec fn div_req(self, rhs: ri32) -> bool { rhs.val > 0 }
    open spec fn div_spec(self, rhs: ri32) -> ri64 { ri64 { val: (self.val as int / rhs.val as int) as i64 } }
}
impl core::ops::Div<ri32> for ri64 {
    type Output = ri64;
    #[verifier::external_body]
    fn div(self, rhs: ri32) -> ri64 { unimplemented!() }
}
impl RemSpecImpl<ri32> for ri64 {
    open spec fn obeys_rem_spec() -> bool { true }
    open spec fn rem_req(self, rhs: ri32) -> bool { rhs.val > 0 }
    open spec fn rem_spec(self, rhs: ri32) -> ri64 { ri64 { val: (self.val as int % rhs.val as int) as i64 } }
}
impl core::ops::Rem<ri32> for ri64 {
    type Output = ri64;
    #[verifier::external_body]
    fn rem(self, rhs: ri32) -> ri64 { unimplemented!() }
}

impl AddSpecImpl<ri128> for ri64 {
    open spec fn obeys_add_spec() -> bool { true }
    open spec fn add_req(self, rhs: ri128) -> bool { i64::MIN <= self.val + rhs.val <= i64::MAX }
    open spec fn add_spec(self, rhs: ri128) -> ri64 { ri64 { val: (self.val + rhs.val) as i64 } }
}
impl core::ops::Add<ri128> for ri64 {
    type Output = ri64;
    #[verifier::external_body]
    fn add(self, rhs: ri128) -> ri64 { unimplemented!() }
}
impl AddAssignSpecImpl<ri128> for ri64 {
    open spec fn obeys_add_assign_spec() -> bool { true }
    open spec fn add_assign_req(&self, rhs: ri128) -> bool { i64::MIN <= self.val + rhs.val <= i64::MAX }
    open spec fn add_assign_spec(&self, rhs: ri128) -> &ri64 { &ri64 { val: (self.val + rhs.val) as i64 } }
}
impl core::ops::AddAssign<ri128> for ri64 {
    #[verifier::external_body]
    fn add_assign(&mut self, rhs: ri128) { unimplemented!() }
}

impl SubSpecImpl<ri128> for ri64 {
    open spec fn obeys_sub_spec() -> bool { true }
    open spec fn sub_req(self, rhs: ri128) -> bool { i64::MIN <= self.val - rhs.val <= i64::MAX }
    open spec fn sub_spec(self, rhs: ri128) -> ri64 { ri64 { val: (self.val - rhs.val) as i64 } }
}
impl core::ops::Sub<ri128> for ri64 {
    type Output = ri64;
    #[verifier::external_body]
    fn sub(self, rhs: ri128) -> ri64 { unimplemented!() }
}
impl SubAssignSpecImpl<ri128> for ri64 {
    open spec fn obeys_sub_assign_spec() -> bool { true }
    open spec fn sub_assign_req(&self, rhs: ri128) -> bool { i64::MIN <= self.val - rhs.val <= i64::MAX }
    open spec fn sub_assign_spec(&self, rhs: ri128) -> &ri64 { &ri64 { val: (self.val - rhs.val) as i64 } }
}
impl core::ops::SubAssign<ri128> for ri64 {
    #[verifier::external_body]
    fn sub_assign(&mut self, rhs: ri128) { unimplemented!() }
}

impl MulSpecImpl<ri128> for ri64 {
    open spec fn obeys_mul_spec() -> bool { true }
    open spec fn mul_req(self, rhs: ri128) -> bool { i64::MIN <= self.val * rhs.val <= i64::MAX }
    open spec fn mul_spec(self, rhs: ri128) -> ri64 { ri64 { val: (self.val * rhs.val) as i64 } }
}
impl core::ops::Mul<ri128> for ri64 {
    type Output = ri64;
    #[verifier::external_body]
    fn mul(self, rhs: ri128) -> ri64 { unimplemented!() }
}
impl MulAssignSpecImpl<ri128> for ri64 {
    open spec fn obeys_mul_assign_spec() -> bool { true }
    open spec fn mul_assign_req(&self, rhs: ri128) -> bool { i64::MIN <= self.val * rhs.val <= i64::MAX }
    open spec fn mul_assign_spec(&self, rhs: ri128) -> &ri64 { &ri64 { val: (self.val * rhs.val) as i64 } }
}
impl core::ops::MulAssign<ri128> for ri64 {
    #[verifier::external_body]
    fn mul_assign(&mut self, rhs: ri128) { unimplemented!() }
}

impl DivSpecImpl<ri128> for ri64 {
    open spec fn obeys_div_spec() -> bool { true }
    open spec fn div_req(self, rhs: ri128) -> bool { rhs.val > 0 }
    open spec fn div_spec(self, rhs: ri128) -> ri64 { ri64 { val: (self.val as int / rhs.val as int) as i64 } }
}
impl core::ops::Div<ri128> for ri64 {
    type Output = ri64;
    #[verifier::external_body]
    fn div(self, rhs: ri128) -> ri64 { unimplemented!() }
}
impl RemSpecImpl<ri128> for ri64 {
    open spec fn obeys_rem_spec() -> bool { true }
    open spec fn rem_req(self, rhs: ri128) -> bool { rhs.val > 0 }
    open spec fn rem_spec(self, rhs: ri128) -> ri64 { ri64 { val: (self.val as int % rhs.val as int) as i64 } }
}
impl core::ops::Rem<ri128> for ri64 {
    type Output = ri64;
    #[verifier::external_body]
    fn rem(self, rhs: ri128) -> ri64 { unimplemented!() }
}

impl NegSpecImpl for ri64 {
    open spec fn obeys_neg_spec() -> bool { true }
    open spec fn neg_req(self) -> bool { self.val > i64::MIN }
    open spec fn neg_spec(self) -> ri64 { ri64 { val: (-self.val) as i64 } }
}
impl core::ops::Neg for ri64 {
    type Output = ri64;
    #[verifier::external_body]
    fn neg(self) -> ri64 { unimplemented!() }
}


// ------------------------------------------------------------------ ri128
#[derive(Clone, Copy)]
pub struct ri128 { pub val: i128 }
impl ri128 {
    pub fn new_unchecked(val: i128) -> (r: Self) ensures r.val == val { ri128 { val } }
    pub fn get(self) -> (r: i128) ensures r == self.val { self.val }
    pub fn get_unchecked(self) -> (r: i128) ensures r == self.val { self.val }
    pub fn without_bounds(self) -> (r: Self) ensures r == self { self }
    // `T::N::<VAL>()` is rewritten to `T::verif_N(VAL)`: the constant VAL (release: `Self { val: VAL }`, no bound is consulted).
    // (Not modelled with a const generic: Verus 0.2026.09.13 derives `false` from a negative const generic argument.)
    pub const fn verif_N(v: i128) -> (r: Self) ensures r.val == v { ri128 { val: v } }
    #[verifier::external_body]
    pub fn abs(self) -> (r: Self)
        requires self.val > i128::MIN,
        ensures r.val == (if self.val < 0 { -self.val } else { self.val as int })
    { unimplemented!() }
    // real: returns `riN<-1, 1>` of the SAME width
    pub fn signum(self) -> (r: Self) ensures r.val == (if self.val < 0 { -1int } else if self.val > 0 { 1int } else { 0int })
    { if self.val < 0 { ri128 { val: -1 } } else if self.val > 0 { ri128 { val: 1 } } else { ri128 { val: 0 } } }
    pub fn min<R: RInto<Self>>(self, other: R) -> (r: Self)
        requires other.rinto_req(),
        ensures r.val == (if other.rinto_spec().val < self.val { other.rinto_spec().val } else { self.val })
    { let o = other.rinto(); if o.val < self.val { o } else { self } }
    pub fn max<R: RInto<Self>>(self, other: R) -> (r: Self)
        requires other.rinto_req(),
        ensures r.val == (if other.rinto_spec().val > self.val { other.rinto_spec().val } else { self.val })
    { let o = other.rinto(); if o.val > self.val { o } else { self } }
    // truncating
    #[verifier::external_body]
    pub fn div_ceil<R: RInto<Self>>(self, rhs: R) -> (r: Self)
        requires rhs.rinto_req(), rhs.rinto_spec().val != 0, !(self.val == i128::MIN && rhs.rinto_spec().val == -1),
        ensures r.val == tdiv(self.val as int, rhs.rinto_spec().val as int)
    { unimplemented!() }
    #[verifier::external_body]
    pub fn rem_ceil<R: RInto<Self>>(self, rhs: R) -> (r: Self)
        requires rhs.rinto_req(), rhs.rinto_spec().val != 0, !(self.val == i128::MIN && rhs.rinto_spec().val == -1),
        ensures r.val == trem(self.val as int, rhs.rinto_spec().val as int)
    { unimplemented!() }
    // Euclidean (divisor > 0 required here; every use in jiff divides by a positive quantity)
    #[verifier::external_body]
    pub fn div_floor<R: RInto<Self>>(self, rhs: R) -> (r: Self)
        requires rhs.rinto_req(), rhs.rinto_spec().val > 0,
        ensures r.val == (self.val as int) / (rhs.rinto_spec().val as int)
    { unimplemented!() }
    #[verifier::external_body]
    pub fn rem_floor<R: RInto<Self>>(self, rhs: R) -> (r: Self)
        requires rhs.rinto_req(), rhs.rinto_spec().val > 0,
        ensures r.val == (self.val as int) % (rhs.rinto_spec().val as int)
    { unimplemented!() }
    #[verifier::external_body]
    pub fn saturating_mul<R: RInto<Self>>(self, rhs: R) -> (r: Self)
        requires rhs.rinto_req(),
        ensures i128::MIN <= self.val * rhs.rinto_spec().val <= i128::MAX ==> r.val == self.val * rhs.rinto_spec().val,
                self.val * rhs.rinto_spec().val > i128::MAX ==> r.val == i128::MAX,
                self.val * rhs.rinto_spec().val < i128::MIN ==> r.val == i128::MIN,
    { unimplemented!() }
    #[verifier::external_body]
    pub fn saturating_add<R: RInto<Self>>(self, rhs: R) -> (r: Self)
        requires rhs.rinto_req(),
        ensures i128::MIN <= self.val + rhs.rinto_spec().val <= i128::MAX ==> r.val == self.val + rhs.rinto_spec().val,
                self.val + rhs.rinto_spec().val > i128::MAX ==> r.val == i128::MAX,
                self.val + rhs.rinto_spec().val < i128::MIN ==> r.val == i128::MIN,
    { unimplemented!() }
}
// `type Range = ri128<{ LO }, { HI }>; Range::try_new("what", v)`: the bounds of an anonymous range are passed explicitly
#[verifier::external_body]
pub fn verif_try_new_range_128(lo: i128, hi: i128, v: i64) -> (res: Result<ri128, Error>)
    requires i128::MIN <= lo, hi <= i128::MAX,
    ensures res.is_ok() <==> lo <= v <= hi, res.is_ok() ==> res.unwrap().val == v
{ unimplemented!() }
impl RInto<ri128> for ri128 {
    open spec fn rinto_spec(self) -> ri128 { self }
    open spec fn rinto_req(self) -> bool { true }
    fn rinto(self) -> (r: ri128) { self }
}
impl RFrom<ri128> for ri128 {
    open spec fn rfrom_spec(t: ri128) -> ri128 { t }
    open spec fn rfrom_req(t: ri128) -> bool { true }
    fn rfrom(t: ri128) -> (r: ri128) { t }
}
impl RInto<ri128> for Constant {
    open spec fn rinto_spec(self) -> ri128 { ri128 { val: self.0 as i128 } }
    open spec fn rinto_req(self) -> bool { i128::MIN <= self.0 <= i128::MAX }
    #[verifier::external_body]
    fn rinto(self) -> (r: ri128) { unimplemented!() }
}
impl RFrom<Constant> for ri128 {
    open spec fn rfrom_spec(t: Constant) -> ri128 { ri128 { val: t.0 as i128 } }
    open spec fn rfrom_req(t: Constant) -> bool { i128::MIN <= t.0 <= i128::MAX }
    #[verifier::external_body]
    fn rfrom(t: Constant) -> (r: ri128) { unimplemented!() }
}
impl RInto<i128> for ri128 {
    open spec fn rinto_spec(self) -> i128 { self.val }
    open spec fn rinto_req(self) -> bool { true }
    fn rinto(self) -> (r: i128) { self.val }
}

impl PartialEqSpecImpl<ri128> for ri128 {
    open spec fn obeys_eq_spec() -> bool { true }
    open spec fn eq_spec(&self, other: &ri128) -> bool { self.val == other.val }
}
impl PartialEq<ri128> for ri128 {
    #[verifier::external_body]
    fn eq(&self, other: &ri128) -> bool { unimplemented!() }
}
impl PartialOrdSpecImpl<ri128> for ri128 {
    open spec fn obeys_partial_cmp_spec() -> bool { true }
    open spec fn partial_cmp_spec(&self, other: &ri128) -> Option<Ordering> { Some(int_cmp(self.val as int, other.val as int)) }
}
impl PartialOrd<ri128> for ri128 {
    #[verifier::external_body]
    fn partial_cmp(&self, other: &ri128) -> Option<Ordering> { unimplemented!() }
}

impl PartialEqSpecImpl<Constant> for ri128 {
    open spec fn obeys_eq_spec() -> bool { true }
    open spec fn eq_spec(&self, other: &Constant) -> bool { self.val == other.0 }
}
impl PartialEq<Constant> for ri128 {
    #[verifier::external_body]
    fn eq(&self, other: &Constant) -> bool { unimplemented!() }
}
impl PartialOrdSpecImpl<Constant> for ri128 {
    open spec fn obeys_partial_cmp_spec() -> bool { true }
    open spec fn partial_cmp_spec(&self, other: &Constant) -> Option<Ordering> { Some(int_cmp(self.val as int, other.0 as int)) }
}
impl PartialOrd<Constant> for ri128 {
    #[verifier::external_body]
    fn partial_cmp(&self, other: &Constant) -> Option<Ordering> { unimplemented!() }
}

impl PartialEqSpecImpl<ri8> for ri128 {
    open spec fn obeys_eq_spec() -> bool { true }
    open spec fn eq_spec(&self, other: &ri8) -> bool { self.val == other.val }
}
impl PartialEq<ri8> for ri128 {
    #[verifier::external_body]
    fn eq(&self, other: &ri8) -> bool { unimplemented!() }
}
impl PartialOrdSpecImpl<ri8> for ri128 {
    open spec fn obeys_partial_cmp_spec() -> bool { true }
    open spec fn partial_cmp_spec(&self, other: &ri8) -> Option<Ordering> { Some(int_cmp(self.val as int, other.val as int)) }
}
impl PartialOrd<ri8> for ri128 {
    #[verifier::external_body]
    fn partial_cmp(&self, other: &ri8) -> Option<Ordering> { unimplemented!() }
}

impl PartialEqSpecImpl<ri16> for ri128 {
    open spec fn obeys_eq_spec() -> bool { true }
    open spec fn eq_spec(&self, other: &ri16) -> bool { self.val == other.val }
}
impl PartialEq<ri16> for ri128 {
    #[verifier::external_body]
    fn eq(&self, other: &ri16) -> bool { unimplemented!() }
}
impl PartialOrdSpecImpl<ri16> for ri128 {
    open spec fn obeys_partial_cmp_spec() -> bool { true }
    open spec fn partial_cmp_spec(&self, other: &ri16) -> Option<Ordering> { Some(int_cmp(self.val as int, other.val as int)) }
}
impl PartialOrd<ri16> for ri128 {
    #[verifier::external_body]
    fn partial_cmp(&self, other: &ri16) -> Option<Ordering> { unimplemented!() }
}

impl PartialEqSpecImpl<ri32> for ri128 {
    open spec fn obeys_eq_spec() -> bool { true }
    open spec fn eq_spec(&self, other: &ri32) -> bool { self.val == other.val }
}
impl PartialEq<ri32> for ri128 {
    #[verifier::external_body]
    fn eq(&self, other: &ri32) -> bool { unimplemented!() }
}
impl PartialOrdSpecImpl<ri32> for ri128 {
    open spec fn obeys_partial_cmp_spec() -> bool { true }
    open spec fn partial_cmp_spec(&self, other: &ri32) -> Option<Ordering> { Some(int_cmp(self.val as int, other.val as int)) }
}
impl PartialOrd<ri32> for ri128 {
    #[verifier::external_body]
    fn partial_cmp(&self, other: &ri32) -> Option<Ordering> { unimplemented!() }
}

impl PartialEqSpecImpl<ri64> for ri128 {
    open spec fn obeys_eq_spec() -> bool { true }
    open spec fn eq_spec(&self, other: &ri64) -> bool { self.val == other.val }
}
impl PartialEq<ri64> for ri128 {
    #[verifier::external_body]
    fn eq(&self, other: &ri64) -> bool { unimplemented!() }
}
impl PartialOrdSpecImpl<ri64> for ri128 {
    open spec fn obeys_partial_cmp_spec() -> bool { true }
    open spec fn partial_cmp_spec(&self, other: &ri64) -> Option<Ordering> { Some(int_cmp(self.val as int, other.val as int)) }
}
impl PartialOrd<ri64> for ri128 {
    #[verifier::external_body]
    fn partial_cmp(&self, other: &ri64) -> Option<Ordering> { unimplemented!() }
}

impl AddSpecImpl<ri128> for ri128 {
    open spec fn obeys_add_spec() -> bool { true }
    open spec fn add_req(self, rhs: ri128) -> bool { i128::MIN <= self.val + rhs.val <= i128::MAX }
    open spec fn add_spec(self, rhs: ri128) -> ri128 { ri128 { val: (self.val + rhs.val) as i128 } }
}
impl core::ops::Add<ri128> for ri128 {
    type Output = ri128;
    #[verifier::external_body]
    fn add(self, rhs: ri128) -> ri128 { unimplemented!() }
}
impl AddAssignSpecImpl<ri128> for ri128 {
    open spec fn obeys_add_assign_spec() -> bool { true }
    open spec fn add_assign_req(&self, rhs: ri128) -> bool { i128::MIN <= self.val + rhs.val <= i128::MAX }
    open spec fn add_assign_spec(&self, rhs: ri128) -> &ri128 { &ri128 { val: (self.val + rhs.val) as i128 } }
}
impl core::ops::AddAssign<ri128> for ri128 {
    #[verifier::external_body]
    fn add_assign(&mut self, rhs: ri128) { unimplemented!() }
}

impl SubSpecImpl<ri128> for ri128 {
    open spec fn obeys_sub_spec() -> bool { true }
    open spec fn sub_req(self, rhs: ri128) -> bool { i128::MIN <= self.val - rhs.val <= i128::MAX }
    open spec fn sub_spec(self, rhs: ri128) -> ri128 { ri128 { val: (self.val - rhs.val) as i128 } }
}
impl core::ops::Sub<ri128> for ri128 {
    type Output = ri128;
    #[verifier::external_body]
    fn sub(self, rhs: ri128) -> ri128 { unimplemented!() }
}
impl SubAssignSpecImpl<ri128> for ri128 {
    open spec fn obeys_sub_assign_spec() -> bool { true }
    open spec fn sub_assign_req(&self, rhs: ri128) -> bool { i128::MIN <= self.val - rhs.val <= i128::MAX }
    open spec fn sub_assign_spec(&self, rhs: ri128) -> &ri128 { &ri128 { val: (self.val - rhs.val) as i128 } }
}
impl core::ops::SubAssign<ri128> for ri128 {
    #[verifier::external_body]
    fn sub_assign(&mut self, rhs: ri128) { unimplemented!() }
}

impl MulSpecImpl<ri128> for ri128 {
    open spec fn obeys_mul_spec() -> bool { true }
    open spec fn mul_req(self, rhs: ri128) -> bool { i128::MIN <= self.val * rhs.val <= i128::MAX }
    open spec fn mul_spec(self, rhs: ri128) -> ri128 { ri128 { val: (self.val * rhs.val) as i128 } }
}
impl core::ops::Mul<ri128> for ri128 {
    type Output = ri128;
    #[verifier::external_body]
    fn mul(self, rhs: ri128) -> ri128 { unimplemented!() }
}
impl MulAssignSpecImpl<ri128> for ri128 {
    open spec fn obeys_mul_assign_spec() -> bool { true }
    open spec fn mul_assign_req(&self, rhs: ri128) -> bool { i128::MIN <= self.val * rhs.val <= i128::MAX }
    open spec fn mul_assign_spec(&self, rhs: ri128) -> &ri128 { &ri128 { val: (self.val * rhs.val) as i128 } }
}
impl core::ops::MulAssign<ri128> for ri128 {
    #[verifier::external_body]
    fn mul_assign(&mut self, rhs: ri128) { unimplemented!() }
}

impl DivSpecImpl<ri128> for ri128 {
    open spec fn obeys_div_spec() -> bool { true }
    open spec fn div_req(self, rhs: ri128) -> bool { rhs.val > 0 }
    open spec fn div_spec(self, rhs: ri128) -> ri128 { ri128 { val: (self.val as int / rhs.val as int) as i128 } }
}
impl core::ops::Div<ri128> for ri128 {
    type Output = ri128;
    #[verifier::external_body]
    fn div(self, rhs: ri128) -> ri128 { unimplemented!() }
}
impl RemSpecImpl<ri128> for ri128 {
    open spec fn obeys_rem_spec() -> bool { true }
    open spec fn rem_req(self, rhs: ri128) -> bool { rhs.val > 0 }
    open spec fn rem_spec(self, rhs: ri128) -> ri128 { ri128 { val: (self.val as int % rhs.val as int) as i128 } }
}
impl core::ops::Rem<ri128> for ri128 {
    type Output = ri128;
    #[verifier::external_body]
    fn rem(self, rhs: ri128) -> ri128 { unimplemented!() }
}

impl AddSpecImpl<Constant> for ri128 {
    open spec fn obeys_add_spec() -> bool { true }
    open spec fn add_req(self, rhs: Constant) -> bool { i128::MIN <= self.val + rhs.0 <= i128::MAX }
    open spec fn add_spec(self, rhs: Constant) -> ri128 { ri128 { val: (self.val + rhs.0) as i128 } }
}
impl core::ops::Add<Constant> for ri128 {
    type Output = ri128;
    #[verifier::external_body]
    fn add(self, rhs: Constant) -> ri128 { unimplemented!() }
}
impl AddAssignSpecImpl<Constant> for ri128 {
    open spec fn obeys_add_assign_spec() -> bool { true }
    open spec fn add_assign_req(&self, rhs: Constant) -> bool { i128::MIN <= self.val + rhs.0 <= i128::MAX }
    open spec fn add_assign_spec(&self, rhs: Constant) -> &ri128 { &ri128 { val: (self.val + rhs.0) as i128 } }
}
impl core::ops::AddAssign<Constant> for ri128 {
    #[verifier::external_body]
    fn add_assign(&mut self, rhs: Constant) { unimplemented!() }
}

impl SubSpecImpl<Constant> for ri128 {
    open spec fn obeys_sub_spec() -> bool { true }
    open spec fn sub_req(self, rhs: Constant) -> bool { i128::MIN <= self.val - rhs.0 <= i128::MAX }
    open spec fn sub_spec(self, rhs: Constant) -> ri128 { ri128 { val: (self.val - rhs.0) as i128 } }
}
impl core::ops::Sub<Constant> for ri128 {
    type Output = ri128;
    #[verifier::external_body]
    fn sub(self, rhs: Constant) -> ri128 { unimplemented!() }
}
impl SubAssignSpecImpl<Constant> for ri128 {
    open spec fn obeys_sub_assign_spec() -> bool { true }
    open spec fn sub_assign_req(&self, rhs: Constant) -> bool { i128::MIN <= self.val - rhs.0 <= i128::MAX }
    open spec fn sub_assign_spec(&self, rhs: Constant) -> &ri128 { &ri128 { val: (self.val - rhs.0) as i128 } }
}
impl core::ops::SubAssign<Constant> for ri128 {
    #[verifier::external_body]
    fn sub_assign(&mut self, rhs: Constant) { unimplemented!() }
}

impl MulSpecImpl<Constant> for ri128 {
    open spec fn obeys_mul_spec() -> bool { true }
    open spec fn mul_req(self, rhs: Constant) -> bool { i128::MIN <= self.val * rhs.0 <= i128::MAX }
    open spec fn mul_spec(self, rhs: Constant) -> ri128 { ri128 { val: (self.val * rhs.0) as i128 } }
}
impl core::ops::Mul<Constant> for ri128 {
    type Output = ri128;
    #[verifier::external_body]
    fn mul(self, rhs: Constant) -> ri128 { unimplemented!() }
}
impl MulAssignSpecImpl<Constant> for ri128 {
    open spec fn obeys_mul_assign_spec() -> bool { true }
    open spec fn mul_assign_req(&self, rhs: Constant) -> bool { i128::MIN <= self.val * rhs.0 <= i128::MAX }
    open spec fn mul_assign_spec(&self, rhs: Constant) -> &ri128 { &ri128 { val: (self.val * rhs.0) as i128 } }
}
impl core::ops::MulAssign<Constant> for ri128 {
    #[verifier::external_body]
    fn mul_assign(&mut self, rhs: Constant) { unimplemented!() }
}

impl DivSpecImpl<Constant> for ri128 {
    open spec fn obeys_div_spec() -> bool { true }
    open spec fn div_req(self, rhs: Constant) -> bool { rhs.0 > 0 }
    open spec fn div_spec(self, rhs: Constant) -> ri128 { ri128 { val: (self.val as int / rhs.0 as int) as i128 } }
}
impl core::ops::Div<Constant> for ri128 {
    type Output = ri128;
    #[verifier::external_body]
    fn div(self, rhs: Constant) -> ri128 { unimplemented!() }
}
impl RemSpecImpl<Constant> for ri128 {
    open spec fn obeys_rem_spec() -> bool { true }
    open spec fn rem_req(self, rhs: Constant) -> bool { rhs.0 > 0 }
    open spec fn rem_spec(self, rhs: Constant) -> ri128 { ri128 { val: (self.val as int % rhs.0 as int) as i128 } }
}
impl core::ops::Rem<Constant> for ri128 {
    type Output = ri128;
    #[verifier::external_body]
    fn rem(self, rhs: Constant) -> ri128 { unimplemented!() }
}

impl AddSpecImpl<ri8> for ri128 {
    open spec fn obeys_add_spec() -> bool { true }
    open spec fn add_req(self, rhs: ri8) -> bool { i128::MIN <= self.val + rhs.val <= i128::MAX }
    open spec fn add_spec(self, rhs: ri8) -> ri128 { ri128 { val: (self.val + rhs.val) as i128 } }
}
impl core::ops::Add<ri8> for ri128 {
    type Output = ri128;
    #[verifier::external_body]
    fn add(self, rhs: ri8) -> ri128 { unimplemented!() }
}
impl AddAssignSpecImpl<ri8> for ri128 {
    open spec fn obeys_add_assign_spec() -> bool { true }
    open spec fn add_assign_req(&self, rhs: ri8) -> bool { i128::MIN <= self.val + rhs.val <= i128::MAX }
    open spec fn add_assign_spec(&self, rhs: ri8) -> &ri128 { &ri128 { val: (self.val + rhs.val) as i128 } }
}
impl core::ops::AddAssign<ri8> for ri128 {
    #[verifier::external_body]
    fn add_assign(&mut self, rhs: ri8) { unimplemented!() }
}

impl SubSpecImpl<ri8> for ri128 {
    open spec fn obeys_sub_spec() -> bool { true }
    open spec fn sub_req(self, rhs: ri8) -> bool { i128::MIN <= self.val - rhs.val <= i128::MAX }
    open spec fn sub_spec(self, rhs: ri8) -> ri128 { ri128 { val: (self.val - rhs.val) as i128 } }
}
impl core::ops::Sub<ri8> for ri128 {
    type Output = ri128;
    #[verifier::external_body]
    fn sub(self, rhs: ri8) -> ri128 { unimplemented!() }
}
impl SubAssignSpecImpl<ri8> for ri128 {
    open spec fn obeys_sub_assign_spec() -> bool { true }
    open spec fn sub_assign_req(&self, rhs: ri8) -> bool { i128::MIN <= self.val - rhs.val <= i128::MAX }
    open spec fn sub_assign_spec(&self, rhs: ri8) -> &ri128 { &ri128 { val: (self.val - rhs.val) as i128 } }
}
impl core::ops::SubAssign<ri8> for ri128 {
    #[verifier::external_body]
    fn sub_assign(&mut self, rhs: ri8) { unimplemented!() }
}

impl MulSpecImpl<ri8> for ri128 {
    open spec fn obeys_mul_spec() -> bool { true }
    open spec fn mul_req(self, rhs: ri8) -> bool { i128::MIN <= self.val * rhs.val <= i128::MAX }
    open spec fn mul_spec(self, rhs: ri8) -> ri128 { ri128 { val: (self.val * rhs.val) as i128 } }
}
impl core::ops::Mul<ri8> for ri128 {
    type Output = ri128;
    #[verifier::external_body]
    fn mul(self, rhs: ri8) -> ri128 { unimplemented!() }
}
impl MulAssignSpecImpl<ri8> for ri128 {
    open spec fn obeys_mul_assign_spec() -> bool { true }
    open spec fn mul_assign_req(&self, rhs: ri8) -> bool { i128::MIN <= self.val * rhs.val <= i128::MAX }
    open spec fn mul_assign_spec(&self, rhs: ri8) -> &ri128 { &ri128 { val: (self.val * rhs.val) as i128 } }
}
impl core::ops::MulAssign<ri8> for ri128 {
    #[verifier::external_body]
    fn mul_assign(&mut self, rhs: ri8) { unimplemented!() }
}

impl DivSpecImpl<ri8> for ri128 {
    open spec fn obeys_div_spec() -> bool { true }
    open spec fn div_req(self, rhs: ri8) -> bool { rhs.val > 0 }
    open spec fn div_spec(self, rhs: ri8) -> ri128 { ri128 { val: (self.val as int / rhs.val as int) as i128 } }
}
impl core::ops::Div<ri8> for ri128 {
    type Output = ri128;
    #[verifier::external_body]
    fn div(self, rhs: ri8) -> ri128 { unimplemented!() }
}
impl RemSpecImpl<ri8> for ri128 {
    open spec fn obeys_rem_spec() -> bool { true }
    open spec fn rem_req(self, rhs: ri8) -> bool { rhs.val > 0 }
    open spec fn rem_spec(self, rhs: ri8) -> ri128 { ri128 { val: (self.val as int % rhs.val as int) as i128 } }
}
impl core::ops::Rem<ri8> for ri128 {
    type Output = ri128;
    #[verifier::external_body]
    fn rem(self, rhs: ri8) -> ri128 { unimplemented!() }
}

impl AddSpecImpl<ri16> for ri128 {
    open spec fn obeys_add_spec() -> bool { true }
    open spec fn add_req(self, rhs: ri16) -> bool { i128::MIN <= self.val + rhs.val <= i128::MAX }
    open spec fn add_spec(self, rhs: ri16) -> ri128 { ri128 { val: (self.val + rhs.val) as i128 } }
}
impl core::ops::Add<ri16> for ri128 {
    type Output = ri128;
    #[verifier::external_body]
    fn add(self, rhs: ri16) -> ri128 { unimplemented!() }
}
impl AddAssignSpecImpl<ri16> for ri128 {
    open spec fn obeys_add_assign_spec() -> bool { true }
    open spec fn add_assign_req(&self, rhs: ri16) -> bool { i128::MIN <= self.val + rhs.val <= i128::MAX }
    open spec fn add_assign_spec(&self, rhs: ri16) -> &ri128 { &ri128 { val: (self.val + rhs.val) as i128 } }
}
impl core::ops::AddAssign<ri16> for ri128 {
    #[verifier::external_body]
    fn add_assign(&mut self, rhs: ri16) { unimplemented!() }
}

impl SubSpecImpl<ri16> for ri128 {
    open spec fn obeys_sub_spec() -> bool { true }
    open spec fn sub_req(self, rhs: ri16) -> bool { i128::MIN <= self.val - rhs.val <= i128::MAX }
    open spec fn sub_spec(self, rhs: ri16) -> ri128 { ri128 { val: (self.val - rhs.val) as i128 } }
}
impl core::ops::Sub<ri16> for ri128 {
    type Output = ri128;
    #[verifier::external_body]
    fn sub(self, rhs: ri16) -> ri128 { unimplemented!() }
}
impl SubAssignSpecImpl<ri16> for ri128 {
    open spec fn obeys_sub_assign_spec() -> bool { true }
    open spec fn sub_assign_req(&self, rhs: ri16) -> bool { i128::MIN <= self.val - rhs.val <= i128::MAX }
    open spec fn sub_assign_spec(&self, rhs: ri16) -> &ri128 { &ri128 { val: (self.val - rhs.val) as i128 } }
}
impl core::ops::SubAssign<ri16> for ri128 {
    #[verifier::external_body]
    fn sub_assign(&mut self, rhs: ri16) { unimplemented!() }
}

impl MulSpecImpl<ri16> for ri128 {
    open spec fn obeys_mul_spec() -> bool { true }
    open spec fn mul_req(self, rhs: ri16) -> bool { i128::MIN <= self.val * rhs.val <= i128::MAX }
    open spec fn mul_spec(self, rhs: ri16) -> ri128 { ri128 { val: (self.val * rhs.val) as i128 } }
}
impl core::ops::Mul<ri16> for ri128 {
    type Output = ri128;
    #[verifier::external_body]
    fn mul(self, rhs: ri16) -> ri128 { unimplemented!() }
}
impl MulAssignSpecImpl<ri16> for ri128 {
    open spec fn obeys_mul_assign_spec() -> bool { true }
    open spec fn mul_assign_req(&self, rhs: ri16) -> bool { i128::MIN <= self.val * rhs.val <= i128::MAX }
    open spec fn mul_assign_spec(&self, rhs: ri16) -> &ri128 { &ri128 { val: (self.val * rhs.val) as i128 } }
}
impl core::ops::MulAssign<ri16> for ri128 {
    #[verifier::external_body]
    fn mul_assign(&mut self, rhs: ri16) { unimplemented!() }
}

impl DivSpecImpl<ri16> for ri128 {
    open spec fn obeys_div_spec() -> bool { true }
    open spec fn div_req(self, rhs: ri16) -> bool { rhs.val > 0 }
    open spec fn div_spec(self, rhs: ri16) -> ri128 { ri128 { val: (self.val as int / rhs.val as int) as i128 } }
}
impl core::ops::Div<ri16> for ri128 {
    type Output = ri128;
    #[verifier::external_body]
    fn div(self, rhs: ri16) -> ri128 { unimplemented!() }
}
impl RemSpecImpl<ri16> for ri128 {
    open spec fn obeys_rem_spec() -> bool { true }
    open spec fn rem_req(self, rhs: ri16) -> bool { rhs.val > 0 }
    open spec fn rem_spec(self, rhs: ri16) -> ri128 { ri128 { val: (self.val as int % rhs.val as int) as i128 } }
}
impl core::ops::Rem<ri16> for ri128 {
    type Output = ri128;
    #[verifier::external_body]
    fn rem(self, rhs: ri16) -> ri128 { unimplemented!() }
}

impl AddSpecImpl<ri32> for ri128 {
    open spec fn obeys_add_spec() -> bool { true }
    open spec fn add_req(self, rhs: ri32) -> bool { i128::MIN <= self.val + rhs.val <= i128::MAX }
    open spec fn add_spec(self, rhs: ri32) -> ri128 { ri128 { val: (self.val + rhs.val) as i128 } }
}
impl core::ops::Add<ri32> for ri128 {
    type Output = ri128;
    #[verifier::external_body]
    fn add(self, rhs: ri32) -> ri128 { unimplemented!() }
}
impl AddAssignSpecImpl<ri32> for ri128 {
    open spec fn obeys_add_assign_spec() -> bool { true }
    open spec fn add_assign_req(&self, rhs: ri32) -> bool { i128::MIN <= self.val + rhs.val <= i128::MAX }
    open spec fn add_assign_spec(&self, rhs: ri32) -> &ri128 { &ri128 { val: (self.val + rhs.val) as i128 } }
}
impl core::ops::AddAssign<ri32> for ri128 {
    #[verifier::external_body]
    fn add_assign(&mut self, rhs: ri32) { unimplemented!() }
}

impl SubSpecImpl<ri32> for ri128 {
    open spec fn obeys_sub_spec() -> bool { true }
    open spec fn sub_req(self, rhs: ri32) -> bool { i128::MIN <= self.val - rhs.val <= i128::MAX }
    open spec fn sub_spec(self, rhs: ri32) -> ri128 { ri128 { val: (self.val - rhs.val) as i128 } }
}
impl core::ops::Sub<ri32> for ri128 {
    type Output = ri128;
    #[verifier::external_body]
    fn sub(self, rhs: ri32) -> ri128 { unimplemented!() }
}
impl SubAssignSpecImpl<ri32> for ri128 {
    open spec fn obeys_sub_assign_spec() -> bool { true }
    open spec fn sub_assign_req(&self, rhs: ri32) -> bool { i128::MIN <= self.val - rhs.val <= i128::MAX }
    open spec fn sub_assign_spec(&self, rhs: ri32) -> &ri128 { &ri128 { val: (self.val - rhs.val) as i128 } }
}
impl core::ops::SubAssign<ri32> for ri128 {
    #[verifier::external_body]
    fn sub_assign(&mut self, rhs: ri32) { unimplemented!() }
}

impl MulSpecImpl<ri32> for ri128 {
    open spec fn obeys_mul_spec() -> bool { true }
    open spec fn mul_req(self, rhs: ri32) -> bool { i128::MIN <= self.val * rhs.val <= i128::MAX }
    open spec fn mul_spec(self, rhs: ri32) -> ri128 { ri128 { val: (self.val * rhs.val) as i128 } }
}
impl core::ops::Mul<ri32> for ri128 {
    type Output = ri128;
    #[verifier::external_body]
    fn mul(self, rhs: ri32) -> ri128 { unimplemented!() }
}
impl MulAssignSpecImpl<ri32> for ri128 {
    open spec fn obeys_mul_assign_spec() -> bool { true }
    open spec fn mul_assign_req(&self, rhs: ri32) -> bool { i128::MIN <= self.val * rhs.val <= i128::MAX }
    open spec fn mul_assign_spec(&self, rhs: ri32) -> &ri128 { &ri128 { val: (self.val * rhs.val) as i128 } }
}
impl core::ops::MulAssign<ri32> for ri128 {
    #[verifier::external_body]
    fn mul_assign(&mut self, rhs: ri32) { unimplemented!() }
}

impl DivSpecImpl<ri32> for ri128 {
    open spec fn obeys_div_spec() -> bool { true }
    open spec fn div_req(self, rhs: ri32) -> bool { rhs.val > 0 }
    open spec fn div_spec(self, rhs: ri32) -> ri128 { ri128 { val: (self.val as int / rhs.val as int) as i128 } }
}
impl core::ops::Div<ri32> for ri128 {
    type Output = ri128;
    #[verifier::external_body]
    fn div(self, rhs: ri32) -> ri128 { unimplemented!() }
}
impl RemSpecImpl<ri32> for ri128 {
    open spec fn obeys_rem_spec() -> bool { true }
    open spec fn rem_req(self, rhs: ri32) -> bool { rhs.val > 0 }
    open spec fn rem_spec(self, rhs: ri32) -> ri128 { ri128 { val: (self.val as int % rhs.val as int) as i128 } }
}
impl core::ops::Rem<ri32> for ri128 {
    type Output = ri128;
    #[verifier::external_body]
    fn rem(self, rhs: ri32) -> ri128 { unimplemented!() }
}

impl AddSpecImpl<ri64> for ri128 {
    open spec fn obeys_add_spec() -> bool { true }
    open spec fn add_req(self, rhs: ri64) -> bool { i128::MIN <= self.val + rhs.val <= i128::MAX }
    open spec fn add_spec(self, rhs: ri64) -> ri128 { ri128 { val: (self.val + rhs.val) as i128 } }
}
impl core::ops::Add<ri64> for ri128 {
    type Output = ri128;
    #[verifier::external_body]
    fn add(self, rhs: ri64) -> ri128 { unimplemented!() }
}
impl AddAssignSpecImpl<ri64> for ri128 {
    open spec fn obeys_add_assign_spec() -> bool { true }
    open spec fn add_assign_req(&self, rhs: ri64) -> bool { i128::MIN <= self.val + rhs.val <= i128::MAX }
    open spec fn add_assign_spec(&self, rhs: ri64) -> &ri128 { &ri128 { val: (self.val + rhs.val) as i128 } }
}
impl core::ops::AddAssign<ri64> for ri128 {
    #[verifier::external_body]
    fn add_assign(&mut self, rhs: ri64) { unimplemented!() }
}

impl SubSpecImpl<ri64> for ri128 {
    open spec fn obeys_sub_spec() -> bool { true }
    open spec fn sub_req(self, rhs: ri64) -> bool { i128::MIN <= self.val - rhs.val <= i128::MAX }
    open spec fn sub_spec(self, rhs: ri64) -> ri128 { ri128 { val: (self.val - rhs.val) as i128 } }
}
impl core::ops::Sub<ri64> for ri128 {
    type Output = ri128;
    #[verifier::external_body]
    fn sub(self, rhs: ri64) -> ri128 { unimplemented!() }
}
impl SubAssignSpecImpl<ri64> for ri128 {
    open spec fn obeys_sub_assign_spec() -> bool { true }
    open spec fn sub_assign_req(&self, rhs: ri64) -> bool { i128::MIN <= self.val - rhs.val <= i128::MAX }
    open spec fn sub_assign_spec(&self, rhs: ri64) -> &ri128 { &ri128 { val: (self.val - rhs.val) as i128 } }
}
impl core::ops::SubAssign<ri64> for ri128 {
    #[verifier::external_body]
    fn sub_assign(&mut self, rhs: ri64) { unimplemented!() }
}

impl MulSpecImpl<ri64> for ri128 {
    open spec fn obeys_mul_spec() -> bool { true }
    open spec fn mul_req(self, rhs: ri64) -> bool { i128::MIN <= self.val * rhs.val <= i128::MAX }
    open spec fn mul_spec(self, rhs: ri64) -> ri128 { ri128 { val: (self.val * rhs.val) as i128 } }
}
impl core::ops::Mul<ri64> for ri128 {
    type Output = ri128;
    #[verifier::external_body]
    fn mul(self, rhs: ri64) -> ri128 { unimplemented!() }
}
impl MulAssignSpecImpl<ri64> for ri128 {
    open spec fn obeys_mul_assign_spec() -> bool { true }
    open spec fn mul_assign_req(&self, rhs: ri64) -> bool { i128::MIN <= self.val * rhs.val <= i128::MAX }
    open spec fn mul_assign_spec(&self, rhs: ri64) -> &ri128 { &ri128 { val: (self.val * rhs.val) as i128 } }
}
impl core::ops::MulAssign<ri64> for ri128 {
    #[verifier::external_body]
    fn mul_assign(&mut self, rhs: ri64) { unimplemented!() }
}

impl DivSpecImpl<ri64> for ri128 {
    open spec fn obeys_div_spec() -> bool { true }
    open spec fn div_req(self, rhs: ri64) -> bool { rhs.val > 0 }
    open spec fn div_spec(self, rhs: ri64) -> ri128 { ri128 { val: (self.val as int / rhs.val as int) as i128 } }
}
impl core::ops::Div<ri64> for ri128 {
    type Output = ri128;
    #[verifier::external_body]
    fn div(self, rhs: ri64) -> ri128 { unimplemented!() }
}
impl RemSpecImpl<ri64> for ri128 {
    open spec fn obeys_rem_spec() -> bool { true }
    open spec fn rem_req(self, rhs: ri64) -> bool { rhs.val > 0 }
    open spec fn rem_spec(self, rhs: ri64) -> ri128 { ri128 { val: (self.val as int % rhs.val as int) as i128 } }
}
impl core::ops::Rem<ri64> for ri128 {
    type Output = ri128;
    #[verifier::external_body]
    fn rem(self, rhs: ri64) -> ri128 { unimplemented!() }
}

impl NegSpecImpl for ri128 {
    open spec fn obeys_neg_spec() -> bool { true }
    open spec fn neg_req(self) -> bool { self.val > i128::MIN }
    open spec fn neg_spec(self) -> ri128 { ri128 { val: (-self.val) as i128 } }
}
impl core::ops::Neg for ri128 {
    type Output = ri128;
    #[verifier::external_body]
    fn neg(self) -> ri128 { unimplemented!() }
}

impl RInto<ri16> for ri8 {
    open spec fn rinto_spec(self) -> ri16 { ri16 { val: self.val as i16 } }
    open spec fn rinto_req(self) -> bool { true }
    #[verifier::external_body]
    fn rinto(self) -> (r: ri16) { unimplemented!() }
}
impl RFrom<ri8> for ri16 {
    open spec fn rfrom_spec(t: ri8) -> ri16 { ri16 { val: t.val as i16 } }
    open spec fn rfrom_req(t: ri8) -> bool { true }
    #[verifier::external_body]
    fn rfrom(t: ri8) -> (r: ri16) { unimplemented!() }
}

impl RInto<ri32> for ri8 {
    open spec fn rinto_spec(self) -> ri32 { ri32 { val: self.val as i32 } }
    open spec fn rinto_req(self) -> bool { true }
    #[verifier::external_body]
    fn rinto(self) -> (r: ri32) { unimplemented!() }
}
impl RFrom<ri8> for ri32 {
    open spec fn rfrom_spec(t: ri8) -> ri32 { ri32 { val: t.val as i32 } }
    open spec fn rfrom_req(t: ri8) -> bool { true }
    #[verifier::external_body]
    fn rfrom(t: ri8) -> (r: ri32) { unimplemented!() }
}

impl RInto<ri64> for ri8 {
    open spec fn rinto_spec(self) -> ri64 { ri64 { val: self.val as i64 } }
    open spec fn rinto_req(self) -> bool { true }
    #[verifier::external_body]
    fn rinto(self) -> (r: ri64) { unimplemented!() }
}
impl RFrom<ri8> for ri64 {
    open spec fn rfrom_spec(t: ri8) -> ri64 { ri64 { val: t.val as i64 } }
    open spec fn rfrom_req(t: ri8) -> bool { true }
    #[verifier::external_body]
    fn rfrom(t: ri8) -> (r: ri64) { unimplemented!() }
}

impl RInto<ri128> for ri8 {
    open spec fn rinto_spec(self) -> ri128 { ri128 { val: self.val as i128 } }
    open spec fn rinto_req(self) -> bool { true }
    #[verifier::external_body]
    fn rinto(self) -> (r: ri128) { unimplemented!() }
}
impl RFrom<ri8> for ri128 {
    open spec fn rfrom_spec(t: ri8) -> ri128 { ri128 { val: t.val as i128 } }
    open spec fn rfrom_req(t: ri8) -> bool { true }
    #[verifier::external_body]
    fn rfrom(t: ri8) -> (r: ri128) { unimplemented!() }
}

impl RInto<ri8> for ri16 {
    open spec fn rinto_spec(self) -> ri8 { ri8 { val: self.val as i8 } }
    open spec fn rinto_req(self) -> bool { i8::MIN <= self.val <= i8::MAX }
    #[verifier::external_body]
    fn rinto(self) -> (r: ri8) { unimplemented!() }
}
impl RFrom<ri16> for ri8 {
    open spec fn rfrom_spec(t: ri16) -> ri8 { ri8 { val: t.val as i8 } }
    open spec fn rfrom_req(t: ri16) -> bool { i8::MIN <= t.val <= i8::MAX }
    #[verifier::external_body]
    fn rfrom(t: ri16) -> (r: ri8) { unimplemented!() }
}

impl RInto<ri32> for ri16 {
    open spec fn rinto_spec(self) -> ri32 { ri32 { val: self.val as i32 } }
    open spec fn rinto_req(self) -> bool { true }
    #[verifier::external_body]
    fn rinto(self) -> (r: ri32) { unimplemented!() }
}
impl RFrom<ri16> for ri32 {
    open spec fn rfrom_spec(t: ri16) -> ri32 { ri32 { val: t.val as i32 } }
    open spec fn rfrom_req(t: ri16) -> bool { true }
    #[verifier::external_body]
    fn rfrom(t: ri16) -> (r: ri32) { unimplemented!() }
}

impl RInto<ri64> for ri16 {
    open spec fn rinto_spec(self) -> ri64 { ri64 { val: self.val as i64 } }
    open spec fn rinto_req(self) -> bool { true }
    #[verifier::external_body]
    fn rinto(self) -> (r: ri64) { unimplemented!() }
}
impl RFrom<ri16> for ri64 {
    open spec fn rfrom_spec(t: ri16) -> ri64 { ri64 { val: t.val as i64 } }
    open spec fn rfrom_req(t: ri16) -> bool { true }
    #[verifier::external_body]
    fn rfrom(t: ri16) -> (r: ri64) { unimplemented!() }
}

impl RInto<ri128> for ri16 {
    open spec fn rinto_spec(self) -> ri128 { ri128 { val: self.val as i128 } }
    open spec fn rinto_req(self) -> bool { true }
    #[verifier::external_body]
    fn rinto(self) -> (r: ri128) { unimplemented!() }
}
impl RFrom<ri16> for ri128 {
    open spec fn rfrom_spec(t: ri16) -> ri128 { ri128 { val: t.val as i128 } }
    open spec fn rfrom_req(t: ri16) -> bool { true }
    #[verifier::external_body]
    fn rfrom(t: ri16) -> (r: ri128) { unimplemented!() }
}

impl RInto<ri8> for ri32 {
    open spec fn rinto_spec(self) -> ri8 { ri8 { val: self.val as i8 } }
    open spec fn rinto_req(self) -> bool { i8::MIN <= self.val <= i8::MAX }
    #[verifier::external_body]
    fn rinto(self) -> (r: ri8) { unimplemented!() }
}
impl RFrom<ri32> for ri8 {
    open spec fn rfrom_spec(t: ri32) -> ri8 { ri8 { val: t.val as i8 } }
    open spec fn rfrom_req(t: ri32) -> bool { i8::MIN <= t.val <= i8::MAX }
    #[verifier::external_body]
    fn rfrom(t: ri32) -> (r: ri8) { unimplemented!() }
}

impl RInto<ri16> for ri32 {
    open spec fn rinto_spec(self) -> ri16 { ri16 { val: self.val as i16 } }
    open spec fn rinto_req(self) -> bool { i16::MIN <= self.val <= i16::MAX }
    #[verifier::external_body]
    fn rinto(self) -> (r: ri16) { unimplemented!() }
}
impl RFrom<ri32> for ri16 {
    open spec fn rfrom_spec(t: ri32) -> ri16 { ri16 { val: t.val as i16 } }
    open spec fn rfrom_req(t: ri32) -> bool { i16::MIN <= t.val <= i16::MAX }
    #[verifier::external_body]
    fn rfrom(t: ri32) -> (r: ri16) { unimplemented!() }
}

impl RInto<ri64> for ri32 {
    open spec fn rinto_spec(self) -> ri64 { ri64 { val: self.val as i64 } }
    open spec fn rinto_req(self) -> bool { true }
    #[verifier::external_body]
    fn rinto(self) -> (r: ri64) { unimplemented!() }
}
impl RFrom<ri32> for ri64 {
    open spec fn rfrom_spec(t: ri32) -> ri64 { ri64 { val: t.val as i64 } }
    open spec fn rfrom_req(t: ri32) -> bool { true }
    #[verifier::external_body]
    fn rfrom(t: ri32) -> (r: ri64) { unimplemented!() }
}

impl RInto<ri128> for ri32 {
    open spec fn rinto_spec(self) -> ri128 { ri128 { val: self.val as i128 } }
    open spec fn rinto_req(self) -> bool { true }
    #[verifier::external_body]
    fn rinto(self) -> (r: ri128) { unimplemented!() }
}
impl RFrom<ri32> for ri128 {
    open spec fn rfrom_spec(t: ri32) -> ri128 { ri128 { val: t.val as i128 } }
    open spec fn rfrom_req(t: ri32) -> bool { true }
    #[verifier::external_body]
    fn rfrom(t: ri32) -> (r: ri128) { unimplemented!() }
}

impl RInto<ri8> for ri64 {
    open spec fn rinto_spec(self) -> ri8 { ri8 { val: self.val as i8 } }
    open spec fn rinto_req(self) -> bool { i8::MIN <= self.val <= i8::MAX }
    #[verifier::external_body]
    fn rinto(self) -> (r: ri8) { unimplemented!() }
}
impl RFrom<ri64> for ri8 {
    open spec fn rfrom_spec(t: ri64) -> ri8 { ri8 { val: t.val as i8 } }
    open spec fn rfrom_req(t: ri64) -> bool { i8::MIN <= t.val <= i8::MAX }
    #[verifier::external_body]
    fn rfrom(t: ri64) -> (r: ri8) { unimplemented!() }
}

impl RInto<ri16> for ri64 {
    open spec fn rinto_spec(self) -> ri16 { ri16 { val: self.val as i16 } }
    open spec fn rinto_req(self) -> bool { i16::MIN <= self.val <= i16::MAX }
    #[verifier::external_body]
    fn rinto(self) -> (r: ri16) { unimplemented!() }
}
impl RFrom<ri64> for ri16 {
    open spec fn rfrom_spec(t: ri64) -> ri16 { ri16 { val: t.val as i16 } }
    open spec fn rfrom_req(t: ri64) -> bool { i16::MIN <= t.val <= i16::MAX }
    #[verifier::external_body]
    fn rfrom(t: ri64) -> (r: ri16) { unimplemented!() }
}

impl RInto<ri32> for ri64 {
    open spec fn rinto_spec(self) -> ri32 { ri32 { val: self.val as i32 } }
    open spec fn rinto_req(self) -> bool { i32::MIN <= self.val <= i32::MAX }
    #[verifier::external_body]
    fn rinto(self) -> (r: ri32) { unimplemented!() }
}
impl RFrom<ri64> for ri32 {
    open spec fn rfrom_spec(t: ri64) -> ri32 { ri32 { val: t.val as i32 } }
    open spec fn rfrom_req(t: ri64) -> bool { i32::MIN <= t.val <= i32::MAX }
    #[verifier::external_body]
    fn rfrom(t: ri64) -> (r: ri32) { unimplemented!() }
}

impl RInto<ri128> for ri64 {
    open spec fn rinto_spec(self) -> ri128 { ri128 { val: self.val as i128 } }
    open spec fn rinto_req(self) -> bool { true }
    #[verifier::external_body]
    fn rinto(self) -> (r: ri128) { unimplemented!() }
}
impl RFrom<ri64> for ri128 {
    open spec fn rfrom_spec(t: ri64) -> ri128 { ri128 { val: t.val as i128 } }
    open spec fn rfrom_req(t: ri64) -> bool { true }
    #[verifier::external_body]
    fn rfrom(t: ri64) -> (r: ri128) { unimplemented!() }
}

impl RInto<ri8> for ri128 {
    open spec fn rinto_spec(self) -> ri8 { ri8 { val: self.val as i8 } }
    open spec fn rinto_req(self) -> bool { i8::MIN <= self.val <= i8::MAX }
    #[verifier::external_body]
    fn rinto(self) -> (r: ri8) { unimplemented!() }
}
impl RFrom<ri128> for ri8 {
    open spec fn rfrom_spec(t: ri128) -> ri8 { ri8 { val: t.val as i8 } }
    open spec fn rfrom_req(t: ri128) -> bool { i8::MIN <= t.val <= i8::MAX }
    #[verifier::external_body]
    fn rfrom(t: ri128) -> (r: ri8) { unimplemented!() }
}

impl RInto<ri16> for ri128 {
    open spec fn rinto_spec(self) -> ri16 { ri16 { val: self.val as i16 } }
    open spec fn rinto_req(self) -> bool { i16::MIN <= self.val <= i16::MAX }
    #[verifier::external_body]
    fn rinto(self) -> (r: ri16) { unimplemented!() }
}
impl RFrom<ri128> for ri16 {
    open spec fn rfrom_spec(t: ri128) -> ri16 { ri16 { val: t.val as i16 } }
    open spec fn rfrom_req(t: ri128) -> bool { i16::MIN <= t.val <= i16::MAX }
    #[verifier::external_body]
    fn rfrom(t: ri128) -> (r: ri16) { unimplemented!() }
}

impl RInto<ri32> for ri128 {
    open spec fn rinto_spec(self) -> ri32 { ri32 { val: self.val as i32 } }
    open spec fn rinto_req(self) -> bool { i32::MIN <= self.val <= i32::MAX }
    #[verifier::external_body]
    fn rinto(self) -> (r: ri32) { unimplemented!() }
}
impl RFrom<ri128> for ri32 {
    open spec fn rfrom_spec(t: ri128) -> ri32 { ri32 { val: t.val as i32 } }
    open spec fn rfrom_req(t: ri128) -> bool { i32::MIN <= t.val <= i32::MAX }
    #[verifier::external_body]
    fn rfrom(t: ri128) -> (r: ri32) { unimplemented!() }
}

impl RInto<ri64> for ri128 {
    open spec fn rinto_spec(self) -> ri64 { ri64 { val: self.val as i64 } }
    open spec fn rinto_req(self) -> bool { i64::MIN <= self.val <= i64::MAX }
    #[verifier::external_body]
    fn rinto(self) -> (r: ri64) { unimplemented!() }
}
impl RFrom<ri128> for ri64 {
    open spec fn rfrom_spec(t: ri128) -> ri64 { ri64 { val: t.val as i64 } }
    open spec fn rfrom_req(t: ri128) -> bool { i64::MIN <= t.val <= i64::MAX }
    #[verifier::external_body]
    fn rfrom(t: ri128) -> (r: ri64) { unimplemented!() }
}


// ------------------------------------------------------------------ aliases (bounds re-introduced here only)
#[verifier::external_body]
#[derive(Debug)]
pub struct Error { _p: () }
#[verifier::external_body]
pub fn verif_err() -> Error { unimplemented!() }
pub type NoUnits = ri64;
pub open spec fn NoUnits_MIN() -> int { -9223372036854775808 }
pub open spec fn NoUnits_MAX() -> int { 9223372036854775807 }
pub open spec fn in_NoUnits(v: int) -> bool { -9223372036854775808 <= v <= 9223372036854775807 }
#[verifier::external_body]
pub fn verif_try_rfrom_NoUnits_8(r: ri8) -> (res: Result<ri64, Error>)
    ensures res.is_ok() <==> in_NoUnits(r.val as int), res.is_ok() ==> res.unwrap().val == r.val
{ unimplemented!() }
#[verifier::external_body]
pub fn verif_try_rfrom_NoUnits_16(r: ri16) -> (res: Result<ri64, Error>)
    ensures res.is_ok() <==> in_NoUnits(r.val as int), res.is_ok() ==> res.unwrap().val == r.val
{ unimplemented!() }
#[verifier::external_body]
pub fn verif_try_rfrom_NoUnits_32(r: ri32) -> (res: Result<ri64, Error>)
    ensures res.is_ok() <==> in_NoUnits(r.val as int), res.is_ok() ==> res.unwrap().val == r.val
{ unimplemented!() }
#[verifier::external_body]
pub fn verif_try_rfrom_NoUnits_64(r: ri64) -> (res: Result<ri64, Error>)
    ensures res.is_ok() <==> in_NoUnits(r.val as int), res.is_ok() ==> res.unwrap().val == r.val
{ unimplemented!() }
#[verifier::external_body]
pub fn verif_try_rfrom_NoUnits_128(r: ri128) -> (res: Result<ri64, Error>)
    ensures res.is_ok() <==> in_NoUnits(r.val as int), res.is_ok() ==> res.unwrap().val == r.val
{ unimplemented!() }
#[verifier::external_body]
pub fn verif_try_new_NoUnits(v: i64) -> (res: Result<ri64, Error>)
    ensures res.is_ok() <==> in_NoUnits(v as int), res.is_ok() ==> res.unwrap().val == v
{ unimplemented!() }
#[verifier::external_body]
pub fn verif_try_new128_NoUnits(v: i128) -> (res: Result<ri64, Error>)
    ensures res.is_ok() <==> in_NoUnits(v as int), res.is_ok() ==> res.unwrap().val == v
{ unimplemented!() }
// `NoUnits::MIN` / `NoUnits::MAX` (associated consts of type i128)
pub fn verif_MIN_NoUnits() -> (r: i128) ensures r == NoUnits_MIN() { -9223372036854775808 }
pub fn verif_MAX_NoUnits() -> (r: i128) ensures r == NoUnits_MAX() { 9223372036854775807 }
// `x.try_checked_mul("what", rhs)` with x: NoUnits -- Ok iff the exact product lies within NoUnits::MIN..=MAX
#[verifier::external_body]
pub fn verif_try_checked_mul_NoUnits<R: RInto<ri64>>(x: ri64, rhs: R) -> (res: Result<ri64, Error>)
    requires rhs.rinto_req(),
    ensures res.is_ok() <==> in_NoUnits(x.val * rhs.rinto_spec().val), res.is_ok() ==> res.unwrap().val == x.val * rhs.rinto_spec().val
{ unimplemented!() }
// `x.try_checked_add/sub("what", rhs)` and `x.checked_add/sub/mul(rhs)` with x: NoUnits -- fail iff the exact result leaves NoUnits::MIN..=MAX
#[verifier::external_body]
pub fn verif_try_checked_add_NoUnits<R: RInto<ri64>>(x: ri64, rhs: R) -> (res: Result<ri64, Error>)
    requires rhs.rinto_req(),
    ensures res.is_ok() <==> in_NoUnits(x.val + rhs.rinto_spec().val), res.is_ok() ==> res.unwrap().val == x.val + rhs.rinto_spec().val
{ unimplemented!() }
#[verifier::external_body]
pub fn verif_try_checked_sub_NoUnits<R: RInto<ri64>>(x: ri64, rhs: R) -> (res: Result<ri64, Error>)
    requires rhs.rinto_req(),
    ensures res.is_ok() <==> in_NoUnits(x.val - rhs.rinto_spec().val), res.is_ok() ==> res.unwrap().val == x.val - rhs.rinto_spec().val
{ unimplemented!() }
#[verifier::external_body]
pub fn verif_checked_add_NoUnits<R: RInto<ri64>>(x: ri64, rhs: R) -> (res: Option<ri64>)
    requires rhs.rinto_req(),
    ensures res.is_some() <==> in_NoUnits(x.val + rhs.rinto_spec().val), res.is_some() ==> res.unwrap().val == x.val + rhs.rinto_spec().val
{ unimplemented!() }
#[verifier::external_body]
pub fn verif_checked_sub_NoUnits<R: RInto<ri64>>(x: ri64, rhs: R) -> (res: Option<ri64>)
    requires rhs.rinto_req(),
    ensures res.is_some() <==> in_NoUnits(x.val - rhs.rinto_spec().val), res.is_some() ==> res.unwrap().val == x.val - rhs.rinto_spec().val
{ unimplemented!() }
#[verifier::external_body]
pub fn verif_checked_mul_NoUnits<R: RInto<ri64>>(x: ri64, rhs: R) -> (res: Option<ri64>)
    requires rhs.rinto_req(),
    ensures res.is_some() <==> in_NoUnits(x.val * rhs.rinto_spec().val), res.is_some() ==> res.unwrap().val == x.val * rhs.rinto_spec().val
{ unimplemented!() }
pub type NoUnits128 = ri128;
pub open spec fn NoUnits128_MIN() -> int { -170141183460469231731687303715884105728 }
pub open spec fn NoUnits128_MAX() -> int { 170141183460469231731687303715884105727 }
pub open spec fn in_NoUnits128(v: int) -> bool { -170141183460469231731687303715884105728 <= v <= 170141183460469231731687303715884105727 }
#[verifier::external_body]
pub fn verif_try_rfrom_NoUnits128_8(r: ri8) -> (res: Result<ri128, Error>)
    ensures res.is_ok() <==> in_NoUnits128(r.val as int), res.is_ok() ==> res.unwrap().val == r.val
{ unimplemented!() }
#[verifier::external_body]
pub fn verif_try_rfrom_NoUnits128_16(r: ri16) -> (res: Result<ri128, Error>)
    ensures res.is_ok() <==> in_NoUnits128(r.val as int), res.is_ok() ==> res.unwrap().val == r.val
{ unimplemented!() }
#[verifier::external_body]
pub fn verif_try_rfrom_NoUnits128_32(r: ri32) -> (res: Result<ri128, Error>)
    ensures res.is_ok() <==> in_NoUnits128(r.val as int), res.is_ok() ==> res.unwrap().val == r.val
{ unimplemented!() }
#[verifier::external_body]
pub fn verif_try_rfrom_NoUnits128_64(r: ri64) -> (res: Result<ri128, Error>)
    ensures res.is_ok() <==> in_NoUnits128(r.val as int), res.is_ok() ==> res.unwrap().val == r.val
{ unimplemented!() }
#[verifier::external_body]
pub fn verif_try_rfrom_NoUnits128_128(r: ri128) -> (res: Result<ri128, Error>)
    ensures res.is_ok() <==> in_NoUnits128(r.val as int), res.is_ok() ==> res.unwrap().val == r.val
{ unimplemented!() }
#[verifier::external_body]
pub fn verif_try_new_NoUnits128(v: i64) -> (res: Result<ri128, Error>)
    ensures res.is_ok() <==> in_NoUnits128(v as int), res.is_ok() ==> res.unwrap().val == v
{ unimplemented!() }
#[verifier::external_body]
pub fn verif_try_new128_NoUnits128(v: i128) -> (res: Result<ri128, Error>)
    ensures res.is_ok() <==> in_NoUnits128(v as int), res.is_ok() ==> res.unwrap().val == v
{ unimplemented!() }
// `NoUnits128::MIN` / `NoUnits128::MAX` (associated consts of type i128)
pub fn verif_MIN_NoUnits128() -> (r: i128) ensures r == NoUnits128_MIN() { -170141183460469231731687303715884105728 }
pub fn verif_MAX_NoUnits128() -> (r: i128) ensures r == NoUnits128_MAX() { 170141183460469231731687303715884105727 }
// `x.try_checked_mul("what", rhs)` with x: NoUnits128 -- Ok iff the exact product lies within NoUnits128::MIN..=MAX
#[verifier::external_body]
pub fn verif_try_checked_mul_NoUnits128<R: RInto<ri128>>(x: ri128, rhs: R) -> (res: Result<ri128, Error>)
    requires rhs.rinto_req(),
    ensures res.is_ok() <==> in_NoUnits128(x.val * rhs.rinto_spec().val), res.is_ok() ==> res.unwrap().val == x.val * rhs.rinto_spec().val
{ unimplemented!() }
// `x.try_checked_add/sub("what", rhs)` and `x.checked_add/sub/mul(rhs)` with x: NoUnits128 -- fail iff the exact result leaves NoUnits128::MIN..=MAX
#[verifier::external_body]
pub fn verif_try_checked_add_NoUnits128<R: RInto<ri128>>(x: ri128, rhs: R) -> (res: Result<ri128, Error>)
    requires rhs.rinto_req(),
    ensures res.is_ok() <==> in_NoUnits128(x.val + rhs.rinto_spec().val), res.is_ok() ==> res.unwrap().val == x.val + rhs.rinto_spec().val
{ unimplemented!() }
#[verifier::external_body]
pub fn verif_try_checked_sub_NoUnits128<R: RInto<ri128>>(x: ri128, rhs: R) -> (res: Result<ri128, Error>)
    requires rhs.rinto_req(),
    ensures res.is_ok() <==> in_NoUnits128(x.val - rhs.rinto_spec().val), res.is_ok() ==> res.unwrap().val == x.val - rhs.rinto_spec().val
{ unimplemented!() }
#[verifier::external_body]
pub fn verif_checked_add_NoUnits128<R: RInto<ri128>>(x: ri128, rhs: R) -> (res: Option<ri128>)
    requires rhs.rinto_req(),
    ensures res.is_some() <==> in_NoUnits128(x.val + rhs.rinto_spec().val), res.is_some() ==> res.unwrap().val == x.val + rhs.rinto_spec().val
{ unimplemented!() }
#[verifier::external_body]
pub fn verif_checked_sub_NoUnits128<R: RInto<ri128>>(x: ri128, rhs: R) -> (res: Option<ri128>)
    requires rhs.rinto_req(),
    ensures res.is_some() <==> in_NoUnits128(x.val - rhs.rinto_spec().val), res.is_some() ==> res.unwrap().val == x.val - rhs.rinto_spec().val
{ unimplemented!() }
#[verifier::external_body]
pub fn verif_checked_mul_NoUnits128<R: RInto<ri128>>(x: ri128, rhs: R) -> (res: Option<ri128>)
    requires rhs.rinto_req(),
    ensures res.is_some() <==> in_NoUnits128(x.val * rhs.rinto_spec().val), res.is_some() ==> res.unwrap().val == x.val * rhs.rinto_spec().val
{ unimplemented!() }
pub type NoUnits96 = ri128;
pub open spec fn NoUnits96_MIN() -> int { -39614081257132168796771975168 }
pub open spec fn NoUnits96_MAX() -> int { 39614081257132168796771975167 }
pub open spec fn in_NoUnits96(v: int) -> bool { -39614081257132168796771975168 <= v <= 39614081257132168796771975167 }
#[verifier::external_body]
pub fn verif_try_rfrom_NoUnits96_8(r: ri8) -> (res: Result<ri128, Error>)
    ensures res.is_ok() <==> in_NoUnits96(r.val as int), res.is_ok() ==> res.unwrap().val == r.val
{ unimplemented!() }
#[verifier::external_body]
pub fn verif_try_rfrom_NoUnits96_16(r: ri16) -> (res: Result<ri128, Error>)
    ensures res.is_ok() <==> in_NoUnits96(r.val as int), res.is_ok() ==> res.unwrap().val == r.val
{ unimplemented!() }
#[verifier::external_body]
pub fn verif_try_rfrom_NoUnits96_32(r: ri32) -> (res: Result<ri128, Error>)
    ensures res.is_ok() <==> in_NoUnits96(r.val as int), res.is_ok() ==> res.unwrap().val == r.val
{ unimplemented!() }
#[verifier::external_body]
pub fn verif_try_rfrom_NoUnits96_64(r: ri64) -> (res: Result<ri128, Error>)
    ensures res.is_ok() <==> in_NoUnits96(r.val as int), res.is_ok() ==> res.unwrap().val == r.val
{ unimplemented!() }
#[verifier::external_body]
pub fn verif_try_rfrom_NoUnits96_128(r: ri128) -> (res: Result<ri128, Error>)
    ensures res.is_ok() <==> in_NoUnits96(r.val as int), res.is_ok() ==> res.unwrap().val == r.val
{ unimplemented!() }
#[verifier::external_body]
pub fn verif_try_new_NoUnits96(v: i64) -> (res: Result<ri128, Error>)
    ensures res.is_ok() <==> in_NoUnits96(v as int), res.is_ok() ==> res.unwrap().val == v
{ unimplemented!() }
#[verifier::external_body]
pub fn verif_try_new128_NoUnits96(v: i128) -> (res: Result<ri128, Error>)
    ensures res.is_ok() <==> in_NoUnits96(v as int), res.is_ok() ==> res.unwrap().val == v
{ unimplemented!() }
// `NoUnits96::MIN` / `NoUnits96::MAX` (associated consts of type i128)
pub fn verif_MIN_NoUnits96() -> (r: i128) ensures r == NoUnits96_MIN() { -39614081257132168796771975168 }
pub fn verif_MAX_NoUnits96() -> (r: i128) ensures r == NoUnits96_MAX() { 39614081257132168796771975167 }
// `x.try_checked_mul("what", rhs)` with x: NoUnits96 -- Ok iff the exact product lies within NoUnits96::MIN..=MAX
#[verifier::external_body]
pub fn verif_try_checked_mul_NoUnits96<R: RInto<ri128>>(x: ri128, rhs: R) -> (res: Result<ri128, Error>)
    requires rhs.rinto_req(),
    ensures res.is_ok() <==> in_NoUnits96(x.val * rhs.rinto_spec().val), res.is_ok() ==> res.unwrap().val == x.val * rhs.rinto_spec().val
{ unimplemented!() }
// `x.try_checked_add/sub("what", rhs)` and `x.checked_add/sub/mul(rhs)` with x: NoUnits96 -- fail iff the exact result leaves NoUnits96::MIN..=MAX
#[verifier::external_body]
pub fn verif_try_checked_add_NoUnits96<R: RInto<ri128>>(x: ri128, rhs: R) -> (res: Result<ri128, Error>)
    requires rhs.rinto_req(),
    ensures res.is_ok() <==> in_NoUnits96(x.val + rhs.rinto_spec().val), res.is_ok() ==> res.unwrap().val == x.val + rhs.rinto_spec().val
{ unimplemented!() }
#[verifier::external_body]
pub fn verif_try_checked_sub_NoUnits96<R: RInto<ri128>>(x: ri128, rhs: R) -> (res: Result<ri128, Error>)
    requires rhs.rinto_req(),
    ensures res.is_ok() <==> in_NoUnits96(x.val - rhs.rinto_spec().val), res.is_ok() ==> res.unwrap().val == x.val - rhs.rinto_spec().val
{ unimplemented!() }
#[verifier::external_body]
pub fn verif_checked_add_NoUnits96<R: RInto<ri128>>(x: ri128, rhs: R) -> (res: Option<ri128>)
    requires rhs.rinto_req(),
    ensures res.is_some() <==> in_NoUnits96(x.val + rhs.rinto_spec().val), res.is_some() ==> res.unwrap().val == x.val + rhs.rinto_spec().val
{ unimplemented!() }
#[verifier::external_body]
pub fn verif_checked_sub_NoUnits96<R: RInto<ri128>>(x: ri128, rhs: R) -> (res: Option<ri128>)
    requires rhs.rinto_req(),
    ensures res.is_some() <==> in_NoUnits96(x.val - rhs.rinto_spec().val), res.is_some() ==> res.unwrap().val == x.val - rhs.rinto_spec().val
{ unimplemented!() }
#[verifier::external_body]
pub fn verif_checked_mul_NoUnits96<R: RInto<ri128>>(x: ri128, rhs: R) -> (res: Option<ri128>)
    requires rhs.rinto_req(),
    ensures res.is_some() <==> in_NoUnits96(x.val * rhs.rinto_spec().val), res.is_some() ==> res.unwrap().val == x.val * rhs.rinto_spec().val
{ unimplemented!() }
pub type NoUnits32 = ri32;
pub open spec fn NoUnits32_MIN() -> int { -2147483648 }
pub open spec fn NoUnits32_MAX() -> int { 2147483647 }
pub open spec fn in_NoUnits32(v: int) -> bool { -2147483648 <= v <= 2147483647 }
#[verifier::external_body]
pub fn verif_try_rfrom_NoUnits32_8(r: ri8) -> (res: Result<ri32, Error>)
    ensures res.is_ok() <==> in_NoUnits32(r.val as int), res.is_ok() ==> res.unwrap().val == r.val
{ unimplemented!() }
#[verifier::external_body]
pub fn verif_try_rfrom_NoUnits32_16(r: ri16) -> (res: Result<ri32, Error>)
    ensures res.is_ok() <==> in_NoUnits32(r.val as int), res.is_ok() ==> res.unwrap().val == r.val
{ unimplemented!() }
#[verifier::external_body]
pub fn verif_try_rfrom_NoUnits32_32(r: ri32) -> (res: Result<ri32, Error>)
    ensures res.is_ok() <==> in_NoUnits32(r.val as int), res.is_ok() ==> res.unwrap().val == r.val
{ unimplemented!() }
#[verifier::external_body]
pub fn verif_try_rfrom_NoUnits32_64(r: ri64) -> (res: Result<ri32, Error>)
    ensures res.is_ok() <==> in_NoUnits32(r.val as int), res.is_ok() ==> res.unwrap().val == r.val
{ unimplemented!() }
#[verifier::external_body]
pub fn verif_try_rfrom_NoUnits32_128(r: ri128) -> (res: Result<ri32, Error>)
    ensures res.is_ok() <==> in_NoUnits32(r.val as int), res.is_ok() ==> res.unwrap().val == r.val
{ unimplemented!() }
#[verifier::external_body]
pub fn verif_try_new_NoUnits32(v: i64) -> (res: Result<ri32, Error>)
    ensures res.is_ok() <==> in_NoUnits32(v as int), res.is_ok() ==> res.unwrap().val == v
{ unimplemented!() }
#[verifier::external_body]
pub fn verif_try_new128_NoUnits32(v: i128) -> (res: Result<ri32, Error>)
    ensures res.is_ok() <==> in_NoUnits32(v as int), res.is_ok() ==> res.unwrap().val == v
{ unimplemented!() }
// `NoUnits32::MIN` / `NoUnits32::MAX` (associated consts of type i128)
pub fn verif_MIN_NoUnits32() -> (r: i128) ensures r == NoUnits32_MIN() { -2147483648 }
pub fn verif_MAX_NoUnits32() -> (r: i128) ensures r == NoUnits32_MAX() { 2147483647 }
// `x.try_checked_mul("what", rhs)` with x: NoUnits32 -- Ok iff the exact product lies within NoUnits32::MIN..=MAX
#[verifier::external_body]
pub fn verif_try_checked_mul_NoUnits32<R: RInto<ri32>>(x: ri32, rhs: R) -> (res: Result<ri32, Error>)
    requires rhs.rinto_req(),
    ensures res.is_ok() <==> in_NoUnits32(x.val * rhs.rinto_spec().val), res.is_ok() ==> res.unwrap().val == x.val * rhs.rinto_spec().val
{ unimplemented!() }
// `x.try_checked_add/sub("what", rhs)` and `x.checked_add/sub/mul(rhs)` with x: NoUnits32 -- fail iff the exact result leaves NoUnits32::MIN..=MAX
#[verifier::external_body]
pub fn verif_try_checked_add_NoUnits32<R: RInto<ri32>>(x: ri32, rhs: R) -> (res: Result<ri32, Error>)
    requires rhs.rinto_req(),
    ensures res.is_ok() <==> in_NoUnits32(x.val + rhs.rinto_spec().val), res.is_ok() ==> res.unwrap().val == x.val + rhs.rinto_spec().val
{ unimplemented!() }
#[verifier::external_body]
pub fn verif_try_checked_sub_NoUnits32<R: RInto<ri32>>(x: ri32, rhs: R) -> (res: Result<ri32, Error>)
    requires rhs.rinto_req(),
    ensures res.is_ok() <==> in_NoUnits32(x.val - rhs.rinto_spec().val), res.is_ok() ==> res.unwrap().val == x.val - rhs.rinto_spec().val
{ unimplemented!() }
#[verifier::external_body]
pub fn verif_checked_add_NoUnits32<R: RInto<ri32>>(x: ri32, rhs: R) -> (res: Option<ri32>)
    requires rhs.rinto_req(),
    ensures res.is_some() <==> in_NoUnits32(x.val + rhs.rinto_spec().val), res.is_some() ==> res.unwrap().val == x.val + rhs.rinto_spec().val
{ unimplemented!() }
#[verifier::external_body]
pub fn verif_checked_sub_NoUnits32<R: RInto<ri32>>(x: ri32, rhs: R) -> (res: Option<ri32>)
    requires rhs.rinto_req(),
    ensures res.is_some() <==> in_NoUnits32(x.val - rhs.rinto_spec().val), res.is_some() ==> res.unwrap().val == x.val - rhs.rinto_spec().val
{ unimplemented!() }
#[verifier::external_body]
pub fn verif_checked_mul_NoUnits32<R: RInto<ri32>>(x: ri32, rhs: R) -> (res: Option<ri32>)
    requires rhs.rinto_req(),
    ensures res.is_some() <==> in_NoUnits32(x.val * rhs.rinto_spec().val), res.is_some() ==> res.unwrap().val == x.val * rhs.rinto_spec().val
{ unimplemented!() }
pub type NoUnits16 = ri16;
pub open spec fn NoUnits16_MIN() -> int { -32768 }
pub open spec fn NoUnits16_MAX() -> int { 32767 }
pub open spec fn in_NoUnits16(v: int) -> bool { -32768 <= v <= 32767 }
#[verifier::external_body]
pub fn verif_try_rfrom_NoUnits16_8(r: ri8) -> (res: Result<ri16, Error>)
    ensures res.is_ok() <==> in_NoUnits16(r.val as int), res.is_ok() ==> res.unwrap().val == r.val
{ unimplemented!() }
#[verifier::external_body]
pub fn verif_try_rfrom_NoUnits16_16(r: ri16) -> (res: Result<ri16, Error>)
    ensures res.is_ok() <==> in_NoUnits16(r.val as int), res.is_ok() ==> res.unwrap().val == r.val
{ unimplemented!() }
#[verifier::external_body]
pub fn verif_try_rfrom_NoUnits16_32(r: ri32) -> (res: Result<ri16, Error>)
    ensures res.is_ok() <==> in_NoUnits16(r.val as int), res.is_ok() ==> res.unwrap().val == r.val
{ unimplemented!() }
#[verifier::external_body]
pub fn verif_try_rfrom_NoUnits16_64(r: ri64) -> (res: Result<ri16, Error>)
    ensures res.is_ok() <==> in_NoUnits16(r.val as int), res.is_ok() ==> res.unwrap().val == r.val
{ unimplemented!() }
#[verifier::external_body]
pub fn verif_try_rfrom_NoUnits16_128(r: ri128) -> (res: Result<ri16, Error>)
    ensures res.is_ok() <==> in_NoUnits16(r.val as int), res.is_ok() ==> res.unwrap().val == r.val
{ unimplemented!() }
#[verifier::external_body]
pub fn verif_try_new_NoUnits16(v: i64) -> (res: Result<ri16, Error>)
    ensures res.is_ok() <==> in_NoUnits16(v as int), res.is_ok() ==> res.unwrap().val == v
{ unimplemented!() }
#[verifier::external_body]
pub fn verif_try_new128_NoUnits16(v: i128) -> (res: Result<ri16, Error>)
    ensures res.is_ok() <==> in_NoUnits16(v as int), res.is_ok() ==> res.unwrap().val == v
{ unimplemented!() }
// `NoUnits16::MIN` / `NoUnits16::MAX` (associated consts of type i128)
pub fn verif_MIN_NoUnits16() -> (r: i128) ensures r == NoUnits16_MIN() { -32768 }
pub fn verif_MAX_NoUnits16() -> (r: i128) ensures r == NoUnits16_MAX() { 32767 }
// `x.try_checked_mul("what", rhs)` with x: NoUnits16 -- Ok iff the exact product lies within NoUnits16::MIN..=MAX
#[verifier::external_body]
pub fn verif_try_checked_mul_NoUnits16<R: RInto<ri16>>(x: ri16, rhs: R) -> (res: Result<ri16, Error>)
    requires rhs.rinto_req(),
    ensures res.is_ok() <==> in_NoUnits16(x.val * rhs.rinto_spec().val), res.is_ok() ==> res.unwrap().val == x.val * rhs.rinto_spec().val
{ unimplemented!() }
// `x.try_checked_add/sub("what", rhs)` and `x.checked_add/sub/mul(rhs)` with x: NoUnits16 -- fail iff the exact result leaves NoUnits16::MIN..=MAX
#[verifier::external_body]
pub fn verif_try_checked_add_NoUnits16<R: RInto<ri16>>(x: ri16, rhs: R) -> (res: Result<ri16, Error>)
    requires rhs.rinto_req(),
    ensures res.is_ok() <==> in_NoUnits16(x.val + rhs.rinto_spec().val), res.is_ok() ==> res.unwrap().val == x.val + rhs.rinto_spec().val
{ unimplemented!() }
#[verifier::external_body]
pub fn verif_try_checked_sub_NoUnits16<R: RInto<ri16>>(x: ri16, rhs: R) -> (res: Result<ri16, Error>)
    requires rhs.rinto_req(),
    ensures res.is_ok() <==> in_NoUnits16(x.val - rhs.rinto_spec().val), res.is_ok() ==> res.unwrap().val == x.val - rhs.rinto_spec().val
{ unimplemented!() }
#[verifier::external_body]
pub fn verif_checked_add_NoUnits16<R: RInto<ri16>>(x: ri16, rhs: R) -> (res: Option<ri16>)
    requires rhs.rinto_req(),
    ensures res.is_some() <==> in_NoUnits16(x.val + rhs.rinto_spec().val), res.is_some() ==> res.unwrap().val == x.val + rhs.rinto_spec().val
{ unimplemented!() }
#[verifier::external_body]
pub fn verif_checked_sub_NoUnits16<R: RInto<ri16>>(x: ri16, rhs: R) -> (res: Option<ri16>)
    requires rhs.rinto_req(),
    ensures res.is_some() <==> in_NoUnits16(x.val - rhs.rinto_spec().val), res.is_some() ==> res.unwrap().val == x.val - rhs.rinto_spec().val
{ unimplemented!() }
#[verifier::external_body]
pub fn verif_checked_mul_NoUnits16<R: RInto<ri16>>(x: ri16, rhs: R) -> (res: Option<ri16>)
    requires rhs.rinto_req(),
    ensures res.is_some() <==> in_NoUnits16(x.val * rhs.rinto_spec().val), res.is_some() ==> res.unwrap().val == x.val * rhs.rinto_spec().val
{ unimplemented!() }
pub type NoUnits8 = ri8;
pub open spec fn NoUnits8_MIN() -> int { -128 }
pub open spec fn NoUnits8_MAX() -> int { 127 }
pub open spec fn in_NoUnits8(v: int) -> bool { -128 <= v <= 127 }
#[verifier::external_body]
pub fn verif_try_rfrom_NoUnits8_8(r: ri8) -> (res: Result<ri8, Error>)
    ensures res.is_ok() <==> in_NoUnits8(r.val as int), res.is_ok() ==> res.unwrap().val == r.val
{ unimplemented!() }
#[verifier::external_body]
pub fn verif_try_rfrom_NoUnits8_16(r: ri16) -> (res: Result<ri8, Error>)
    ensures res.is_ok() <==> in_NoUnits8(r.val as int), res.is_ok() ==> res.unwrap().val == r.val
{ unimplemented!() }
#[verifier::external_body]
pub fn verif_try_rfrom_NoUnits8_32(r: ri32) -> (res: Result<ri8, Error>)
    ensures res.is_ok() <==> in_NoUnits8(r.val as int), res.is_ok() ==> res.unwrap().val == r.val
{ unimplemented!() }
#[verifier::external_body]
pub fn verif_try_rfrom_NoUnits8_64(r: ri64) -> (res: Result<ri8, Error>)
    ensures res.is_ok() <==> in_NoUnits8(r.val as int), res.is_ok() ==> res.unwrap().val == r.val
{ unimplemented!() }
#[verifier::external_body]
pub fn verif_try_rfrom_NoUnits8_128(r: ri128) -> (res: Result<ri8, Error>)
    ensures res.is_ok() <==> in_NoUnits8(r.val as int), res.is_ok() ==> res.unwrap().val == r.val
{ unimplemented!() }
#[verifier::external_body]
pub fn verif_try_new_NoUnits8(v: i64) -> (res: Result<ri8, Error>)
    ensures res.is_ok() <==> in_NoUnits8(v as int), res.is_ok() ==> res.unwrap().val == v
{ unimplemented!() }
#[verifier::external_body]
pub fn verif_try_new128_NoUnits8(v: i128) -> (res: Result<ri8, Error>)
    ensures res.is_ok() <==> in_NoUnits8(v as int), res.is_ok() ==> res.unwrap().val == v
{ unimplemented!() }
// `NoUnits8::MIN` / `NoUnits8::MAX` (associated consts of type i128)
pub fn verif_MIN_NoUnits8() -> (r: i128) ensures r == NoUnits8_MIN() { -128 }
pub fn verif_MAX_NoUnits8() -> (r: i128) ensures r == NoUnits8_MAX() { 127 }
// `x.try_checked_mul("what", rhs)` with x: NoUnits8 -- Ok iff the exact product lies within NoUnits8::MIN..=MAX
#[verifier::external_body]
pub fn verif_try_checked_mul_NoUnits8<R: RInto<ri8>>(x: ri8, rhs: R) -> (res: Result<ri8, Error>)
    requires rhs.rinto_req(),
    ensures res.is_ok() <==> in_NoUnits8(x.val * rhs.rinto_spec().val), res.is_ok() ==> res.unwrap().val == x.val * rhs.rinto_spec().val
{ unimplemented!() }
// `x.try_checked_add/sub("what", rhs)` and `x.checked_add/sub/mul(rhs)` with x: NoUnits8 -- fail iff the exact result leaves NoUnits8::MIN..=MAX
#[verifier::external_body]
pub fn verif_try_checked_add_NoUnits8<R: RInto<ri8>>(x: ri8, rhs: R) -> (res: Result<ri8, Error>)
    requires rhs.rinto_req(),
    ensures res.is_ok() <==> in_NoUnits8(x.val + rhs.rinto_spec().val), res.is_ok() ==> res.unwrap().val == x.val + rhs.rinto_spec().val
{ unimplemented!() }
#[verifier::external_body]
pub fn verif_try_checked_sub_NoUnits8<R: RInto<ri8>>(x: ri8, rhs: R) -> (res: Result<ri8, Error>)
    requires rhs.rinto_req(),
    ensures res.is_ok() <==> in_NoUnits8(x.val - rhs.rinto_spec().val), res.is_ok() ==> res.unwrap().val == x.val - rhs.rinto_spec().val
{ unimplemented!() }
#[verifier::external_body]
pub fn verif_checked_add_NoUnits8<R: RInto<ri8>>(x: ri8, rhs: R) -> (res: Option<ri8>)
    requires rhs.rinto_req(),
    ensures res.is_some() <==> in_NoUnits8(x.val + rhs.rinto_spec().val), res.is_some() ==> res.unwrap().val == x.val + rhs.rinto_spec().val
{ unimplemented!() }
#[verifier::external_body]
pub fn verif_checked_sub_NoUnits8<R: RInto<ri8>>(x: ri8, rhs: R) -> (res: Option<ri8>)
    requires rhs.rinto_req(),
    ensures res.is_some() <==> in_NoUnits8(x.val - rhs.rinto_spec().val), res.is_some() ==> res.unwrap().val == x.val - rhs.rinto_spec().val
{ unimplemented!() }
#[verifier::external_body]
pub fn verif_checked_mul_NoUnits8<R: RInto<ri8>>(x: ri8, rhs: R) -> (res: Option<ri8>)
    requires rhs.rinto_req(),
    ensures res.is_some() <==> in_NoUnits8(x.val * rhs.rinto_spec().val), res.is_some() ==> res.unwrap().val == x.val * rhs.rinto_spec().val
{ unimplemented!() }
pub type Sign = ri8;
pub open spec fn Sign_MIN() -> int { -1 }
pub open spec fn Sign_MAX() -> int { 1 }
pub open spec fn in_Sign(v: int) -> bool { -1 <= v <= 1 }
#[verifier::external_body]
pub fn verif_try_rfrom_Sign_8(r: ri8) -> (res: Result<ri8, Error>)
    ensures res.is_ok() <==> in_Sign(r.val as int), res.is_ok() ==> res.unwrap().val == r.val
{ unimplemented!() }
#[verifier::external_body]
pub fn verif_try_rfrom_Sign_16(r: ri16) -> (res: Result<ri8, Error>)
    ensures res.is_ok() <==> in_Sign(r.val as int), res.is_ok() ==> res.unwrap().val == r.val
{ unimplemented!() }
#[verifier::external_body]
pub fn verif_try_rfrom_Sign_32(r: ri32) -> (res: Result<ri8, Error>)
    ensures res.is_ok() <==> in_Sign(r.val as int), res.is_ok() ==> res.unwrap().val == r.val
{ unimplemented!() }
#[verifier::external_body]
pub fn verif_try_rfrom_Sign_64(r: ri64) -> (res: Result<ri8, Error>)
    ensures res.is_ok() <==> in_Sign(r.val as int), res.is_ok() ==> res.unwrap().val == r.val
{ unimplemented!() }
#[verifier::external_body]
pub fn verif_try_rfrom_Sign_128(r: ri128) -> (res: Result<ri8, Error>)
    ensures res.is_ok() <==> in_Sign(r.val as int), res.is_ok() ==> res.unwrap().val == r.val
{ unimplemented!() }
#[verifier::external_body]
pub fn verif_try_new_Sign(v: i64) -> (res: Result<ri8, Error>)
    ensures res.is_ok() <==> in_Sign(v as int), res.is_ok() ==> res.unwrap().val == v
{ unimplemented!() }
#[verifier::external_body]
pub fn verif_try_new128_Sign(v: i128) -> (res: Result<ri8, Error>)
    ensures res.is_ok() <==> in_Sign(v as int), res.is_ok() ==> res.unwrap().val == v
{ unimplemented!() }
// `Sign::MIN` / `Sign::MAX` (associated consts of type i128)
pub fn verif_MIN_Sign() -> (r: i128) ensures r == Sign_MIN() { -1 }
pub fn verif_MAX_Sign() -> (r: i128) ensures r == Sign_MAX() { 1 }
// `x.try_checked_mul("what", rhs)` with x: Sign -- Ok iff the exact product lies within Sign::MIN..=MAX
#[verifier::external_body]
pub fn verif_try_checked_mul_Sign<R: RInto<ri8>>(x: ri8, rhs: R) -> (res: Result<ri8, Error>)
    requires rhs.rinto_req(),
    ensures res.is_ok() <==> in_Sign(x.val * rhs.rinto_spec().val), res.is_ok() ==> res.unwrap().val == x.val * rhs.rinto_spec().val
{ unimplemented!() }
// `x.try_checked_add/sub("what", rhs)` and `x.checked_add/sub/mul(rhs)` with x: Sign -- fail iff the exact result leaves Sign::MIN..=MAX
#[verifier::external_body]
pub fn verif_try_checked_add_Sign<R: RInto<ri8>>(x: ri8, rhs: R) -> (res: Result<ri8, Error>)
    requires rhs.rinto_req(),
    ensures res.is_ok() <==> in_Sign(x.val + rhs.rinto_spec().val), res.is_ok() ==> res.unwrap().val == x.val + rhs.rinto_spec().val
{ unimplemented!() }
#[verifier::external_body]
pub fn verif_try_checked_sub_Sign<R: RInto<ri8>>(x: ri8, rhs: R) -> (res: Result<ri8, Error>)
    requires rhs.rinto_req(),
    ensures res.is_ok() <==> in_Sign(x.val - rhs.rinto_spec().val), res.is_ok() ==> res.unwrap().val == x.val - rhs.rinto_spec().val
{ unimplemented!() }
#[verifier::external_body]
pub fn verif_checked_add_Sign<R: RInto<ri8>>(x: ri8, rhs: R) -> (res: Option<ri8>)
    requires rhs.rinto_req(),
    ensures res.is_some() <==> in_Sign(x.val + rhs.rinto_spec().val), res.is_some() ==> res.unwrap().val == x.val + rhs.rinto_spec().val
{ unimplemented!() }
#[verifier::external_body]
pub fn verif_checked_sub_Sign<R: RInto<ri8>>(x: ri8, rhs: R) -> (res: Option<ri8>)
    requires rhs.rinto_req(),
    ensures res.is_some() <==> in_Sign(x.val - rhs.rinto_spec().val), res.is_some() ==> res.unwrap().val == x.val - rhs.rinto_spec().val
{ unimplemented!() }
#[verifier::external_body]
pub fn verif_checked_mul_Sign<R: RInto<ri8>>(x: ri8, rhs: R) -> (res: Option<ri8>)
    requires rhs.rinto_req(),
    ensures res.is_some() <==> in_Sign(x.val * rhs.rinto_spec().val), res.is_some() ==> res.unwrap().val == x.val * rhs.rinto_spec().val
{ unimplemented!() }
pub type Year = ri16;
pub open spec fn Year_MIN() -> int { -9999 }
pub open spec fn Year_MAX() -> int { 9999 }
pub open spec fn in_Year(v: int) -> bool { -9999 <= v <= 9999 }
#[verifier::external_body]
pub fn verif_try_rfrom_Year_8(r: ri8) -> (res: Result<ri16, Error>)
    ensures res.is_ok() <==> in_Year(r.val as int), res.is_ok() ==> res.unwrap().val == r.val
{ unimplemented!() }
#[verifier::external_body]
pub fn verif_try_rfrom_Year_16(r: ri16) -> (res: Result<ri16, Error>)
    ensures res.is_ok() <==> in_Year(r.val as int), res.is_ok() ==> res.unwrap().val == r.val
{ unimplemented!() }
#[verifier::external_body]
pub fn verif_try_rfrom_Year_32(r: ri32) -> (res: Result<ri16, Error>)
    ensures res.is_ok() <==> in_Year(r.val as int), res.is_ok() ==> res.unwrap().val == r.val
{ unimplemented!() }
#[verifier::external_body]
pub fn verif_try_rfrom_Year_64(r: ri64) -> (res: Result<ri16, Error>)
    ensures res.is_ok() <==> in_Year(r.val as int), res.is_ok() ==> res.unwrap().val == r.val
{ unimplemented!() }
#[verifier::external_body]
pub fn verif_try_rfrom_Year_128(r: ri128) -> (res: Result<ri16, Error>)
    ensures res.is_ok() <==> in_Year(r.val as int), res.is_ok() ==> res.unwrap().val == r.val
{ unimplemented!() }
#[verifier::external_body]
pub fn verif_try_new_Year(v: i64) -> (res: Result<ri16, Error>)
    ensures res.is_ok() <==> in_Year(v as int), res.is_ok() ==> res.unwrap().val == v
{ unimplemented!() }
#[verifier::external_body]
pub fn verif_try_new128_Year(v: i128) -> (res: Result<ri16, Error>)
    ensures res.is_ok() <==> in_Year(v as int), res.is_ok() ==> res.unwrap().val == v
{ unimplemented!() }
// `Year::MIN` / `Year::MAX` (associated consts of type i128)
pub fn verif_MIN_Year() -> (r: i128) ensures r == Year_MIN() { -9999 }
pub fn verif_MAX_Year() -> (r: i128) ensures r == Year_MAX() { 9999 }
// `x.try_checked_mul("what", rhs)` with x: Year -- Ok iff the exact product lies within Year::MIN..=MAX
#[verifier::external_body]
pub fn verif_try_checked_mul_Year<R: RInto<ri16>>(x: ri16, rhs: R) -> (res: Result<ri16, Error>)
    requires rhs.rinto_req(),
    ensures res.is_ok() <==> in_Year(x.val * rhs.rinto_spec().val), res.is_ok() ==> res.unwrap().val == x.val * rhs.rinto_spec().val
{ unimplemented!() }
// `x.try_checked_add/sub("what", rhs)` and `x.checked_add/sub/mul(rhs)` with x: Year -- fail iff the exact result leaves Year::MIN..=MAX
#[verifier::external_body]
pub fn verif_try_checked_add_Year<R: RInto<ri16>>(x: ri16, rhs: R) -> (res: Result<ri16, Error>)
    requires rhs.rinto_req(),
    ensures res.is_ok() <==> in_Year(x.val + rhs.rinto_spec().val), res.is_ok() ==> res.unwrap().val == x.val + rhs.rinto_spec().val
{ unimplemented!() }
#[verifier::external_body]
pub fn verif_try_checked_sub_Year<R: RInto<ri16>>(x: ri16, rhs: R) -> (res: Result<ri16, Error>)
    requires rhs.rinto_req(),
    ensures res.is_ok() <==> in_Year(x.val - rhs.rinto_spec().val), res.is_ok() ==> res.unwrap().val == x.val - rhs.rinto_spec().val
{ unimplemented!() }
#[verifier::external_body]
pub fn verif_checked_add_Year<R: RInto<ri16>>(x: ri16, rhs: R) -> (res: Option<ri16>)
    requires rhs.rinto_req(),
    ensures res.is_some() <==> in_Year(x.val + rhs.rinto_spec().val), res.is_some() ==> res.unwrap().val == x.val + rhs.rinto_spec().val
{ unimplemented!() }
#[verifier::external_body]
pub fn verif_checked_sub_Year<R: RInto<ri16>>(x: ri16, rhs: R) -> (res: Option<ri16>)
    requires rhs.rinto_req(),
    ensures res.is_some() <==> in_Year(x.val - rhs.rinto_spec().val), res.is_some() ==> res.unwrap().val == x.val - rhs.rinto_spec().val
{ unimplemented!() }
#[verifier::external_body]
pub fn verif_checked_mul_Year<R: RInto<ri16>>(x: ri16, rhs: R) -> (res: Option<ri16>)
    requires rhs.rinto_req(),
    ensures res.is_some() <==> in_Year(x.val * rhs.rinto_spec().val), res.is_some() ==> res.unwrap().val == x.val * rhs.rinto_spec().val
{ unimplemented!() }
pub type Month = ri8;
pub open spec fn Month_MIN() -> int { 1 }
pub open spec fn Month_MAX() -> int { 12 }
pub open spec fn in_Month(v: int) -> bool { 1 <= v <= 12 }
#[verifier::external_body]
pub fn verif_try_rfrom_Month_8(r: ri8) -> (res: Result<ri8, Error>)
    ensures res.is_ok() <==> in_Month(r.val as int), res.is_ok() ==> res.unwrap().val == r.val
{ unimplemented!() }
#[verifier::external_body]
pub fn verif_try_rfrom_Month_16(r: ri16) -> (res: Result<ri8, Error>)
    ensures res.is_ok() <==> in_Month(r.val as int), res.is_ok() ==> res.unwrap().val == r.val
{ unimplemented!() }
#[verifier::external_body]
pub fn verif_try_rfrom_Month_32(r: ri32) -> (res: Result<ri8, Error>)
    ensures res.is_ok() <==> in_Month(r.val as int), res.is_ok() ==> res.unwrap().val == r.val
{ unimplemented!() }
#[verifier::external_body]
pub fn verif_try_rfrom_Month_64(r: ri64) -> (res: Result<ri8, Error>)
    ensures res.is_ok() <==> in_Month(r.val as int), res.is_ok() ==> res.unwrap().val == r.val
{ unimplemented!() }
#[verifier::external_body]
pub fn verif_try_rfrom_Month_128(r: ri128) -> (res: Result<ri8, Error>)
    ensures res.is_ok() <==> in_Month(r.val as int), res.is_ok() ==> res.unwrap().val == r.val
{ unimplemented!() }
#[verifier::external_body]
pub fn verif_try_new_Month(v: i64) -> (res: Result<ri8, Error>)
    ensures res.is_ok() <==> in_Month(v as int), res.is_ok() ==> res.unwrap().val == v
{ unimplemented!() }
#[verifier::external_body]
pub fn verif_try_new128_Month(v: i128) -> (res: Result<ri8, Error>)
    ensures res.is_ok() <==> in_Month(v as int), res.is_ok() ==> res.unwrap().val == v
{ unimplemented!() }
// `Month::MIN` / `Month::MAX` (associated consts of type i128)
pub fn verif_MIN_Month() -> (r: i128) ensures r == Month_MIN() { 1 }
pub fn verif_MAX_Month() -> (r: i128) ensures r == Month_MAX() { 12 }
// `x.try_checked_mul("what", rhs)` with x: Month -- Ok iff the exact product lies within Month::MIN..=MAX
#[verifier::external_body]
pub fn verif_try_checked_mul_Month<R: RInto<ri8>>(x: ri8, rhs: R) -> (res: Result<ri8, Error>)
    requires rhs.rinto_req(),
    ensures res.is_ok() <==> in_Month(x.val * rhs.rinto_spec().val), res.is_ok() ==> res.unwrap().val == x.val * rhs.rinto_spec().val
{ unimplemented!() }
// `x.try_checked_add/sub("what", rhs)` and `x.checked_add/sub/mul(rhs)` with x: Month -- fail iff the exact result leaves Month::MIN..=MAX
#[verifier::external_body]
pub fn verif_try_checked_add_Month<R: RInto<ri8>>(x: ri8, rhs: R) -> (res: Result<ri8, Error>)
    requires rhs.rinto_req(),
    ensures res.is_ok() <==> in_Month(x.val + rhs.rinto_spec().val), res.is_ok() ==> res.unwrap().val == x.val + rhs.rinto_spec().val
{ unimplemented!() }
#[verifier::external_body]
pub fn verif_try_checked_sub_Month<R: RInto<ri8>>(x: ri8, rhs: R) -> (res: Result<ri8, Error>)
    requires rhs.rinto_req(),
    ensures res.is_ok() <==> in_Month(x.val - rhs.rinto_spec().val), res.is_ok() ==> res.unwrap().val == x.val - rhs.rinto_spec().val
{ unimplemented!() }
#[verifier::external_body]
pub fn verif_checked_add_Month<R: RInto<ri8>>(x: ri8, rhs: R) -> (res: Option<ri8>)
    requires rhs.rinto_req(),
    ensures res.is_some() <==> in_Month(x.val + rhs.rinto_spec().val), res.is_some() ==> res.unwrap().val == x.val + rhs.rinto_spec().val
{ unimplemented!() }
#[verifier::external_body]
pub fn verif_checked_sub_Month<R: RInto<ri8>>(x: ri8, rhs: R) -> (res: Option<ri8>)
    requires rhs.rinto_req(),
    ensures res.is_some() <==> in_Month(x.val - rhs.rinto_spec().val), res.is_some() ==> res.unwrap().val == x.val - rhs.rinto_spec().val
{ unimplemented!() }
#[verifier::external_body]
pub fn verif_checked_mul_Month<R: RInto<ri8>>(x: ri8, rhs: R) -> (res: Option<ri8>)
    requires rhs.rinto_req(),
    ensures res.is_some() <==> in_Month(x.val * rhs.rinto_spec().val), res.is_some() ==> res.unwrap().val == x.val * rhs.rinto_spec().val
{ unimplemented!() }
pub type Day = ri8;
pub open spec fn Day_MIN() -> int { 1 }
pub open spec fn Day_MAX() -> int { 31 }
pub open spec fn in_Day(v: int) -> bool { 1 <= v <= 31 }
#[verifier::external_body]
pub fn verif_try_rfrom_Day_8(r: ri8) -> (res: Result<ri8, Error>)
    ensures res.is_ok() <==> in_Day(r.val as int), res.is_ok() ==> res.unwrap().val == r.val
{ unimplemented!() }
#[verifier::external_body]
pub fn verif_try_rfrom_Day_16(r: ri16) -> (res: Result<ri8, Error>)
    ensures res.is_ok() <==> in_Day(r.val as int), res.is_ok() ==> res.unwrap().val == r.val
{ unimplemented!() }
#[verifier::external_body]
pub fn verif_try_rfrom_Day_32(r: ri32) -> (res: Result<ri8, Error>)
    ensures res.is_ok() <==> in_Day(r.val as int), res.is_ok() ==> res.unwrap().val == r.val
{ unimplemented!() }
#[verifier::external_body]
pub fn verif_try_rfrom_Day_64(r: ri64) -> (res: Result<ri8, Error>)
    ensures res.is_ok() <==> in_Day(r.val as int), res.is_ok() ==> res.unwrap().val == r.val
{ unimplemented!() }
#[verifier::external_body]
pub fn verif_try_rfrom_Day_128(r: ri128) -> (res: Result<ri8, Error>)
    ensures res.is_ok() <==> in_Day(r.val as int), res.is_ok() ==> res.unwrap().val == r.val
{ unimplemented!() }
#[verifier::external_body]
pub fn verif_try_new_Day(v: i64) -> (res: Result<ri8, Error>)
    ensures res.is_ok() <==> in_Day(v as int), res.is_ok() ==> res.unwrap().val == v
{ unimplemented!() }
#[verifier::external_body]
pub fn verif_try_new128_Day(v: i128) -> (res: Result<ri8, Error>)
    ensures res.is_ok() <==> in_Day(v as int), res.is_ok() ==> res.unwrap().val == v
{ unimplemented!() }
// `Day::MIN` / `Day::MAX` (associated consts of type i128)
pub fn verif_MIN_Day() -> (r: i128) ensures r == Day_MIN() { 1 }
pub fn verif_MAX_Day() -> (r: i128) ensures r == Day_MAX() { 31 }
// `x.try_checked_mul("what", rhs)` with x: Day -- Ok iff the exact product lies within Day::MIN..=MAX
#[verifier::external_body]
pub fn verif_try_checked_mul_Day<R: RInto<ri8>>(x: ri8, rhs: R) -> (res: Result<ri8, Error>)
    requires rhs.rinto_req(),
    ensures res.is_ok() <==> in_Day(x.val * rhs.rinto_spec().val), res.is_ok() ==> res.unwrap().val == x.val * rhs.rinto_spec().val
{ unimplemented!() }
// `x.try_checked_add/sub("what", rhs)` and `x.checked_add/sub/mul(rhs)` with x: Day -- fail iff the exact result leaves Day::MIN..=MAX
#[verifier::external_body]
pub fn verif_try_checked_add_Day<R: RInto<ri8>>(x: ri8, rhs: R) -> (res: Result<ri8, Error>)
    requires rhs.rinto_req(),
    ensures res.is_ok() <==> in_Day(x.val + rhs.rinto_spec().val), res.is_ok() ==> res.unwrap().val == x.val + rhs.rinto_spec().val
{ unimplemented!() }
#[verifier::external_body]
pub fn verif_try_checked_sub_Day<R: RInto<ri8>>(x: ri8, rhs: R) -> (res: Result<ri8, Error>)
    requires rhs.rinto_req(),
    ensures res.is_ok() <==> in_Day(x.val - rhs.rinto_spec().val), res.is_ok() ==> res.unwrap().val == x.val - rhs.rinto_spec().val
{ unimplemented!() }
#[verifier::external_body]
pub fn verif_checked_add_Day<R: RInto<ri8>>(x: ri8, rhs: R) -> (res: Option<ri8>)
    requires rhs.rinto_req(),
    ensures res.is_some() <==> in_Day(x.val + rhs.rinto_spec().val), res.is_some() ==> res.unwrap().val == x.val + rhs.rinto_spec().val
{ unimplemented!() }
#[verifier::external_body]
pub fn verif_checked_sub_Day<R: RInto<ri8>>(x: ri8, rhs: R) -> (res: Option<ri8>)
    requires rhs.rinto_req(),
    ensures res.is_some() <==> in_Day(x.val - rhs.rinto_spec().val), res.is_some() ==> res.unwrap().val == x.val - rhs.rinto_spec().val
{ unimplemented!() }
#[verifier::external_body]
pub fn verif_checked_mul_Day<R: RInto<ri8>>(x: ri8, rhs: R) -> (res: Option<ri8>)
    requires rhs.rinto_req(),
    ensures res.is_some() <==> in_Day(x.val * rhs.rinto_spec().val), res.is_some() ==> res.unwrap().val == x.val * rhs.rinto_spec().val
{ unimplemented!() }
pub type Hour = ri8;
pub open spec fn Hour_MIN() -> int { 0 }
pub open spec fn Hour_MAX() -> int { 23 }
pub open spec fn in_Hour(v: int) -> bool { 0 <= v <= 23 }
#[verifier::external_body]
pub fn verif_try_rfrom_Hour_8(r: ri8) -> (res: Result<ri8, Error>)
    ensures res.is_ok() <==> in_Hour(r.val as int), res.is_ok() ==> res.unwrap().val == r.val
{ unimplemented!() }
#[verifier::external_body]
pub fn verif_try_rfrom_Hour_16(r: ri16) -> (res: Result<ri8, Error>)
    ensures res.is_ok() <==> in_Hour(r.val as int), res.is_ok() ==> res.unwrap().val == r.val
{ unimplemented!() }
#[verifier::external_body]
pub fn verif_try_rfrom_Hour_32(r: ri32) -> (res: Result<ri8, Error>)
    ensures res.is_ok() <==> in_Hour(r.val as int), res.is_ok() ==> res.unwrap().val == r.val
{ unimplemented!() }
#[verifier::external_body]
pub fn verif_try_rfrom_Hour_64(r: ri64) -> (res: Result<ri8, Error>)
    ensures res.is_ok() <==> in_Hour(r.val as int), res.is_ok() ==> res.unwrap().val == r.val
{ unimplemented!() }
#[verifier::external_body]
pub fn verif_try_rfrom_Hour_128(r: ri128) -> (res: Result<ri8, Error>)
    ensures res.is_ok() <==> in_Hour(r.val as int), res.is_ok() ==> res.unwrap().val == r.val
{ unimplemented!() }
#[verifier::external_body]
pub fn verif_try_new_Hour(v: i64) -> (res: Result<ri8, Error>)
    ensures res.is_ok() <==> in_Hour(v as int), res.is_ok() ==> res.unwrap().val == v
{ unimplemented!() }
#[verifier::external_body]
pub fn verif_try_new128_Hour(v: i128) -> (res: Result<ri8, Error>)
    ensures res.is_ok() <==> in_Hour(v as int), res.is_ok() ==> res.unwrap().val == v
{ unimplemented!() }
// `Hour::MIN` / `Hour::MAX` (associated consts of type i128)
pub fn verif_MIN_Hour() -> (r: i128) ensures r == Hour_MIN() { 0 }
pub fn verif_MAX_Hour() -> (r: i128) ensures r == Hour_MAX() { 23 }
// `x.try_checked_mul("what", rhs)` with x: Hour -- Ok iff the exact product lies within Hour::MIN..=MAX
#[verifier::external_body]
pub fn verif_try_checked_mul_Hour<R: RInto<ri8>>(x: ri8, rhs: R) -> (res: Result<ri8, Error>)
    requires rhs.rinto_req(),
    ensures res.is_ok() <==> in_Hour(x.val * rhs.rinto_spec().val), res.is_ok() ==> res.unwrap().val == x.val * rhs.rinto_spec().val
{ unimplemented!() }
// `x.try_checked_add/sub("what", rhs)` and `x.checked_add/sub/mul(rhs)` with x: Hour -- fail iff the exact result leaves Hour::MIN..=MAX
#[verifier::external_body]
pub fn verif_try_checked_add_Hour<R: RInto<ri8>>(x: ri8, rhs: R) -> (res: Result<ri8, Error>)
    requires rhs.rinto_req(),
    ensures res.is_ok() <==> in_Hour(x.val + rhs.rinto_spec().val), res.is_ok() ==> res.unwrap().val == x.val + rhs.rinto_spec().val
{ unimplemented!() }
#[verifier::external_body]
pub fn verif_try_checked_sub_Hour<R: RInto<ri8>>(x: ri8, rhs: R) -> (res: Result<ri8, Error>)
    requires rhs.rinto_req(),
    ensures res.is_ok() <==> in_Hour(x.val - rhs.rinto_spec().val), res.is_ok() ==> res.unwrap().val == x.val - rhs.rinto_spec().val
{ unimplemented!() }
#[verifier::external_body]
pub fn verif_checked_add_Hour<R: RInto<ri8>>(x: ri8, rhs: R) -> (res: Option<ri8>)
    requires rhs.rinto_req(),
    ensures res.is_some() <==> in_Hour(x.val + rhs.rinto_spec().val), res.is_some() ==> res.unwrap().val == x.val + rhs.rinto_spec().val
{ unimplemented!() }
#[verifier::external_body]
pub fn verif_checked_sub_Hour<R: RInto<ri8>>(x: ri8, rhs: R) -> (res: Option<ri8>)
    requires rhs.rinto_req(),
    ensures res.is_some() <==> in_Hour(x.val - rhs.rinto_spec().val), res.is_some() ==> res.unwrap().val == x.val - rhs.rinto_spec().val
{ unimplemented!() }
#[verifier::external_body]
pub fn verif_checked_mul_Hour<R: RInto<ri8>>(x: ri8, rhs: R) -> (res: Option<ri8>)
    requires rhs.rinto_req(),
    ensures res.is_some() <==> in_Hour(x.val * rhs.rinto_spec().val), res.is_some() ==> res.unwrap().val == x.val * rhs.rinto_spec().val
{ unimplemented!() }
pub type Minute = ri8;
pub open spec fn Minute_MIN() -> int { 0 }
pub open spec fn Minute_MAX() -> int { 59 }
pub open spec fn in_Minute(v: int) -> bool { 0 <= v <= 59 }
#[verifier::external_body]
pub fn verif_try_rfrom_Minute_8(r: ri8) -> (res: Result<ri8, Error>)
    ensures res.is_ok() <==> in_Minute(r.val as int), res.is_ok() ==> res.unwrap().val == r.val
{ unimplemented!() }
#[verifier::external_body]
pub fn verif_try_rfrom_Minute_16(r: ri16) -> (res: Result<ri8, Error>)
    ensures res.is_ok() <==> in_Minute(r.val as int), res.is_ok() ==> res.unwrap().val == r.val
{ unimplemented!() }
#[verifier::external_body]
pub fn verif_try_rfrom_Minute_32(r: ri32) -> (res: Result<ri8, Error>)
    ensures res.is_ok() <==> in_Minute(r.val as int), res.is_ok() ==> res.unwrap().val == r.val
{ unimplemented!() }
#[verifier::external_body]
pub fn verif_try_rfrom_Minute_64(r: ri64) -> (res: Result<ri8, Error>)
    ensures res.is_ok() <==> in_Minute(r.val as int), res.is_ok() ==> res.unwrap().val == r.val
{ unimplemented!() }
#[verifier::external_body]
pub fn verif_try_rfrom_Minute_128(r: ri128) -> (res: Result<ri8, Error>)
    ensures res.is_ok() <==> in_Minute(r.val as int), res.is_ok() ==> res.unwrap().val == r.val
{ unimplemented!() }
#[verifier::external_body]
pub fn verif_try_new_Minute(v: i64) -> (res: Result<ri8, Error>)
    ensures res.is_ok() <==> in_Minute(v as int), res.is_ok() ==> res.unwrap().val == v
{ unimplemented!() }
#[verifier::external_body]
pub fn verif_try_new128_Minute(v: i128) -> (res: Result<ri8, Error>)
    ensures res.is_ok() <==> in_Minute(v as int), res.is_ok() ==> res.unwrap().val == v
{ unimplemented!() }
// `Minute::MIN` / `Minute::MAX` (associated consts of type i128)
pub fn verif_MIN_Minute() -> (r: i128) ensures r == Minute_MIN() { 0 }
pub fn verif_MAX_Minute() -> (r: i128) ensures r == Minute_MAX() { 59 }
// `x.try_checked_mul("what", rhs)` with x: Minute -- Ok iff the exact product lies within Minute::MIN..=MAX
#[verifier::external_body]
pub fn verif_try_checked_mul_Minute<R: RInto<ri8>>(x: ri8, rhs: R) -> (res: Result<ri8, Error>)
    requires rhs.rinto_req(),
    ensures res.is_ok() <==> in_Minute(x.val * rhs.rinto_spec().val), res.is_ok() ==> res.unwrap().val == x.val * rhs.rinto_spec().val
{ unimplemented!() }
// `x.try_checked_add/sub("what", rhs)` and `x.checked_add/sub/mul(rhs)` with x: Minute -- fail iff the exact result leaves Minute::MIN..=MAX
#[verifier::external_body]
pub fn verif_try_checked_add_Minute<R: RInto<ri8>>(x: ri8, rhs: R) -> (res: Result<ri8, Error>)
    requires rhs.rinto_req(),
    ensures res.is_ok() <==> in_Minute(x.val + rhs.rinto_spec().val), res.is_ok() ==> res.unwrap().val == x.val + rhs.rinto_spec().val
{ unimplemented!() }
#[verifier::external_body]
pub fn verif_try_checked_sub_Minute<R: RInto<ri8>>(x: ri8, rhs: R) -> (res: Result<ri8, Error>)
    requires rhs.rinto_req(),
    ensures res.is_ok() <==> in_Minute(x.val - rhs.rinto_spec().val), res.is_ok() ==> res.unwrap().val == x.val - rhs.rinto_spec().val
{ unimplemented!() }
#[verifier::external_body]
pub fn verif_checked_add_Minute<R: RInto<ri8>>(x: ri8, rhs: R) -> (res: Option<ri8>)
    requires rhs.rinto_req(),
    ensures res.is_some() <==> in_Minute(x.val + rhs.rinto_spec().val), res.is_some() ==> res.unwrap().val == x.val + rhs.rinto_spec().val
{ unimplemented!() }
#[verifier::external_body]
pub fn verif_checked_sub_Minute<R: RInto<ri8>>(x: ri8, rhs: R) -> (res: Option<ri8>)
    requires rhs.rinto_req(),
    ensures res.is_some() <==> in_Minute(x.val - rhs.rinto_spec().val), res.is_some() ==> res.unwrap().val == x.val - rhs.rinto_spec().val
{ unimplemented!() }
#[verifier::external_body]
pub fn verif_checked_mul_Minute<R: RInto<ri8>>(x: ri8, rhs: R) -> (res: Option<ri8>)
    requires rhs.rinto_req(),
    ensures res.is_some() <==> in_Minute(x.val * rhs.rinto_spec().val), res.is_some() ==> res.unwrap().val == x.val * rhs.rinto_spec().val
{ unimplemented!() }
pub type Second = ri8;
pub open spec fn Second_MIN() -> int { 0 }
pub open spec fn Second_MAX() -> int { 59 }
pub open spec fn in_Second(v: int) -> bool { 0 <= v <= 59 }
#[verifier::external_body]
pub fn verif_try_rfrom_Second_8(r: ri8) -> (res: Result<ri8, Error>)
    ensures res.is_ok() <==> in_Second(r.val as int), res.is_ok() ==> res.unwrap().val == r.val
{ unimplemented!() }
#[verifier::external_body]
pub fn verif_try_rfrom_Second_16(r: ri16) -> (res: Result<ri8, Error>)
    ensures res.is_ok() <==> in_Second(r.val as int), res.is_ok() ==> res.unwrap().val == r.val
{ unimplemented!() }
#[verifier::external_body]
pub fn verif_try_rfrom_Second_32(r: ri32) -> (res: Result<ri8, Error>)
    ensures res.is_ok() <==> in_Second(r.val as int), res.is_ok() ==> res.unwrap().val == r.val
{ unimplemented!() }
#[verifier::external_body]
pub fn verif_try_rfrom_Second_64(r: ri64) -> (res: Result<ri8, Error>)
    ensures res.is_ok() <==> in_Second(r.val as int), res.is_ok() ==> res.unwrap().val == r.val
{ unimplemented!() }
#[verifier::external_body]
pub fn verif_try_rfrom_Second_128(r: ri128) -> (res: Result<ri8, Error>)
    ensures res.is_ok() <==> in_Second(r.val as int), res.is_ok() ==> res.unwrap().val == r.val
{ unimplemented!() }
#[verifier::external_body]
pub fn verif_try_new_Second(v: i64) -> (res: Result<ri8, Error>)
    ensures res.is_ok() <==> in_Second(v as int), res.is_ok() ==> res.unwrap().val == v
{ unimplemented!() }
#[verifier::external_body]
pub fn verif_try_new128_Second(v: i128) -> (res: Result<ri8, Error>)
    ensures res.is_ok() <==> in_Second(v as int), res.is_ok() ==> res.unwrap().val == v
{ unimplemented!() }
// `Second::MIN` / `Second::MAX` (associated consts of type i128)
pub fn verif_MIN_Second() -> (r: i128) ensures r == Second_MIN() { 0 }
pub fn verif_MAX_Second() -> (r: i128) ensures r == Second_MAX() { 59 }
// `x.try_checked_mul("what", rhs)` with x: Second -- Ok iff the exact product lies within Second::MIN..=MAX
#[verifier::external_body]
pub fn verif_try_checked_mul_Second<R: RInto<ri8>>(x: ri8, rhs: R) -> (res: Result<ri8, Error>)
    requires rhs.rinto_req(),
    ensures res.is_ok() <==> in_Second(x.val * rhs.rinto_spec().val), res.is_ok() ==> res.unwrap().val == x.val * rhs.rinto_spec().val
{ unimplemented!() }
// `x.try_checked_add/sub("what", rhs)` and `x.checked_add/sub/mul(rhs)` with x: Second -- fail iff the exact result leaves Second::MIN..=MAX
#[verifier::external_body]
pub fn verif_try_checked_add_Second<R: RInto<ri8>>(x: ri8, rhs: R) -> (res: Result<ri8, Error>)
    requires rhs.rinto_req(),
    ensures res.is_ok() <==> in_Second(x.val + rhs.rinto_spec().val), res.is_ok() ==> res.unwrap().val == x.val + rhs.rinto_spec().val
{ unimplemented!() }
#[verifier::external_body]
pub fn verif_try_checked_sub_Second<R: RInto<ri8>>(x: ri8, rhs: R) -> (res: Result<ri8, Error>)
    requires rhs.rinto_req(),
    ensures res.is_ok() <==> in_Second(x.val - rhs.rinto_spec().val), res.is_ok() ==> res.unwrap().val == x.val - rhs.rinto_spec().val
{ unimplemented!() }
#[verifier::external_body]
pub fn verif_checked_add_Second<R: RInto<ri8>>(x: ri8, rhs: R) -> (res: Option<ri8>)
    requires rhs.rinto_req(),
    ensures res.is_some() <==> in_Second(x.val + rhs.rinto_spec().val), res.is_some() ==> res.unwrap().val == x.val + rhs.rinto_spec().val
{ unimplemented!() }
#[verifier::external_body]
pub fn verif_checked_sub_Second<R: RInto<ri8>>(x: ri8, rhs: R) -> (res: Option<ri8>)
    requires rhs.rinto_req(),
    ensures res.is_some() <==> in_Second(x.val - rhs.rinto_spec().val), res.is_some() ==> res.unwrap().val == x.val - rhs.rinto_spec().val
{ unimplemented!() }
#[verifier::external_body]
pub fn verif_checked_mul_Second<R: RInto<ri8>>(x: ri8, rhs: R) -> (res: Option<ri8>)
    requires rhs.rinto_req(),
    ensures res.is_some() <==> in_Second(x.val * rhs.rinto_spec().val), res.is_some() ==> res.unwrap().val == x.val * rhs.rinto_spec().val
{ unimplemented!() }
pub type SubsecNanosecond = ri32;
pub open spec fn SubsecNanosecond_MIN() -> int { 0 }
pub open spec fn SubsecNanosecond_MAX() -> int { 999999999 }
pub open spec fn in_SubsecNanosecond(v: int) -> bool { 0 <= v <= 999999999 }
#[verifier::external_body]
pub fn verif_try_rfrom_SubsecNanosecond_8(r: ri8) -> (res: Result<ri32, Error>)
    ensures res.is_ok() <==> in_SubsecNanosecond(r.val as int), res.is_ok() ==> res.unwrap().val == r.val
{ unimplemented!() }
#[verifier::external_body]
pub fn verif_try_rfrom_SubsecNanosecond_16(r: ri16) -> (res: Result<ri32, Error>)
    ensures res.is_ok() <==> in_SubsecNanosecond(r.val as int), res.is_ok() ==> res.unwrap().val == r.val
{ unimplemented!() }
#[verifier::external_body]
pub fn verif_try_rfrom_SubsecNanosecond_32(r: ri32) -> (res: Result<ri32, Error>)
    ensures res.is_ok() <==> in_SubsecNanosecond(r.val as int), res.is_ok() ==> res.unwrap().val == r.val
{ unimplemented!() }
#[verifier::external_body]
pub fn verif_try_rfrom_SubsecNanosecond_64(r: ri64) -> (res: Result<ri32, Error>)
    ensures res.is_ok() <==> in_SubsecNanosecond(r.val as int), res.is_ok() ==> res.unwrap().val == r.val
{ unimplemented!() }
#[verifier::external_body]
pub fn verif_try_rfrom_SubsecNanosecond_128(r: ri128) -> (res: Result<ri32, Error>)
    ensures res.is_ok() <==> in_SubsecNanosecond(r.val as int), res.is_ok() ==> res.unwrap().val == r.val
{ unimplemented!() }
#[verifier::external_body]
pub fn verif_try_new_SubsecNanosecond(v: i64) -> (res: Result<ri32, Error>)
    ensures res.is_ok() <==> in_SubsecNanosecond(v as int), res.is_ok() ==> res.unwrap().val == v
{ unimplemented!() }
#[verifier::external_body]
pub fn verif_try_new128_SubsecNanosecond(v: i128) -> (res: Result<ri32, Error>)
    ensures res.is_ok() <==> in_SubsecNanosecond(v as int), res.is_ok() ==> res.unwrap().val == v
{ unimplemented!() }
// `SubsecNanosecond::MIN` / `SubsecNanosecond::MAX` (associated consts of type i128)
pub fn verif_MIN_SubsecNanosecond() -> (r: i128) ensures r == SubsecNanosecond_MIN() { 0 }
pub fn verif_MAX_SubsecNanosecond() -> (r: i128) ensures r == SubsecNanosecond_MAX() { 999999999 }
// `x.try_checked_mul("what", rhs)` with x: SubsecNanosecond -- Ok iff the exact product lies within SubsecNanosecond::MIN..=MAX
#[verifier::external_body]
pub fn verif_try_checked_mul_SubsecNanosecond<R: RInto<ri32>>(x: ri32, rhs: R) -> (res: Result<ri32, Error>)
    requires rhs.rinto_req(),
    ensures res.is_ok() <==> in_SubsecNanosecond(x.val * rhs.rinto_spec().val), res.is_ok() ==> res.unwrap().val == x.val * rhs.rinto_spec().val
{ unimplemented!() }
// `x.try_checked_add/sub("what", rhs)` and `x.checked_add/sub/mul(rhs)` with x: SubsecNanosecond -- fail iff the exact result leaves SubsecNanosecond::MIN..=MAX
#[verifier::external_body]
pub fn verif_try_checked_add_SubsecNanosecond<R: RInto<ri32>>(x: ri32, rhs: R) -> (res: Result<ri32, Error>)
    requires rhs.rinto_req(),
    ensures res.is_ok() <==> in_SubsecNanosecond(x.val + rhs.rinto_spec().val), res.is_ok() ==> res.unwrap().val == x.val + rhs.rinto_spec().val
{ unimplemented!() }
#[verifier::external_body]
pub fn verif_try_checked_sub_SubsecNanosecond<R: RInto<ri32>>(x: ri32, rhs: R) -> (res: Result<ri32, Error>)
    requires rhs.rinto_req(),
    ensures res.is_ok() <==> in_SubsecNanosecond(x.val - rhs.rinto_spec().val), res.is_ok() ==> res.unwrap().val == x.val - rhs.rinto_spec().val
{ unimplemented!() }
#[verifier::external_body]
pub fn verif_checked_add_SubsecNanosecond<R: RInto<ri32>>(x: ri32, rhs: R) -> (res: Option<ri32>)
    requires rhs.rinto_req(),
    ensures res.is_some() <==> in_SubsecNanosecond(x.val + rhs.rinto_spec().val), res.is_some() ==> res.unwrap().val == x.val + rhs.rinto_spec().val
{ unimplemented!() }
#[verifier::external_body]
pub fn verif_checked_sub_SubsecNanosecond<R: RInto<ri32>>(x: ri32, rhs: R) -> (res: Option<ri32>)
    requires rhs.rinto_req(),
    ensures res.is_some() <==> in_SubsecNanosecond(x.val - rhs.rinto_spec().val), res.is_some() ==> res.unwrap().val == x.val - rhs.rinto_spec().val
{ unimplemented!() }
#[verifier::external_body]
pub fn verif_checked_mul_SubsecNanosecond<R: RInto<ri32>>(x: ri32, rhs: R) -> (res: Option<ri32>)
    requires rhs.rinto_req(),
    ensures res.is_some() <==> in_SubsecNanosecond(x.val * rhs.rinto_spec().val), res.is_some() ==> res.unwrap().val == x.val * rhs.rinto_spec().val
{ unimplemented!() }
pub type CivilDayNanosecond = ri64;
pub open spec fn CivilDayNanosecond_MIN() -> int { 0 }
pub open spec fn CivilDayNanosecond_MAX() -> int { 86399999999999 }
pub open spec fn in_CivilDayNanosecond(v: int) -> bool { 0 <= v <= 86399999999999 }
#[verifier::external_body]
pub fn verif_try_rfrom_CivilDayNanosecond_8(r: ri8) -> (res: Result<ri64, Error>)
    ensures res.is_ok() <==> in_CivilDayNanosecond(r.val as int), res.is_ok() ==> res.unwrap().val == r.val
{ unimplemented!() }
#[verifier::external_body]
pub fn verif_try_rfrom_CivilDayNanosecond_16(r: ri16) -> (res: Result<ri64, Error>)
    ensures res.is_ok() <==> in_CivilDayNanosecond(r.val as int), res.is_ok() ==> res.unwrap().val == r.val
{ unimplemented!() }
#[verifier::external_body]
pub fn verif_try_rfrom_CivilDayNanosecond_32(r: ri32) -> (res: Result<ri64, Error>)
    ensures res.is_ok() <==> in_CivilDayNanosecond(r.val as int), res.is_ok() ==> res.unwrap().val == r.val
{ unimplemented!() }
#[verifier::external_body]
pub fn verif_try_rfrom_CivilDayNanosecond_64(r: ri64) -> (res: Result<ri64, Error>)
    ensures res.is_ok() <==> in_CivilDayNanosecond(r.val as int), res.is_ok() ==> res.unwrap().val == r.val
{ unimplemented!() }
#[verifier::external_body]
pub fn verif_try_rfrom_CivilDayNanosecond_128(r: ri128) -> (res: Result<ri64, Error>)
    ensures res.is_ok() <==> in_CivilDayNanosecond(r.val as int), res.is_ok() ==> res.unwrap().val == r.val
{ unimplemented!() }
#[verifier::external_body]
pub fn verif_try_new_CivilDayNanosecond(v: i64) -> (res: Result<ri64, Error>)
    ensures res.is_ok() <==> in_CivilDayNanosecond(v as int), res.is_ok() ==> res.unwrap().val == v
{ unimplemented!() }
#[verifier::external_body]
pub fn verif_try_new128_CivilDayNanosecond(v: i128) -> (res: Result<ri64, Error>)
    ensures res.is_ok() <==> in_CivilDayNanosecond(v as int), res.is_ok() ==> res.unwrap().val == v
{ unimplemented!() }
// `CivilDayNanosecond::MIN` / `CivilDayNanosecond::MAX` (associated consts of type i128)
pub fn verif_MIN_CivilDayNanosecond() -> (r: i128) ensures r == CivilDayNanosecond_MIN() { 0 }
pub fn verif_MAX_CivilDayNanosecond() -> (r: i128) ensures r == CivilDayNanosecond_MAX() { 86399999999999 }
// `x.try_checked_mul("what", rhs)` with x: CivilDayNanosecond -- Ok iff the exact product lies within CivilDayNanosecond::MIN..=MAX
#[verifier::external_body]
pub fn verif_try_checked_mul_CivilDayNanosecond<R: RInto<ri64>>(x: ri64, rhs: R) -> (res: Result<ri64, Error>)
    requires rhs.rinto_req(),
    ensures res.is_ok() <==> in_CivilDayNanosecond(x.val * rhs.rinto_spec().val), res.is_ok() ==> res.unwrap().val == x.val * rhs.rinto_spec().val
{ unimplemented!() }
// `x.try_checked_add/sub("what", rhs)` and `x.checked_add/sub/mul(rhs)` with x: CivilDayNanosecond -- fail iff the exact result leaves CivilDayNanosecond::MIN..=MAX
#[verifier::external_body]
pub fn verif_try_checked_add_CivilDayNanosecond<R: RInto<ri64>>(x: ri64, rhs: R) -> (res: Result<ri64, Error>)
    requires rhs.rinto_req(),
    ensures res.is_ok() <==> in_CivilDayNanosecond(x.val + rhs.rinto_spec().val), res.is_ok() ==> res.unwrap().val == x.val + rhs.rinto_spec().val
{ unimplemented!() }
#[verifier::external_body]
pub fn verif_try_checked_sub_CivilDayNanosecond<R: RInto<ri64>>(x: ri64, rhs: R) -> (res: Result<ri64, Error>)
    requires rhs.rinto_req(),
    ensures res.is_ok() <==> in_CivilDayNanosecond(x.val - rhs.rinto_spec().val), res.is_ok() ==> res.unwrap().val == x.val - rhs.rinto_spec().val
{ unimplemented!() }
#[verifier::external_body]
pub fn verif_checked_add_CivilDayNanosecond<R: RInto<ri64>>(x: ri64, rhs: R) -> (res: Option<ri64>)
    requires rhs.rinto_req(),
    ensures res.is_some() <==> in_CivilDayNanosecond(x.val + rhs.rinto_spec().val), res.is_some() ==> res.unwrap().val == x.val + rhs.rinto_spec().val
{ unimplemented!() }
#[verifier::external_body]
pub fn verif_checked_sub_CivilDayNanosecond<R: RInto<ri64>>(x: ri64, rhs: R) -> (res: Option<ri64>)
    requires rhs.rinto_req(),
    ensures res.is_some() <==> in_CivilDayNanosecond(x.val - rhs.rinto_spec().val), res.is_some() ==> res.unwrap().val == x.val - rhs.rinto_spec().val
{ unimplemented!() }
#[verifier::external_body]
pub fn verif_checked_mul_CivilDayNanosecond<R: RInto<ri64>>(x: ri64, rhs: R) -> (res: Option<ri64>)
    requires rhs.rinto_req(),
    ensures res.is_some() <==> in_CivilDayNanosecond(x.val * rhs.rinto_spec().val), res.is_some() ==> res.unwrap().val == x.val * rhs.rinto_spec().val
{ unimplemented!() }
pub type CivilDaySecond = ri32;
pub open spec fn CivilDaySecond_MIN() -> int { 0 }
pub open spec fn CivilDaySecond_MAX() -> int { 86399 }
pub open spec fn in_CivilDaySecond(v: int) -> bool { 0 <= v <= 86399 }
#[verifier::external_body]
pub fn verif_try_rfrom_CivilDaySecond_8(r: ri8) -> (res: Result<ri32, Error>)
    ensures res.is_ok() <==> in_CivilDaySecond(r.val as int), res.is_ok() ==> res.unwrap().val == r.val
{ unimplemented!() }
#[verifier::external_body]
pub fn verif_try_rfrom_CivilDaySecond_16(r: ri16) -> (res: Result<ri32, Error>)
    ensures res.is_ok() <==> in_CivilDaySecond(r.val as int), res.is_ok() ==> res.unwrap().val == r.val
{ unimplemented!() }
#[verifier::external_body]
pub fn verif_try_rfrom_CivilDaySecond_32(r: ri32) -> (res: Result<ri32, Error>)
    ensures res.is_ok() <==> in_CivilDaySecond(r.val as int), res.is_ok() ==> res.unwrap().val == r.val
{ unimplemented!() }
#[verifier::external_body]
pub fn verif_try_rfrom_CivilDaySecond_64(r: ri64) -> (res: Result<ri32, Error>)
    ensures res.is_ok() <==> in_CivilDaySecond(r.val as int), res.is_ok() ==> res.unwrap().val == r.val
{ unimplemented!() }
#[verifier::external_body]
pub fn verif_try_rfrom_CivilDaySecond_128(r: ri128) -> (res: Result<ri32, Error>)
    ensures res.is_ok() <==> in_CivilDaySecond(r.val as int), res.is_ok() ==> res.unwrap().val == r.val
{ unimplemented!() }
#[verifier::external_body]
pub fn verif_try_new_CivilDaySecond(v: i64) -> (res: Result<ri32, Error>)
    ensures res.is_ok() <==> in_CivilDaySecond(v as int), res.is_ok() ==> res.unwrap().val == v
{ unimplemented!() }
#[verifier::external_body]
pub fn verif_try_new128_CivilDaySecond(v: i128) -> (res: Result<ri32, Error>)
    ensures res.is_ok() <==> in_CivilDaySecond(v as int), res.is_ok() ==> res.unwrap().val == v
{ unimplemented!() }
// `CivilDaySecond::MIN` / `CivilDaySecond::MAX` (associated consts of type i128)
pub fn verif_MIN_CivilDaySecond() -> (r: i128) ensures r == CivilDaySecond_MIN() { 0 }
pub fn verif_MAX_CivilDaySecond() -> (r: i128) ensures r == CivilDaySecond_MAX() { 86399 }
// `x.try_checked_mul("what", rhs)` with x: CivilDaySecond -- Ok iff the exact product lies within CivilDaySecond::MIN..=MAX
#[verifier::external_body]
pub fn verif_try_checked_mul_CivilDaySecond<R: RInto<ri32>>(x: ri32, rhs: R) -> (res: Result<ri32, Error>)
    requires rhs.rinto_req(),
    ensures res.is_ok() <==> in_CivilDaySecond(x.val * rhs.rinto_spec().val), res.is_ok() ==> res.unwrap().val == x.val * rhs.rinto_spec().val
{ unimplemented!() }
// `x.try_checked_add/sub("what", rhs)` and `x.checked_add/sub/mul(rhs)` with x: CivilDaySecond -- fail iff the exact result leaves CivilDaySecond::MIN..=MAX
#[verifier::external_body]
pub fn verif_try_checked_add_CivilDaySecond<R: RInto<ri32>>(x: ri32, rhs: R) -> (res: Result<ri32, Error>)
    requires rhs.rinto_req(),
    ensures res.is_ok() <==> in_CivilDaySecond(x.val + rhs.rinto_spec().val), res.is_ok() ==> res.unwrap().val == x.val + rhs.rinto_spec().val
{ unimplemented!() }
#[verifier::external_body]
pub fn verif_try_checked_sub_CivilDaySecond<R: RInto<ri32>>(x: ri32, rhs: R) -> (res: Result<ri32, Error>)
    requires rhs.rinto_req(),
    ensures res.is_ok() <==> in_CivilDaySecond(x.val - rhs.rinto_spec().val), res.is_ok() ==> res.unwrap().val == x.val - rhs.rinto_spec().val
{ unimplemented!() }
#[verifier::external_body]
pub fn verif_checked_add_CivilDaySecond<R: RInto<ri32>>(x: ri32, rhs: R) -> (res: Option<ri32>)
    requires rhs.rinto_req(),
    ensures res.is_some() <==> in_CivilDaySecond(x.val + rhs.rinto_spec().val), res.is_some() ==> res.unwrap().val == x.val + rhs.rinto_spec().val
{ unimplemented!() }
#[verifier::external_body]
pub fn verif_checked_sub_CivilDaySecond<R: RInto<ri32>>(x: ri32, rhs: R) -> (res: Option<ri32>)
    requires rhs.rinto_req(),
    ensures res.is_some() <==> in_CivilDaySecond(x.val - rhs.rinto_spec().val), res.is_some() ==> res.unwrap().val == x.val - rhs.rinto_spec().val
{ unimplemented!() }
#[verifier::external_body]
pub fn verif_checked_mul_CivilDaySecond<R: RInto<ri32>>(x: ri32, rhs: R) -> (res: Option<ri32>)
    requires rhs.rinto_req(),
    ensures res.is_some() <==> in_CivilDaySecond(x.val * rhs.rinto_spec().val), res.is_some() ==> res.unwrap().val == x.val * rhs.rinto_spec().val
{ unimplemented!() }
pub type UnixEpochDay = ri32;
pub open spec fn UnixEpochDay_MIN() -> int { -4371587 }
pub open spec fn UnixEpochDay_MAX() -> int { 2932896 }
pub open spec fn in_UnixEpochDay(v: int) -> bool { -4371587 <= v <= 2932896 }
#[verifier::external_body]
pub fn verif_try_rfrom_UnixEpochDay_8(r: ri8) -> (res: Result<ri32, Error>)
    ensures res.is_ok() <==> in_UnixEpochDay(r.val as int), res.is_ok() ==> res.unwrap().val == r.val
{ unimplemented!() }
#[verifier::external_body]
pub fn verif_try_rfrom_UnixEpochDay_16(r: ri16) -> (res: Result<ri32, Error>)
    ensures res.is_ok() <==> in_UnixEpochDay(r.val as int), res.is_ok() ==> res.unwrap().val == r.val
{ unimplemented!() }
#[verifier::external_body]
pub fn verif_try_rfrom_UnixEpochDay_32(r: ri32) -> (res: Result<ri32, Error>)
    ensures res.is_ok() <==> in_UnixEpochDay(r.val as int), res.is_ok() ==> res.unwrap().val == r.val
{ unimplemented!() }
#[verifier::external_body]
pub fn verif_try_rfrom_UnixEpochDay_64(r: ri64) -> (res: Result<ri32, Error>)
    ensures res.is_ok() <==> in_UnixEpochDay(r.val as int), res.is_ok() ==> res.unwrap().val == r.val
{ unimplemented!() }
#[verifier::external_body]
pub fn verif_try_rfrom_UnixEpochDay_128(r: ri128) -> (res: Result<ri32, Error>)
    ensures res.is_ok() <==> in_UnixEpochDay(r.val as int), res.is_ok() ==> res.unwrap().val == r.val
{ unimplemented!() }
#[verifier::external_body]
pub fn verif_try_new_UnixEpochDay(v: i64) -> (res: Result<ri32, Error>)
    ensures res.is_ok() <==> in_UnixEpochDay(v as int), res.is_ok() ==> res.unwrap().val == v
{ unimplemented!() }
#[verifier::external_body]
pub fn verif_try_new128_UnixEpochDay(v: i128) -> (res: Result<ri32, Error>)
    ensures res.is_ok() <==> in_UnixEpochDay(v as int), res.is_ok() ==> res.unwrap().val == v
{ unimplemented!() }
// `UnixEpochDay::MIN` / `UnixEpochDay::MAX` (associated consts of type i128)
pub fn verif_MIN_UnixEpochDay() -> (r: i128) ensures r == UnixEpochDay_MIN() { -4371587 }
pub fn verif_MAX_UnixEpochDay() -> (r: i128) ensures r == UnixEpochDay_MAX() { 2932896 }
// `x.try_checked_mul("what", rhs)` with x: UnixEpochDay -- Ok iff the exact product lies within UnixEpochDay::MIN..=MAX
#[verifier::external_body]
pub fn verif_try_checked_mul_UnixEpochDay<R: RInto<ri32>>(x: ri32, rhs: R) -> (res: Result<ri32, Error>)
    requires rhs.rinto_req(),
    ensures res.is_ok() <==> in_UnixEpochDay(x.val * rhs.rinto_spec().val), res.is_ok() ==> res.unwrap().val == x.val * rhs.rinto_spec().val
{ unimplemented!() }
// `x.try_checked_add/sub("what", rhs)` and `x.checked_add/sub/mul(rhs)` with x: UnixEpochDay -- fail iff the exact result leaves UnixEpochDay::MIN..=MAX
#[verifier::external_body]
pub fn verif_try_checked_add_UnixEpochDay<R: RInto<ri32>>(x: ri32, rhs: R) -> (res: Result<ri32, Error>)
    requires rhs.rinto_req(),
    ensures res.is_ok() <==> in_UnixEpochDay(x.val + rhs.rinto_spec().val), res.is_ok() ==> res.unwrap().val == x.val + rhs.rinto_spec().val
{ unimplemented!() }
#[verifier::external_body]
pub fn verif_try_checked_sub_UnixEpochDay<R: RInto<ri32>>(x: ri32, rhs: R) -> (res: Result<ri32, Error>)
    requires rhs.rinto_req(),
    ensures res.is_ok() <==> in_UnixEpochDay(x.val - rhs.rinto_spec().val), res.is_ok() ==> res.unwrap().val == x.val - rhs.rinto_spec().val
{ unimplemented!() }
#[verifier::external_body]
pub fn verif_checked_add_UnixEpochDay<R: RInto<ri32>>(x: ri32, rhs: R) -> (res: Option<ri32>)
    requires rhs.rinto_req(),
    ensures res.is_some() <==> in_UnixEpochDay(x.val + rhs.rinto_spec().val), res.is_some() ==> res.unwrap().val == x.val + rhs.rinto_spec().val
{ unimplemented!() }
#[verifier::external_body]
pub fn verif_checked_sub_UnixEpochDay<R: RInto<ri32>>(x: ri32, rhs: R) -> (res: Option<ri32>)
    requires rhs.rinto_req(),
    ensures res.is_some() <==> in_UnixEpochDay(x.val - rhs.rinto_spec().val), res.is_some() ==> res.unwrap().val == x.val - rhs.rinto_spec().val
{ unimplemented!() }
#[verifier::external_body]
pub fn verif_checked_mul_UnixEpochDay<R: RInto<ri32>>(x: ri32, rhs: R) -> (res: Option<ri32>)
    requires rhs.rinto_req(),
    ensures res.is_some() <==> in_UnixEpochDay(x.val * rhs.rinto_spec().val), res.is_some() ==> res.unwrap().val == x.val * rhs.rinto_spec().val
{ unimplemented!() }
pub type UnixSeconds = ri64;
pub open spec fn UnixSeconds_MIN() -> int { -377705023201 }
pub open spec fn UnixSeconds_MAX() -> int { 253402207200 }
pub open spec fn in_UnixSeconds(v: int) -> bool { -377705023201 <= v <= 253402207200 }
#[verifier::external_body]
pub fn verif_try_rfrom_UnixSeconds_8(r: ri8) -> (res: Result<ri64, Error>)
    ensures res.is_ok() <==> in_UnixSeconds(r.val as int), res.is_ok() ==> res.unwrap().val == r.val
{ unimplemented!() }
#[verifier::external_body]
pub fn verif_try_rfrom_UnixSeconds_16(r: ri16) -> (res: Result<ri64, Error>)
    ensures res.is_ok() <==> in_UnixSeconds(r.val as int), res.is_ok() ==> res.unwrap().val == r.val
{ unimplemented!() }
#[verifier::external_body]
pub fn verif_try_rfrom_UnixSeconds_32(r: ri32) -> (res: Result<ri64, Error>)
    ensures res.is_ok() <==> in_UnixSeconds(r.val as int), res.is_ok() ==> res.unwrap().val == r.val
{ unimplemented!() }
#[verifier::external_body]
pub fn verif_try_rfrom_UnixSeconds_64(r: ri64) -> (res: Result<ri64, Error>)
    ensures res.is_ok() <==> in_UnixSeconds(r.val as int), res.is_ok() ==> res.unwrap().val == r.val
{ unimplemented!() }
#[verifier::external_body]
pub fn verif_try_rfrom_UnixSeconds_128(r: ri128) -> (res: Result<ri64, Error>)
    ensures res.is_ok() <==> in_UnixSeconds(r.val as int), res.is_ok() ==> res.unwrap().val == r.val
{ unimplemented!() }
#[verifier::external_body]
pub fn verif_try_new_UnixSeconds(v: i64) -> (res: Result<ri64, Error>)
    ensures res.is_ok() <==> in_UnixSeconds(v as int), res.is_ok() ==> res.unwrap().val == v
{ unimplemented!() }
#[verifier::external_body]
pub fn verif_try_new128_UnixSeconds(v: i128) -> (res: Result<ri64, Error>)
    ensures res.is_ok() <==> in_UnixSeconds(v as int), res.is_ok() ==> res.unwrap().val == v
{ unimplemented!() }
// `UnixSeconds::MIN` / `UnixSeconds::MAX` (associated consts of type i128)
pub fn verif_MIN_UnixSeconds() -> (r: i128) ensures r == UnixSeconds_MIN() { -377705023201 }
pub fn verif_MAX_UnixSeconds() -> (r: i128) ensures r == UnixSeconds_MAX() { 253402207200 }
// `x.try_checked_mul("what", rhs)` with x: UnixSeconds -- Ok iff the exact product lies within UnixSeconds::MIN..=MAX
#[verifier::external_body]
pub fn verif_try_checked_mul_UnixSeconds<R: RInto<ri64>>(x: ri64, rhs: R) -> (res: Result<ri64, Error>)
    requires rhs.rinto_req(),
    ensures res.is_ok() <==> in_UnixSeconds(x.val * rhs.rinto_spec().val), res.is_ok() ==> res.unwrap().val == x.val * rhs.rinto_spec().val
{ unimplemented!() }
// `x.try_checked_add/sub("what", rhs)` and `x.checked_add/sub/mul(rhs)` with x: UnixSeconds -- fail iff the exact result leaves UnixSeconds::MIN..=MAX
#[verifier::external_body]
pub fn verif_try_checked_add_UnixSeconds<R: RInto<ri64>>(x: ri64, rhs: R) -> (res: Result<ri64, Error>)
    requires rhs.rinto_req(),
    ensures res.is_ok() <==> in_UnixSeconds(x.val + rhs.rinto_spec().val), res.is_ok() ==> res.unwrap().val == x.val + rhs.rinto_spec().val
{ unimplemented!() }
#[verifier::external_body]
pub fn verif_try_checked_sub_UnixSeconds<R: RInto<ri64>>(x: ri64, rhs: R) -> (res: Result<ri64, Error>)
    requires rhs.rinto_req(),
    ensures res.is_ok() <==> in_UnixSeconds(x.val - rhs.rinto_spec().val), res.is_ok() ==> res.unwrap().val == x.val - rhs.rinto_spec().val
{ unimplemented!() }
#[verifier::external_body]
pub fn verif_checked_add_UnixSeconds<R: RInto<ri64>>(x: ri64, rhs: R) -> (res: Option<ri64>)
    requires rhs.rinto_req(),
    ensures res.is_some() <==> in_UnixSeconds(x.val + rhs.rinto_spec().val), res.is_some() ==> res.unwrap().val == x.val + rhs.rinto_spec().val
{ unimplemented!() }
#[verifier::external_body]
pub fn verif_checked_sub_UnixSeconds<R: RInto<ri64>>(x: ri64, rhs: R) -> (res: Option<ri64>)
    requires rhs.rinto_req(),
    ensures res.is_some() <==> in_UnixSeconds(x.val - rhs.rinto_spec().val), res.is_some() ==> res.unwrap().val == x.val - rhs.rinto_spec().val
{ unimplemented!() }
#[verifier::external_body]
pub fn verif_checked_mul_UnixSeconds<R: RInto<ri64>>(x: ri64, rhs: R) -> (res: Option<ri64>)
    requires rhs.rinto_req(),
    ensures res.is_some() <==> in_UnixSeconds(x.val * rhs.rinto_spec().val), res.is_some() ==> res.unwrap().val == x.val * rhs.rinto_spec().val
{ unimplemented!() }
pub type UnixNanoseconds = ri128;
pub open spec fn UnixNanoseconds_MIN() -> int { -377705023201000000000 }
pub open spec fn UnixNanoseconds_MAX() -> int { 253402207200999999999 }
pub open spec fn in_UnixNanoseconds(v: int) -> bool { -377705023201000000000 <= v <= 253402207200999999999 }
#[verifier::external_body]
pub fn verif_try_rfrom_UnixNanoseconds_8(r: ri8) -> (res: Result<ri128, Error>)
    ensures res.is_ok() <==> in_UnixNanoseconds(r.val as int), res.is_ok() ==> res.unwrap().val == r.val
{ unimplemented!() }
#[verifier::external_body]
pub fn verif_try_rfrom_UnixNanoseconds_16(r: ri16) -> (res: Result<ri128, Error>)
    ensures res.is_ok() <==> in_UnixNanoseconds(r.val as int), res.is_ok() ==> res.unwrap().val == r.val
{ unimplemented!() }
#[verifier::external_body]
pub fn verif_try_rfrom_UnixNanoseconds_32(r: ri32) -> (res: Result<ri128, Error>)
    ensures res.is_ok() <==> in_UnixNanoseconds(r.val as int), res.is_ok() ==> res.unwrap().val == r.val
{ unimplemented!() }
#[verifier::external_body]
pub fn verif_try_rfrom_UnixNanoseconds_64(r: ri64) -> (res: Result<ri128, Error>)
    ensures res.is_ok() <==> in_UnixNanoseconds(r.val as int), res.is_ok() ==> res.unwrap().val == r.val
{ unimplemented!() }
#[verifier::external_body]
pub fn verif_try_rfrom_UnixNanoseconds_128(r: ri128) -> (res: Result<ri128, Error>)
    ensures res.is_ok() <==> in_UnixNanoseconds(r.val as int), res.is_ok() ==> res.unwrap().val == r.val
{ unimplemented!() }
#[verifier::external_body]
pub fn verif_try_new_UnixNanoseconds(v: i64) -> (res: Result<ri128, Error>)
    ensures res.is_ok() <==> in_UnixNanoseconds(v as int), res.is_ok() ==> res.unwrap().val == v
{ unimplemented!() }
#[verifier::external_body]
pub fn verif_try_new128_UnixNanoseconds(v: i128) -> (res: Result<ri128, Error>)
    ensures res.is_ok() <==> in_UnixNanoseconds(v as int), res.is_ok() ==> res.unwrap().val == v
{ unimplemented!() }
// `UnixNanoseconds::MIN` / `UnixNanoseconds::MAX` (associated consts of type i128)
pub fn verif_MIN_UnixNanoseconds() -> (r: i128) ensures r == UnixNanoseconds_MIN() { -377705023201000000000 }
pub fn verif_MAX_UnixNanoseconds() -> (r: i128) ensures r == UnixNanoseconds_MAX() { 253402207200999999999 }
// `x.try_checked_mul("what", rhs)` with x: UnixNanoseconds -- Ok iff the exact product lies within UnixNanoseconds::MIN..=MAX
#[verifier::external_body]
pub fn verif_try_checked_mul_UnixNanoseconds<R: RInto<ri128>>(x: ri128, rhs: R) -> (res: Result<ri128, Error>)
    requires rhs.rinto_req(),
    ensures res.is_ok() <==> in_UnixNanoseconds(x.val * rhs.rinto_spec().val), res.is_ok() ==> res.unwrap().val == x.val * rhs.rinto_spec().val
{ unimplemented!() }
// `x.try_checked_add/sub("what", rhs)` and `x.checked_add/sub/mul(rhs)` with x: UnixNanoseconds -- fail iff the exact result leaves UnixNanoseconds::MIN..=MAX
#[verifier::external_body]
pub fn verif_try_checked_add_UnixNanoseconds<R: RInto<ri128>>(x: ri128, rhs: R) -> (res: Result<ri128, Error>)
    requires rhs.rinto_req(),
    ensures res.is_ok() <==> in_UnixNanoseconds(x.val + rhs.rinto_spec().val), res.is_ok() ==> res.unwrap().val == x.val + rhs.rinto_spec().val
{ unimplemented!() }
#[verifier::external_body]
pub fn verif_try_checked_sub_UnixNanoseconds<R: RInto<ri128>>(x: ri128, rhs: R) -> (res: Result<ri128, Error>)
    requires rhs.rinto_req(),
    ensures res.is_ok() <==> in_UnixNanoseconds(x.val - rhs.rinto_spec().val), res.is_ok() ==> res.unwrap().val == x.val - rhs.rinto_spec().val
{ unimplemented!() }
#[verifier::external_body]
pub fn verif_checked_add_UnixNanoseconds<R: RInto<ri128>>(x: ri128, rhs: R) -> (res: Option<ri128>)
    requires rhs.rinto_req(),
    ensures res.is_some() <==> in_UnixNanoseconds(x.val + rhs.rinto_spec().val), res.is_some() ==> res.unwrap().val == x.val + rhs.rinto_spec().val
{ unimplemented!() }
#[verifier::external_body]
pub fn verif_checked_sub_UnixNanoseconds<R: RInto<ri128>>(x: ri128, rhs: R) -> (res: Option<ri128>)
    requires rhs.rinto_req(),
    ensures res.is_some() <==> in_UnixNanoseconds(x.val - rhs.rinto_spec().val), res.is_some() ==> res.unwrap().val == x.val - rhs.rinto_spec().val
{ unimplemented!() }
#[verifier::external_body]
pub fn verif_checked_mul_UnixNanoseconds<R: RInto<ri128>>(x: ri128, rhs: R) -> (res: Option<ri128>)
    requires rhs.rinto_req(),
    ensures res.is_some() <==> in_UnixNanoseconds(x.val * rhs.rinto_spec().val), res.is_some() ==> res.unwrap().val == x.val * rhs.rinto_spec().val
{ unimplemented!() }
pub type SpanYears = ri16;
pub open spec fn SpanYears_MIN() -> int { -19998 }
pub open spec fn SpanYears_MAX() -> int { 19998 }
pub open spec fn in_SpanYears(v: int) -> bool { -19998 <= v <= 19998 }
#[verifier::external_body]
pub fn verif_try_rfrom_SpanYears_8(r: ri8) -> (res: Result<ri16, Error>)
    ensures res.is_ok() <==> in_SpanYears(r.val as int), res.is_ok() ==> res.unwrap().val == r.val
{ unimplemented!() }
#[verifier::external_body]
pub fn verif_try_rfrom_SpanYears_16(r: ri16) -> (res: Result<ri16, Error>)
    ensures res.is_ok() <==> in_SpanYears(r.val as int), res.is_ok() ==> res.unwrap().val == r.val
{ unimplemented!() }
#[verifier::external_body]
pub fn verif_try_rfrom_SpanYears_32(r: ri32) -> (res: Result<ri16, Error>)
    ensures res.is_ok() <==> in_SpanYears(r.val as int), res.is_ok() ==> res.unwrap().val == r.val
{ unimplemented!() }
#[verifier::external_body]
pub fn verif_try_rfrom_SpanYears_64(r: ri64) -> (res: Result<ri16, Error>)
    ensures res.is_ok() <==> in_SpanYears(r.val as int), res.is_ok() ==> res.unwrap().val == r.val
{ unimplemented!() }
#[verifier::external_body]
pub fn verif_try_rfrom_SpanYears_128(r: ri128) -> (res: Result<ri16, Error>)
    ensures res.is_ok() <==> in_SpanYears(r.val as int), res.is_ok() ==> res.unwrap().val == r.val
{ unimplemented!() }
#[verifier::external_body]
pub fn verif_try_new_SpanYears(v: i64) -> (res: Result<ri16, Error>)
    ensures res.is_ok() <==> in_SpanYears(v as int), res.is_ok() ==> res.unwrap().val == v
{ unimplemented!() }
#[verifier::external_body]
pub fn verif_try_new128_SpanYears(v: i128) -> (res: Result<ri16, Error>)
    ensures res.is_ok() <==> in_SpanYears(v as int), res.is_ok() ==> res.unwrap().val == v
{ unimplemented!() }
// `SpanYears::MIN` / `SpanYears::MAX` (associated consts of type i128)
pub fn verif_MIN_SpanYears() -> (r: i128) ensures r == SpanYears_MIN() { -19998 }
pub fn verif_MAX_SpanYears() -> (r: i128) ensures r == SpanYears_MAX() { 19998 }
// `x.try_checked_mul("what", rhs)` with x: SpanYears -- Ok iff the exact product lies within SpanYears::MIN..=MAX
#[verifier::external_body]
pub fn verif_try_checked_mul_SpanYears<R: RInto<ri16>>(x: ri16, rhs: R) -> (res: Result<ri16, Error>)
    requires rhs.rinto_req(),
    ensures res.is_ok() <==> in_SpanYears(x.val * rhs.rinto_spec().val), res.is_ok() ==> res.unwrap().val == x.val * rhs.rinto_spec().val
{ unimplemented!() }
// `x.try_checked_add/sub("what", rhs)` and `x.checked_add/sub/mul(rhs)` with x: SpanYears -- fail iff the exact result leaves SpanYears::MIN..=MAX
#[verifier::external_body]
pub fn verif_try_checked_add_SpanYears<R: RInto<ri16>>(x: ri16, rhs: R) -> (res: Result<ri16, Error>)
    requires rhs.rinto_req(),
    ensures res.is_ok() <==> in_SpanYears(x.val + rhs.rinto_spec().val), res.is_ok() ==> res.unwrap().val == x.val + rhs.rinto_spec().val
{ unimplemented!() }
#[verifier::external_body]
pub fn verif_try_checked_sub_SpanYears<R: RInto<ri16>>(x: ri16, rhs: R) -> (res: Result<ri16, Error>)
    requires rhs.rinto_req(),
    ensures res.is_ok() <==> in_SpanYears(x.val - rhs.rinto_spec().val), res.is_ok() ==> res.unwrap().val == x.val - rhs.rinto_spec().val
{ unimplemented!() }
#[verifier::external_body]
pub fn verif_checked_add_SpanYears<R: RInto<ri16>>(x: ri16, rhs: R) -> (res: Option<ri16>)
    requires rhs.rinto_req(),
    ensures res.is_some() <==> in_SpanYears(x.val + rhs.rinto_spec().val), res.is_some() ==> res.unwrap().val == x.val + rhs.rinto_spec().val
{ unimplemented!() }
#[verifier::external_body]
pub fn verif_checked_sub_SpanYears<R: RInto<ri16>>(x: ri16, rhs: R) -> (res: Option<ri16>)
    requires rhs.rinto_req(),
    ensures res.is_some() <==> in_SpanYears(x.val - rhs.rinto_spec().val), res.is_some() ==> res.unwrap().val == x.val - rhs.rinto_spec().val
{ unimplemented!() }
#[verifier::external_body]
pub fn verif_checked_mul_SpanYears<R: RInto<ri16>>(x: ri16, rhs: R) -> (res: Option<ri16>)
    requires rhs.rinto_req(),
    ensures res.is_some() <==> in_SpanYears(x.val * rhs.rinto_spec().val), res.is_some() ==> res.unwrap().val == x.val * rhs.rinto_spec().val
{ unimplemented!() }
pub type SpanMonths = ri32;
pub open spec fn SpanMonths_MIN() -> int { -239976 }
pub open spec fn SpanMonths_MAX() -> int { 239976 }
pub open spec fn in_SpanMonths(v: int) -> bool { -239976 <= v <= 239976 }
#[verifier::external_body]
pub fn verif_try_rfrom_SpanMonths_8(r: ri8) -> (res: Result<ri32, Error>)
    ensures res.is_ok() <==> in_SpanMonths(r.val as int), res.is_ok() ==> res.unwrap().val == r.val
{ unimplemented!() }
#[verifier::external_body]
pub fn verif_try_rfrom_SpanMonths_16(r: ri16) -> (res: Result<ri32, Error>)
    ensures res.is_ok() <==> in_SpanMonths(r.val as int), res.is_ok() ==> res.unwrap().val == r.val
{ unimplemented!() }
#[verifier::external_body]
pub fn verif_try_rfrom_SpanMonths_32(r: ri32) -> (res: Result<ri32, Error>)
    ensures res.is_ok() <==> in_SpanMonths(r.val as int), res.is_ok() ==> res.unwrap().val == r.val
{ unimplemented!() }
#[verifier::external_body]
pub fn verif_try_rfrom_SpanMonths_64(r: ri64) -> (res: Result<ri32, Error>)
    ensures res.is_ok() <==> in_SpanMonths(r.val as int), res.is_ok() ==> res.unwrap().val == r.val
{ unimplemented!() }
#[verifier::external_body]
pub fn verif_try_rfrom_SpanMonths_128(r: ri128) -> (res: Result<ri32, Error>)
    ensures res.is_ok() <==> in_SpanMonths(r.val as int), res.is_ok() ==> res.unwrap().val == r.val
{ unimplemented!() }
#[verifier::external_body]
pub fn verif_try_new_SpanMonths(v: i64) -> (res: Result<ri32, Error>)
    ensures res.is_ok() <==> in_SpanMonths(v as int), res.is_ok() ==> res.unwrap().val == v
{ unimplemented!() }
#[verifier::external_body]
pub fn verif_try_new128_SpanMonths(v: i128) -> (res: Result<ri32, Error>)
    ensures res.is_ok() <==> in_SpanMonths(v as int), res.is_ok() ==> res.unwrap().val == v
{ unimplemented!() }
// `SpanMonths::MIN` / `SpanMonths::MAX` (associated consts of type i128)
pub fn verif_MIN_SpanMonths() -> (r: i128) ensures r == SpanMonths_MIN() { -239976 }
pub fn verif_MAX_SpanMonths() -> (r: i128) ensures r == SpanMonths_MAX() { 239976 }
// `x.try_checked_mul("what", rhs)` with x: SpanMonths -- Ok iff the exact product lies within SpanMonths::MIN..=MAX
#[verifier::external_body]
pub fn verif_try_checked_mul_SpanMonths<R: RInto<ri32>>(x: ri32, rhs: R) -> (res: Result<ri32, Error>)
    requires rhs.rinto_req(),
    ensures res.is_ok() <==> in_SpanMonths(x.val * rhs.rinto_spec().val), res.is_ok() ==> res.unwrap().val == x.val * rhs.rinto_spec().val
{ unimplemented!() }
// `x.try_checked_add/sub("what", rhs)` and `x.checked_add/sub/mul(rhs)` with x: SpanMonths -- fail iff the exact result leaves SpanMonths::MIN..=MAX
#[verifier::external_body]
pub fn verif_try_checked_add_SpanMonths<R: RInto<ri32>>(x: ri32, rhs: R) -> (res: Result<ri32, Error>)
    requires rhs.rinto_req(),
    ensures res.is_ok() <==> in_SpanMonths(x.val + rhs.rinto_spec().val), res.is_ok() ==> res.unwrap().val == x.val + rhs.rinto_spec().val
{ unimplemented!() }
#[verifier::external_body]
pub fn verif_try_checked_sub_SpanMonths<R: RInto<ri32>>(x: ri32, rhs: R) -> (res: Result<ri32, Error>)
    requires rhs.rinto_req(),
    ensures res.is_ok() <==> in_SpanMonths(x.val - rhs.rinto_spec().val), res.is_ok() ==> res.unwrap().val == x.val - rhs.rinto_spec().val
{ unimplemented!() }
#[verifier::external_body]
pub fn verif_checked_add_SpanMonths<R: RInto<ri32>>(x: ri32, rhs: R) -> (res: Option<ri32>)
    requires rhs.rinto_req(),
    ensures res.is_some() <==> in_SpanMonths(x.val + rhs.rinto_spec().val), res.is_some() ==> res.unwrap().val == x.val + rhs.rinto_spec().val
{ unimplemented!() }
#[verifier::external_body]
pub fn verif_checked_sub_SpanMonths<R: RInto<ri32>>(x: ri32, rhs: R) -> (res: Option<ri32>)
    requires rhs.rinto_req(),
    ensures res.is_some() <==> in_SpanMonths(x.val - rhs.rinto_spec().val), res.is_some() ==> res.unwrap().val == x.val - rhs.rinto_spec().val
{ unimplemented!() }
#[verifier::external_body]
pub fn verif_checked_mul_SpanMonths<R: RInto<ri32>>(x: ri32, rhs: R) -> (res: Option<ri32>)
    requires rhs.rinto_req(),
    ensures res.is_some() <==> in_SpanMonths(x.val * rhs.rinto_spec().val), res.is_some() ==> res.unwrap().val == x.val * rhs.rinto_spec().val
{ unimplemented!() }
pub type SpanWeeks = ri32;
pub open spec fn SpanWeeks_MIN() -> int { -1043497 }
pub open spec fn SpanWeeks_MAX() -> int { 1043497 }
pub open spec fn in_SpanWeeks(v: int) -> bool { -1043497 <= v <= 1043497 }
#[verifier::external_body]
pub fn verif_try_rfrom_SpanWeeks_8(r: ri8) -> (res: Result<ri32, Error>)
    ensures res.is_ok() <==> in_SpanWeeks(r.val as int), res.is_ok() ==> res.unwrap().val == r.val
{ unimplemented!() }
#[verifier::external_body]
pub fn verif_try_rfrom_SpanWeeks_16(r: ri16) -> (res: Result<ri32, Error>)
    ensures res.is_ok() <==> in_SpanWeeks(r.val as int), res.is_ok() ==> res.unwrap().val == r.val
{ unimplemented!() }
#[verifier::external_body]
pub fn verif_try_rfrom_SpanWeeks_32(r: ri32) -> (res: Result<ri32, Error>)
    ensures res.is_ok() <==> in_SpanWeeks(r.val as int), res.is_ok() ==> res.unwrap().val == r.val
{ unimplemented!() }
#[verifier::external_body]
pub fn verif_try_rfrom_SpanWeeks_64(r: ri64) -> (res: Result<ri32, Error>)
    ensures res.is_ok() <==> in_SpanWeeks(r.val as int), res.is_ok() ==> res.unwrap().val == r.val
{ unimplemented!() }
#[verifier::external_body]
pub fn verif_try_rfrom_SpanWeeks_128(r: ri128) -> (res: Result<ri32, Error>)
    ensures res.is_ok() <==> in_SpanWeeks(r.val as int), res.is_ok() ==> res.unwrap().val == r.val
{ unimplemented!() }
#[verifier::external_body]
pub fn verif_try_new_SpanWeeks(v: i64) -> (res: Result<ri32, Error>)
    ensures res.is_ok() <==> in_SpanWeeks(v as int), res.is_ok() ==> res.unwrap().val == v
{ unimplemented!() }
#[verifier::external_body]
pub fn verif_try_new128_SpanWeeks(v: i128) -> (res: Result<ri32, Error>)
    ensures res.is_ok() <==> in_SpanWeeks(v as int), res.is_ok() ==> res.unwrap().val == v
{ unimplemented!() }
// `SpanWeeks::MIN` / `SpanWeeks::MAX` (associated consts of type i128)
pub fn verif_MIN_SpanWeeks() -> (r: i128) ensures r == SpanWeeks_MIN() { -1043497 }
pub fn verif_MAX_SpanWeeks() -> (r: i128) ensures r == SpanWeeks_MAX() { 1043497 }
// `x.try_checked_mul("what", rhs)` with x: SpanWeeks -- Ok iff the exact product lies within SpanWeeks::MIN..=MAX
#[verifier::external_body]
pub fn verif_try_checked_mul_SpanWeeks<R: RInto<ri32>>(x: ri32, rhs: R) -> (res: Result<ri32, Error>)
    requires rhs.rinto_req(),
    ensures res.is_ok() <==> in_SpanWeeks(x.val * rhs.rinto_spec().val), res.is_ok() ==> res.unwrap().val == x.val * rhs.rinto_spec().val
{ unimplemented!() }
// `x.try_checked_add/sub("what", rhs)` and `x.checked_add/sub/mul(rhs)` with x: SpanWeeks -- fail iff the exact result leaves SpanWeeks::MIN..=MAX
#[verifier::external_body]
pub fn verif_try_checked_add_SpanWeeks<R: RInto<ri32>>(x: ri32, rhs: R) -> (res: Result<ri32, Error>)
    requires rhs.rinto_req(),
    ensures res.is_ok() <==> in_SpanWeeks(x.val + rhs.rinto_spec().val), res.is_ok() ==> res.unwrap().val == x.val + rhs.rinto_spec().val
{ unimplemented!() }
#[verifier::external_body]
pub fn verif_try_checked_sub_SpanWeeks<R: RInto<ri32>>(x: ri32, rhs: R) -> (res: Result<ri32, Error>)
    requires rhs.rinto_req(),
    ensures res.is_ok() <==> in_SpanWeeks(x.val - rhs.rinto_spec().val), res.is_ok() ==> res.unwrap().val == x.val - rhs.rinto_spec().val
{ unimplemented!() }
#[verifier::external_body]
pub fn verif_checked_add_SpanWeeks<R: RInto<ri32>>(x: ri32, rhs: R) -> (res: Option<ri32>)
    requires rhs.rinto_req(),
    ensures res.is_some() <==> in_SpanWeeks(x.val + rhs.rinto_spec().val), res.is_some() ==> res.unwrap().val == x.val + rhs.rinto_spec().val
{ unimplemented!() }
#[verifier::external_body]
pub fn verif_checked_sub_SpanWeeks<R: RInto<ri32>>(x: ri32, rhs: R) -> (res: Option<ri32>)
    requires rhs.rinto_req(),
    ensures res.is_some() <==> in_SpanWeeks(x.val - rhs.rinto_spec().val), res.is_some() ==> res.unwrap().val == x.val - rhs.rinto_spec().val
{ unimplemented!() }
#[verifier::external_body]
pub fn verif_checked_mul_SpanWeeks<R: RInto<ri32>>(x: ri32, rhs: R) -> (res: Option<ri32>)
    requires rhs.rinto_req(),
    ensures res.is_some() <==> in_SpanWeeks(x.val * rhs.rinto_spec().val), res.is_some() ==> res.unwrap().val == x.val * rhs.rinto_spec().val
{ unimplemented!() }
pub type SpanDays = ri32;
pub open spec fn SpanDays_MIN() -> int { -7304484 }
pub open spec fn SpanDays_MAX() -> int { 7304484 }
pub open spec fn in_SpanDays(v: int) -> bool { -7304484 <= v <= 7304484 }
#[verifier::external_body]
pub fn verif_try_rfrom_SpanDays_8(r: ri8) -> (res: Result<ri32, Error>)
    ensures res.is_ok() <==> in_SpanDays(r.val as int), res.is_ok() ==> res.unwrap().val == r.val
{ unimplemented!() }
#[verifier::external_body]
pub fn verif_try_rfrom_SpanDays_16(r: ri16) -> (res: Result<ri32, Error>)
    ensures res.is_ok() <==> in_SpanDays(r.val as int), res.is_ok() ==> res.unwrap().val == r.val
{ unimplemented!() }
#[verifier::external_body]
pub fn verif_try_rfrom_SpanDays_32(r: ri32) -> (res: Result<ri32, Error>)
    ensures res.is_ok() <==> in_SpanDays(r.val as int), res.is_ok() ==> res.unwrap().val == r.val
{ unimplemented!() }
#[verifier::external_body]
pub fn verif_try_rfrom_SpanDays_64(r: ri64) -> (res: Result<ri32, Error>)
    ensures res.is_ok() <==> in_SpanDays(r.val as int), res.is_ok() ==> res.unwrap().val == r.val
{ unimplemented!() }
#[verifier::external_body]
pub fn verif_try_rfrom_SpanDays_128(r: ri128) -> (res: Result<ri32, Error>)
    ensures res.is_ok() <==> in_SpanDays(r.val as int), res.is_ok() ==> res.unwrap().val == r.val
{ unimplemented!() }
#[verifier::external_body]
pub fn verif_try_new_SpanDays(v: i64) -> (res: Result<ri32, Error>)
    ensures res.is_ok() <==> in_SpanDays(v as int), res.is_ok() ==> res.unwrap().val == v
{ unimplemented!() }
#[verifier::external_body]
pub fn verif_try_new128_SpanDays(v: i128) -> (res: Result<ri32, Error>)
    ensures res.is_ok() <==> in_SpanDays(v as int), res.is_ok() ==> res.unwrap().val == v
{ unimplemented!() }
// `SpanDays::MIN` / `SpanDays::MAX` (associated consts of type i128)
pub fn verif_MIN_SpanDays() -> (r: i128) ensures r == SpanDays_MIN() { -7304484 }
pub fn verif_MAX_SpanDays() -> (r: i128) ensures r == SpanDays_MAX() { 7304484 }
// `x.try_checked_mul("what", rhs)` with x: SpanDays -- Ok iff the exact product lies within SpanDays::MIN..=MAX
#[verifier::external_body]
pub fn verif_try_checked_mul_SpanDays<R: RInto<ri32>>(x: ri32, rhs: R) -> (res: Result<ri32, Error>)
    requires rhs.rinto_req(),
    ensures res.is_ok() <==> in_SpanDays(x.val * rhs.rinto_spec().val), res.is_ok() ==> res.unwrap().val == x.val * rhs.rinto_spec().val
{ unimplemented!() }
// `x.try_checked_add/sub("what", rhs)` and `x.checked_add/sub/mul(rhs)` with x: SpanDays -- fail iff the exact result leaves SpanDays::MIN..=MAX
#[verifier::external_body]
pub fn verif_try_checked_add_SpanDays<R: RInto<ri32>>(x: ri32, rhs: R) -> (res: Result<ri32, Error>)
    requires rhs.rinto_req(),
    ensures res.is_ok() <==> in_SpanDays(x.val + rhs.rinto_spec().val), res.is_ok() ==> res.unwrap().val == x.val + rhs.rinto_spec().val
{ unimplemented!() }
#[verifier::external_body]
pub fn verif_try_checked_sub_SpanDays<R: RInto<ri32>>(x: ri32, rhs: R) -> (res: Result<ri32, Error>)
    requires rhs.rinto_req(),
    ensures res.is_ok() <==> in_SpanDays(x.val - rhs.rinto_spec().val), res.is_ok() ==> res.unwrap().val == x.val - rhs.rinto_spec().val
{ unimplemented!() }
#[verifier::external_body]
pub fn verif_checked_add_SpanDays<R: RInto<ri32>>(x: ri32, rhs: R) -> (res: Option<ri32>)
    requires rhs.rinto_req(),
    ensures res.is_some() <==> in_SpanDays(x.val + rhs.rinto_spec().val), res.is_some() ==> res.unwrap().val == x.val + rhs.rinto_spec().val
{ unimplemented!() }
#[verifier::external_body]
pub fn verif_checked_sub_SpanDays<R: RInto<ri32>>(x: ri32, rhs: R) -> (res: Option<ri32>)
    requires rhs.rinto_req(),
    ensures res.is_some() <==> in_SpanDays(x.val - rhs.rinto_spec().val), res.is_some() ==> res.unwrap().val == x.val - rhs.rinto_spec().val
{ unimplemented!() }
#[verifier::external_body]
pub fn verif_checked_mul_SpanDays<R: RInto<ri32>>(x: ri32, rhs: R) -> (res: Option<ri32>)
    requires rhs.rinto_req(),
    ensures res.is_some() <==> in_SpanDays(x.val * rhs.rinto_spec().val), res.is_some() ==> res.unwrap().val == x.val * rhs.rinto_spec().val
{ unimplemented!() }
pub type SpanHours = ri32;
pub open spec fn SpanHours_MIN() -> int { -175307616 }
pub open spec fn SpanHours_MAX() -> int { 175307616 }
pub open spec fn in_SpanHours(v: int) -> bool { -175307616 <= v <= 175307616 }
#[verifier::external_body]
pub fn verif_try_rfrom_SpanHours_8(r: ri8) -> (res: Result<ri32, Error>)
    ensures res.is_ok() <==> in_SpanHours(r.val as int), res.is_ok() ==> res.unwrap().val == r.val
{ unimplemented!() }
#[verifier::external_body]
pub fn verif_try_rfrom_SpanHours_16(r: ri16) -> (res: Result<ri32, Error>)
    ensures res.is_ok() <==> in_SpanHours(r.val as int), res.is_ok() ==> res.unwrap().val == r.val
{ unimplemented!() }
#[verifier::external_body]
pub fn verif_try_rfrom_SpanHours_32(r: ri32) -> (res: Result<ri32, Error>)
    ensures res.is_ok() <==> in_SpanHours(r.val as int), res.is_ok() ==> res.unwrap().val == r.val
{ unimplemented!() }
#[verifier::external_body]
pub fn verif_try_rfrom_SpanHours_64(r: ri64) -> (res: Result<ri32, Error>)
    ensures res.is_ok() <==> in_SpanHours(r.val as int), res.is_ok() ==> res.unwrap().val == r.val
{ unimplemented!() }
#[verifier::external_body]
pub fn verif_try_rfrom_SpanHours_128(r: ri128) -> (res: Result<ri32, Error>)
    ensures res.is_ok() <==> in_SpanHours(r.val as int), res.is_ok() ==> res.unwrap().val == r.val
{ unimplemented!() }
#[verifier::external_body]
pub fn verif_try_new_SpanHours(v: i64) -> (res: Result<ri32, Error>)
    ensures res.is_ok() <==> in_SpanHours(v as int), res.is_ok() ==> res.unwrap().val == v
{ unimplemented!() }
#[verifier::external_body]
pub fn verif_try_new128_SpanHours(v: i128) -> (res: Result<ri32, Error>)
    ensures res.is_ok() <==> in_SpanHours(v as int), res.is_ok() ==> res.unwrap().val == v
{ unimplemented!() }
// `SpanHours::MIN` / `SpanHours::MAX` (associated consts of type i128)
pub fn verif_MIN_SpanHours() -> (r: i128) ensures r == SpanHours_MIN() { -175307616 }
pub fn verif_MAX_SpanHours() -> (r: i128) ensures r == SpanHours_MAX() { 175307616 }
// `x.try_checked_mul("what", rhs)` with x: SpanHours -- Ok iff the exact product lies within SpanHours::MIN..=MAX
#[verifier::external_body]
pub fn verif_try_checked_mul_SpanHours<R: RInto<ri32>>(x: ri32, rhs: R) -> (res: Result<ri32, Error>)
    requires rhs.rinto_req(),
    ensures res.is_ok() <==> in_SpanHours(x.val * rhs.rinto_spec().val), res.is_ok() ==> res.unwrap().val == x.val * rhs.rinto_spec().val
{ unimplemented!() }
// `x.try_checked_add/sub("what", rhs)` and `x.checked_add/sub/mul(rhs)` with x: SpanHours -- fail iff the exact result leaves SpanHours::MIN..=MAX
#[verifier::external_body]
pub fn verif_try_checked_add_SpanHours<R: RInto<ri32>>(x: ri32, rhs: R) -> (res: Result<ri32, Error>)
    requires rhs.rinto_req(),
    ensures res.is_ok() <==> in_SpanHours(x.val + rhs.rinto_spec().val), res.is_ok() ==> res.unwrap().val == x.val + rhs.rinto_spec().val
{ unimplemented!() }
#[verifier::external_body]
pub fn verif_try_checked_sub_SpanHours<R: RInto<ri32>>(x: ri32, rhs: R) -> (res: Result<ri32, Error>)
    requires rhs.rinto_req(),
    ensures res.is_ok() <==> in_SpanHours(x.val - rhs.rinto_spec().val), res.is_ok() ==> res.unwrap().val == x.val - rhs.rinto_spec().val
{ unimplemented!() }
#[verifier::external_body]
pub fn verif_checked_add_SpanHours<R: RInto<ri32>>(x: ri32, rhs: R) -> (res: Option<ri32>)
    requires rhs.rinto_req(),
    ensures res.is_some() <==> in_SpanHours(x.val + rhs.rinto_spec().val), res.is_some() ==> res.unwrap().val == x.val + rhs.rinto_spec().val
{ unimplemented!() }
#[verifier::external_body]
pub fn verif_checked_sub_SpanHours<R: RInto<ri32>>(x: ri32, rhs: R) -> (res: Option<ri32>)
    requires rhs.rinto_req(),
    ensures res.is_some() <==> in_SpanHours(x.val - rhs.rinto_spec().val), res.is_some() ==> res.unwrap().val == x.val - rhs.rinto_spec().val
{ unimplemented!() }
#[verifier::external_body]
pub fn verif_checked_mul_SpanHours<R: RInto<ri32>>(x: ri32, rhs: R) -> (res: Option<ri32>)
    requires rhs.rinto_req(),
    ensures res.is_some() <==> in_SpanHours(x.val * rhs.rinto_spec().val), res.is_some() ==> res.unwrap().val == x.val * rhs.rinto_spec().val
{ unimplemented!() }
pub type SpanMinutes = ri64;
pub open spec fn SpanMinutes_MIN() -> int { -10518456960 }
pub open spec fn SpanMinutes_MAX() -> int { 10518456960 }
pub open spec fn in_SpanMinutes(v: int) -> bool { -10518456960 <= v <= 10518456960 }
#[verifier::external_body]
pub fn verif_try_rfrom_SpanMinutes_8(r: ri8) -> (res: Result<ri64, Error>)
    ensures res.is_ok() <==> in_SpanMinutes(r.val as int), res.is_ok() ==> res.unwrap().val == r.val
{ unimplemented!() }
#[verifier::external_body]
pub fn verif_try_rfrom_SpanMinutes_16(r: ri16) -> (res: Result<ri64, Error>)
    ensures res.is_ok() <==> in_SpanMinutes(r.val as int), res.is_ok() ==> res.unwrap().val == r.val
{ unimplemented!() }
#[verifier::external_body]
pub fn verif_try_rfrom_SpanMinutes_32(r: ri32) -> (res: Result<ri64, Error>)
    ensures res.is_ok() <==> in_SpanMinutes(r.val as int), res.is_ok() ==> res.unwrap().val == r.val
{ unimplemented!() }
#[verifier::external_body]
pub fn verif_try_rfrom_SpanMinutes_64(r: ri64) -> (res: Result<ri64, Error>)
    ensures res.is_ok() <==> in_SpanMinutes(r.val as int), res.is_ok() ==> res.unwrap().val == r.val
{ unimplemented!() }
#[verifier::external_body]
pub fn verif_try_rfrom_SpanMinutes_128(r: ri128) -> (res: Result<ri64, Error>)
    ensures res.is_ok() <==> in_SpanMinutes(r.val as int), res.is_ok() ==> res.unwrap().val == r.val
{ unimplemented!() }
#[verifier::external_body]
pub fn verif_try_new_SpanMinutes(v: i64) -> (res: Result<ri64, Error>)
    ensures res.is_ok() <==> in_SpanMinutes(v as int), res.is_ok() ==> res.unwrap().val == v
{ unimplemented!() }
#[verifier::external_body]
pub fn verif_try_new128_SpanMinutes(v: i128) -> (res: Result<ri64, Error>)
    ensures res.is_ok() <==> in_SpanMinutes(v as int), res.is_ok() ==> res.unwrap().val == v
{ unimplemented!() }
// `SpanMinutes::MIN` / `SpanMinutes::MAX` (associated consts of type i128)
pub fn verif_MIN_SpanMinutes() -> (r: i128) ensures r == SpanMinutes_MIN() { -10518456960 }
pub fn verif_MAX_SpanMinutes() -> (r: i128) ensures r == SpanMinutes_MAX() { 10518456960 }
// `x.try_checked_mul("what", rhs)` with x: SpanMinutes -- Ok iff the exact product lies within SpanMinutes::MIN..=MAX
#[verifier::external_body]
pub fn verif_try_checked_mul_SpanMinutes<R: RInto<ri64>>(x: ri64, rhs: R) -> (res: Result<ri64, Error>)
    requires rhs.rinto_req(),
    ensures res.is_ok() <==> in_SpanMinutes(x.val * rhs.rinto_spec().val), res.is_ok() ==> res.unwrap().val == x.val * rhs.rinto_spec().val
{ unimplemented!() }
// `x.try_checked_add/sub("what", rhs)` and `x.checked_add/sub/mul(rhs)` with x: SpanMinutes -- fail iff the exact result leaves SpanMinutes::MIN..=MAX
#[verifier::external_body]
pub fn verif_try_checked_add_SpanMinutes<R: RInto<ri64>>(x: ri64, rhs: R) -> (res: Result<ri64, Error>)
    requires rhs.rinto_req(),
    ensures res.is_ok() <==> in_SpanMinutes(x.val + rhs.rinto_spec().val), res.is_ok() ==> res.unwrap().val == x.val + rhs.rinto_spec().val
{ unimplemented!() }
#[verifier::external_body]
pub fn verif_try_checked_sub_SpanMinutes<R: RInto<ri64>>(x: ri64, rhs: R) -> (res: Result<ri64, Error>)
    requires rhs.rinto_req(),
    ensures res.is_ok() <==> in_SpanMinutes(x.val - rhs.rinto_spec().val), res.is_ok() ==> res.unwrap().val == x.val - rhs.rinto_spec().val
{ unimplemented!() }
#[verifier::external_body]
pub fn verif_checked_add_SpanMinutes<R: RInto<ri64>>(x: ri64, rhs: R) -> (res: Option<ri64>)
    requires rhs.rinto_req(),
    ensures res.is_some() <==> in_SpanMinutes(x.val + rhs.rinto_spec().val), res.is_some() ==> res.unwrap().val == x.val + rhs.rinto_spec().val
{ unimplemented!() }
#[verifier::external_body]
pub fn verif_checked_sub_SpanMinutes<R: RInto<ri64>>(x: ri64, rhs: R) -> (res: Option<ri64>)
    requires rhs.rinto_req(),
    ensures res.is_some() <==> in_SpanMinutes(x.val - rhs.rinto_spec().val), res.is_some() ==> res.unwrap().val == x.val - rhs.rinto_spec().val
{ unimplemented!() }
#[verifier::external_body]
pub fn verif_checked_mul_SpanMinutes<R: RInto<ri64>>(x: ri64, rhs: R) -> (res: Option<ri64>)
    requires rhs.rinto_req(),
    ensures res.is_some() <==> in_SpanMinutes(x.val * rhs.rinto_spec().val), res.is_some() ==> res.unwrap().val == x.val * rhs.rinto_spec().val
{ unimplemented!() }
pub type SpanSeconds = ri64;
pub open spec fn SpanSeconds_MIN() -> int { -631107417600 }
pub open spec fn SpanSeconds_MAX() -> int { 631107417600 }
pub open spec fn in_SpanSeconds(v: int) -> bool { -631107417600 <= v <= 631107417600 }
#[verifier::external_body]
pub fn verif_try_rfrom_SpanSeconds_8(r: ri8) -> (res: Result<ri64, Error>)
    ensures res.is_ok() <==> in_SpanSeconds(r.val as int), res.is_ok() ==> res.unwrap().val == r.val
{ unimplemented!() }
#[verifier::external_body]
pub fn verif_try_rfrom_SpanSeconds_16(r: ri16) -> (res: Result<ri64, Error>)
    ensures res.is_ok() <==> in_SpanSeconds(r.val as int), res.is_ok() ==> res.unwrap().val == r.val
{ unimplemented!() }
#[verifier::external_body]
pub fn verif_try_rfrom_SpanSeconds_32(r: ri32) -> (res: Result<ri64, Error>)
    ensures res.is_ok() <==> in_SpanSeconds(r.val as int), res.is_ok() ==> res.unwrap().val == r.val
{ unimplemented!() }
#[verifier::external_body]
pub fn verif_try_rfrom_SpanSeconds_64(r: ri64) -> (res: Result<ri64, Error>)
    ensures res.is_ok() <==> in_SpanSeconds(r.val as int), res.is_ok() ==> res.unwrap().val == r.val
{ unimplemented!() }
#[verifier::external_body]
pub fn verif_try_rfrom_SpanSeconds_128(r: ri128) -> (res: Result<ri64, Error>)
    ensures res.is_ok() <==> in_SpanSeconds(r.val as int), res.is_ok() ==> res.unwrap().val == r.val
{ unimplemented!() }
#[verifier::external_body]
pub fn verif_try_new_SpanSeconds(v: i64) -> (res: Result<ri64, Error>)
    ensures res.is_ok() <==> in_SpanSeconds(v as int), res.is_ok() ==> res.unwrap().val == v
{ unimplemented!() }
#[verifier::external_body]
pub fn verif_try_new128_SpanSeconds(v: i128) -> (res: Result<ri64, Error>)
    ensures res.is_ok() <==> in_SpanSeconds(v as int), res.is_ok() ==> res.unwrap().val == v
{ unimplemented!() }
// `SpanSeconds::MIN` / `SpanSeconds::MAX` (associated consts of type i128)
pub fn verif_MIN_SpanSeconds() -> (r: i128) ensures r == SpanSeconds_MIN() { -631107417600 }
pub fn verif_MAX_SpanSeconds() -> (r: i128) ensures r == SpanSeconds_MAX() { 631107417600 }
// `x.try_checked_mul("what", rhs)` with x: SpanSeconds -- Ok iff the exact product lies within SpanSeconds::MIN..=MAX
#[verifier::external_body]
pub fn verif_try_checked_mul_SpanSeconds<R: RInto<ri64>>(x: ri64, rhs: R) -> (res: Result<ri64, Error>)
    requires rhs.rinto_req(),
    ensures res.is_ok() <==> in_SpanSeconds(x.val * rhs.rinto_spec().val), res.is_ok() ==> res.unwrap().val == x.val * rhs.rinto_spec().val
{ unimplemented!() }
// `x.try_checked_add/sub("what", rhs)` and `x.checked_add/sub/mul(rhs)` with x: SpanSeconds -- fail iff the exact result leaves SpanSeconds::MIN..=MAX
#[verifier::external_body]
pub fn verif_try_checked_add_SpanSeconds<R: RInto<ri64>>(x: ri64, rhs: R) -> (res: Result<ri64, Error>)
    requires rhs.rinto_req(),
    ensures res.is_ok() <==> in_SpanSeconds(x.val + rhs.rinto_spec().val), res.is_ok() ==> res.unwrap().val == x.val + rhs.rinto_spec().val
{ unimplemented!() }
#[verifier::external_body]
pub fn verif_try_checked_sub_SpanSeconds<R: RInto<ri64>>(x: ri64, rhs: R) -> (res: Result<ri64, Error>)
    requires rhs.rinto_req(),
    ensures res.is_ok() <==> in_SpanSeconds(x.val - rhs.rinto_spec().val), res.is_ok() ==> res.unwrap().val == x.val - rhs.rinto_spec().val
{ unimplemented!() }
#[verifier::external_body]
pub fn verif_checked_add_SpanSeconds<R: RInto<ri64>>(x: ri64, rhs: R) -> (res: Option<ri64>)
    requires rhs.rinto_req(),
    ensures res.is_some() <==> in_SpanSeconds(x.val + rhs.rinto_spec().val), res.is_some() ==> res.unwrap().val == x.val + rhs.rinto_spec().val
{ unimplemented!() }
#[verifier::external_body]
pub fn verif_checked_sub_SpanSeconds<R: RInto<ri64>>(x: ri64, rhs: R) -> (res: Option<ri64>)
    requires rhs.rinto_req(),
    ensures res.is_some() <==> in_SpanSeconds(x.val - rhs.rinto_spec().val), res.is_some() ==> res.unwrap().val == x.val - rhs.rinto_spec().val
{ unimplemented!() }
#[verifier::external_body]
pub fn verif_checked_mul_SpanSeconds<R: RInto<ri64>>(x: ri64, rhs: R) -> (res: Option<ri64>)
    requires rhs.rinto_req(),
    ensures res.is_some() <==> in_SpanSeconds(x.val * rhs.rinto_spec().val), res.is_some() ==> res.unwrap().val == x.val * rhs.rinto_spec().val
{ unimplemented!() }
pub type SpanMilliseconds = ri64;
pub open spec fn SpanMilliseconds_MIN() -> int { -631107417600000 }
pub open spec fn SpanMilliseconds_MAX() -> int { 631107417600000 }
pub open spec fn in_SpanMilliseconds(v: int) -> bool { -631107417600000 <= v <= 631107417600000 }
#[verifier::external_body]
pub fn verif_try_rfrom_SpanMilliseconds_8(r: ri8) -> (res: Result<ri64, Error>)
    ensures res.is_ok() <==> in_SpanMilliseconds(r.val as int), res.is_ok() ==> res.unwrap().val == r.val
{ unimplemented!() }
#[verifier::external_body]
pub fn verif_try_rfrom_SpanMilliseconds_16(r: ri16) -> (res: Result<ri64, Error>)
    ensures res.is_ok() <==> in_SpanMilliseconds(r.val as int), res.is_ok() ==> res.unwrap().val == r.val
{ unimplemented!() }
#[verifier::external_body]
pub fn verif_try_rfrom_SpanMilliseconds_32(r: ri32) -> (res: Result<ri64, Error>)
    ensures res.is_ok() <==> in_SpanMilliseconds(r.val as int), res.is_ok() ==> res.unwrap().val == r.val
{ unimplemented!() }
#[verifier::external_body]
pub fn verif_try_rfrom_SpanMilliseconds_64(r: ri64) -> (res: Result<ri64, Error>)
    ensures res.is_ok() <==> in_SpanMilliseconds(r.val as int), res.is_ok() ==> res.unwrap().val == r.val
{ unimplemented!() }
#[verifier::external_body]
pub fn verif_try_rfrom_SpanMilliseconds_128(r: ri128) -> (res: Result<ri64, Error>)
    ensures res.is_ok() <==> in_SpanMilliseconds(r.val as int), res.is_ok() ==> res.unwrap().val == r.val
{ unimplemented!() }
#[verifier::external_body]
pub fn verif_try_new_SpanMilliseconds(v: i64) -> (res: Result<ri64, Error>)
    ensures res.is_ok() <==> in_SpanMilliseconds(v as int), res.is_ok() ==> res.unwrap().val == v
{ unimplemented!() }
#[verifier::external_body]
pub fn verif_try_new128_SpanMilliseconds(v: i128) -> (res: Result<ri64, Error>)
    ensures res.is_ok() <==> in_SpanMilliseconds(v as int), res.is_ok() ==> res.unwrap().val == v
{ unimplemented!() }
// `SpanMilliseconds::MIN` / `SpanMilliseconds::MAX` (associated consts of type i128)
pub fn verif_MIN_SpanMilliseconds() -> (r: i128) ensures r == SpanMilliseconds_MIN() { -631107417600000 }
pub fn verif_MAX_SpanMilliseconds() -> (r: i128) ensures r == SpanMilliseconds_MAX() { 631107417600000 }
// `x.try_checked_mul("what", rhs)` with x: SpanMilliseconds -- Ok iff the exact product lies within SpanMilliseconds::MIN..=MAX
#[verifier::external_body]
pub fn verif_try_checked_mul_SpanMilliseconds<R: RInto<ri64>>(x: ri64, rhs: R) -> (res: Result<ri64, Error>)
    requires rhs.rinto_req(),
    ensures res.is_ok() <==> in_SpanMilliseconds(x.val * rhs.rinto_spec().val), res.is_ok() ==> res.unwrap().val == x.val * rhs.rinto_spec().val
{ unimplemented!() }
// `x.try_checked_add/sub("what", rhs)` and `x.checked_add/sub/mul(rhs)` with x: SpanMilliseconds -- fail iff the exact result leaves SpanMilliseconds::MIN..=MAX
#[verifier::external_body]
pub fn verif_try_checked_add_SpanMilliseconds<R: RInto<ri64>>(x: ri64, rhs: R) -> (res: Result<ri64, Error>)
    requires rhs.rinto_req(),
    ensures res.is_ok() <==> in_SpanMilliseconds(x.val + rhs.rinto_spec().val), res.is_ok() ==> res.unwrap().val == x.val + rhs.rinto_spec().val
{ unimplemented!() }
#[verifier::external_body]
pub fn verif_try_checked_sub_SpanMilliseconds<R: RInto<ri64>>(x: ri64, rhs: R) -> (res: Result<ri64, Error>)
    requires rhs.rinto_req(),
    ensures res.is_ok() <==> in_SpanMilliseconds(x.val - rhs.rinto_spec().val), res.is_ok() ==> res.unwrap().val == x.val - rhs.rinto_spec().val
{ unimplemented!() }
#[verifier::external_body]
pub fn verif_checked_add_SpanMilliseconds<R: RInto<ri64>>(x: ri64, rhs: R) -> (res: Option<ri64>)
    requires rhs.rinto_req(),
    ensures res.is_some() <==> in_SpanMilliseconds(x.val + rhs.rinto_spec().val), res.is_some() ==> res.unwrap().val == x.val + rhs.rinto_spec().val
{ unimplemented!() }
#[verifier::external_body]
pub fn verif_checked_sub_SpanMilliseconds<R: RInto<ri64>>(x: ri64, rhs: R) -> (res: Option<ri64>)
    requires rhs.rinto_req(),
    ensures res.is_some() <==> in_SpanMilliseconds(x.val - rhs.rinto_spec().val), res.is_some() ==> res.unwrap().val == x.val - rhs.rinto_spec().val
{ unimplemented!() }
#[verifier::external_body]
pub fn verif_checked_mul_SpanMilliseconds<R: RInto<ri64>>(x: ri64, rhs: R) -> (res: Option<ri64>)
    requires rhs.rinto_req(),
    ensures res.is_some() <==> in_SpanMilliseconds(x.val * rhs.rinto_spec().val), res.is_some() ==> res.unwrap().val == x.val * rhs.rinto_spec().val
{ unimplemented!() }
pub type SpanMicroseconds = ri64;
pub open spec fn SpanMicroseconds_MIN() -> int { -631107417600000000 }
pub open spec fn SpanMicroseconds_MAX() -> int { 631107417600000000 }
pub open spec fn in_SpanMicroseconds(v: int) -> bool { -631107417600000000 <= v <= 631107417600000000 }
#[verifier::external_body]
pub fn verif_try_rfrom_SpanMicroseconds_8(r: ri8) -> (res: Result<ri64, Error>)
    ensures res.is_ok() <==> in_SpanMicroseconds(r.val as int), res.is_ok() ==> res.unwrap().val == r.val
{ unimplemented!() }
#[verifier::external_body]
pub fn verif_try_rfrom_SpanMicroseconds_16(r: ri16) -> (res: Result<ri64, Error>)
    ensures res.is_ok() <==> in_SpanMicroseconds(r.val as int), res.is_ok() ==> res.unwrap().val == r.val
{ unimplemented!() }
#[verifier::external_body]
pub fn verif_try_rfrom_SpanMicroseconds_32(r: ri32) -> (res: Result<ri64, Error>)
    ensures res.is_ok() <==> in_SpanMicroseconds(r.val as int), res.is_ok() ==> res.unwrap().val == r.val
{ unimplemented!() }
#[verifier::external_body]
pub fn verif_try_rfrom_SpanMicroseconds_64(r: ri64) -> (res: Result<ri64, Error>)
    ensures res.is_ok() <==> in_SpanMicroseconds(r.val as int), res.is_ok() ==> res.unwrap().val == r.val
{ unimplemented!() }
#[verifier::external_body]
pub fn verif_try_rfrom_SpanMicroseconds_128(r: ri128) -> (res: Result<ri64, Error>)
    ensures res.is_ok() <==> in_SpanMicroseconds(r.val as int), res.is_ok() ==> res.unwrap().val == r.val
{ unimplemented!() }
#[verifier::external_body]
pub fn verif_try_new_SpanMicroseconds(v: i64) -> (res: Result<ri64, Error>)
    ensures res.is_ok() <==> in_SpanMicroseconds(v as int), res.is_ok() ==> res.unwrap().val == v
{ unimplemented!() }
#[verifier::external_body]
pub fn verif_try_new128_SpanMicroseconds(v: i128) -> (res: Result<ri64, Error>)
    ensures res.is_ok() <==> in_SpanMicroseconds(v as int), res.is_ok() ==> res.unwrap().val == v
{ unimplemented!() }
// `SpanMicroseconds::MIN` / `SpanMicroseconds::MAX` (associated consts of type i128)
pub fn verif_MIN_SpanMicroseconds() -> (r: i128) ensures r == SpanMicroseconds_MIN() { -631107417600000000 }
pub fn verif_MAX_SpanMicroseconds() -> (r: i128) ensures r == SpanMicroseconds_MAX() { 631107417600000000 }
// `x.try_checked_mul("what", rhs)` with x: SpanMicroseconds -- Ok iff the exact product lies within SpanMicroseconds::MIN..=MAX
#[verifier::external_body]
pub fn verif_try_checked_mul_SpanMicroseconds<R: RInto<ri64>>(x: ri64, rhs: R) -> (res: Result<ri64, Error>)
    requires rhs.rinto_req(),
    ensures res.is_ok() <==> in_SpanMicroseconds(x.val * rhs.rinto_spec().val), res.is_ok() ==> res.unwrap().val == x.val * rhs.rinto_spec().val
{ unimplemented!() }
// `x.try_checked_add/sub("what", rhs)` and `x.checked_add/sub/mul(rhs)` with x: SpanMicroseconds -- fail iff the exact result leaves SpanMicroseconds::MIN..=MAX
#[verifier::external_body]
pub fn verif_try_checked_add_SpanMicroseconds<R: RInto<ri64>>(x: ri64, rhs: R) -> (res: Result<ri64, Error>)
    requires rhs.rinto_req(),
    ensures res.is_ok() <==> in_SpanMicroseconds(x.val + rhs.rinto_spec().val), res.is_ok() ==> res.unwrap().val == x.val + rhs.rinto_spec().val
{ unimplemented!() }
#[verifier::external_body]
pub fn verif_try_checked_sub_SpanMicroseconds<R: RInto<ri64>>(x: ri64, rhs: R) -> (res: Result<ri64, Error>)
    requires rhs.rinto_req(),
    ensures res.is_ok() <==> in_SpanMicroseconds(x.val - rhs.rinto_spec().val), res.is_ok() ==> res.unwrap().val == x.val - rhs.rinto_spec().val
{ unimplemented!() }
#[verifier::external_body]
pub fn verif_checked_add_SpanMicroseconds<R: RInto<ri64>>(x: ri64, rhs: R) -> (res: Option<ri64>)
    requires rhs.rinto_req(),
    ensures res.is_some() <==> in_SpanMicroseconds(x.val + rhs.rinto_spec().val), res.is_some() ==> res.unwrap().val == x.val + rhs.rinto_spec().val
{ unimplemented!() }
#[verifier::external_body]
pub fn verif_checked_sub_SpanMicroseconds<R: RInto<ri64>>(x: ri64, rhs: R) -> (res: Option<ri64>)
    requires rhs.rinto_req(),
    ensures res.is_some() <==> in_SpanMicroseconds(x.val - rhs.rinto_spec().val), res.is_some() ==> res.unwrap().val == x.val - rhs.rinto_spec().val
{ unimplemented!() }
#[verifier::external_body]
pub fn verif_checked_mul_SpanMicroseconds<R: RInto<ri64>>(x: ri64, rhs: R) -> (res: Option<ri64>)
    requires rhs.rinto_req(),
    ensures res.is_some() <==> in_SpanMicroseconds(x.val * rhs.rinto_spec().val), res.is_some() ==> res.unwrap().val == x.val * rhs.rinto_spec().val
{ unimplemented!() }
pub type SpanNanoseconds = ri64;
pub open spec fn SpanNanoseconds_MIN() -> int { -9223372036854775807 }
pub open spec fn SpanNanoseconds_MAX() -> int { 9223372036854775807 }
pub open spec fn in_SpanNanoseconds(v: int) -> bool { -9223372036854775807 <= v <= 9223372036854775807 }
#[verifier::external_body]
pub fn verif_try_rfrom_SpanNanoseconds_8(r: ri8) -> (res: Result<ri64, Error>)
    ensures res.is_ok() <==> in_SpanNanoseconds(r.val as int), res.is_ok() ==> res.unwrap().val == r.val
{ unimplemented!() }
#[verifier::external_body]
pub fn verif_try_rfrom_SpanNanoseconds_16(r: ri16) -> (res: Result<ri64, Error>)
    ensures res.is_ok() <==> in_SpanNanoseconds(r.val as int), res.is_ok() ==> res.unwrap().val == r.val
{ unimplemented!() }
#[verifier::external_body]
pub fn verif_try_rfrom_SpanNanoseconds_32(r: ri32) -> (res: Result<ri64, Error>)
    ensures res.is_ok() <==> in_SpanNanoseconds(r.val as int), res.is_ok() ==> res.unwrap().val == r.val
{ unimplemented!() }
#[verifier::external_body]
pub fn verif_try_rfrom_SpanNanoseconds_64(r: ri64) -> (res: Result<ri64, Error>)
    ensures res.is_ok() <==> in_SpanNanoseconds(r.val as int), res.is_ok() ==> res.unwrap().val == r.val
{ unimplemented!() }
#[verifier::external_body]
pub fn verif_try_rfrom_SpanNanoseconds_128(r: ri128) -> (res: Result<ri64, Error>)
    ensures res.is_ok() <==> in_SpanNanoseconds(r.val as int), res.is_ok() ==> res.unwrap().val == r.val
{ unimplemented!() }
#[verifier::external_body]
pub fn verif_try_new_SpanNanoseconds(v: i64) -> (res: Result<ri64, Error>)
    ensures res.is_ok() <==> in_SpanNanoseconds(v as int), res.is_ok() ==> res.unwrap().val == v
{ unimplemented!() }
#[verifier::external_body]
pub fn verif_try_new128_SpanNanoseconds(v: i128) -> (res: Result<ri64, Error>)
    ensures res.is_ok() <==> in_SpanNanoseconds(v as int), res.is_ok() ==> res.unwrap().val == v
{ unimplemented!() }
// `SpanNanoseconds::MIN` / `SpanNanoseconds::MAX` (associated consts of type i128)
pub fn verif_MIN_SpanNanoseconds() -> (r: i128) ensures r == SpanNanoseconds_MIN() { -9223372036854775807 }
pub fn verif_MAX_SpanNanoseconds() -> (r: i128) ensures r == SpanNanoseconds_MAX() { 9223372036854775807 }
// `x.try_checked_mul("what", rhs)` with x: SpanNanoseconds -- Ok iff the exact product lies within SpanNanoseconds::MIN..=MAX
#[verifier::external_body]
pub fn verif_try_checked_mul_SpanNanoseconds<R: RInto<ri64>>(x: ri64, rhs: R) -> (res: Result<ri64, Error>)
    requires rhs.rinto_req(),
    ensures res.is_ok() <==> in_SpanNanoseconds(x.val * rhs.rinto_spec().val), res.is_ok() ==> res.unwrap().val == x.val * rhs.rinto_spec().val
{ unimplemented!() }
// `x.try_checked_add/sub("what", rhs)` and `x.checked_add/sub/mul(rhs)` with x: SpanNanoseconds -- fail iff the exact result leaves SpanNanoseconds::MIN..=MAX
#[verifier::external_body]
pub fn verif_try_checked_add_SpanNanoseconds<R: RInto<ri64>>(x: ri64, rhs: R) -> (res: Result<ri64, Error>)
    requires rhs.rinto_req(),
    ensures res.is_ok() <==> in_SpanNanoseconds(x.val + rhs.rinto_spec().val), res.is_ok() ==> res.unwrap().val == x.val + rhs.rinto_spec().val
{ unimplemented!() }
#[verifier::external_body]
pub fn verif_try_checked_sub_SpanNanoseconds<R: RInto<ri64>>(x: ri64, rhs: R) -> (res: Result<ri64, Error>)
    requires rhs.rinto_req(),
    ensures res.is_ok() <==> in_SpanNanoseconds(x.val - rhs.rinto_spec().val), res.is_ok() ==> res.unwrap().val == x.val - rhs.rinto_spec().val
{ unimplemented!() }
#[verifier::external_body]
pub fn verif_checked_add_SpanNanoseconds<R: RInto<ri64>>(x: ri64, rhs: R) -> (res: Option<ri64>)
    requires rhs.rinto_req(),
    ensures res.is_some() <==> in_SpanNanoseconds(x.val + rhs.rinto_spec().val), res.is_some() ==> res.unwrap().val == x.val + rhs.rinto_spec().val
{ unimplemented!() }
#[verifier::external_body]
pub fn verif_checked_sub_SpanNanoseconds<R: RInto<ri64>>(x: ri64, rhs: R) -> (res: Option<ri64>)
    requires rhs.rinto_req(),
    ensures res.is_some() <==> in_SpanNanoseconds(x.val - rhs.rinto_spec().val), res.is_some() ==> res.unwrap().val == x.val - rhs.rinto_spec().val
{ unimplemented!() }
#[verifier::external_body]
pub fn verif_checked_mul_SpanNanoseconds<R: RInto<ri64>>(x: ri64, rhs: R) -> (res: Option<ri64>)
    requires rhs.rinto_req(),
    ensures res.is_some() <==> in_SpanNanoseconds(x.val * rhs.rinto_spec().val), res.is_some() ==> res.unwrap().val == x.val * rhs.rinto_spec().val
{ unimplemented!() }
pub type SpanZoneOffset = ri32;
pub open spec fn SpanZoneOffset_MIN() -> int { -93599 }
pub open spec fn SpanZoneOffset_MAX() -> int { 93599 }
pub open spec fn in_SpanZoneOffset(v: int) -> bool { -93599 <= v <= 93599 }
#[verifier::external_body]
pub fn verif_try_rfrom_SpanZoneOffset_8(r: ri8) -> (res: Result<ri32, Error>)
    ensures res.is_ok() <==> in_SpanZoneOffset(r.val as int), res.is_ok() ==> res.unwrap().val == r.val
{ unimplemented!() }
#[verifier::external_body]
pub fn verif_try_rfrom_SpanZoneOffset_16(r: ri16) -> (res: Result<ri32, Error>)
    ensures res.is_ok() <==> in_SpanZoneOffset(r.val as int), res.is_ok() ==> res.unwrap().val == r.val
{ unimplemented!() }
#[verifier::external_body]
pub fn verif_try_rfrom_SpanZoneOffset_32(r: ri32) -> (res: Result<ri32, Error>)
    ensures res.is_ok() <==> in_SpanZoneOffset(r.val as int), res.is_ok() ==> res.unwrap().val == r.val
{ unimplemented!() }
#[verifier::external_body]
pub fn verif_try_rfrom_SpanZoneOffset_64(r: ri64) -> (res: Result<ri32, Error>)
    ensures res.is_ok() <==> in_SpanZoneOffset(r.val as int), res.is_ok() ==> res.unwrap().val == r.val
{ unimplemented!() }
#[verifier::external_body]
pub fn verif_try_rfrom_SpanZoneOffset_128(r: ri128) -> (res: Result<ri32, Error>)
    ensures res.is_ok() <==> in_SpanZoneOffset(r.val as int), res.is_ok() ==> res.unwrap().val == r.val
{ unimplemented!() }
#[verifier::external_body]
pub fn verif_try_new_SpanZoneOffset(v: i64) -> (res: Result<ri32, Error>)
    ensures res.is_ok() <==> in_SpanZoneOffset(v as int), res.is_ok() ==> res.unwrap().val == v
{ unimplemented!() }
#[verifier::external_body]
pub fn verif_try_new128_SpanZoneOffset(v: i128) -> (res: Result<ri32, Error>)
    ensures res.is_ok() <==> in_SpanZoneOffset(v as int), res.is_ok() ==> res.unwrap().val == v
{ unimplemented!() }
// `SpanZoneOffset::MIN` / `SpanZoneOffset::MAX` (associated consts of type i128)
pub fn verif_MIN_SpanZoneOffset() -> (r: i128) ensures r == SpanZoneOffset_MIN() { -93599 }
pub fn verif_MAX_SpanZoneOffset() -> (r: i128) ensures r == SpanZoneOffset_MAX() { 93599 }
// `x.try_checked_mul("what", rhs)` with x: SpanZoneOffset -- Ok iff the exact product lies within SpanZoneOffset::MIN..=MAX
#[verifier::external_body]
pub fn verif_try_checked_mul_SpanZoneOffset<R: RInto<ri32>>(x: ri32, rhs: R) -> (res: Result<ri32, Error>)
    requires rhs.rinto_req(),
    ensures res.is_ok() <==> in_SpanZoneOffset(x.val * rhs.rinto_spec().val), res.is_ok() ==> res.unwrap().val == x.val * rhs.rinto_spec().val
{ unimplemented!() }
// `x.try_checked_add/sub("what", rhs)` and `x.checked_add/sub/mul(rhs)` with x: SpanZoneOffset -- fail iff the exact result leaves SpanZoneOffset::MIN..=MAX
#[verifier::external_body]
pub fn verif_try_checked_add_SpanZoneOffset<R: RInto<ri32>>(x: ri32, rhs: R) -> (res: Result<ri32, Error>)
    requires rhs.rinto_req(),
    ensures res.is_ok() <==> in_SpanZoneOffset(x.val + rhs.rinto_spec().val), res.is_ok() ==> res.unwrap().val == x.val + rhs.rinto_spec().val
{ unimplemented!() }
#[verifier::external_body]
pub fn verif_try_checked_sub_SpanZoneOffset<R: RInto<ri32>>(x: ri32, rhs: R) -> (res: Result<ri32, Error>)
    requires rhs.rinto_req(),
    ensures res.is_ok() <==> in_SpanZoneOffset(x.val - rhs.rinto_spec().val), res.is_ok() ==> res.unwrap().val == x.val - rhs.rinto_spec().val
{ unimplemented!() }
#[verifier::external_body]
pub fn verif_checked_add_SpanZoneOffset<R: RInto<ri32>>(x: ri32, rhs: R) -> (res: Option<ri32>)
    requires rhs.rinto_req(),
    ensures res.is_some() <==> in_SpanZoneOffset(x.val + rhs.rinto_spec().val), res.is_some() ==> res.unwrap().val == x.val + rhs.rinto_spec().val
{ unimplemented!() }
#[verifier::external_body]
pub fn verif_checked_sub_SpanZoneOffset<R: RInto<ri32>>(x: ri32, rhs: R) -> (res: Option<ri32>)
    requires rhs.rinto_req(),
    ensures res.is_some() <==> in_SpanZoneOffset(x.val - rhs.rinto_spec().val), res.is_some() ==> res.unwrap().val == x.val - rhs.rinto_spec().val
{ unimplemented!() }
#[verifier::external_body]
pub fn verif_checked_mul_SpanZoneOffset<R: RInto<ri32>>(x: ri32, rhs: R) -> (res: Option<ri32>)
    requires rhs.rinto_req(),
    ensures res.is_some() <==> in_SpanZoneOffset(x.val * rhs.rinto_spec().val), res.is_some() ==> res.unwrap().val == x.val * rhs.rinto_spec().val
{ unimplemented!() }
pub type FractionalNanosecond = ri32;
pub open spec fn FractionalNanosecond_MIN() -> int { -999999999 }
pub open spec fn FractionalNanosecond_MAX() -> int { 999999999 }
pub open spec fn in_FractionalNanosecond(v: int) -> bool { -999999999 <= v <= 999999999 }
#[verifier::external_body]
pub fn verif_try_rfrom_FractionalNanosecond_8(r: ri8) -> (res: Result<ri32, Error>)
    ensures res.is_ok() <==> in_FractionalNanosecond(r.val as int), res.is_ok() ==> res.unwrap().val == r.val
{ unimplemented!() }
#[verifier::external_body]
pub fn verif_try_rfrom_FractionalNanosecond_16(r: ri16) -> (res: Result<ri32, Error>)
    ensures res.is_ok() <==> in_FractionalNanosecond(r.val as int), res.is_ok() ==> res.unwrap().val == r.val
{ unimplemented!() }
#[verifier::external_body]
pub fn verif_try_rfrom_FractionalNanosecond_32(r: ri32) -> (res: Result<ri32, Error>)
    ensures res.is_ok() <==> in_FractionalNanosecond(r.val as int), res.is_ok() ==> res.unwrap().val == r.val
{ unimplemented!() }
#[verifier::external_body]
pub fn verif_try_rfrom_FractionalNanosecond_64(r: ri64) -> (res: Result<ri32, Error>)
    ensures res.is_ok() <==> in_FractionalNanosecond(r.val as int), res.is_ok() ==> res.unwrap().val == r.val
{ unimplemented!() }
#[verifier::external_body]
pub fn verif_try_rfrom_FractionalNanosecond_128(r: ri128) -> (res: Result<ri32, Error>)
    ensures res.is_ok() <==> in_FractionalNanosecond(r.val as int), res.is_ok() ==> res.unwrap().val == r.val
{ unimplemented!() }
#[verifier::external_body]
pub fn verif_try_new_FractionalNanosecond(v: i64) -> (res: Result<ri32, Error>)
    ensures res.is_ok() <==> in_FractionalNanosecond(v as int), res.is_ok() ==> res.unwrap().val == v
{ unimplemented!() }
#[verifier::external_body]
pub fn verif_try_new128_FractionalNanosecond(v: i128) -> (res: Result<ri32, Error>)
    ensures res.is_ok() <==> in_FractionalNanosecond(v as int), res.is_ok() ==> res.unwrap().val == v
{ unimplemented!() }
// `FractionalNanosecond::MIN` / `FractionalNanosecond::MAX` (associated consts of type i128)
pub fn verif_MIN_FractionalNanosecond() -> (r: i128) ensures r == FractionalNanosecond_MIN() { -999999999 }
pub fn verif_MAX_FractionalNanosecond() -> (r: i128) ensures r == FractionalNanosecond_MAX() { 999999999 }
// `x.try_checked_mul("what", rhs)` with x: FractionalNanosecond -- Ok iff the exact product lies within FractionalNanosecond::MIN..=MAX
#[verifier::external_body]
pub fn verif_try_checked_mul_FractionalNanosecond<R: RInto<ri32>>(x: ri32, rhs: R) -> (res: Result<ri32, Error>)
    requires rhs.rinto_req(),
    ensures res.is_ok() <==> in_FractionalNanosecond(x.val * rhs.rinto_spec().val), res.is_ok() ==> res.unwrap().val == x.val * rhs.rinto_spec().val
{ unimplemented!() }
// `x.try_checked_add/sub("what", rhs)` and `x.checked_add/sub/mul(rhs)` with x: FractionalNanosecond -- fail iff the exact result leaves FractionalNanosecond::MIN..=MAX
#[verifier::external_body]
pub fn verif_try_checked_add_FractionalNanosecond<R: RInto<ri32>>(x: ri32, rhs: R) -> (res: Result<ri32, Error>)
    requires rhs.rinto_req(),
    ensures res.is_ok() <==> in_FractionalNanosecond(x.val + rhs.rinto_spec().val), res.is_ok() ==> res.unwrap().val == x.val + rhs.rinto_spec().val
{ unimplemented!() }
#[verifier::external_body]
pub fn verif_try_checked_sub_FractionalNanosecond<R: RInto<ri32>>(x: ri32, rhs: R) -> (res: Result<ri32, Error>)
    requires rhs.rinto_req(),
    ensures res.is_ok() <==> in_FractionalNanosecond(x.val - rhs.rinto_spec().val), res.is_ok() ==> res.unwrap().val == x.val - rhs.rinto_spec().val
{ unimplemented!() }
#[verifier::external_body]
pub fn verif_checked_add_FractionalNanosecond<R: RInto<ri32>>(x: ri32, rhs: R) -> (res: Option<ri32>)
    requires rhs.rinto_req(),
    ensures res.is_some() <==> in_FractionalNanosecond(x.val + rhs.rinto_spec().val), res.is_some() ==> res.unwrap().val == x.val + rhs.rinto_spec().val
{ unimplemented!() }
#[verifier::external_body]
pub fn verif_checked_sub_FractionalNanosecond<R: RInto<ri32>>(x: ri32, rhs: R) -> (res: Option<ri32>)
    requires rhs.rinto_req(),
    ensures res.is_some() <==> in_FractionalNanosecond(x.val - rhs.rinto_spec().val), res.is_some() ==> res.unwrap().val == x.val - rhs.rinto_spec().val
{ unimplemented!() }
#[verifier::external_body]
pub fn verif_checked_mul_FractionalNanosecond<R: RInto<ri32>>(x: ri32, rhs: R) -> (res: Option<ri32>)
    requires rhs.rinto_req(),
    ensures res.is_some() <==> in_FractionalNanosecond(x.val * rhs.rinto_spec().val), res.is_some() ==> res.unwrap().val == x.val * rhs.rinto_spec().val
{ unimplemented!() }
pub type ZonedDayNanoseconds = ri64;
pub open spec fn ZonedDayNanoseconds_MIN() -> int { 1000000000 }
pub open spec fn ZonedDayNanoseconds_MAX() -> int { 604800000000000 }
pub open spec fn in_ZonedDayNanoseconds(v: int) -> bool { 1000000000 <= v <= 604800000000000 }
#[verifier::external_body]
pub fn verif_try_rfrom_ZonedDayNanoseconds_8(r: ri8) -> (res: Result<ri64, Error>)
    ensures res.is_ok() <==> in_ZonedDayNanoseconds(r.val as int), res.is_ok() ==> res.unwrap().val == r.val
{ unimplemented!() }
#[verifier::external_body]
pub fn verif_try_rfrom_ZonedDayNanoseconds_16(r: ri16) -> (res: Result<ri64, Error>)
    ensures res.is_ok() <==> in_ZonedDayNanoseconds(r.val as int), res.is_ok() ==> res.unwrap().val == r.val
{ unimplemented!() }
#[verifier::external_body]
pub fn verif_try_rfrom_ZonedDayNanoseconds_32(r: ri32) -> (res: Result<ri64, Error>)
    ensures res.is_ok() <==> in_ZonedDayNanoseconds(r.val as int), res.is_ok() ==> res.unwrap().val == r.val
{ unimplemented!() }
#[verifier::external_body]
pub fn verif_try_rfrom_ZonedDayNanoseconds_64(r: ri64) -> (res: Result<ri64, Error>)
    ensures res.is_ok() <==> in_ZonedDayNanoseconds(r.val as int), res.is_ok() ==> res.unwrap().val == r.val
{ unimplemented!() }
#[verifier::external_body]
pub fn verif_try_rfrom_ZonedDayNanoseconds_128(r: ri128) -> (res: Result<ri64, Error>)
    ensures res.is_ok() <==> in_ZonedDayNanoseconds(r.val as int), res.is_ok() ==> res.unwrap().val == r.val
{ unimplemented!() }
#[verifier::external_body]
pub fn verif_try_new_ZonedDayNanoseconds(v: i64) -> (res: Result<ri64, Error>)
    ensures res.is_ok() <==> in_ZonedDayNanoseconds(v as int), res.is_ok() ==> res.unwrap().val == v
{ unimplemented!() }
#[verifier::external_body]
pub fn verif_try_new128_ZonedDayNanoseconds(v: i128) -> (res: Result<ri64, Error>)
    ensures res.is_ok() <==> in_ZonedDayNanoseconds(v as int), res.is_ok() ==> res.unwrap().val == v
{ unimplemented!() }
// `ZonedDayNanoseconds::MIN` / `ZonedDayNanoseconds::MAX` (associated consts of type i128)
pub fn verif_MIN_ZonedDayNanoseconds() -> (r: i128) ensures r == ZonedDayNanoseconds_MIN() { 1000000000 }
pub fn verif_MAX_ZonedDayNanoseconds() -> (r: i128) ensures r == ZonedDayNanoseconds_MAX() { 604800000000000 }
// `x.try_checked_mul("what", rhs)` with x: ZonedDayNanoseconds -- Ok iff the exact product lies within ZonedDayNanoseconds::MIN..=MAX
#[verifier::external_body]
pub fn verif_try_checked_mul_ZonedDayNanoseconds<R: RInto<ri64>>(x: ri64, rhs: R) -> (res: Result<ri64, Error>)
    requires rhs.rinto_req(),
    ensures res.is_ok() <==> in_ZonedDayNanoseconds(x.val * rhs.rinto_spec().val), res.is_ok() ==> res.unwrap().val == x.val * rhs.rinto_spec().val
{ unimplemented!() }
// `x.try_checked_add/sub("what", rhs)` and `x.checked_add/sub/mul(rhs)` with x: ZonedDayNanoseconds -- fail iff the exact result leaves ZonedDayNanoseconds::MIN..=MAX
#[verifier::external_body]
pub fn verif_try_checked_add_ZonedDayNanoseconds<R: RInto<ri64>>(x: ri64, rhs: R) -> (res: Result<ri64, Error>)
    requires rhs.rinto_req(),
    ensures res.is_ok() <==> in_ZonedDayNanoseconds(x.val + rhs.rinto_spec().val), res.is_ok() ==> res.unwrap().val == x.val + rhs.rinto_spec().val
{ unimplemented!() }
#[verifier::external_body]
pub fn verif_try_checked_sub_ZonedDayNanoseconds<R: RInto<ri64>>(x: ri64, rhs: R) -> (res: Result<ri64, Error>)
    requires rhs.rinto_req(),
    ensures res.is_ok() <==> in_ZonedDayNanoseconds(x.val - rhs.rinto_spec().val), res.is_ok() ==> res.unwrap().val == x.val - rhs.rinto_spec().val
{ unimplemented!() }
#[verifier::external_body]
pub fn verif_checked_add_ZonedDayNanoseconds<R: RInto<ri64>>(x: ri64, rhs: R) -> (res: Option<ri64>)
    requires rhs.rinto_req(),
    ensures res.is_some() <==> in_ZonedDayNanoseconds(x.val + rhs.rinto_spec().val), res.is_some() ==> res.unwrap().val == x.val + rhs.rinto_spec().val
{ unimplemented!() }
#[verifier::external_body]
pub fn verif_checked_sub_ZonedDayNanoseconds<R: RInto<ri64>>(x: ri64, rhs: R) -> (res: Option<ri64>)
    requires rhs.rinto_req(),
    ensures res.is_some() <==> in_ZonedDayNanoseconds(x.val - rhs.rinto_spec().val), res.is_some() ==> res.unwrap().val == x.val - rhs.rinto_spec().val
{ unimplemented!() }
#[verifier::external_body]
pub fn verif_checked_mul_ZonedDayNanoseconds<R: RInto<ri64>>(x: ri64, rhs: R) -> (res: Option<ri64>)
    requires rhs.rinto_req(),
    ensures res.is_some() <==> in_ZonedDayNanoseconds(x.val * rhs.rinto_spec().val), res.is_some() ==> res.unwrap().val == x.val * rhs.rinto_spec().val
{ unimplemented!() }
#[allow(non_camel_case_types)]
pub trait TryRInto_SpanYears: Sized {
    spec fn try_rinto_val(self) -> int;
    fn try_rinto(self, what: &'static str) -> (res: Result<ri16, Error>)
        ensures res.is_ok() <==> in_SpanYears(self.try_rinto_val()), res.is_ok() ==> res.unwrap().val == self.try_rinto_val();
}
impl TryRInto_SpanYears for ri8 {
    open spec fn try_rinto_val(self) -> int { self.val as int }
    fn try_rinto(self, what: &'static str) -> (res: Result<ri16, Error>) { verif_try_rfrom_SpanYears_8(self) }
}
impl TryRInto_SpanYears for ri16 {
    open spec fn try_rinto_val(self) -> int { self.val as int }
    fn try_rinto(self, what: &'static str) -> (res: Result<ri16, Error>) { verif_try_rfrom_SpanYears_16(self) }
}
impl TryRInto_SpanYears for ri32 {
    open spec fn try_rinto_val(self) -> int { self.val as int }
    fn try_rinto(self, what: &'static str) -> (res: Result<ri16, Error>) { verif_try_rfrom_SpanYears_32(self) }
}
impl TryRInto_SpanYears for ri64 {
    open spec fn try_rinto_val(self) -> int { self.val as int }
    fn try_rinto(self, what: &'static str) -> (res: Result<ri16, Error>) { verif_try_rfrom_SpanYears_64(self) }
}
impl TryRInto_SpanYears for ri128 {
    open spec fn try_rinto_val(self) -> int { self.val as int }
    fn try_rinto(self, what: &'static str) -> (res: Result<ri16, Error>) { verif_try_rfrom_SpanYears_128(self) }
}
#[allow(non_camel_case_types)]
pub trait TryRInto_SpanMonths: Sized {
    spec fn try_rinto_val(self) -> int;
    fn try_rinto(self, what: &'static str) -> (res: Result<ri32, Error>)
        ensures res.is_ok() <==> in_SpanMonths(self.try_rinto_val()), res.is_ok() ==> res.unwrap().val == self.try_rinto_val();
}
impl TryRInto_SpanMonths for ri8 {
    open spec fn try_rinto_val(self) -> int { self.val as int }
    fn try_rinto(self, what: &'static str) -> (res: Result<ri32, Error>) { verif_try_rfrom_SpanMonths_8(self) }
}
impl TryRInto_SpanMonths for ri16 {
    open spec fn try_rinto_val(self) -> int { self.val as int }
    fn try_rinto(self, what: &'static str) -> (res: Result<ri32, Error>) { verif_try_rfrom_SpanMonths_16(self) }
}
impl TryRInto_SpanMonths for ri32 {
    open spec fn try_rinto_val(self) -> int { self.val as int }
    fn try_rinto(self, what: &'static str) -> (res: Result<ri32, Error>) { verif_try_rfrom_SpanMonths_32(self) }
}
impl TryRInto_SpanMonths for ri64 {
    open spec fn try_rinto_val(self) -> int { self.val as int }
    fn try_rinto(self, what: &'static str) -> (res: Result<ri32, Error>) { verif_try_rfrom_SpanMonths_64(self) }
}
impl TryRInto_SpanMonths for ri128 {
    open spec fn try_rinto_val(self) -> int { self.val as int }
    fn try_rinto(self, what: &'static str) -> (res: Result<ri32, Error>) { verif_try_rfrom_SpanMonths_128(self) }
}
#[allow(non_camel_case_types)]
pub trait TryRInto_SpanWeeks: Sized {
    spec fn try_rinto_val(self) -> int;
    fn try_rinto(self, what: &'static str) -> (res: Result<ri32, Error>)
        ensures res.is_ok() <==> in_SpanWeeks(self.try_rinto_val()), res.is_ok() ==> res.unwrap().val == self.try_rinto_val();
}
impl TryRInto_SpanWeeks for ri8 {
    open spec fn try_rinto_val(self) -> int { self.val as int }
    fn try_rinto(self, what: &'static str) -> (res: Result<ri32, Error>) { verif_try_rfrom_SpanWeeks_8(self) }
}
impl TryRInto_SpanWeeks for ri16 {
    open spec fn try_rinto_val(self) -> int { self.val as int }
    fn try_rinto(self, what: &'static str) -> (res: Result<ri32, Error>) { verif_try_rfrom_SpanWeeks_16(self) }
}
impl TryRInto_SpanWeeks for ri32 {
    open spec fn try_rinto_val(self) -> int { self.val as int }
    fn try_rinto(self, what: &'static str) -> (res: Result<ri32, Error>) { verif_try_rfrom_SpanWeeks_32(self) }
}
impl TryRInto_SpanWeeks for ri64 {
    open spec fn try_rinto_val(self) -> int { self.val as int }
    fn try_rinto(self, what: &'static str) -> (res: Result<ri32, Error>) { verif_try_rfrom_SpanWeeks_64(self) }
}
impl TryRInto_SpanWeeks for ri128 {
    open spec fn try_rinto_val(self) -> int { self.val as int }
    fn try_rinto(self, what: &'static str) -> (res: Result<ri32, Error>) { verif_try_rfrom_SpanWeeks_128(self) }
}
#[allow(non_camel_case_types)]
pub trait TryRInto_SpanDays: Sized {
    spec fn try_rinto_val(self) -> int;
    fn try_rinto(self, what: &'static str) -> (res: Result<ri32, Error>)
        ensures res.is_ok() <==> in_SpanDays(self.try_rinto_val()), res.is_ok() ==> res.unwrap().val == self.try_rinto_val();
}
impl TryRInto_SpanDays for ri8 {
    open spec fn try_rinto_val(self) -> int { self.val as int }
    fn try_rinto(self, what: &'static str) -> (res: Result<ri32, Error>) { verif_try_rfrom_SpanDays_8(self) }
}
impl TryRInto_SpanDays for ri16 {
    open spec fn try_rinto_val(self) -> int { self.val as int }
    fn try_rinto(self, what: &'static str) -> (res: Result<ri32, Error>) { verif_try_rfrom_SpanDays_16(self) }
}
impl TryRInto_SpanDays for ri32 {
    open spec fn try_rinto_val(self) -> int { self.val as int }
    fn try_rinto(self, what: &'static str) -> (res: Result<ri32, Error>) { verif_try_rfrom_SpanDays_32(self) }
}
impl TryRInto_SpanDays for ri64 {
    open spec fn try_rinto_val(self) -> int { self.val as int }
    fn try_rinto(self, what: &'static str) -> (res: Result<ri32, Error>) { verif_try_rfrom_SpanDays_64(self) }
}
impl TryRInto_SpanDays for ri128 {
    open spec fn try_rinto_val(self) -> int { self.val as int }
    fn try_rinto(self, what: &'static str) -> (res: Result<ri32, Error>) { verif_try_rfrom_SpanDays_128(self) }
}
#[allow(non_camel_case_types)]
pub trait TryRInto_SpanHours: Sized {
    spec fn try_rinto_val(self) -> int;
    fn try_rinto(self, what: &'static str) -> (res: Result<ri32, Error>)
        ensures res.is_ok() <==> in_SpanHours(self.try_rinto_val()), res.is_ok() ==> res.unwrap().val == self.try_rinto_val();
}
impl TryRInto_SpanHours for ri8 {
    open spec fn try_rinto_val(self) -> int { self.val as int }
    fn try_rinto(self, what: &'static str) -> (res: Result<ri32, Error>) { verif_try_rfrom_SpanHours_8(self) }
}
impl TryRInto_SpanHours for ri16 {
    open spec fn try_rinto_val(self) -> int { self.val as int }
    fn try_rinto(self, what: &'static str) -> (res: Result<ri32, Error>) { verif_try_rfrom_SpanHours_16(self) }
}
impl TryRInto_SpanHours for ri32 {
    open spec fn try_rinto_val(self) -> int { self.val as int }
    fn try_rinto(self, what: &'static str) -> (res: Result<ri32, Error>) { verif_try_rfrom_SpanHours_32(self) }
}
impl TryRInto_SpanHours for ri64 {
    open spec fn try_rinto_val(self) -> int { self.val as int }
    fn try_rinto(self, what: &'static str) -> (res: Result<ri32, Error>) { verif_try_rfrom_SpanHours_64(self) }
}
impl TryRInto_SpanHours for ri128 {
    open spec fn try_rinto_val(self) -> int { self.val as int }
    fn try_rinto(self, what: &'static str) -> (res: Result<ri32, Error>) { verif_try_rfrom_SpanHours_128(self) }
}
#[allow(non_camel_case_types)]
pub trait TryRInto_SpanMinutes: Sized {
    spec fn try_rinto_val(self) -> int;
    fn try_rinto(self, what: &'static str) -> (res: Result<ri64, Error>)
        ensures res.is_ok() <==> in_SpanMinutes(self.try_rinto_val()), res.is_ok() ==> res.unwrap().val == self.try_rinto_val();
}
impl TryRInto_SpanMinutes for ri8 {
    open spec fn try_rinto_val(self) -> int { self.val as int }
    fn try_rinto(self, what: &'static str) -> (res: Result<ri64, Error>) { verif_try_rfrom_SpanMinutes_8(self) }
}
impl TryRInto_SpanMinutes for ri16 {
    open spec fn try_rinto_val(self) -> int { self.val as int }
    fn try_rinto(self, what: &'static str) -> (res: Result<ri64, Error>) { verif_try_rfrom_SpanMinutes_16(self) }
}
impl TryRInto_SpanMinutes for ri32 {
    open spec fn try_rinto_val(self) -> int { self.val as int }
    fn try_rinto(self, what: &'static str) -> (res: Result<ri64, Error>) { verif_try_rfrom_SpanMinutes_32(self) }
}
impl TryRInto_SpanMinutes for ri64 {
    open spec fn try_rinto_val(self) -> int { self.val as int }
    fn try_rinto(self, what: &'static str) -> (res: Result<ri64, Error>) { verif_try_rfrom_SpanMinutes_64(self) }
}
impl TryRInto_SpanMinutes for ri128 {
    open spec fn try_rinto_val(self) -> int { self.val as int }
    fn try_rinto(self, what: &'static str) -> (res: Result<ri64, Error>) { verif_try_rfrom_SpanMinutes_128(self) }
}
#[allow(non_camel_case_types)]
pub trait TryRInto_SpanSeconds: Sized {
    spec fn try_rinto_val(self) -> int;
    fn try_rinto(self, what: &'static str) -> (res: Result<ri64, Error>)
        ensures res.is_ok() <==> in_SpanSeconds(self.try_rinto_val()), res.is_ok() ==> res.unwrap().val == self.try_rinto_val();
}
impl TryRInto_SpanSeconds for ri8 {
    open spec fn try_rinto_val(self) -> int { self.val as int }
    fn try_rinto(self, what: &'static str) -> (res: Result<ri64, Error>) { verif_try_rfrom_SpanSeconds_8(self) }
}
impl TryRInto_SpanSeconds for ri16 {
    open spec fn try_rinto_val(self) -> int { self.val as int }
    fn try_rinto(self, what: &'static str) -> (res: Result<ri64, Error>) { verif_try_rfrom_SpanSeconds_16(self) }
}
impl TryRInto_SpanSeconds for ri32 {
    open spec fn try_rinto_val(self) -> int { self.val as int }
    fn try_rinto(self, what: &'static str) -> (res: Result<ri64, Error>) { verif_try_rfrom_SpanSeconds_32(self) }
}
impl TryRInto_SpanSeconds for ri64 {
    open spec fn try_rinto_val(self) -> int { self.val as int }
    fn try_rinto(self, what: &'static str) -> (res: Result<ri64, Error>) { verif_try_rfrom_SpanSeconds_64(self) }
}
impl TryRInto_SpanSeconds for ri128 {
    open spec fn try_rinto_val(self) -> int { self.val as int }
    fn try_rinto(self, what: &'static str) -> (res: Result<ri64, Error>) { verif_try_rfrom_SpanSeconds_128(self) }
}
#[allow(non_camel_case_types)]
pub trait TryRInto_SpanMilliseconds: Sized {
    spec fn try_rinto_val(self) -> int;
    fn try_rinto(self, what: &'static str) -> (res: Result<ri64, Error>)
        ensures res.is_ok() <==> in_SpanMilliseconds(self.try_rinto_val()), res.is_ok() ==> res.unwrap().val == self.try_rinto_val();
}
impl TryRInto_SpanMilliseconds for ri8 {
    open spec fn try_rinto_val(self) -> int { self.val as int }
    fn try_rinto(self, what: &'static str) -> (res: Result<ri64, Error>) { verif_try_rfrom_SpanMilliseconds_8(self) }
}
impl TryRInto_SpanMilliseconds for ri16 {
    open spec fn try_rinto_val(self) -> int { self.val as int }
    fn try_rinto(self, what: &'static str) -> (res: Result<ri64, Error>) { verif_try_rfrom_SpanMilliseconds_16(self) }
}
impl TryRInto_SpanMilliseconds for ri32 {
    open spec fn try_rinto_val(self) -> int { self.val as int }
    fn try_rinto(self, what: &'static str) -> (res: Result<ri64, Error>) { verif_try_rfrom_SpanMilliseconds_32(self) }
}
impl TryRInto_SpanMilliseconds for ri64 {
    open spec fn try_rinto_val(self) -> int { self.val as int }
    fn try_rinto(self, what: &'static str) -> (res: Result<ri64, Error>) { verif_try_rfrom_SpanMilliseconds_64(self) }
}
impl TryRInto_SpanMilliseconds for ri128 {
    open spec fn try_rinto_val(self) -> int { self.val as int }
    fn try_rinto(self, what: &'static str) -> (res: Result<ri64, Error>) { verif_try_rfrom_SpanMilliseconds_128(self) }
}
#[allow(non_camel_case_types)]
pub trait TryRInto_SpanMicroseconds: Sized {
    spec fn try_rinto_val(self) -> int;
    fn try_rinto(self, what: &'static str) -> (res: Result<ri64, Error>)
        ensures res.is_ok() <==> in_SpanMicroseconds(self.try_rinto_val()), res.is_ok() ==> res.unwrap().val == self.try_rinto_val();
}
impl TryRInto_SpanMicroseconds for ri8 {
    open spec fn try_rinto_val(self) -> int { self.val as int }
    fn try_rinto(self, what: &'static str) -> (res: Result<ri64, Error>) { verif_try_rfrom_SpanMicroseconds_8(self) }
}
impl TryRInto_SpanMicroseconds for ri16 {
    open spec fn try_rinto_val(self) -> int { self.val as int }
    fn try_rinto(self, what: &'static str) -> (res: Result<ri64, Error>) { verif_try_rfrom_SpanMicroseconds_16(self) }
}
impl TryRInto_SpanMicroseconds for ri32 {
    open spec fn try_rinto_val(self) -> int { self.val as int }
    fn try_rinto(self, what: &'static str) -> (res: Result<ri64, Error>) { verif_try_rfrom_SpanMicroseconds_32(self) }
}
impl TryRInto_SpanMicroseconds for ri64 {
    open spec fn try_rinto_val(self) -> int { self.val as int }
    fn try_rinto(self, what: &'static str) -> (res: Result<ri64, Error>) { verif_try_rfrom_SpanMicroseconds_64(self) }
}
impl TryRInto_SpanMicroseconds for ri128 {
    open spec fn try_rinto_val(self) -> int { self.val as int }
    fn try_rinto(self, what: &'static str) -> (res: Result<ri64, Error>) { verif_try_rfrom_SpanMicroseconds_128(self) }
}
#[allow(non_camel_case_types)]
pub trait TryRInto_SpanNanoseconds: Sized {
    spec fn try_rinto_val(self) -> int;
    fn try_rinto(self, what: &'static str) -> (res: Result<ri64, Error>)
        ensures res.is_ok() <==> in_SpanNanoseconds(self.try_rinto_val()), res.is_ok() ==> res.unwrap().val == self.try_rinto_val();
}
impl TryRInto_SpanNanoseconds for ri8 {
    open spec fn try_rinto_val(self) -> int { self.val as int }
    fn try_rinto(self, what: &'static str) -> (res: Result<ri64, Error>) { verif_try_rfrom_SpanNanoseconds_8(self) }
}
impl TryRInto_SpanNanoseconds for ri16 {
    open spec fn try_rinto_val(self) -> int { self.val as int }
    fn try_rinto(self, what: &'static str) -> (res: Result<ri64, Error>) { verif_try_rfrom_SpanNanoseconds_16(self) }
}
impl TryRInto_SpanNanoseconds for ri32 {
    open spec fn try_rinto_val(self) -> int { self.val as int }
    fn try_rinto(self, what: &'static str) -> (res: Result<ri64, Error>) { verif_try_rfrom_SpanNanoseconds_32(self) }
}
impl TryRInto_SpanNanoseconds for ri64 {
    open spec fn try_rinto_val(self) -> int { self.val as int }
    fn try_rinto(self, what: &'static str) -> (res: Result<ri64, Error>) { verif_try_rfrom_SpanNanoseconds_64(self) }
}
impl TryRInto_SpanNanoseconds for ri128 {
    open spec fn try_rinto_val(self) -> int { self.val as int }
    fn try_rinto(self, what: &'static str) -> (res: Result<ri64, Error>) { verif_try_rfrom_SpanNanoseconds_128(self) }
}
#[allow(non_camel_case_types)]
pub trait TryRInto_SpanZoneOffset: Sized {
    spec fn try_rinto_val(self) -> int;
    fn try_rinto(self, what: &'static str) -> (res: Result<ri32, Error>)
        ensures res.is_ok() <==> in_SpanZoneOffset(self.try_rinto_val()), res.is_ok() ==> res.unwrap().val == self.try_rinto_val();
}
impl TryRInto_SpanZoneOffset for ri8 {
    open spec fn try_rinto_val(self) -> int { self.val as int }
    fn try_rinto(self, what: &'static str) -> (res: Result<ri32, Error>) { verif_try_rfrom_SpanZoneOffset_8(self) }
}
impl TryRInto_SpanZoneOffset for ri16 {
    open spec fn try_rinto_val(self) -> int { self.val as int }
    fn try_rinto(self, what: &'static str) -> (res: Result<ri32, Error>) { verif_try_rfrom_SpanZoneOffset_16(self) }
}
impl TryRInto_SpanZoneOffset for ri32 {
    open spec fn try_rinto_val(self) -> int { self.val as int }
    fn try_rinto(self, what: &'static str) -> (res: Result<ri32, Error>) { verif_try_rfrom_SpanZoneOffset_32(self) }
}
impl TryRInto_SpanZoneOffset for ri64 {
    open spec fn try_rinto_val(self) -> int { self.val as int }
    fn try_rinto(self, what: &'static str) -> (res: Result<ri32, Error>) { verif_try_rfrom_SpanZoneOffset_64(self) }
}
impl TryRInto_SpanZoneOffset for ri128 {
    open spec fn try_rinto_val(self) -> int { self.val as int }
    fn try_rinto(self, what: &'static str) -> (res: Result<ri32, Error>) { verif_try_rfrom_SpanZoneOffset_128(self) }
}

// ---- include lib/rangeint_ext_tsarith.vrs ----
// Hand-written extension of the rangeint model (lib/rangeint.vrs) for unit `tsarith`.
// Same style as the generated file: release-mode meaning of src/util/rangeint.rs.  Functions WITH a body are verified here against the
// generated model (no new trusted spec); an `external_body` spec would be an obligation for Kani on the real operation (there is none here).

// ---- (T1) `T::MIN_SELF` / `T::MAX_SELF` (src/util/rangeint.rs: `pub(crate) const MIN_SELF: Self = Self::new_unchecked(MIN as $repr)`, same for MAX): the constant
//           whose value is the alias's lower / upper bound.  Verified against the generated `T_MIN()` / `T_MAX()`.
pub fn verif_UnixSeconds_MIN_SELF() -> (r: ri64) ensures r.val == UnixSeconds_MIN() { ri64 { val: -377705023201 } }
pub fn verif_UnixSeconds_MAX_SELF() -> (r: ri64) ensures r.val == UnixSeconds_MAX() { ri64 { val: 253402207200 } }
pub fn verif_FractionalNanosecond_MAX_SELF() -> (r: ri32) ensures r.val == FractionalNanosecond_MAX() { ri32 { val: 999999999 } }

// ---- (T2) `x.without_bounds()` for x narrower than 128 bits is `ri64::rfrom(x)` = NoUnits (src/util/rangeint.rs:2147-2181);
//           the generated model's `without_bounds` keeps the receiver's width, so the call is rewritten to this one (verified: a widening).
//           Same as E4 of rangeint_ext_civiladd.vrs.
impl ri32 {
    pub fn verif_without_bounds64(self) -> (r: ri64) ensures r.val == self.val { ri64 { val: self.val as i64 } }
}
impl ri64 {
    pub fn verif_without_bounds64(self) -> (r: ri64) ensures r.val == self.val { self }
}

// ---- (T3) `-C` for a `Constant` (src/util/t.rs `impl Neg for Constant`: `Constant(-self.0)`).  Same as D3 of rangeint_ext_civildiff.vrs (verified body).
impl NegSpecImpl for Constant {
    open spec fn obeys_neg_spec() -> bool { true }
    open spec fn neg_req(self) -> bool { self.0 > i64::MIN }
    open spec fn neg_spec(self) -> Constant { Constant((-self.0) as i64) }
}
impl core::ops::Neg for Constant {
    type Output = Constant;
    fn neg(self) -> Constant { Constant(-self.0) }
}

// ---- include lib/tdiv.vrs ----
pub proof fn lemma_tdiv(q: int, inc: int)
    requires inc > 0,
    ensures q == tdiv(q, inc) * inc + trem(q, inc), -inc < trem(q, inc) < inc,
            q >= 0 ==> 0 <= trem(q, inc) <= q, q <= 0 ==> q <= trem(q, inc) <= 0,
            -0x4000_0000_0000_0000_0000_0000 <= q <= 0x4000_0000_0000_0000_0000_0000 ==> -0x4000_0000_0000_0000_0000_0000 <= tdiv(q, inc) <= 0x4000_0000_0000_0000_0000_0000,
{
    if q >= 0 {
        vstd::arithmetic::div_mod::lemma_fundamental_div_mod(q, inc);
        vstd::arithmetic::div_mod::lemma_mod_bound(q, inc);
        assert(inc * (q / inc) == (q / inc) * inc) by (nonlinear_arith);
        assert(0 <= q / inc <= q) by (nonlinear_arith) requires q >= 0, inc > 0, q == inc * (q / inc) + q % inc, 0 <= q % inc < inc;
    } else {
        let p = -q;
        vstd::arithmetic::div_mod::lemma_fundamental_div_mod(p, inc);
        vstd::arithmetic::div_mod::lemma_mod_bound(p, inc);
        assert(inc * (p / inc) == (p / inc) * inc) by (nonlinear_arith);
        assert((-(p / inc)) * inc == -((p / inc) * inc)) by (nonlinear_arith);
        assert(0 <= p / inc <= p) by (nonlinear_arith) requires p >= 0, inc > 0, p == inc * (p / inc) + p % inc, 0 <= p % inc < inc;
    }
}

// constants of src/util/t.rs (values re-checked against the real constants by Kani: c10_model::constants)
pub const NANOS_PER_MICRO: Constant = Constant(1_000);
pub const NANOS_PER_MILLI: Constant = Constant(1_000_000);
pub const NANOS_PER_SECOND: Constant = Constant(1_000_000_000);
pub const NANOS_PER_MINUTE: Constant = Constant(60_000_000_000);
pub const NANOS_PER_HOUR: Constant = Constant(3_600_000_000_000);
pub const NANOS_PER_CIVIL_DAY: Constant = Constant(86_400_000_000_000);
pub const NANOS_PER_CIVIL_WEEK: Constant = Constant(604_800_000_000_000);
pub const SECONDS_PER_MINUTE: Constant = Constant(60);
pub const SECONDS_PER_HOUR: Constant = Constant(3_600);
pub const SECONDS_PER_CIVIL_DAY: Constant = Constant(86_400);
pub const SECONDS_PER_CIVIL_WEEK: Constant = Constant(604_800);

pub trait VerifCtx: Sized { fn verif_with_context(self) -> Self; }
impl<T> VerifCtx for Result<T, Error> {
    #[verifier::external_body]
    fn verif_with_context(self) -> (r: Self) ensures r.is_ok() == self.is_ok(), self.is_ok() ==> r.unwrap() == self.unwrap() { unimplemented!() }
}

// derived `PartialOrd` on the fieldless enum Unit = order of discriminants (same trusted view as in rounders.vrs / span.vrs; Kani: c10_model::unit_order)
pub open spec fn unit_rank(u: Unit) -> int {
    match u { Unit::Year => 9, Unit::Month => 8, Unit::Week => 7, Unit::Day => 6, Unit::Hour => 5, Unit::Minute => 4,
              Unit::Second => 3, Unit::Millisecond => 2, Unit::Microsecond => 1, Unit::Nanosecond => 0 }
}
impl PartialOrdSpecImpl for Unit {
    open spec fn obeys_partial_cmp_spec() -> bool { true }
    open spec fn partial_cmp_spec(&self, other: &Unit) -> Option<Ordering> { Some(int_cmp(unit_rank(*self), unit_rank(*other))) }
}
impl PartialOrd for Unit {
    #[verifier::external_body]
    fn partial_cmp(&self, other: &Unit) -> Option<Ordering> { unimplemented!() }
}

// ---- the abstract value of a span: ten signed integers (definitions of span.vrs / spanround.vrs, C12) ----------------------------------------
pub struct SV { pub y: int, pub mo: int, pub w: int, pub d: int, pub h: int, pub mi: int, pub s: int, pub ms: int, pub us: int, pub ns: int }
pub open spec fn iabs(a: int) -> int { if a < 0 { -a } else { a } }
pub open spec fn isgn(a: int) -> int { if a < 0 { -1 } else if a > 0 { 1 } else { 0 } }
pub open spec fn sv_zero() -> SV { SV { y: 0, mo: 0, w: 0, d: 0, h: 0, mi: 0, s: 0, ms: 0, us: 0, ns: 0 } }
pub open spec fn sv_neg(a: SV) -> SV { SV { y: -a.y, mo: -a.mo, w: -a.w, d: -a.d, h: -a.h, mi: -a.mi, s: -a.s, ms: -a.ms, us: -a.us, ns: -a.ns } }
pub open spec fn sv_nonneg(a: SV) -> bool { a.y >= 0 && a.mo >= 0 && a.w >= 0 && a.d >= 0 && a.h >= 0 && a.mi >= 0 && a.s >= 0 && a.ms >= 0 && a.us >= 0 && a.ns >= 0 }
pub open spec fn sv_nonpos(a: SV) -> bool { a.y <= 0 && a.mo <= 0 && a.w <= 0 && a.d <= 0 && a.h <= 0 && a.mi <= 0 && a.s <= 0 && a.ms <= 0 && a.us <= 0 && a.ns <= 0 }
/// "all its non-zero units always share one sign"
pub open spec fn sv_one_sign(a: SV) -> bool { sv_nonneg(a) || sv_nonpos(a) }
pub open spec fn sv_in_limits(a: SV) -> bool {
    in_SpanYears(a.y) && in_SpanMonths(a.mo) && in_SpanWeeks(a.w) && in_SpanDays(a.d) && in_SpanHours(a.h) && in_SpanMinutes(a.mi)
    && in_SpanSeconds(a.s) && in_SpanMilliseconds(a.ms) && in_SpanMicroseconds(a.us) && in_SpanNanoseconds(a.ns)
}
pub open spec fn in_limit(j: int, v: int) -> bool {
    if j == 9 { in_SpanYears(v) } else if j == 8 { in_SpanMonths(v) } else if j == 7 { in_SpanWeeks(v) } else if j == 6 { in_SpanDays(v) }
    else if j == 5 { in_SpanHours(v) } else if j == 4 { in_SpanMinutes(v) } else if j == 3 { in_SpanSeconds(v) } else if j == 2 { in_SpanMilliseconds(v) }
    else if j == 1 { in_SpanMicroseconds(v) } else { in_SpanNanoseconds(v) }
}
pub open spec fn sv_ok(a: SV) -> bool { sv_one_sign(a) && sv_in_limits(a) }
/// the largest unit with a non-zero value (rank), 0 for the zero span
pub open spec fn sv_top(a: SV) -> int {
    if a.y != 0 { 9 } else if a.mo != 0 { 8 } else if a.w != 0 { 7 } else if a.d != 0 { 6 } else if a.h != 0 { 5 } else if a.mi != 0 { 4 }
    else if a.s != 0 { 3 } else if a.ms != 0 { 2 } else if a.us != 0 { 1 } else { 0 }
}
/// hours..nanoseconds in nanoseconds
pub open spec fn time_ns(a: SV) -> int {
    a.h * 3_600_000_000_000 + a.mi * 60_000_000_000 + a.s * 1_000_000_000 + a.ms * 1_000_000 + a.us * 1_000 + a.ns
}
/// the duration denoted by the uniform units: weeks = 7 x 24 h, days = 24 h; years and months do not count
pub open spec fn inv_ns(a: SV) -> int { a.w * 604_800_000_000_000 + a.d * 86_400_000_000_000 + time_ns(a) }
/// whole seconds of the uniform units (meaningful when ms == us == ns == 0)
pub open spec fn inv_secs(a: SV) -> int { a.w * 604_800 + a.d * 86_400 + a.h * 3_600 + a.mi * 60 + a.s }
pub open spec fn sv_cal_zero(a: SV) -> bool { a.y == 0 && a.mo == 0 && a.w == 0 && a.d == 0 }
/// nanoseconds in one unit of rank j, ranks 0..=7
pub open spec fn rank_ns(j: int) -> int {
    if j == 0 { 1 } else if j == 1 { 1_000 } else if j == 2 { 1_000_000 } else if j == 3 { 1_000_000_000 } else if j == 4 { 60_000_000_000 }
    else if j == 5 { 3_600_000_000_000 } else if j == 6 { 86_400_000_000_000 } else if j == 7 { 604_800_000_000_000 } else { 0 }
}
/// how many units of rank j make one unit of rank j + 1
pub open spec fn carry(j: int) -> int { if j <= 2 { 1_000 } else if j <= 4 { 60 } else if j == 5 { 24 } else { 7 } }
/// the largest unit Span::from_invariant_nanoseconds fills for `largest`: Year and Month are treated as Day
pub open spec fn top_rank(largest: Unit) -> int { if unit_rank(largest) >= 8 { 6 } else { unit_rank(largest) } }
/// n nanoseconds counted in whole units of rank j, truncated toward zero
pub open spec fn quot(n: int, j: int) -> int { tdiv(n, rank_ns(j)) }
/// n nanoseconds balanced up to the unit of rank `top`: the top unit takes the whole count, every lower unit the remainder below its carry limit
pub open spec fn bal_unit(n: int, top: int, j: int) -> int {
    if j > top { 0 } else if j == top { quot(n, j) } else { trem(quot(n, j), carry(j)) }
}
pub open spec fn bal(n: int, top: int) -> SV {
    SV { y: 0, mo: 0, w: bal_unit(n, top, 7), d: bal_unit(n, top, 6), h: bal_unit(n, top, 5), mi: bal_unit(n, top, 4), s: bal_unit(n, top, 3),
         ms: bal_unit(n, top, 2), us: bal_unit(n, top, 1), ns: bal_unit(n, top, 0) }
}
/// every unit below `top` is below its carry limit
pub open spec fn carried(a: SV, top: int) -> bool {
    &&& (0 < top ==> -1_000 < a.ns < 1_000) && (1 < top ==> -1_000 < a.us < 1_000) && (2 < top ==> -1_000 < a.ms < 1_000)
    &&& (3 < top ==> -60 < a.s < 60) && (4 < top ==> -60 < a.mi < 60) && (5 < top ==> -24 < a.h < 24) && (6 < top ==> -7 < a.d < 7)
}
/// "a exactly denotes n nanoseconds, balanced up to the unit of rank top": conservation, no unit above top, carry limits, one sign (that of n)
pub open spec fn balanced_as(a: SV, n: int, top: int) -> bool {
    &&& inv_ns(a) == n
    &&& a.y == 0 && a.mo == 0 && sv_top(a) <= top
    &&& carried(a, top)
    &&& (n >= 0 ==> sv_nonneg(a)) && (n <= 0 ==> sv_nonpos(a))
}

// ---- Span: opaque, view = ten signed integers.  Contracts of span.vrs (C12) and spanround.vrs (C11) ---------------------------------------
#[verifier::external_body]
#[derive(Clone, Copy)]
pub struct Span { _p: () }
pub uninterp spec fn span_view(s: Span) -> SV;
/// type invariant of Span: one sign, every unit within its documented limit
pub open spec fn span_wf(s: Span) -> bool { sv_ok(span_view(s)) }
pub open spec fn span_time_ns(s: Span) -> int { time_ns(span_view(s)) }
pub open spec fn span_cal_zero(s: Span) -> bool { sv_cal_zero(span_view(s)) }
impl Span {
    #[verifier::external_body]
    pub fn new() -> (r: Span) ensures span_wf(r), span_view(r) == sv_zero() { unimplemented!() }
    #[verifier::external_body]
    pub fn get_weeks_ranged(&self) -> (r: SpanWeeks) requires span_wf(*self) ensures r.val == span_view(*self).w { unimplemented!() }
    #[verifier::external_body]
    pub fn get_days_ranged(&self) -> (r: SpanDays) requires span_wf(*self) ensures r.val == span_view(*self).d { unimplemented!() }
    #[verifier::external_body]
    pub fn get_hours_ranged(&self) -> (r: SpanHours) requires span_wf(*self) ensures r.val == span_view(*self).h { unimplemented!() }
    #[verifier::external_body]
    pub fn get_minutes_ranged(&self) -> (r: SpanMinutes) requires span_wf(*self) ensures r.val == span_view(*self).mi { unimplemented!() }
    #[verifier::external_body]
    pub fn get_seconds_ranged(&self) -> (r: SpanSeconds) requires span_wf(*self) ensures r.val == span_view(*self).s { unimplemented!() }
    #[verifier::external_body]
    pub fn get_milliseconds_ranged(&self) -> (r: SpanMilliseconds) requires span_wf(*self) ensures r.val == span_view(*self).ms { unimplemented!() }
    #[verifier::external_body]
    pub fn get_microseconds_ranged(&self) -> (r: SpanMicroseconds) requires span_wf(*self) ensures r.val == span_view(*self).us { unimplemented!() }
    #[verifier::external_body]
    pub fn get_nanoseconds_ranged(&self) -> (r: SpanNanoseconds) requires span_wf(*self) ensures r.val == span_view(*self).ns { unimplemented!() }
    /// `self.milliseconds != 0 || self.microseconds != 0 || self.nanoseconds != 0` (reads the private fields)
    #[verifier::external_body]
    pub fn has_fractional_seconds(&self) -> (r: bool) requires span_wf(*self)
        ensures r == (span_view(*self).ms != 0 || span_view(*self).us != 0 || span_view(*self).ns != 0) { unimplemented!() }
    /// `self.sign == 0` (span.vrs: the sign is 0 iff every unit is 0)
    #[verifier::external_body]
    pub fn is_zero(self) -> (r: bool) requires span_wf(self) ensures r == (span_view(self) == sv_zero()) { unimplemented!() }
    /// Some(error) iff a calendar unit (years, months, weeks, days) is non-zero
    #[verifier::external_body]
    pub fn smallest_non_time_non_zero_unit_error(&self) -> (r: Option<Error>) requires span_wf(*self) ensures r.is_some() <==> !span_cal_zero(*self) { unimplemented!() }
    /// span.vrs: Span::negate
    #[verifier::external_body]
    pub fn negate(self) -> (r: Span) requires span_wf(self) ensures span_wf(r), span_view(r) == sv_neg(span_view(self)) { unimplemented!() }
    /// spanround.vrs (C11): the contract proved there for the real function
    #[verifier::external_body]
    pub fn from_invariant_nanoseconds(largest: Unit, nanos: NoUnits128) -> (r: Result<Span, Error>)
        ensures
            r.is_ok() <==> in_limit(top_rank(largest), quot(nanos.val as int, top_rank(largest))),
            r.is_ok() ==> span_wf(r.unwrap()) && span_view(r.unwrap()) == bal(nanos.val as int, top_rank(largest)),
            r.is_ok() ==> balanced_as(span_view(r.unwrap()), nanos.val as int, top_rank(largest)),
    { unimplemented!() }
}
/// the uniform units of a well-formed span denote less than 2^83 ns
#[verifier::spinoff_prover]
pub proof fn lemma_inv_bound(a: SV)
    requires sv_ok(a),
    ensures -0x8_0000_0000_0000_0000_0000 <= inv_ns(a) <= 0x8_0000_0000_0000_0000_0000, -0x8_0000_0000_0000_0000_0000 <= time_ns(a) <= 0x8_0000_0000_0000_0000_0000,
            sv_nonneg(a) ==> inv_ns(a) >= 0 && time_ns(a) >= 0, sv_nonpos(a) ==> inv_ns(a) <= 0 && time_ns(a) <= 0,
            sv_cal_zero(a) ==> inv_ns(a) == time_ns(a),
            a.ms == 0 && a.us == 0 && a.ns == 0 ==> inv_ns(a) == inv_secs(a) * 1_000_000_000,
            -0x1000_0000_0000 <= inv_secs(a) <= 0x1000_0000_0000,
{
}

// ---- SignedDuration: the real struct; the integer core is unit `sdur` (C12), whose contracts are assumed for the three callees used here ----
impl SignedDuration {
    /// the denoted number of nanoseconds (mathematical integer)
    pub open spec fn tot(self) -> int { self.secs as int * 1_000_000_000 + self.nanos as int }
    /// representation invariant: |nanos| < 1s and seconds / nanoseconds never of opposite sign
    pub open spec fn wf(self) -> bool {
        -999_999_999 <= self.nanos <= 999_999_999
        && !(self.secs > 0 && self.nanos < 0) && !(self.secs < 0 && self.nanos > 0)
    }
    /// sdur.vrs: SignedDuration::checked_add
    #[verifier::external_body]
    pub fn checked_add(self, rhs: SignedDuration) -> (r: Option<SignedDuration>)
        requires self.wf(), rhs.wf(),
        ensures r is Some ==> r->0.wf() && r->0.tot() == self.tot() + rhs.tot(),
                r is None <==> !representable(self.tot() + rhs.tot()),
    { unimplemented!() }
    /// sdur.vrs: SignedDuration::from_nanos
    #[verifier::external_body]
    pub fn from_nanos(nanos: i64) -> (r: SignedDuration) ensures r.wf(), r.tot() == nanos { unimplemented!() }
}
/// the nanosecond counts some SignedDuration can denote
pub open spec fn representable(t: int) -> bool {
    i64::MIN as int * 1_000_000_000 - 999_999_999 <= t <= i64::MAX as int * 1_000_000_000 + 999_999_999
}
/// the unique well-formed duration denoting t (for representable t)
pub open spec fn of_tot(t: int) -> SignedDuration {
    SignedDuration { secs: tdiv(t, 1_000_000_000) as i64, nanos: trem(t, 1_000_000_000) as i32 }
}
pub proof fn lemma_of_tot(t: int)
    requires representable(t),
    ensures of_tot(t).wf(), of_tot(t).tot() == t,
{
    lemma_tdiv(t, 1_000_000_000);
}
// sdur.vrs: `a - b` is exact and panic-free whenever the exact result is representable (Sub::sub = checked_sub().expect())
impl vstd::std_specs::ops::SubSpecImpl for SignedDuration {
    open spec fn obeys_sub_spec() -> bool { true }
    open spec fn sub_req(self, rhs: SignedDuration) -> bool { self.wf() && rhs.wf() && representable(self.tot() - rhs.tot()) }
    open spec fn sub_spec(self, rhs: SignedDuration) -> SignedDuration { of_tot(self.tot() - rhs.tot()) }
}
impl core::ops::Sub for SignedDuration {
    type Output = SignedDuration;
    #[verifier::external_body]
    fn sub(self, rhs: SignedDuration) -> SignedDuration { unimplemented!() }
}

// ---- Timestamp: the real struct { second: UnixSeconds, nanosecond: FractionalNanosecond } ----
/// Timestamp::MIN ..= Timestamp::MAX in nanoseconds: -377705023201 s ..= 253402207200.999999999 s
pub open spec fn ts_in_range(n: int) -> bool { -377705023201 * 1_000_000_000 <= n <= 253402207200 * 1_000_000_000 + 999_999_999 }
impl Timestamp {
    /// the instant in nanoseconds since the Unix epoch
    pub open spec fn ns(&self) -> int { self.second.val as int * 1_000_000_000 + self.nanosecond.val as int }
    /// type invariant: |nanosecond| < 10^9, seconds and nanoseconds never of opposite sign, within Timestamp::MIN..=Timestamp::MAX
    pub open spec fn wf(&self) -> bool {
        &&& in_UnixSeconds(self.second.val as int) && -999_999_999 <= self.nanosecond.val <= 999_999_999
        &&& !(self.second.val > 0 && self.nanosecond.val < 0) && !(self.second.val < 0 && self.nanosecond.val > 0)
        &&& !(self.second.val == -377705023201 && self.nanosecond.val < 0)
    }
}
/// a well-formed timestamp is inside Timestamp::MIN..=Timestamp::MAX, and (second, nanosecond) is the truncated split of its nanosecond count
pub proof fn lemma_ts_wf(t: Timestamp)
    requires t.wf(),
    ensures ts_in_range(t.ns()), in_UnixNanoseconds(t.ns()),
{
}

/// derived `Ord::max` on Unit (`a.max(b)`): the one of larger rank (same trusted view as in civildiff.vrs)
#[verifier::external_body]
pub fn verif_unit_max(a: Unit, b: Unit) -> (r: Unit) ensures r == (if unit_rank(b) >= unit_rank(a) { b } else { a }) { unimplemented!() }

// ---- the rounding configuration: opaque (as in civildiff.vrs).  Only `largest` (explicit or defaulted) matters on the rounding-free path.
#[verifier::external_body]
#[derive(Clone, Copy)]
pub struct SpanRound { _p: () }
impl SpanRound {
    pub uninterp spec fn largest(&self) -> Option<Unit>;
    pub uninterp spec fn smallest(&self) -> Unit;
    #[verifier::external_body]
    pub fn get_largest(&self) -> (r: Option<Unit>) ensures r == self.largest() { unimplemented!() }
    #[verifier::external_body]
    pub fn get_smallest(&self) -> (r: Unit) ensures r == self.smallest() { unimplemented!() }
    /// `smallest > Nanosecond || increment > 1`: rounding could change a span (then until/since go through Span::round: C10/C11, not here)
    pub uninterp spec fn may_round(&self) -> bool;
    #[verifier::external_body]
    pub fn rounding_may_change_span_ignore_largest(&self) -> (r: bool) ensures r == self.may_round() { unimplemented!() }
}
impl Span {
    /// Span::round (C10/C11): only used on the rounding path (no contract)
    #[verifier::external_body]
    pub fn round(self, options: SpanRound) -> (r: Result<Span, Error>) { unimplemented!() }
}
/// `largest` as TimestampDifference::until_with_largest_unit computes it: the configured one, else max(smallest, Second)
pub open spec fn ts_default_largest(r: SpanRound) -> Unit { if unit_rank(r.smallest()) <= 3 { Unit::Second } else { r.smallest() } }
pub open spec fn ts_largest(r: SpanRound) -> Unit { match r.largest() { Some(u) => u, None => ts_default_largest(r) } }
/// `largest` as TimeDifference::until_with_largest_unit computes it: the configured one, else Hour
pub open spec fn time_largest(r: SpanRound) -> Unit { match r.largest() { Some(u) => u, None => Unit::Hour } }

// ---- C07 for elapsed-time differences: the result s of a.until(largest, b), d = b - a in nanoseconds, top = rank of largest (<= Hour) ----
/// REVERSIBLE: s has no calendar unit and its time units denote exactly d (so a + s == b by the contract of checked_add_span);
/// NO UNIT ABOVE THE LARGEST; BALANCED: every unit below the largest is below its carry limit; SIGN: every non-zero unit has the sign of d
pub open spec fn c07_elapsed(a: SV, d: int, top: int) -> bool {
    &&& sv_cal_zero(a) && time_ns(a) == d && inv_ns(a) == d
    &&& sv_top(a) <= top
    &&& carried(a, top)
    &&& (d >= 0 ==> sv_nonneg(a)) && (d <= 0 ==> sv_nonpos(a))
}
/// when a.until(largest, b) is an error for timestamps: the largest unit is Day or above -- or (DEVIATION from the ideal contract, see below) it is
/// Nanosecond and the distance does not fit the nanoseconds limit of a span (|d| > i64::MAX)
pub open spec fn ts_diff_err(d: int, largest: Unit) -> bool { unit_rank(largest) >= 6 || (largest == Unit::Nanosecond && !in_SpanNanoseconds(d)) }
/// the distance of two timestamps, counted in any unit from microseconds to hours, is within that unit's span limit
#[verifier::spinoff_prover]
pub proof fn lemma_quot_limits(d: int, j: int)
    requires 0 <= j <= 5, -631107230401_999_999_999 <= d <= 631107230401_999_999_999,
    ensures j >= 1 ==> in_limit(j, quot(d, j)), quot(d, 0) == d,
{
    lemma_tdiv(d, rank_ns(j));
    lemma_tdiv(d, 1);
}
/// the distance of two times of day, counted in any unit from nanoseconds to hours, is within that unit's span limit
#[verifier::spinoff_prover]
pub proof fn lemma_quot_limits_day(d: int, j: int)
    requires 0 <= j <= 5, -86_400_000_000_000 < d < 86_400_000_000_000,
    ensures in_limit(j, quot(d, j)),
{
    lemma_tdiv(d, rank_ns(j));
}
/// one step of the chain of truncating divisions: tdiv(tdiv(n, a), b) == tdiv(n, a * b)   (spanround.vrs)
pub proof fn lemma_tdiv_step(n: int, a: int, b: int)
    requires a > 0, b > 0,
    ensures tdiv(tdiv(n, a), b) == tdiv(n, a * b), a * b > 0,
{
    assert(a * b > 0) by (nonlinear_arith) requires a > 0, b > 0;
    if n >= 0 {
        vstd::arithmetic::div_mod::lemma_div_denominator(n, a, b);
        vstd::arithmetic::div_mod::lemma_div_pos_is_pos(n, a);
    } else {
        vstd::arithmetic::div_mod::lemma_div_denominator(-n, a, b);
        vstd::arithmetic::div_mod::lemma_div_pos_is_pos(-n, a);
    }
}
#[verifier::spinoff_prover]
pub proof fn lemma_quot_chain(n: int)
    ensures quot(n, 0) == n, quot(n, 1) == tdiv(n, 1_000), quot(n, 2) == tdiv(quot(n, 1), 1_000), quot(n, 3) == tdiv(quot(n, 2), 1_000), quot(n, 4) == tdiv(quot(n, 3), 60),
            quot(n, 5) == tdiv(quot(n, 4), 60), quot(n, 6) == tdiv(quot(n, 5), 24), quot(n, 7) == tdiv(quot(n, 6), 7),
{
    lemma_tdiv_step(n, 1_000, 1_000); lemma_tdiv_step(n, 1_000_000, 1_000); lemma_tdiv_step(n, 1_000_000_000, 60); lemma_tdiv_step(n, 60_000_000_000, 60);
    lemma_tdiv_step(n, 3_600_000_000_000, 24); lemma_tdiv_step(n, 86_400_000_000_000, 7);
}
/// C07 for the specified result: the balanced form of d up to a unit of Hour or below is reversible, has nothing above the largest unit, is balanced and of one sign
#[verifier::spinoff_prover]
pub proof fn lemma_c07(d: int, top: int)
    requires 0 <= top <= 5,
    ensures c07_elapsed(bal(d, top), d, top), balanced_as(bal(d, top), d, top),
{
    lemma_quot_chain(d);
    lemma_tdiv(d, 1_000); lemma_tdiv(quot(d, 1), 1_000); lemma_tdiv(quot(d, 2), 1_000); lemma_tdiv(quot(d, 3), 60); lemma_tdiv(quot(d, 4), 60); lemma_tdiv(quot(d, 5), 24); lemma_tdiv(quot(d, 6), 7);
}
/// the balanced form of zero is the zero span
pub proof fn lemma_bal_zero(top: int)
    requires top >= 0,
    ensures bal(0, top) == sv_zero(), c07_elapsed(sv_zero(), 0, top),
{
}
/// negation keeps C07
pub proof fn lemma_c07_neg(a: SV, d: int, top: int)
    requires c07_elapsed(a, d, top),
    ensures c07_elapsed(sv_neg(a), -d, top),
{
}

// ---- civil::Time: opaque, view = nanoseconds since midnight (as in rounders.vrs / civiladd.vrs; accessor facts: Kani group c10_views / itime.vrs) ----
#[verifier::external_body]
#[derive(Clone, Copy)]
pub struct Time { _p: () }
impl Time {
    pub uninterp spec fn nod(&self) -> int;
    pub open spec fn wf(&self) -> bool { 0 <= self.nod() < 86_400_000_000_000 }
    #[verifier::external_body]
    pub fn to_nanosecond(&self) -> (r: CivilDayNanosecond) requires self.wf() ensures r.val == self.nod() { unimplemented!() }
}
// derived `PartialEq` on Time { hour, minute, second, subsec_nanosecond }: fieldwise, i.e. (for well-formed times) equality of the nanosecond of the day
impl vstd::std_specs::cmp::PartialEqSpecImpl for Time {
    open spec fn obeys_eq_spec() -> bool { true }
    open spec fn eq_spec(&self, other: &Time) -> bool { self.nod() == other.nod() }
}
impl PartialEq for Time {
    #[verifier::external_body]
    fn eq(&self, other: &Time) -> bool { unimplemented!() }
}

// ---- std::time::Duration (`UnsignedDuration` in jiff): opaque; view = (whole seconds, sub-second nanoseconds) -- trusted view of std
use core::time::Duration as UnsignedDuration;
pub uninterp spec fn udur_secs(d: UnsignedDuration) -> int;
pub uninterp spec fn udur_nanos(d: UnsignedDuration) -> int;
pub open spec fn udur_ns(d: UnsignedDuration) -> int { udur_secs(d) * 1_000_000_000 + udur_nanos(d) }
pub open spec fn udur_wf(d: UnsignedDuration) -> bool { 0 <= udur_secs(d) <= u64::MAX && 0 <= udur_nanos(d) <= 999_999_999 }
pub assume_specification[ UnsignedDuration::as_secs ](d: &UnsignedDuration) -> (r: u64) ensures r == udur_secs(*d);
pub assume_specification[ UnsignedDuration::subsec_nanos ](d: &UnsignedDuration) -> (r: u32) ensures r == udur_nanos(*d), r <= 999_999_999;
pub assume_specification[ UnsignedDuration::new ](secs: u64, nanos: u32) -> (r: UnsignedDuration)
    requires secs as int + nanos as int / 1_000_000_000 <= u64::MAX,    // std: panics iff the carry overflows the seconds
    ensures udur_secs(r) == secs as int + nanos as int / 1_000_000_000, udur_nanos(r) == nanos as int % 1_000_000_000, udur_wf(r);
pub assume_specification<T, E, F: FnOnce(E) -> T>[ Result::<T, E>::unwrap_or_else ](r: Result<T, E>, f: F) -> (res: T)
    requires r is Err ==> f.requires((r->Err_0,)),
    ensures r is Ok ==> res == r->Ok_0, r is Err ==> f.ensures((r->Err_0,), res);
pub assume_specification<T, E, U, F: FnOnce(T) -> Result<U, E>>[ Result::<T, E>::and_then ](r: Result<T, E>, f: F) -> (res: Result<U, E>)
    requires r is Ok ==> f.requires((r->Ok_0,)),
    ensures r is Err ==> res is Err, r is Ok ==> f.ensures((r->Ok_0,), res);
#[verifier::external_body]
pub fn verif_i32_try_from_u32(x: u32) -> (r: i32) requires x <= i32::MAX ensures r == x { unimplemented!() }
/// `impl TryFrom<std::time::Duration> for SignedDuration`: Ok iff the whole seconds fit an i64; then (secs, nanos) are taken over as they are
#[verifier::external_body]
pub fn verif_sdur_try_from_udur(d: UnsignedDuration) -> (r: Result<SignedDuration, Error>)
    ensures udur_wf(d), r.is_ok() <==> udur_secs(d) <= i64::MAX, r.is_ok() ==> r.unwrap().secs == udur_secs(d) && r.unwrap().nanos == udur_nanos(d),
{ unimplemented!() }
impl SignedDuration {
    /// sdur.vrs: SignedDuration::checked_neg
    #[verifier::external_body]
    pub fn checked_neg(self) -> (r: Option<SignedDuration>)
        requires self.wf(),
        ensures r is Some ==> r->0.wf() && r->0.tot() == -self.tot(), r is None <==> self.secs == i64::MIN,
    { unimplemented!() }
}
// sdur.vrs: `-a` is exact and panic-free whenever the exact result is representable (Neg::neg = checked_neg().expect())
impl vstd::std_specs::ops::NegSpecImpl for SignedDuration {
    open spec fn obeys_neg_spec() -> bool { true }
    open spec fn neg_req(self) -> bool { self.wf() && representable(-self.tot()) }
    open spec fn neg_spec(self) -> SignedDuration { of_tot(-self.tot()) }
}
impl core::ops::Neg for SignedDuration {
    type Output = SignedDuration;
    #[verifier::external_body]
    fn neg(self) -> SignedDuration { unimplemented!() }
}
impl Span {
    /// `self.get_sign_ranged() < 0` (span.vrs: the sign is -1 iff some unit is negative)
    #[verifier::external_body]
    pub fn is_negative(self) -> (r: bool) requires span_wf(self) ensures r == !sv_nonneg(span_view(self)) { unimplemented!() }
}
/// negating a well-formed span: still well-formed (the limits are symmetric), the same calendar-zero status, the opposite duration
pub proof fn lemma_sv_neg(a: SV)
    requires sv_ok(a),
    ensures sv_ok(sv_neg(a)), sv_cal_zero(sv_neg(a)) == sv_cal_zero(a), time_ns(sv_neg(a)) == -time_ns(a), inv_ns(sv_neg(a)) == -inv_ns(a),
{
}

// ---- C06: what `timestamp + duration` and `timestamp - duration` mean, for the three kinds of duration (duration::Duration) ----
pub open spec fn dur_wf(d: Duration) -> bool {
    match d { Duration::Span(s) => span_wf(s), Duration::Signed(x) => x.wf(), Duration::Unsigned(u) => udur_wf(u) }
}
pub open spec fn sdur_wf(d: SDuration) -> bool { match d { SDuration::Span(s) => span_wf(s), SDuration::Absolute(x) => x.wf() } }
/// the signed number of nanoseconds a duration moves an instant by (a span: its time units)
pub open spec fn dur_ns(d: Duration) -> int {
    match d { Duration::Span(s) => span_time_ns(s), Duration::Signed(x) => x.tot(), Duration::Unsigned(u) => udur_ns(u) }
}
pub open spec fn sdur_ns(d: SDuration) -> int { match d { SDuration::Span(s) => span_time_ns(s), SDuration::Absolute(x) => x.tot() } }
/// a span with a non-zero calendar unit cannot be added to a timestamp
pub open spec fn dur_addable(d: Duration) -> bool { match d { Duration::Span(s) => span_cal_zero(s), _ => true } }
pub open spec fn sdur_addable(d: SDuration) -> bool { match d { SDuration::Span(s) => span_cal_zero(s), _ => true } }
pub open spec fn ts_MIN_ns() -> int { -377705023201 * 1_000_000_000 }
pub open spec fn ts_MAX_ns() -> int { 253402207200int * 1_000_000_000 + 999_999_999 }
/// saturation of an instant to Timestamp::MIN..=Timestamp::MAX
pub open spec fn ts_clamp(n: int) -> int { if n < ts_MIN_ns() { ts_MIN_ns() } else if n > ts_MAX_ns() { ts_MAX_ns() } else { n } }

// ==== extracted from /repo ====
#[derive(Clone, Copy, Debug, Eq, PartialEq, Structural)]
pub enum Unit {
    
    
    Year = 9,
    
    
    Month = 8,
    
    Week = 7,
    
    
    Day = 6,
    
    Hour = 5,
    
    
    Minute = 4,
    
    Second = 3,
    
    Millisecond = 2,
    
    Microsecond = 1,
    
    Nanosecond = 0,
}

impl Span {
// @fn Span::to_invariant_nanoseconds @src src/span.rs:2900
#[verifier::spinoff_prover]

    pub fn to_invariant_nanoseconds(&self) -> (r: NoUnits128)
    requires
        span_wf(*self),
    ensures
        r.val == inv_ns(span_view(*self)),
{
        let mut nanos = NoUnits128::rfrom(self.get_nanoseconds_ranged());
        nanos += NoUnits128::rfrom(self.get_microseconds_ranged())
            * NANOS_PER_MICRO;
        nanos += NoUnits128::rfrom(self.get_milliseconds_ranged())
            * NANOS_PER_MILLI;
        nanos +=
            NoUnits128::rfrom(self.get_seconds_ranged()) * NANOS_PER_SECOND;
        nanos +=
            NoUnits128::rfrom(self.get_minutes_ranged()) * NANOS_PER_MINUTE;
        nanos +=
            NoUnits128::rfrom(self.get_hours_ranged()) * NANOS_PER_HOUR;
        nanos +=
            NoUnits128::rfrom(self.get_days_ranged()) * NANOS_PER_CIVIL_DAY;
        nanos += NoUnits128::rfrom(self.get_weeks_ranged())
            * NANOS_PER_CIVIL_WEEK;
        nanos
    }
}

impl Span {
// @fn Span::to_invariant_seconds @src src/span.rs:2933
#[verifier::spinoff_prover]

    pub fn to_invariant_seconds(&self) -> (r: Option<NoUnits>)
    requires
        span_wf(*self),
    ensures
        r.is_some() <==> span_view(*self).ms == 0 && span_view(*self).us == 0 && span_view(*self).ns == 0,
    r.is_some() ==> r.unwrap().val == inv_secs(span_view(*self)) && r.unwrap().val * 1_000_000_000 == inv_ns(span_view(*self)),
{
        if self.has_fractional_seconds() {
            return None;
        }
        let mut seconds = NoUnits::rfrom(self.get_seconds_ranged());
        seconds +=
            NoUnits::rfrom(self.get_minutes_ranged()) * SECONDS_PER_MINUTE;
        seconds +=
            NoUnits::rfrom(self.get_hours_ranged()) * SECONDS_PER_HOUR;
        seconds +=
            NoUnits::rfrom(self.get_days_ranged()) * SECONDS_PER_CIVIL_DAY;
        seconds += NoUnits::rfrom(self.get_weeks_ranged())
            * SECONDS_PER_CIVIL_WEEK;
        Some(seconds)
    }
}

#[derive(Clone, Copy, PartialEq, Eq, Structural)]
pub struct SignedDuration {
    pub secs: i64,
    pub nanos: i32,
}

impl SignedDuration {
    pub open spec fn cmp_spec(self, o: SignedDuration) -> int {
        if self.secs < o.secs { -1int } else if self.secs > o.secs { 1int } else { if self.nanos < o.nanos { -1int } else if self.nanos > o.nanos { 1int } else { 0int } }
    }
    pub fn cmp_exec(&self, o: &SignedDuration) -> (r: i8) ensures r as int == self.cmp_spec(*o), -1 <= r <= 1 {
        if self.secs < o.secs { -1 } else if self.secs > o.secs { 1 } else { if self.nanos < o.nanos { -1 } else if self.nanos > o.nanos { 1 } else { 0 } }
    }
}
impl vstd::std_specs::cmp::PartialOrdSpecImpl for SignedDuration {
    open spec fn obeys_partial_cmp_spec() -> bool { true }
    open spec fn partial_cmp_spec(&self, other: &SignedDuration) -> Option<core::cmp::Ordering> {
        Some(if self.cmp_spec(*other) < 0 { core::cmp::Ordering::Less } else if self.cmp_spec(*other) > 0 { core::cmp::Ordering::Greater } else { core::cmp::Ordering::Equal })
    }
}
impl core::cmp::PartialOrd for SignedDuration {
    fn partial_cmp(&self, other: &SignedDuration) -> (r: Option<core::cmp::Ordering>) {
        let c = self.cmp_exec(other);
        if c < 0 { Some(core::cmp::Ordering::Less) } else if c > 0 { Some(core::cmp::Ordering::Greater) } else { Some(core::cmp::Ordering::Equal) }
    }
}

impl SignedDuration {
// @fn SignedDuration::new_unchecked @src src/signed_duration.rs:474
#[verifier::spinoff_prover]

    pub const fn new_unchecked(secs: i64, nanos: i32) -> (r: SignedDuration)
    requires
        -999_999_999 <= nanos <= 999_999_999,
    ensures
        r.secs == secs, r.nanos == nanos,
{
        { let verif_da: bool = nanos <= 999_999_999; assert(verif_da); };
        { let verif_da: bool = nanos >= -999_999_999; assert(verif_da); };
        SignedDuration { secs, nanos }
    }
}

impl SignedDuration {
// @fn SignedDuration::as_secs @src src/signed_duration.rs:724
#[verifier::spinoff_prover]

    pub const fn as_secs(&self) -> (r: i64)
    ensures
        r == self.secs,
{
        self.secs
    }
}

impl SignedDuration {
// @fn SignedDuration::subsec_nanos @src src/signed_duration.rs:801
#[verifier::spinoff_prover]

    pub const fn subsec_nanos(&self) -> (r: i32)
    ensures
        r == self.nanos,
{
        self.nanos
    }
}

impl SignedDuration {
// @fn SignedDuration::from_timestamp @src src/signed_duration.rs:681
#[verifier::spinoff_prover]
pub fn from_timestamp(timestamp: Timestamp) -> (r: SignedDuration)
    requires
        timestamp.wf(),
    ensures
        r.wf(), r.tot() == timestamp.ns(), r.secs == timestamp.second.val, r.nanos == timestamp.nanosecond.val,
{
        SignedDuration::new_unchecked(
            timestamp.as_second(),
            timestamp.subsec_nanosecond(),
        )
    }
}

impl SignedDuration {
// @fn SignedDuration::timestamp_until @src src/signed_duration.rs:1837
#[verifier::spinoff_prover]
pub fn timestamp_until(
        timestamp1: Timestamp,
        timestamp2: Timestamp,
    ) -> (r: SignedDuration)
    requires
        timestamp1.wf(), timestamp2.wf(),
    ensures
        r.wf(), r.tot() == timestamp2.ns() - timestamp1.ns(),
{
        proof { lemma_of_tot(timestamp2.ns() - timestamp1.ns()); }

        
        
        timestamp2.as_duration() - timestamp1.as_duration()
    }
}

impl SignedDuration {
// @fn SignedDuration::time_until @src src/signed_duration.rs:1867
#[verifier::spinoff_prover]
pub fn time_until(time1: Time, time2: Time) -> (r: SignedDuration)
    requires
        time1.wf(), time2.wf(),
    ensures
        r.wf(), r.tot() == time2.nod() - time1.nod(),
{
        let nanos = time1.until_nanoseconds(time2);
        SignedDuration::from_nanos(nanos.get())
    }
}

impl SignedDuration {
// @fn SignedDuration::new_without_nano_overflow @src src/signed_duration.rs:453
#[verifier::spinoff_prover]

    pub const fn new_without_nano_overflow(
        secs: i64,
        nanos: i32,
    ) -> (r: SignedDuration)
    requires
        -999_999_999 <= nanos <= 999_999_999,
    ensures
        r.secs == secs, r.nanos == nanos,
{
        assert!(nanos <= 999_999_999);
        assert!(nanos >= -999_999_999);
        SignedDuration::new_unchecked(secs, nanos)
    }
}

impl SignedDuration {
// @fn SignedDuration::is_negative @src src/signed_duration.rs:1823
#[verifier::spinoff_prover]

    pub const fn is_negative(&self) -> (r: bool)
    requires
        self.wf(),
    ensures
        r == (self.tot() < 0),
{
        self.secs.is_negative() || self.nanos.is_negative()
    }
}

#[derive(Clone, Copy)] pub enum Duration {
    Span(Span),
    Signed(SignedDuration),
    Unsigned(UnsignedDuration),
}

#[derive(Clone, Copy)] pub enum SDuration {
    Span(Span),
    Absolute(SignedDuration),
}

impl Duration {
// @fn Duration::to_signed @src src/duration.rs:22
#[verifier::spinoff_prover]

    pub fn to_signed(self) -> (r: Result<SDuration, Error>)
    requires
        dur_wf(self),
    ensures
        // only an unsigned duration of more than i64::MAX whole seconds has no signed form (it is further than any two timestamps are apart)
    r.is_err() <==> self is Unsigned && udur_secs(self->Unsigned_0) > i64::MAX,
    r.is_ok() ==> sdur_wf(r.unwrap()) && sdur_ns(r.unwrap()) == dur_ns(self) && sdur_addable(r.unwrap()) == dur_addable(self)
        && (r.unwrap() is Span <==> self is Span) && (self is Span ==> r.unwrap()->Span_0 == self->Span_0),
{
        match self {
            Duration::Span(span) => Ok(SDuration::Span(span)),
            Duration::Signed(sdur) => Ok(SDuration::Absolute(sdur)),
            Duration::Unsigned(udur) => {
                let sdur =
                    verif_sdur_try_from_udur(udur).verif_with_context()?;
                Ok(SDuration::Absolute(sdur))
            }
        }
    }
}

impl Duration {
// @fn Duration::checked_neg @src src/duration.rs:59
#[verifier::spinoff_prover]

    pub fn checked_neg(self) -> (r: Result<Duration, Error>)
    requires
        dur_wf(self),
    ensures
        r.is_err() <==> self is Unsigned && udur_secs(self->Unsigned_0) > 0x8000_0000_0000_0000,
    r.is_ok() ==> dur_wf(r.unwrap()) && dur_ns(r.unwrap()) == -dur_ns(self) && dur_addable(r.unwrap()) == dur_addable(self)
        && (r.unwrap() is Span <==> self is Span) && (self is Span ==> span_view(r.unwrap()->Span_0) == sv_neg(span_view(self->Span_0))),
{
        proof { if let Duration::Span(s) = self { lemma_sv_neg(span_view(s)); } }

        match self {
            Duration::Span(span) => Ok(Duration::Span(span.negate())),
            Duration::Signed(sdur) => {
                
                
                
                if let Some(sdur) = sdur.checked_neg() {
                    Ok(Duration::Signed(sdur))
                } else {
                    let udur = UnsignedDuration::new(
                        i64::MIN.unsigned_abs(),
                        sdur.subsec_nanos().unsigned_abs(),
                    );
                    Ok(Duration::Unsigned(udur))
                }
            }
            Duration::Unsigned(udur) => {
                
                
                
                let sdur = if udur.as_secs() == i64::MIN.unsigned_abs() {
                    SignedDuration::new_without_nano_overflow(
                        i64::MIN,
                        
                        -verif_i32_try_from_u32(udur.subsec_nanos()),
                    )
                } else {
                    
                    
                    
                    
                    
                    
                    
                    -verif_sdur_try_from_udur(udur).verif_with_context()?
                };
                Ok(Duration::Signed(sdur))
            }
        }
    }
}

impl Duration {
// @fn Duration::is_negative @src src/duration.rs:105
#[verifier::spinoff_prover]

    pub fn is_negative(&self) -> (r: bool)
    requires
        dur_wf(*self),
    ensures
        dur_addable(*self) ==> r == (dur_ns(*self) < 0),
{
        proof { if let Duration::Span(s) = *self { lemma_inv_bound(span_view(s)); } }

        match *self {
            Duration::Span(ref span) => span.is_negative(),
            Duration::Signed(ref sdur) => sdur.is_negative(),
            Duration::Unsigned(_) => false,
        }
    }
}

#[derive(Clone, Copy)]
pub struct Timestamp {
    pub second: UnixSeconds,
    pub nanosecond: FractionalNanosecond,
}

impl Timestamp { pub exec const MIN: Timestamp ensures Self::MIN.wf(), Self::MIN.ns() == ts_MIN_ns() { Timestamp {
        second: verif_UnixSeconds_MIN_SELF(),
        nanosecond: FractionalNanosecond::verif_N(0),
    } } }

impl Timestamp { pub exec const MAX: Timestamp ensures Self::MAX.wf(), Self::MAX.ns() == ts_MAX_ns() { Timestamp {
        second: verif_UnixSeconds_MAX_SELF(),
        nanosecond: verif_FractionalNanosecond_MAX_SELF(),
    } } }

impl Timestamp {
// @fn Timestamp::new @src src/timestamp.rs:492
#[verifier::spinoff_prover]

    pub fn new(second: i64, nanosecond: i32) -> (r: Result<Timestamp, Error>)
    ensures
        r.is_ok() <==> in_UnixSeconds(second as int) && in_FractionalNanosecond(nanosecond as int) && ts_in_range(second * 1_000_000_000 + nanosecond),
    r.is_ok() ==> r.unwrap().wf() && r.unwrap().ns() == second * 1_000_000_000 + nanosecond,
{
        Timestamp::new_ranged(
            verif_try_new_UnixSeconds(second)?,
            verif_try_new_FractionalNanosecond(nanosecond as i64)?,
        )
    }
}

impl Timestamp {
// @fn Timestamp::new_ranged @src src/timestamp.rs:2256
#[verifier::spinoff_prover]

    pub fn new_ranged(
        second: UnixSeconds,
        nanosecond: FractionalNanosecond,
    ) -> (r: Result<Timestamp, Error>)
    requires
        in_UnixSeconds(second.val as int), in_FractionalNanosecond(nanosecond.val as int),
    ensures
        r.is_ok() <==> ts_in_range(second.val * 1_000_000_000 + nanosecond.val),
    r.is_ok() ==> r.unwrap().wf() && r.unwrap().ns() == second.val * 1_000_000_000 + nanosecond.val,
{
        if second == verif_UnixSeconds_MIN_SELF() && nanosecond < C(0) {
            return Err(verif_err());
        }
        
        
        
        
        
        if second.signum() == nanosecond.signum()
            || second == C(0)
            || nanosecond == C(0)
        {
            return Ok(Timestamp { second, nanosecond });
        }
        let second = second.verif_without_bounds64();
        let nanosecond = nanosecond.verif_without_bounds64();
        let (delta_second, delta_nanosecond) = { let (second, nanosecond) = (second, nanosecond); 
                if second < C(0) && nanosecond > C(0) {
                    (C(1), (-NANOS_PER_SECOND).rinto())
                } else if second > C(0) && nanosecond < C(0) {
                    (C(-1), NANOS_PER_SECOND.rinto())
                } else {
                    (C(0), C(0))
                } };
        Ok(Timestamp {
            second: (second + delta_second).rinto(),
            nanosecond: (nanosecond + delta_nanosecond).rinto(),
        })
    }
}

impl Timestamp {
// @fn Timestamp::from_duration @src src/timestamp.rs:939
#[verifier::spinoff_prover]

    pub fn from_duration(
        duration: SignedDuration,
    ) -> (r: Result<Timestamp, Error>)
    requires
        duration.wf(),
    ensures
        r.is_ok() <==> ts_in_range(duration.tot()),
    r.is_ok() ==> r.unwrap().wf() && r.unwrap().ns() == duration.tot(),
{
        
        
        
        
        
        let second = verif_try_new_UnixSeconds(duration.as_secs())?;
        let nanosecond = verif_try_new_FractionalNanosecond(duration.subsec_nanos() as i64)?;
        
        
        
        if second == verif_UnixSeconds_MIN_SELF() && nanosecond < C(0) {
            return Err(verif_err());
        }
        Ok(Timestamp { second, nanosecond })
    }
}

impl Timestamp {
// @fn Timestamp::as_second @src src/timestamp.rs:989
#[verifier::spinoff_prover]

    pub fn as_second(self) -> (r: i64)
    ensures
        r == self.second.val,
{
        self.as_second_ranged().get()
    }
}

impl Timestamp {
// @fn Timestamp::subsec_nanosecond @src src/timestamp.rs:1169
#[verifier::spinoff_prover]

    pub fn subsec_nanosecond(self) -> (r: i32)
    ensures
        r == self.nanosecond.val,
{
        self.subsec_nanosecond_ranged().get()
    }
}

impl Timestamp {
// @fn Timestamp::as_duration @src src/timestamp.rs:1196
#[verifier::spinoff_prover]

    pub fn as_duration(self) -> (r: SignedDuration)
    requires
        self.wf(),
    ensures
        r.wf(), r.tot() == self.ns(),
{
        SignedDuration::from_timestamp(self)
    }
}

impl Timestamp {
// @fn Timestamp::from_second_ranged @src src/timestamp.rs:2300
#[verifier::spinoff_prover]

    pub fn from_second_ranged(second: UnixSeconds) -> (r: Timestamp)
    requires
        in_UnixSeconds(second.val as int),
    ensures
        r.wf(), r.ns() == second.val * 1_000_000_000, r.second == second, r.nanosecond.val == 0,
{
        Timestamp { second, nanosecond: FractionalNanosecond::verif_N(0) }
    }
}

impl Timestamp {
// @fn Timestamp::from_nanosecond_ranged @src src/timestamp.rs:2325
#[verifier::spinoff_prover]

    pub fn from_nanosecond_ranged(
        nanosecond: UnixNanoseconds,
    ) -> (r: Timestamp)
    requires
        in_UnixNanoseconds(nanosecond.val as int),
    ensures
        r.wf(), r.ns() == nanosecond.val,
{
        proof { lemma_tdiv(nanosecond.val as int, 1_000_000_000); }

        let second =
            UnixSeconds::rfrom(nanosecond.div_ceil(NANOS_PER_SECOND));
        let nanosecond = nanosecond.rem_ceil(NANOS_PER_SECOND).rinto();
        Timestamp { second, nanosecond }
    }
}

impl Timestamp {
// @fn Timestamp::as_second_ranged @src src/timestamp.rs:2374
#[verifier::spinoff_prover]

    pub fn as_second_ranged(self) -> (r: UnixSeconds)
    ensures
        r == self.second,
{
        self.second
    }
}

impl Timestamp {
// @fn Timestamp::as_nanosecond_ranged @src src/timestamp.rs:2425
#[verifier::spinoff_prover]

    pub fn as_nanosecond_ranged(self) -> (r: UnixNanoseconds)
    requires
        self.wf(),
    ensures
        r.val == self.ns(), in_UnixNanoseconds(r.val as int),
{
        let second = NoUnits128::rfrom(self.as_second_ranged());
        let nanosecond = NoUnits128::rfrom(self.subsec_nanosecond_ranged());
        
        
        
        
        
        let (second, nanosecond) = { let (second, nanosecond) = (second, nanosecond); 
                if second == verif_UnixSeconds_MIN_SELF() && nanosecond < C(0) {
                    (second, C(0).rinto())
                } else {
                    (second, nanosecond)
                } };
        UnixNanoseconds::rfrom(second * NANOS_PER_SECOND + nanosecond)
    }
}

impl Timestamp {
// @fn Timestamp::subsec_nanosecond_ranged @src src/timestamp.rs:2461
#[verifier::spinoff_prover]

    pub fn subsec_nanosecond_ranged(self) -> (r: FractionalNanosecond)
    ensures
        r == self.nanosecond,
{
        self.nanosecond
    }
}

impl Timestamp {
// @fn Timestamp::checked_add_duration @src src/timestamp.rs:1538
#[verifier::spinoff_prover]

    pub fn checked_add_duration(
        self,
        duration: SignedDuration,
    ) -> (r: Result<Timestamp, Error>)
    requires
        self.wf(), duration.wf(),
    ensures
        r.is_ok() <==> ts_in_range(self.ns() + duration.tot()),
    r.is_ok() ==> r.unwrap().wf() && r.unwrap().ns() == self.ns() + duration.tot(),
{
        let start = self.as_duration();
        let end = start.checked_add(duration).ok_or_else(|| -> (e: Error) { verif_err() })?;
        Timestamp::from_duration(end)
    }
}

impl Timestamp {
// @fn Timestamp::checked_add_span @src src/timestamp.rs:1506
#[verifier::spinoff_prover]

    pub fn checked_add_span(self, span: Span) -> (r: Result<Timestamp, Error>)
    requires
        self.wf(), span_wf(span),
    ensures
        !span_cal_zero(span) ==> r.is_err(),
    r.is_ok() <==> span_cal_zero(span) && ts_in_range(self.ns() + span_time_ns(span)),
    r.is_ok() ==> r.unwrap().wf() && r.unwrap().ns() == self.ns() + span_time_ns(span),
{
        proof { lemma_inv_bound(span_view(span)); }

        if let Some(err) = span.smallest_non_time_non_zero_unit_error() {
            return Err(err);
        }
        if span.is_zero() {
            return Ok(self);
        }
        
        
        
        
        
        if self.subsec_nanosecond_ranged() == C(0) {
            if let Some(span_seconds) = span.to_invariant_seconds() {
                let time_seconds = self.as_second_ranged();
                let sum = verif_try_checked_add_UnixSeconds(time_seconds, span_seconds)
                    .verif_with_context()?;
                return Ok(Timestamp::from_second_ranged(sum));
            }
        }
        let time_nanos = self.as_nanosecond_ranged();
        let span_nanos = span.to_invariant_nanoseconds();
        let sum = verif_try_checked_add_UnixNanoseconds(time_nanos, span_nanos)
            .verif_with_context()?;
        Ok(Timestamp::from_nanosecond_ranged(sum))
    }
}

#[derive(Clone, Copy)] pub struct TimestampArithmetic {
    pub duration: Duration,
}

impl TimestampArithmetic {
// @fn TimestampArithmetic::checked_add @src src/timestamp.rs:3059
#[verifier::spinoff_prover]

    pub fn checked_add(self, ts: Timestamp) -> (r: Result<Timestamp, Error>)
    requires
        dur_wf(self.duration), ts.wf(),
    ensures
        r.is_ok() <==> dur_addable(self.duration) && ts_in_range(ts.ns() + dur_ns(self.duration)),
    r.is_ok() ==> r.unwrap().wf() && r.unwrap().ns() == ts.ns() + dur_ns(self.duration),
{
        match self.duration.to_signed()? {
            SDuration::Span(span) => ts.checked_add_span(span),
            SDuration::Absolute(sdur) => ts.checked_add_duration(sdur),
        }
    }
}

impl TimestampArithmetic {
// @fn TimestampArithmetic::saturating_add @src src/timestamp.rs:3067
#[verifier::spinoff_prover]

    pub fn saturating_add(self, ts: Timestamp) -> (r: Result<Timestamp, Error>)
    requires
        dur_wf(self.duration), ts.wf(),
    ensures
        r.is_ok() <==> dur_addable(self.duration),
    r.is_ok() ==> r.unwrap().wf() && r.unwrap().ns() == ts_clamp(ts.ns() + dur_ns(self.duration)),
{
        let Ok(signed) = self.duration.to_signed() else {
            return Ok(Timestamp::MAX);
        };
        let result = match signed {
            SDuration::Span(span) => {
                if let Some(err) = span.smallest_non_time_non_zero_unit_error()
                {
                    return Err(err);
                }
                ts.checked_add_span(span)
            }
            SDuration::Absolute(sdur) => ts.checked_add_duration(sdur),
        };
        Ok(result.unwrap_or_else(|_e: Error| -> (t: Timestamp) ensures t.wf(), t.ns() == (if dur_ns(self.duration) < 0 { ts_MIN_ns() } else { ts_MAX_ns() }) {
            if self.is_negative() {
                Timestamp::MIN
            } else {
                Timestamp::MAX
            }
        }))
    }
}

impl TimestampArithmetic {
// @fn TimestampArithmetic::checked_neg @src src/timestamp.rs:3091
#[verifier::spinoff_prover]

    pub fn checked_neg(self) -> (r: Result<TimestampArithmetic, Error>)
    requires
        dur_wf(self.duration),
    ensures
        r.is_err() <==> self.duration is Unsigned && udur_secs(self.duration->Unsigned_0) > 0x8000_0000_0000_0000,
    r.is_ok() ==> dur_wf(r.unwrap().duration) && dur_ns(r.unwrap().duration) == -dur_ns(self.duration) && dur_addable(r.unwrap().duration) == dur_addable(self.duration),
{
        let duration = self.duration.checked_neg()?;
        Ok(TimestampArithmetic { duration })
    }
}

impl TimestampArithmetic {
// @fn TimestampArithmetic::is_negative @src src/timestamp.rs:3097
#[verifier::spinoff_prover]

    pub fn is_negative(&self) -> (r: bool)
    requires
        dur_wf(self.duration),
    ensures
        dur_addable(self.duration) ==> r == (dur_ns(self.duration) < 0),
{
        self.duration.is_negative()
    }
}

impl Timestamp {
// @fn Timestamp::checked_add @src src/timestamp.rs:1497
#[verifier::spinoff_prover]

    pub fn checked_add(
        self,
        duration: TimestampArithmetic,
    ) -> (r: Result<Timestamp, Error>)
    requires
        self.wf(), dur_wf(duration.duration),
    ensures
        r.is_ok() <==> dur_addable(duration.duration) && ts_in_range(self.ns() + dur_ns(duration.duration)),
    r.is_ok() ==> r.unwrap().wf() && r.unwrap().ns() == self.ns() + dur_ns(duration.duration),
{
        let duration: TimestampArithmetic = duration;
        duration.checked_add(self)
    }
}

impl Timestamp {
// @fn Timestamp::checked_sub @src src/timestamp.rs:1598
#[verifier::spinoff_prover]

    pub fn checked_sub(
        self,
        duration: TimestampArithmetic,
    ) -> (r: Result<Timestamp, Error>)
    requires
        self.wf(), dur_wf(duration.duration),
    ensures
        r.is_ok() <==> dur_addable(duration.duration) && ts_in_range(self.ns() - dur_ns(duration.duration)),
    r.is_ok() ==> r.unwrap().wf() && r.unwrap().ns() == self.ns() - dur_ns(duration.duration),
{
        let duration: TimestampArithmetic = duration;
        duration.checked_neg().and_then(|ta: TimestampArithmetic| -> (q: Result<Timestamp, Error>) requires dur_wf(ta.duration), self.wf() ensures q.is_ok() <==> dur_addable(ta.duration) && ts_in_range(self.ns() + dur_ns(ta.duration)), q.is_ok() ==> q.unwrap().wf() && q.unwrap().ns() == self.ns() + dur_ns(ta.duration) { ta.checked_add(self) })
    }
}

impl Timestamp {
// @fn Timestamp::saturating_add @src src/timestamp.rs:1646
#[verifier::spinoff_prover]

    pub fn saturating_add(
        self,
        duration: TimestampArithmetic,
    ) -> (r: Result<Timestamp, Error>)
    requires
        self.wf(), dur_wf(duration.duration),
    ensures
        r.is_ok() <==> dur_addable(duration.duration),
    r.is_ok() ==> r.unwrap().wf() && r.unwrap().ns() == ts_clamp(self.ns() + dur_ns(duration.duration)),
{
        let duration: TimestampArithmetic = duration;
        duration.saturating_add(self).verif_with_context()
    }
}

impl Timestamp {
// @fn Timestamp::saturating_sub @src src/timestamp.rs:1695
#[verifier::spinoff_prover]

    pub fn saturating_sub(
        self,
        duration: TimestampArithmetic,
    ) -> (r: Result<Timestamp, Error>)
    requires
        self.wf(), dur_wf(duration.duration),
    ensures
        r.is_ok() <==> dur_addable(duration.duration),
    r.is_ok() ==> r.unwrap().wf() && r.unwrap().ns() == ts_clamp(self.ns() - dur_ns(duration.duration)),
{
        let duration: TimestampArithmetic = duration;
        let Ok(duration) = duration.checked_neg() else {
            return Ok(Timestamp::MIN);
        };
        self.saturating_add(duration)
    }
}

impl Timestamp {
// @fn Timestamp::duration_until @src src/timestamp.rs:1960
#[verifier::spinoff_prover]

    pub fn duration_until(self, other: Timestamp) -> (r: SignedDuration)
    requires
        self.wf(), other.wf(),
    ensures
        r.wf(), r.tot() == other.ns() - self.ns(),
{
        SignedDuration::timestamp_until(self, other)
    }
}

impl Timestamp {
// @fn Timestamp::duration_since @src src/timestamp.rs:1982
#[verifier::spinoff_prover]

    pub fn duration_since(self, other: Timestamp) -> (r: SignedDuration)
    requires
        self.wf(), other.wf(),
    ensures
        r.wf(), r.tot() == self.ns() - other.ns(),
{
        SignedDuration::timestamp_until(other, self)
    }
}

#[derive(Clone, Copy)] pub struct TimestampDifference {
    pub timestamp: Timestamp,
    pub round: SpanRound,
}

impl TimestampDifference {
// @fn TimestampDifference::rounding_may_change_span @src src/timestamp.rs:3396
#[verifier::spinoff_prover]

    pub fn rounding_may_change_span(&self) -> (r: bool)
    ensures
        r == self.round.may_round(),
{
        self.round.rounding_may_change_span_ignore_largest()
    }
}

impl TimestampDifference {
// @fn TimestampDifference::until_with_largest_unit @src src/timestamp.rs:3404
#[verifier::spinoff_prover]

    pub fn until_with_largest_unit(&self, t1: Timestamp) -> (res: Result<Span, Error>)
    requires
        t1.wf(), self.timestamp.wf(),
    ensures
        // Err exactly for a largest unit of Day or above -- and (DEVIATION) for Nanosecond when the distance exceeds the nanoseconds limit of a span.
    // (The ideal clause `Err only for Day and above` is stated on the public entry points Timestamp::until / Timestamp::since, so that no caller assumes it.)
    res.is_err() <==> ts_diff_err(self.timestamp.ns() - t1.ns(), ts_largest(self.round)),
    // the result, exactly: the distance balanced up to the largest unit
    res.is_ok() ==> span_wf(res.unwrap()) && span_view(res.unwrap()) == bal(self.timestamp.ns() - t1.ns(), unit_rank(ts_largest(self.round))),
    // C07: reversible, nothing above the largest unit, balanced, one sign
    res.is_ok() ==> c07_elapsed(span_view(res.unwrap()), self.timestamp.ns() - t1.ns(), unit_rank(ts_largest(self.round))),
{
        hide(tdiv); hide(trem); hide(quot); hide(bal); hide(c07_elapsed); hide(balanced_as);

        let t2 = self.timestamp;
        let largest = self
            .round
            .get_largest()
            .unwrap_or_else(|| -> (u: Unit) ensures u == ts_default_largest(self.round) { verif_unit_max(self.round.get_smallest(), Unit::Second) });
        if largest >= Unit::Day {
            return Err(verif_err());
        }
        let nano1 = t1.as_nanosecond_ranged().without_bounds();
        let nano2 = t2.as_nanosecond_ranged().without_bounds();
        let diff = nano2 - nano1;
        proof {
            lemma_ts_wf(t1); lemma_ts_wf(t2);
            lemma_quot_limits(diff.val as int, unit_rank(largest));
            lemma_c07(diff.val as int, unit_rank(largest));
        }

        
        
        Span::from_invariant_nanoseconds(largest, diff)
    }
}

impl Timestamp {
// @fn Timestamp::until @src src/timestamp.rs:1822
#[verifier::spinoff_prover]

    pub fn until(
        self,
        other: TimestampDifference,
    ) -> (res: Result<Span, Error>)
    requires
        self.wf(), other.timestamp.wf(),
    ensures
        // IDEAL (C07: "s = a.until(largest, b) satisfies ..." for every permitted largest unit): Err exactly for a calendar unit (Day and above).
    // FAILS on jiff 0.2.8: Timestamp::MIN.until((Unit::Nanosecond, Timestamp::MAX)) is Err -- every pair more than i64::MAX ns (~292.3 years) apart is refused
    // with largest = Nanosecond, although Microsecond..Hour succeed for all pairs.
    !other.round.may_round() ==> (res.is_err() <==> unit_rank(ts_largest(other.round)) >= 6),
        !other.round.may_round() ==> (res.is_err() <==> ts_diff_err(other.timestamp.ns() - self.ns(), ts_largest(other.round))),
    !other.round.may_round() && res.is_ok() ==> span_wf(res.unwrap()) && span_view(res.unwrap()) == bal(other.timestamp.ns() - self.ns(), unit_rank(ts_largest(other.round))),
    !other.round.may_round() && res.is_ok() ==> c07_elapsed(span_view(res.unwrap()), other.timestamp.ns() - self.ns(), unit_rank(ts_largest(other.round))),
{
        hide(tdiv); hide(trem); hide(quot); hide(bal); hide(c07_elapsed);

        let args: TimestampDifference = other;
        let span = args.until_with_largest_unit(self)?;
        if args.rounding_may_change_span() {
            span.round(args.round)
        } else {
            Ok(span)
        }
    }
}

impl Timestamp {
// @fn Timestamp::since @src src/timestamp.rs:1858
#[verifier::spinoff_prover]

    pub fn since(
        self,
        other: TimestampDifference,
    ) -> (res: Result<Span, Error>)
    requires
        self.wf(), other.timestamp.wf(),
    ensures
        // IDEAL (C07: "s = a.until(largest, b) satisfies ..." for every permitted largest unit): Err exactly for a calendar unit (Day and above).
    // FAILS on jiff 0.2.8: Timestamp::MIN.until((Unit::Nanosecond, Timestamp::MAX)) is Err -- every pair more than i64::MAX ns (~292.3 years) apart is refused
    // with largest = Nanosecond, although Microsecond..Hour succeed for all pairs.
    !other.round.may_round() ==> (res.is_err() <==> unit_rank(ts_largest(other.round)) >= 6),
        !other.round.may_round() ==> (res.is_err() <==> ts_diff_err(other.timestamp.ns() - self.ns(), ts_largest(other.round))),
    !other.round.may_round() && res.is_ok() ==> span_wf(res.unwrap()) && span_view(res.unwrap()) == sv_neg(bal(other.timestamp.ns() - self.ns(), unit_rank(ts_largest(other.round)))),
    !other.round.may_round() && res.is_ok() ==> c07_elapsed(span_view(res.unwrap()), self.ns() - other.timestamp.ns(), unit_rank(ts_largest(other.round))),
{
        hide(tdiv); hide(trem); hide(quot); hide(bal); hide(c07_elapsed);

        let args: TimestampDifference = other;
        let span = args.until_with_largest_unit(self)?.negate();
        proof { lemma_c07_neg(bal(other.timestamp.ns() - self.ns(), unit_rank(ts_largest(other.round))), other.timestamp.ns() - self.ns(), unit_rank(ts_largest(other.round))); }

        if args.rounding_may_change_span() {
            span.round(args.round)
        } else {
            Ok(span)
        }
    }
}

impl Time {
// @fn Time::until_nanoseconds @src src/civil/time.rs:1758
#[verifier::spinoff_prover]

    pub fn until_nanoseconds(self, other: Time) -> (r: SpanNanoseconds)
    requires
        self.wf(), other.wf(),
    ensures
        r.val == other.nod() - self.nod(),
{
        let t1 = SpanNanoseconds::rfrom(self.to_nanosecond());
        let t2 = SpanNanoseconds::rfrom(other.to_nanosecond());
        t2 - t1
    }
}

impl Time {
// @fn Time::duration_until @src src/civil/time.rs:1393
#[verifier::spinoff_prover]

    pub fn duration_until(self, other: Time) -> (r: SignedDuration)
    requires
        self.wf(), other.wf(),
    ensures
        r.wf(), r.tot() == other.nod() - self.nod(),
{
        SignedDuration::time_until(self, other)
    }
}

impl Time {
// @fn Time::duration_since @src src/civil/time.rs:1413
#[verifier::spinoff_prover]

    pub fn duration_since(self, other: Time) -> (r: SignedDuration)
    requires
        self.wf(), other.wf(),
    ensures
        r.wf(), r.tot() == self.nod() - other.nod(),
{
        SignedDuration::time_until(other, self)
    }
}

#[derive(Clone, Copy)] pub struct TimeDifference {
    pub time: Time,
    pub round: SpanRound,
}

impl TimeDifference {
// @fn TimeDifference::rounding_may_change_span @src src/civil/time.rs:2570
#[verifier::spinoff_prover]

    pub fn rounding_may_change_span(&self) -> (r: bool)
    ensures
        r == self.round.may_round(),
{
        self.round.rounding_may_change_span_ignore_largest()
    }
}

impl TimeDifference {
// @fn TimeDifference::until_with_largest_unit @src src/civil/time.rs:2578
#[verifier::spinoff_prover]

    pub fn until_with_largest_unit(&self, t1: Time) -> (res: Result<Span, Error>)
    requires
        t1.wf(), self.time.wf(),
    ensures
        // Err exactly for a largest unit above Hour -- unless (DEVIATION) the two times are equal: then the zero span is returned whatever the largest unit.
    // (The ideal clause `Err iff the largest unit is above Hour` is stated on the public entry points Time::until / Time::since, so that no caller assumes it.)
    res.is_err() <==> unit_rank(time_largest(self.round)) >= 6 && self.time.nod() != t1.nod(),
    res.is_ok() ==> span_wf(res.unwrap()) && span_view(res.unwrap()) == bal(self.time.nod() - t1.nod(), unit_rank(time_largest(self.round))),
    res.is_ok() ==> c07_elapsed(span_view(res.unwrap()), self.time.nod() - t1.nod(), unit_rank(time_largest(self.round))),
{
        hide(tdiv); hide(trem); hide(quot); hide(bal); hide(c07_elapsed); hide(balanced_as);
        proof { lemma_bal_zero(unit_rank(time_largest(self.round))); }

        let t2 = self.time;
        if t1 == t2 {
            return Ok(Span::new());
        }
        let largest = self.round.get_largest().unwrap_or(Unit::Hour);
        if largest > Unit::Hour {
            return Err(verif_err());
        }
        let start = t1.to_nanosecond();
        let end = t2.to_nanosecond();
        proof {
            let d = end.val - start.val;
            lemma_quot_limits_day(d, unit_rank(largest));
            lemma_c07(d, unit_rank(largest));
        }

        let span =
            Span::from_invariant_nanoseconds(largest, (end - start).rinto())
                .expect("difference in civil times is always in bounds");
        Ok(span)
    }
}

impl Time {
// @fn Time::until @src src/civil/time.rs:1247
#[verifier::spinoff_prover]

    pub fn until(
        self,
        other: TimeDifference,
    ) -> (res: Result<Span, Error>)
    requires
        self.wf(), other.time.wf(),
    ensures
        // IDEAL: Err exactly for a largest unit above Hour.
    // FAILS on jiff 0.2.8: time(0,0,0,0).until((Unit::Day, time(0,0,0,0))) is Ok(zero span): the early return for equal times precedes the check of the largest unit.
    !other.round.may_round() ==> (res.is_err() <==> unit_rank(time_largest(other.round)) >= 6),
        !other.round.may_round() ==> (res.is_err() <==> unit_rank(time_largest(other.round)) >= 6 && other.time.nod() != self.nod()),
    !other.round.may_round() && res.is_ok() ==> span_wf(res.unwrap()) && span_view(res.unwrap()) == bal(other.time.nod() - self.nod(), unit_rank(time_largest(other.round))),
    !other.round.may_round() && res.is_ok() ==> c07_elapsed(span_view(res.unwrap()), other.time.nod() - self.nod(), unit_rank(time_largest(other.round))),
{
        hide(tdiv); hide(trem); hide(quot); hide(bal); hide(c07_elapsed);

        let args: TimeDifference = other;
        let span = args.until_with_largest_unit(self)?;
        if args.rounding_may_change_span() {
            span.round(args.round)
        } else {
            Ok(span)
        }
    }
}

impl Time {
// @fn Time::since @src src/civil/time.rs:1281
#[verifier::spinoff_prover]

    pub fn since(
        self,
        other: TimeDifference,
    ) -> (res: Result<Span, Error>)
    requires
        self.wf(), other.time.wf(),
    ensures
        // IDEAL: Err exactly for a largest unit above Hour.
    // FAILS on jiff 0.2.8: time(0,0,0,0).until((Unit::Day, time(0,0,0,0))) is Ok(zero span): the early return for equal times precedes the check of the largest unit.
    !other.round.may_round() ==> (res.is_err() <==> unit_rank(time_largest(other.round)) >= 6),
        !other.round.may_round() ==> (res.is_err() <==> unit_rank(time_largest(other.round)) >= 6 && other.time.nod() != self.nod()),
    !other.round.may_round() && res.is_ok() ==> span_wf(res.unwrap()) && span_view(res.unwrap()) == sv_neg(bal(other.time.nod() - self.nod(), unit_rank(time_largest(other.round)))),
    !other.round.may_round() && res.is_ok() ==> c07_elapsed(span_view(res.unwrap()), self.nod() - other.time.nod(), unit_rank(time_largest(other.round))),
{
        hide(tdiv); hide(trem); hide(quot); hide(bal); hide(c07_elapsed);

        let args: TimeDifference = other;
        let span = args.until_with_largest_unit(self)?.negate();
        proof { lemma_c07_neg(bal(other.time.nod() - self.nod(), unit_rank(time_largest(other.round))), other.time.nod() - self.nod(), unit_rank(time_largest(other.round))); }

        if args.rounding_may_change_span() {
            span.round(args.round)
        } else {
            Ok(span)
        }
    }
}

// ==== end extracted ====


} // verus!
fn main() {}
