#![allow(unused, non_snake_case, non_upper_case_globals)]
use vstd::prelude::*;
verus! {
// ---- include lib/stdspecs.vrs ----
// Specifications of core integer methods that vstd 0.2026.09.13 does not provide (trusted; each mirrors the std documentation).
// Included by every unit so that an edited body that starts using one of them is still decided.
pub assume_specification[ i8::div_euclid ](x: i8, y: i8) -> (r: i8) requires y != 0, !(x == i8::MIN && y == -1), ensures y > 0 ==> r as int == (x as int) / (y as int);
pub assume_specification[ i8::rem_euclid ](x: i8, y: i8) -> (r: i8) requires y != 0, !(x == i8::MIN && y == -1), ensures y > 0 ==> r as int == (x as int) % (y as int), y < 0 ==> r as int == (x as int) % (-(y as int));
pub assume_specification[ i8::abs ](x: i8) -> (r: i8) requires x != i8::MIN, ensures r as int == (if x < 0 { -(x as int) } else { x as int });
pub assume_specification[ i8::signum ](x: i8) -> (r: i8) ensures r == (if x > 0 { 1int } else if x < 0 { -1int } else { 0int });
pub assume_specification[ i8::is_positive ](x: i8) -> (r: bool) ensures r == (x > 0);
pub assume_specification[ i8::is_negative ](x: i8) -> (r: bool) ensures r == (x < 0);
pub assume_specification[ i8::checked_neg ](x: i8) -> (r: Option<i8>) ensures x == i8::MIN ==> r.is_none(), x != i8::MIN ==> r == Some((-x) as i8);
pub assume_specification[ i8::saturating_add ](x: i8, y: i8) -> (r: i8) ensures i8::MIN <= x + y <= i8::MAX ==> r == x + y, x + y > i8::MAX ==> r == i8::MAX, x + y < i8::MIN ==> r == i8::MIN;
pub assume_specification[ i8::saturating_sub ](x: i8, y: i8) -> (r: i8) ensures i8::MIN <= x - y <= i8::MAX ==> r == x - y, x - y > i8::MAX ==> r == i8::MAX, x - y < i8::MIN ==> r == i8::MIN;
pub assume_specification[ i8::saturating_neg ](x: i8) -> (r: i8) ensures x == i8::MIN ==> r == i8::MAX, x != i8::MIN ==> r == -x;
pub assume_specification[ i8::unsigned_abs ](x: i8) -> (r: u8) ensures r as int == (if x < 0 { -(x as int) } else { x as int });
pub assume_specification[ i8::checked_abs ](x: i8) -> (r: Option<i8>) ensures x == i8::MIN ==> r.is_none(), x != i8::MIN ==> r == Some((if x < 0 { -x } else { x as int }) as i8);
pub assume_specification[ i16::div_euclid ](x: i16, y: i16) -> (r: i16) requires y != 0, !(x == i16::MIN && y == -1), ensures y > 0 ==> r as int == (x as int) / (y as int);
pub assume_specification[ i16::rem_euclid ](x: i16, y: i16) -> (r: i16) requires y != 0, !(x == i16::MIN && y == -1), ensures y > 0 ==> r as int == (x as int) % (y as int), y < 0 ==> r as int == (x as int) % (-(y as int));
pub assume_specification[ i16::abs ](x: i16) -> (r: i16) requires x != i16::MIN, ensures r as int == (if x < 0 { -(x as int) } else { x as int });
pub assume_specification[ i16::signum ](x: i16) -> (r: i16) ensures r == (if x > 0 { 1int } else if x < 0 { -1int } else { 0int });
pub assume_specification[ i16::is_positive ](x: i16) -> (r: bool) ensures r == (x > 0);
pub assume_specification[ i16::is_negative ](x: i16) -> (r: bool) ensures r == (x < 0);
pub assume_specification[ i16::checked_neg ](x: i16) -> (r: Option<i16>) ensures x == i16::MIN ==> r.is_none(), x != i16::MIN ==> r == Some((-x) as i16);
pub assume_specification[ i16::saturating_add ](x: i16, y: i16) -> (r: i16) ensures i16::MIN <= x + y <= i16::MAX ==> r == x + y, x + y > i16::MAX ==> r == i16::MAX, x + y < i16::MIN ==> r == i16::MIN;
pub assume_specification[ i16::saturating_sub ](x: i16, y: i16) -> (r: i16) ensures i16::MIN <= x - y <= i16::MAX ==> r == x - y, x - y > i16::MAX ==> r == i16::MAX, x - y < i16::MIN ==> r == i16::MIN;
pub assume_specification[ i16::saturating_neg ](x: i16) -> (r: i16) ensures x == i16::MIN ==> r == i16::MAX, x != i16::MIN ==> r == -x;
pub assume_specification[ i16::unsigned_abs ](x: i16) -> (r: u16) ensures r as int == (if x < 0 { -(x as int) } else { x as int });
pub assume_specification[ i16::checked_abs ](x: i16) -> (r: Option<i16>) ensures x == i16::MIN ==> r.is_none(), x != i16::MIN ==> r == Some((if x < 0 { -x } else { x as int }) as i16);
pub assume_specification[ i32::div_euclid ](x: i32, y: i32) -> (r: i32) requires y != 0, !(x == i32::MIN && y == -1), ensures y > 0 ==> r as int == (x as int) / (y as int);
pub assume_specification[ i32::rem_euclid ](x: i32, y: i32) -> (r: i32) requires y != 0, !(x == i32::MIN && y == -1), ensures y > 0 ==> r as int == (x as int) % (y as int), y < 0 ==> r as int == (x as int) % (-(y as int));
pub assume_specification[ i32::abs ](x: i32) -> (r: i32) requires x != i32::MIN, ensures r as int == (if x < 0 { -(x as int) } else { x as int });
pub assume_specification[ i32::signum ](x: i32) -> (r: i32) ensures r == (if x > 0 { 1int } else if x < 0 { -1int } else { 0int });
pub assume_specification[ i32::is_positive ](x: i32) -> (r: bool) ensures r == (x > 0);
pub assume_specification[ i32::is_negative ](x: i32) -> (r: bool) ensures r == (x < 0);
pub assume_specification[ i32::checked_neg ](x: i32) -> (r: Option<i32>) ensures x == i32::MIN ==> r.is_none(), x != i32::MIN ==> r == Some((-x) as i32);
pub assume_specification[ i32::saturating_add ](x: i32, y: i32) -> (r: i32) ensures i32::MIN <= x + y <= i32::MAX ==> r == x + y, x + y > i32::MAX ==> r == i32::MAX, x + y < i32::MIN ==> r == i32::MIN;
pub assume_specification[ i32::saturating_sub ](x: i32, y: i32) -> (r: i32) ensures i32::MIN <= x - y <= i32::MAX ==> r == x - y, x - y > i32::MAX ==> r == i32::MAX, x - y < i32::MIN ==> r == i32::MIN;
pub assume_specification[ i32::saturating_neg ](x: i32) -> (r: i32) ensures x == i32::MIN ==> r == i32::MAX, x != i32::MIN ==> r == -x;
pub assume_specification[ i32::unsigned_abs ](x: i32) -> (r: u32) ensures r as int == (if x < 0 { -(x as int) } else { x as int });
pub assume_specification[ i32::checked_abs ](x: i32) -> (r: Option<i32>) ensures x == i32::MIN ==> r.is_none(), x != i32::MIN ==> r == Some((if x < 0 { -x } else { x as int }) as i32);
pub assume_specification[ i64::div_euclid ](x: i64, y: i64) -> (r: i64) requires y != 0, !(x == i64::MIN && y == -1), ensures y > 0 ==> r as int == (x as int) / (y as int);
pub assume_specification[ i64::rem_euclid ](x: i64, y: i64) -> (r: i64) requires y != 0, !(x == i64::MIN && y == -1), ensures y > 0 ==> r as int == (x as int) % (y as int), y < 0 ==> r as int == (x as int) % (-(y as int));
pub assume_specification[ i64::abs ](x: i64) -> (r: i64) requires x != i64::MIN, ensures r as int == (if x < 0 { -(x as int) } else { x as int });
pub assume_specification[ i64::signum ](x: i64) -> (r: i64) ensures r == (if x > 0 { 1int } else if x < 0 { -1int } else { 0int });
pub assume_specification[ i64::is_positive ](x: i64) -> (r: bool) ensures r == (x > 0);
pub assume_specification[ i64::is_negative ](x: i64) -> (r: bool) ensures r == (x < 0);
pub assume_specification[ i64::checked_neg ](x: i64) -> (r: Option<i64>) ensures x == i64::MIN ==> r.is_none(), x != i64::MIN ==> r == Some((-x) as i64);
pub assume_specification[ i64::saturating_add ](x: i64, y: i64) -> (r: i64) ensures i64::MIN <= x + y <= i64::MAX ==> r == x + y, x + y > i64::MAX ==> r == i64::MAX, x + y < i64::MIN ==> r == i64::MIN;
pub assume_specification[ i64::saturating_sub ](x: i64, y: i64) -> (r: i64) ensures i64::MIN <= x - y <= i64::MAX ==> r == x - y, x - y > i64::MAX ==> r == i64::MAX, x - y < i64::MIN ==> r == i64::MIN;
pub assume_specification[ i64::saturating_neg ](x: i64) -> (r: i64) ensures x == i64::MIN ==> r == i64::MAX, x != i64::MIN ==> r == -x;
pub assume_specification[ i64::unsigned_abs ](x: i64) -> (r: u64) ensures r as int == (if x < 0 { -(x as int) } else { x as int });
pub assume_specification[ i64::checked_abs ](x: i64) -> (r: Option<i64>) ensures x == i64::MIN ==> r.is_none(), x != i64::MIN ==> r == Some((if x < 0 { -x } else { x as int }) as i64);
pub assume_specification[ i128::div_euclid ](x: i128, y: i128) -> (r: i128) requires y != 0, !(x == i128::MIN && y == -1), ensures y > 0 ==> r as int == (x as int) / (y as int);
pub assume_specification[ i128::rem_euclid ](x: i128, y: i128) -> (r: i128) requires y != 0, !(x == i128::MIN && y == -1), ensures y > 0 ==> r as int == (x as int) % (y as int), y < 0 ==> r as int == (x as int) % (-(y as int));
pub assume_specification[ i128::abs ](x: i128) -> (r: i128) requires x != i128::MIN, ensures r as int == (if x < 0 { -(x as int) } else { x as int });
pub assume_specification[ i128::signum ](x: i128) -> (r: i128) ensures r == (if x > 0 { 1int } else if x < 0 { -1int } else { 0int });
pub assume_specification[ i128::is_positive ](x: i128) -> (r: bool) ensures r == (x > 0);
pub assume_specification[ i128::is_negative ](x: i128) -> (r: bool) ensures r == (x < 0);
pub assume_specification[ i128::checked_neg ](x: i128) -> (r: Option<i128>) ensures x == i128::MIN ==> r.is_none(), x != i128::MIN ==> r == Some((-x) as i128);
pub assume_specification[ i128::saturating_add ](x: i128, y: i128) -> (r: i128) ensures i128::MIN <= x + y <= i128::MAX ==> r == x + y, x + y > i128::MAX ==> r == i128::MAX, x + y < i128::MIN ==> r == i128::MIN;
pub assume_specification[ i128::saturating_sub ](x: i128, y: i128) -> (r: i128) ensures i128::MIN <= x - y <= i128::MAX ==> r == x - y, x - y > i128::MAX ==> r == i128::MAX, x - y < i128::MIN ==> r == i128::MIN;
pub assume_specification[ i128::saturating_neg ](x: i128) -> (r: i128) ensures x == i128::MIN ==> r == i128::MAX, x != i128::MIN ==> r == -x;
pub assume_specification[ i128::unsigned_abs ](x: i128) -> (r: u128) ensures r as int == (if x < 0 { -(x as int) } else { x as int });
pub assume_specification[ i128::checked_abs ](x: i128) -> (r: Option<i128>) ensures x == i128::MIN ==> r.is_none(), x != i128::MIN ==> r == Some((if x < 0 { -x } else { x as int }) as i128);

// T4: composition proofs over opaque types.  Every type is opaque; every callee carries exactly the
// postcondition that its own property proves elsewhere (named in the comment).  The zone is never
// instantiated, so the laws hold for every zone satisfying the C03/C04 contracts.
#[verifier::external_body] #[derive(Debug)] pub struct Error { _p: () }
#[verifier::external_body] pub fn verif_err() -> Error { unimplemented!() }
#[verifier::external_body] #[derive(Clone, Copy)] pub struct Span { _p: () }
#[verifier::external_body] #[derive(Clone, Copy)] pub struct SignedDuration { _p: () }
#[verifier::external_body] #[derive(Clone, Copy)] pub struct Timestamp { _p: () }
#[verifier::external_body] #[derive(Clone, Copy)] pub struct DateTime { _p: () }
#[verifier::external_body] #[derive(Clone, Copy)] pub struct Offset { _p: () }
#[verifier::external_body] pub struct TimeZone { _p: () }
#[verifier::external_body] pub struct AmbiguousTimestamp { _p: () }
pub enum AmbiguousOffset {
    Unambiguous { offset: Offset },
    Gap { before: Offset, after: Offset },
    Fold { before: Offset, after: Offset },
}
#[verifier::external_body] #[derive(Clone, Copy)] pub struct Time { _p: () }
#[verifier::external_body] #[derive(Clone, Copy)] pub struct Date { _p: () }
pub uninterp spec fn dt_time(dt: DateTime) -> Time;
pub uninterp spec fn dt_date(dt: DateTime) -> Date;
pub uninterp spec fn time_midnight() -> Time;
pub uninterp spec fn time_max() -> Time;
// value equality of the opaque civil types (derived/hand-written PartialEq compare all fields)
impl vstd::std_specs::cmp::PartialEqSpecImpl for Time { open spec fn obeys_eq_spec() -> bool { true } open spec fn eq_spec(&self, o: &Time) -> bool { *self == *o } }
impl PartialEq for Time { #[verifier::external_body] fn eq(&self, o: &Time) -> bool { unimplemented!() } }
impl vstd::std_specs::cmp::PartialEqSpecImpl for Date { open spec fn obeys_eq_spec() -> bool { true } open spec fn eq_spec(&self, o: &Date) -> bool { *self == *o } }
impl PartialEq for Date { #[verifier::external_body] fn eq(&self, o: &Date) -> bool { unimplemented!() } }
impl vstd::std_specs::cmp::PartialEqSpecImpl for DateTime { open spec fn obeys_eq_spec() -> bool { true } open spec fn eq_spec(&self, o: &DateTime) -> bool { *self == *o } }
impl PartialEq for DateTime { #[verifier::external_body] fn eq(&self, o: &DateTime) -> bool { unimplemented!() } }
impl vstd::std_specs::cmp::PartialEqSpecImpl for Timestamp { open spec fn obeys_eq_spec() -> bool { true } open spec fn eq_spec(&self, o: &Timestamp) -> bool { *self == *o } }
impl PartialEq for Timestamp { #[verifier::external_body] fn eq(&self, o: &Timestamp) -> bool { unimplemented!() } }
impl vstd::std_specs::cmp::PartialEqSpecImpl for Offset { open spec fn obeys_eq_spec() -> bool { true } open spec fn eq_spec(&self, o: &Offset) -> bool { *self == *o } }
impl PartialEq for Offset { #[verifier::external_body] fn eq(&self, o: &Offset) -> bool { unimplemented!() } }
impl Time {
    #[verifier::external_body] pub fn midnight() -> (r: Time) ensures r == time_midnight() { unimplemented!() }
}
pub struct Zoned { pub ghost ts: Timestamp, pub ghost dt: DateTime, pub ghost off: Offset, pub tz: TimeZone }

// ---- abstract semantics ----
pub uninterp spec fn tz_off(tz: &TimeZone, ts: Timestamp) -> Offset;                  // C03: the offset the zone assigns to an instant
pub uninterp spec fn tz_amb(tz: &TimeZone, dt: DateTime) -> AmbiguousOffset;          // C04: classification of a civil datetime
pub uninterp spec fn off_to_dt(o: Offset, ts: Timestamp) -> DateTime;                 // C02: instant shifted by the offset
pub uninterp spec fn off_to_ts(o: Offset, dt: DateTime) -> Option<Timestamp>;         // C02: civil minus offset, None iff out of range
pub uninterp spec fn span_cal(s: Span) -> Span;                                       // years..days part (C12)
pub uninterp spec fn span_time(s: Span) -> Span;                                      // hours..nanoseconds part (C12)
pub uninterp spec fn span_is_zero(s: Span) -> bool;
pub uninterp spec fn dt_add(dt: DateTime, s: Span) -> Option<DateTime>;               // C08 reference semantics of civil addition
pub uninterp spec fn ts_add(ts: Timestamp, s: Span) -> Option<Timestamp>;             // exact elapsed-time addition (C02/C06)
pub uninterp spec fn ts_add_dur(ts: Timestamp, d: SignedDuration) -> Option<Timestamp>;
pub uninterp spec fn dt_start_of_day(dt: DateTime) -> DateTime;
pub uninterp spec fn dt_end_of_day(dt: DateTime) -> DateTime;
pub uninterp spec fn dt_first_of_month(dt: DateTime) -> DateTime;
pub uninterp spec fn dt_last_of_month(dt: DateTime) -> DateTime;
pub uninterp spec fn dt_tomorrow(dt: DateTime) -> Option<DateTime>;
pub uninterp spec fn dt_yesterday(dt: DateTime) -> Option<DateTime>;

/// C13: the representation invariant of a zoned datetime
pub open spec fn zinv(z: &Zoned) -> bool {
    z.off == tz_off(&z.tz, z.ts) && z.dt == off_to_dt(z.off, z.ts)
}
/// C13/C02: the unique consistent Zoned for (instant, zone)
pub open spec fn is_zoned_of(z: &Zoned, ts: Timestamp, tz: &TimeZone) -> bool {
    z.ts == ts && z.tz == *tz && zinv(z)
}
/// C04 + strategy "compatible": gap -> the instant after the gap (civil time read with the offset
/// in force *before*), fold -> the earlier instant (offset before), unambiguous -> that instant
pub open spec fn resolve_compatible(tz: &TimeZone, dt: DateTime) -> Option<Timestamp> {
    match tz_amb(tz, dt) {
        AmbiguousOffset::Unambiguous { offset } => off_to_ts(offset, dt),
        AmbiguousOffset::Gap { before, after } => off_to_ts(before, dt),
        AmbiguousOffset::Fold { before, after } => off_to_ts(before, dt),
    }
}
/// C04 contract of the zone's civil lookup (proved for TZif tables / POSIX rules in units tzif, posix):
/// "unambiguous with offset o" iff exactly one instant shows that civil time, and it has offset o;
/// "fold" iff two do, with the reported offsets.
pub open spec fn amb_sound(tz: &TimeZone, dt: DateTime) -> bool {
    match tz_amb(tz, dt) {
        AmbiguousOffset::Unambiguous { offset } => forall|ts: Timestamp| off_to_ts(offset, dt) == Some(ts) ==> tz_off(tz, ts) == offset,
        AmbiguousOffset::Fold { before, after } =>
            (forall|ts: Timestamp| off_to_ts(before, dt) == Some(ts) ==> tz_off(tz, ts) == before)
            && (forall|ts: Timestamp| off_to_ts(after, dt) == Some(ts) ==> tz_off(tz, ts) == after),
        AmbiguousOffset::Gap { before, after } => true,
    }
}
/// C02 round trip under a fixed offset (proved: itime unit + Offset wrappers)
pub broadcast proof fn axiom_offset_roundtrip(o: Offset, dt: DateTime)
    ensures (#[trigger] off_to_ts(o, dt)).is_some() ==> off_to_dt(o, off_to_ts(o, dt).unwrap()) == dt,
{ admit(); }

// ---- callees with their contracts ----
impl Span {
    #[verifier::external_body] pub fn only_calendar(self) -> (r: Span) ensures r == span_cal(self) { unimplemented!() }
    #[verifier::external_body] pub fn only_time(self) -> (r: Span) ensures r == span_time(self) { unimplemented!() }
    #[verifier::external_body] pub fn is_zero(self) -> (r: bool) ensures r == span_is_zero(self) { unimplemented!() }
}
pub trait TsArith: Sized { spec fn apply(self, ts: Timestamp) -> Option<Timestamp>; }
impl TsArith for Span { open spec fn apply(self, ts: Timestamp) -> Option<Timestamp> { ts_add(ts, self) } }
impl TsArith for SignedDuration { open spec fn apply(self, ts: Timestamp) -> Option<Timestamp> { ts_add_dur(ts, self) } }
impl DateTime {
    #[verifier::external_body] pub fn checked_add(self, s: Span) -> (r: Result<DateTime, Error>)
        ensures r.is_ok() == dt_add(self, s).is_some(), r.is_ok() ==> r.unwrap() == dt_add(self, s).unwrap() { unimplemented!() }
    #[verifier::external_body] pub fn start_of_day(self) -> (r: DateTime) ensures r == dt_start_of_day(self) { unimplemented!() }
    #[verifier::external_body] pub fn end_of_day(self) -> (r: DateTime) ensures r == dt_end_of_day(self) { unimplemented!() }
    #[verifier::external_body] pub fn first_of_month(self) -> (r: DateTime) ensures r == dt_first_of_month(self) { unimplemented!() }
    #[verifier::external_body] pub fn last_of_month(self) -> (r: DateTime) ensures r == dt_last_of_month(self) { unimplemented!() }
    #[verifier::external_body] pub fn tomorrow(self) -> (r: Result<DateTime, Error>)
        ensures r.is_ok() == dt_tomorrow(self).is_some(), r.is_ok() ==> r.unwrap() == dt_tomorrow(self).unwrap() { unimplemented!() }
    #[verifier::external_body] pub fn yesterday(self) -> (r: Result<DateTime, Error>)
        ensures r.is_ok() == dt_yesterday(self).is_some(), r.is_ok() ==> r.unwrap() == dt_yesterday(self).unwrap() { unimplemented!() }
}
impl Timestamp {
    // generic over Into<TimestampArithmetic> in the real code: Span and SignedDuration
    #[verifier::external_body] pub fn checked_add<A: TsArith>(self, a: A) -> (r: Result<Timestamp, Error>)
        ensures r.is_ok() == a.apply(self).is_some(), r.is_ok() ==> r.unwrap() == a.apply(self).unwrap() { unimplemented!() }
    // Timestamp::to_zoned is `Zoned::new(self, tz)` (one line, src/timestamp.rs); its contract is Zoned::new's
    #[verifier::external_body] pub fn to_zoned(self, tz: TimeZone) -> (r: Zoned) ensures is_zoned_of(&r, self, &tz) { unimplemented!() }
}
impl Offset {
    #[verifier::external_body] pub fn to_datetime(self, ts: Timestamp) -> (r: DateTime) ensures r == off_to_dt(self, ts) { unimplemented!() }
    #[verifier::external_body] pub fn to_timestamp(self, dt: DateTime) -> (r: Result<Timestamp, Error>)
        ensures r.is_ok() == off_to_ts(self, dt).is_some(), r.is_ok() ==> r.unwrap() == off_to_ts(self, dt).unwrap() { unimplemented!() }
}
impl TimeZone {
    #[verifier::external_body] pub fn to_offset(&self, ts: Timestamp) -> (r: Offset) ensures r == tz_off(self, ts) { unimplemented!() }
    #[verifier::external_body] pub fn to_ambiguous_timestamp(&self, dt: DateTime) -> (r: AmbiguousTimestamp)
        ensures r.tz_view() == self, r.dt_view() == dt, r.offset_view() == tz_amb(self, dt), amb_sound(self, dt) { unimplemented!() }
    #[verifier::external_body] pub fn clone(&self) -> (r: TimeZone) ensures r == *self { unimplemented!() }
}
impl AmbiguousTimestamp {
    pub uninterp spec fn tz_view(&self) -> &TimeZone;
    pub uninterp spec fn dt_view(&self) -> DateTime;
    pub uninterp spec fn offset_view(&self) -> AmbiguousOffset;
    #[verifier::external_body] pub fn offset(&self) -> (r: AmbiguousOffset) ensures r == self.offset_view() { unimplemented!() }
    // C04 strategies (src/tz/ambiguous.rs; decided by Kani group c04_strategies)
    #[verifier::external_body] pub fn compatible(self) -> (r: Result<Timestamp, Error>)
        ensures self.offset_view() == tz_amb(self.tz_view(), self.dt_view()) ==> (
                r.is_ok() == resolve_compatible(self.tz_view(), self.dt_view()).is_some()
                && (r.is_ok() ==> r.unwrap() == resolve_compatible(self.tz_view(), self.dt_view()).unwrap())) { unimplemented!() }
}
impl Zoned {
    #[verifier::external_body] pub fn timestamp(&self) -> (r: Timestamp) ensures r == self.ts { unimplemented!() }
    #[verifier::external_body] pub fn datetime(&self) -> (r: DateTime) ensures r == self.dt { unimplemented!() }
    #[verifier::external_body] pub fn time_zone(&self) -> (r: &TimeZone) ensures *r == self.tz { unimplemented!() }
    // further accessors of the public API (not used by the bodies under contract today; present so that
    // an edited body that starts using them is still *decided* instead of leaving the supported subset)
    #[verifier::external_body] pub fn offset(&self) -> (r: Offset) ensures r == self.off { unimplemented!() }
    #[verifier::external_body] pub fn time(&self) -> (r: Time) ensures r == dt_time(self.dt) { unimplemented!() }
    #[verifier::external_body] pub fn date(&self) -> (r: Date) ensures r == dt_date(self.dt) { unimplemented!() }
    #[verifier::external_body] pub fn clone(&self) -> (r: Zoned) ensures r == *self { unimplemented!() }
}
impl DateTime {
    #[verifier::external_body] pub fn time(self) -> (r: Time) ensures r == dt_time(self) { unimplemented!() }
    #[verifier::external_body] pub fn date(self) -> (r: Date) ensures r == dt_date(self) { unimplemented!() }
}
// the struct literal `Zoned { inner: ZonedInner { timestamp, datetime, offset, time_zone } }`
#[verifier::external_body]
pub fn verif_mk_zoned(timestamp: Timestamp, datetime: DateTime, offset: Offset, time_zone: TimeZone) -> (r: Zoned)
    ensures r.ts == timestamp, r.dt == datetime, r.off == offset, r.tz == time_zone { unimplemented!() }
pub trait VerifCtx: Sized { fn verif_with_context(self) -> Self; }
impl<T> VerifCtx for Result<T, Error> {
    #[verifier::external_body]
    fn verif_with_context(self) -> (r: Self) ensures r.is_ok() == self.is_ok(), self.is_ok() ==> r.unwrap() == self.unwrap() { unimplemented!() }
}

// ---- the laws, from the property statements ----
/// C06: add calendar units on the wall clock, resolve compatibly, then add time units as exact elapsed time
pub open spec fn zoned_add_spec(z: &Zoned, span: Span) -> Option<Timestamp> {
    if span_is_zero(span_cal(span)) {
        ts_add(z.ts, span)
    } else {
        match dt_add(z.dt, span_cal(span)) {
            None => None,
            Some(dt) => match resolve_compatible(&z.tz, dt) {
                None => None,
                Some(ts) => ts_add(ts, span_time(span)),
            },
        }
    }
}
/// result of resolving a civil datetime in a zone with the compatible strategy
pub open spec fn to_zoned_ok(res: Result<Zoned, Error>, tz: &TimeZone, dt: DateTime) -> bool {
    res.is_ok() == resolve_compatible(tz, dt).is_some()
    && (res.is_ok() ==> is_zoned_of(&res.unwrap(), resolve_compatible(tz, dt).unwrap(), tz))
}

// ==== extracted from /repo ====
impl Zoned {
// @fn Zoned::new @src src/zoned.rs:493
#[verifier::spinoff_prover]

    pub fn new(timestamp: Timestamp, time_zone: TimeZone) -> (r: Zoned)
    ensures
        is_zoned_of(&r, timestamp, &time_zone),
{
        let offset = time_zone.to_offset(timestamp);
        let datetime = offset.to_datetime(timestamp);
        verif_mk_zoned(timestamp, datetime, offset, time_zone)
    }
}

impl Zoned {
// @fn Zoned::from_parts @src src/zoned.rs:509
#[verifier::spinoff_prover]

    pub fn from_parts(
        timestamp: Timestamp,
        time_zone: TimeZone,
        offset: Offset,
        datetime: DateTime,
    ) -> (r: Zoned)
    requires
        offset == tz_off(&time_zone, timestamp), datetime == off_to_dt(offset, timestamp),
    ensures
        is_zoned_of(&r, timestamp, &time_zone),
{
        verif_mk_zoned(timestamp, datetime, offset, time_zone)
    }
}

impl Zoned {
// @fn Zoned::with_time_zone @src src/zoned.rs:593
#[verifier::spinoff_prover]

    pub fn with_time_zone(&self, time_zone: TimeZone) -> (r: Zoned)
    ensures
        is_zoned_of(&r, self.ts, &time_zone),
{
        Zoned::new(self.timestamp(), time_zone)
    }
}

impl Zoned {
// @fn Zoned::start_of_day @src src/zoned.rs:1123
#[verifier::spinoff_prover]

    pub fn start_of_day(&self) -> (res: Result<Zoned, Error>)
    requires
        zinv(self),
    ensures
        to_zoned_ok(res, &self.tz, dt_start_of_day(self.dt)),
{
        self.datetime().start_of_day().to_zoned(self.time_zone().clone())
    }
}

impl Zoned {
// @fn Zoned::end_of_day @src src/zoned.rs:1180
#[verifier::spinoff_prover]

    pub fn end_of_day(&self) -> (res: Result<Zoned, Error>)
    requires
        zinv(self),
    ensures
        // the last instant of the civil day: in a gap or fold the offset in force *after* the transition
    ({ let e = dt_end_of_day(self.dt);
       let o = match tz_amb(&self.tz, e) { AmbiguousOffset::Unambiguous { offset } => offset, AmbiguousOffset::Gap { before, after } => after, AmbiguousOffset::Fold { before, after } => after };
       res.is_ok() == off_to_ts(o, e).is_some() && (res.is_ok() ==> is_zoned_of(&res.unwrap(), off_to_ts(o, e).unwrap(), &self.tz)) }),
{
        let end_of_civil_day = self.datetime().end_of_day();
        let ambts = self.time_zone().to_ambiguous_timestamp(end_of_civil_day);
        
        
        
        
        
        
        
        
        
        
        let offset = match ambts.offset() {
            AmbiguousOffset::Unambiguous { offset } => offset,
            AmbiguousOffset::Gap { after, .. } => after,
            AmbiguousOffset::Fold { after, .. } => after,
        };
        offset
            .to_timestamp(end_of_civil_day)
            .map(|ts: Timestamp| -> (z: Zoned) ensures is_zoned_of(&z, ts, &self.tz) { ts.to_zoned(self.time_zone().clone()) })
    }
}

impl Zoned {
// @fn Zoned::first_of_month @src src/zoned.rs:1232
#[verifier::spinoff_prover]

    pub fn first_of_month(&self) -> (res: Result<Zoned, Error>)
    requires
        zinv(self),
    ensures
        to_zoned_ok(res, &self.tz, dt_first_of_month(self.dt)),
{
        self.datetime().first_of_month().to_zoned(self.time_zone().clone())
    }
}

impl Zoned {
// @fn Zoned::last_of_month @src src/zoned.rs:1264
#[verifier::spinoff_prover]

    pub fn last_of_month(&self) -> (res: Result<Zoned, Error>)
    requires
        zinv(self),
    ensures
        to_zoned_ok(res, &self.tz, dt_last_of_month(self.dt)),
{
        self.datetime().last_of_month().to_zoned(self.time_zone().clone())
    }
}

impl Zoned {
// @fn Zoned::tomorrow @src src/zoned.rs:1491
#[verifier::spinoff_prover]

    pub fn tomorrow(&self) -> (res: Result<Zoned, Error>)
    requires
        zinv(self),
    ensures
        dt_tomorrow(self.dt).is_none() ==> res.is_err(),
    dt_tomorrow(self.dt).is_some() ==> to_zoned_ok(res, &self.tz, dt_tomorrow(self.dt).unwrap()),
{
        self.datetime().tomorrow()?.to_zoned(self.time_zone().clone())
    }
}

impl Zoned {
// @fn Zoned::yesterday @src src/zoned.rs:1549
#[verifier::spinoff_prover]

    pub fn yesterday(&self) -> (res: Result<Zoned, Error>)
    requires
        zinv(self),
    ensures
        dt_yesterday(self.dt).is_none() ==> res.is_err(),
    dt_yesterday(self.dt).is_some() ==> to_zoned_ok(res, &self.tz, dt_yesterday(self.dt).unwrap()),
{
        self.datetime().yesterday()?.to_zoned(self.time_zone().clone())
    }
}

impl Zoned {
// @fn Zoned::checked_add_span @src src/zoned.rs:2208
#[verifier::spinoff_prover]

    pub fn checked_add_span(&self, span: Span) -> (res: Result<Zoned, Error>)
    requires
        zinv(self),
    ensures
        res.is_ok() == zoned_add_spec(self, span).is_some(),
    res.is_ok() ==> is_zoned_of(&res.unwrap(), zoned_add_spec(self, span).unwrap(), &self.tz),
{
        let span_calendar = span.only_calendar();
        
        
        
        if span_calendar.is_zero() {
            return self
                .timestamp()
                .checked_add(span)
                .map(|ts: Timestamp| -> (z: Zoned) ensures is_zoned_of(&z, ts, &self.tz) { ts.to_zoned(self.time_zone().clone()) })
                .verif_with_context();
        }
        let span_time = span.only_time();
        let dt =
            self.datetime().checked_add(span_calendar).verif_with_context()?;

        let tz = self.time_zone();
        let mut ts =
            tz.to_ambiguous_timestamp(dt).compatible().verif_with_context()?;
        ts = ts.checked_add(span_time).verif_with_context()?;
        Ok(ts.to_zoned(tz.clone()))
    }
}

impl Zoned {
// @fn Zoned::checked_add_duration @src src/zoned.rs:2257
#[verifier::spinoff_prover]

    pub fn checked_add_duration(
        &self,
        duration: SignedDuration,
    ) -> (res: Result<Zoned, Error>)
    requires
        zinv(self),
    ensures
        res.is_ok() == ts_add_dur(self.ts, duration).is_some(),
    res.is_ok() ==> is_zoned_of(&res.unwrap(), ts_add_dur(self.ts, duration).unwrap(), &self.tz),
{
        self.timestamp()
            .checked_add(duration)
            .map(|ts: Timestamp| -> (z: Zoned) ensures is_zoned_of(&z, ts, &self.tz) { ts.to_zoned(self.time_zone().clone()) })
    }
}

impl DateTime {
// @fn DateTime::to_zoned @src src/civil/datetime.rs:1516
#[verifier::spinoff_prover]

    pub fn to_zoned(self, tz: TimeZone) -> (res: Result<Zoned, Error>)
    ensures
        to_zoned_ok(res, &tz, self),
    // an instant produced from a non-gap civil time displays that same civil time
    res.is_ok() && !(tz_amb(&tz, self) is Gap) ==> res.unwrap().dt == self,
{
        broadcast use axiom_offset_roundtrip;

        

        
        
        
        
        
        
        
        
        
        
        
        
        
        
        
        
        
        
        
        
        
        
        
        
        
        
        
        
        
        
        
        
        
        let dt = self;
        let amb_ts = tz.to_ambiguous_timestamp(dt);
        let (offset, ts, dt) = match amb_ts.offset() {
            AmbiguousOffset::Unambiguous { offset } => {
                let ts = offset.to_timestamp(dt)?;
                (offset, ts, dt)
            }
            AmbiguousOffset::Gap { before, .. } => {
                let ts = before.to_timestamp(dt)?;
                let offset = tz.to_offset(ts);
                let dt = offset.to_datetime(ts);
                (offset, ts, dt)
            }
            AmbiguousOffset::Fold { before, .. } => {
                let ts = before.to_timestamp(dt)?;
                let offset = tz.to_offset(ts);
                let dt = offset.to_datetime(ts);
                (offset, ts, dt)
            }
        };
        Ok(Zoned::from_parts(ts, tz, offset, dt))
    }
}

// ==== end extracted ====


} // verus!
fn main() {}
