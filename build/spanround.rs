#![allow(unused, non_snake_case, non_upper_case_globals)]
use vstd::prelude::*;
verus! {
// ---- include lib/stdspecs.vrs ----
// Specifications of core integer methods that vstd 0.2026.09.13 does not provide (trusted; each mirrors the std documentation).
// Included by every unit so that an edited body that starts using one of them is still decided.
pub assume_specification[ i8::div_euclid ](x: i8, y: i8) -> (r: i8) requires y != 0, !(x == i8::MIN && y == -1), ensures y > 0 ==> r as int == (x as int) / (y as int);
pub assume_specification[ i8::rem_euclid ](x: i8, y: i8) -> (r: i8) requires y != 0, !(x == i8::MIN && y == -1), ensures y > 0 ==> r as int == (x as int) % (y as int), y < 0 ==> r as int == (x as int) % (-(y as int));
pub assume_specification[ i8::abs ](x: i8) -> (r: i8) requires x != i8::MIN, ensures r as int == (if x < 0 { -(x as int) } else { x as int });
pub assume_specification[ i8::signum ](x: i8) -> (r: i8) ensures r == (if x > 0 { 1int } else if x < 0 { -1int } else { 0int });
pub assume_specification[ i8::is_positive ](x: i8) -> (r: bool) ensures r == (x > 0);
pub assume_specification[ i8::is_negative ](x: i8) -> (r: bool) ensures r == (x < 0);
pub assume_specification[ i8::checked_neg ](x: i8) -> (r: Option<i8>) ensures x == i8::MIN ==> r.is_none(), x != i8::MIN ==> r == Some((-x) as i8);
pub assume_specification[ i8::saturating_add ](x: i8, y: i8) -> (r: i8) ensures i8::MIN <= x + y <= i8::MAX ==> r == x + y, x + y > i8::MAX ==> r == i8::MAX, x + y < i8::MIN ==> r == i8::MIN;
pub assume_specification[ i8::saturating_sub ](x: i8, y: i8) -> (r: i8) ensures i8::MIN <= x - y <= i8::MAX ==> r == x - y, x - y > i8::MAX ==> r == i8::MAX, x - y < i8::MIN ==> r == i8::MIN;
pub assume_specification[ i8::saturating_neg ](x: i8) -> (r: i8) ensures x == i8::MIN ==> r == i8::MAX, x != i8::MIN ==> r == -x;
pub assume_specification[ i8::unsigned_abs ](x: i8) -> (r: u8) ensures r as int == (if x < 0 { -(x as int) } else { x as int });
pub assume_specification[ i8::checked_abs ](x: i8) -> (r: Option<i8>) ensures x == i8::MIN ==> r.is_none(), x != i8::MIN ==> r == Some((if x < 0 { -x } else { x as int }) as i8);
pub assume_specification[ i16::div_euclid ](x: i16, y: i16) -> (r: i16) requires y != 0, !(x == i16::MIN && y == -1), ensures y > 0 ==> r as int == (x as int) / (y as int);
pub assume_specification[ i16::rem_euclid ](x: i16, y: i16) -> (r: i16) requires y != 0, !(x == i16::MIN && y == -1), ensures y > 0 ==> r as int == (x as int) % (y as int), y < 0 ==> r as int == (x as int) % (-(y as int));
pub assume_specification[ i16::abs ](x: i16) -> (r: i16) requires x != i16::MIN, ensures r as int == (if x < 0 { -(x as int) } else { x as int });
pub assume_specification[ i16::signum ](x: i16) -> (r: i16) ensures r == (if x > 0 { 1int } else if x < 0 { -1int } else { 0int });
pub assume_specification[ i16::is_positive ](x: i16) -> (r: bool) ensures r == (x > 0);
pub assume_specification[ i16::is_negative ](x: i16) -> (r: bool) ensures r == (x < 0);
pub assume_specification[ i16::checked_neg ](x: i16) -> (r: Option<i16>) ensures x == i16::MIN ==> r.is_none(), x != i16::MIN ==> r == Some((-x) as i16);
pub assume_specification[ i16::saturating_add ](x: i16, y: i16) -> (r: i16) ensures i16::MIN <= x + y <= i16::MAX ==> r == x + y, x + y > i16::MAX ==> r == i16::MAX, x + y < i16::MIN ==> r == i16::MIN;
pub assume_specification[ i16::saturating_sub ](x: i16, y: i16) -> (r: i16) ensures i16::MIN <= x - y <= i16::MAX ==> r == x - y, x - y > i16::MAX ==> r == i16::MAX, x - y < i16::MIN ==> r == i16::MIN;
pub assume_specification[ i16::saturating_neg ](x: i16) -> (r: i16) ensures x == i16::MIN ==> r == i16::MAX, x != i16::MIN ==> r == -x;
pub assume_specification[ i16::unsigned_abs ](x: i16) -> (r: u16) ensures r as int == (if x < 0 { -(x as int) } else { x as int });
pub assume_specification[ i16::checked_abs ](x: i16) -> (r: Option<i16>) ensures x == i16::MIN ==> r.is_none(), x != i16::MIN ==> r == Some((if x < 0 { -x } else { x as int }) as i16);
pub assume_specification[ i32::div_euclid ](x: i32, y: i32) -> (r: i32) requires y != 0, !(x == i32::MIN && y == -1), ensures y > 0 ==> r as int == (x as int) / (y as int);
pub assume_specification[ i32::rem_euclid ](x: i32, y: i32) -> (r: i32) requires y != 0, !(x == i32::MIN && y == -1), ensures y > 0 ==> r as int == (x as int) % (y as int), y < 0 ==> r as int == (x as int) % (-(y as int));
pub assume_specification[ i32::abs ](x: i32) -> (r: i32) requires x != i32::MIN, ensures r as int == (if x < 0 { -(x as int) } else { x as int });
pub assume_specification[ i32::signum ](x: i32) -> (r: i32) ensures r == (if x > 0 { 1int } else if x < 0 { -1int } else { 0int });
pub assume_specification[ i32::is_positive ](x: i32) -> (r: bool) ensures r == (x > 0);
pub assume_specification[ i32::is_negative ](x: i32) -> (r: bool) ensures r == (x < 0);
pub assume_specification[ i32::checked_neg ](x: i32) -> (r: Option<i32>) ensures x == i32::MIN ==> r.is_none(), x != i32::MIN ==> r == Some((-x) as i32);
pub assume_specification[ i32::saturating_add ](x: i32, y: i32) -> (r: i32) ensures i32::MIN <= x + y <= i32::MAX ==> r == x + y, x + y > i32::MAX ==> r == i32::MAX, x + y < i32::MIN ==> r == i32::MIN;
pub assume_specification[ i32::saturating_sub ](x: i32, y: i32) -> (r: i32) ensures i32::MIN <= x - y <= i32::MAX ==> r == x - y, x - y > i32::MAX ==> r == i32::MAX, x - y < i32::MIN ==> r == i32::MIN;
pub assume_specification[ i32::saturating_neg ](x: i32) -> (r: i32) ensures x == i32::MIN ==> r == i32::MAX, x != i32::MIN ==> r == -x;
pub assume_specification[ i32::unsigned_abs ](x: i32) -> (r: u32) ensures r as int == (if x < 0 { -(x as int) } else { x as int });
pub assume_specification[ i32::checked_abs ](x: i32) -> (r: Option<i32>) ensures x == i32::MIN ==> r.is_none(), x != i32::MIN ==> r == Some((if x < 0 { -x } else { x as int }) as i32);
pub assume_specification[ i64::div_euclid ](x: i64, y: i64) -> (r: i64) requires y != 0, !(x == i64::MIN && y == -1), ensures y > 0 ==> r as int == (x as int) / (y as int);
pub assume_specification[ i64::rem_euclid ](x: i64, y: i64) -> (r: i64) requires y != 0, !(x == i64::MIN && y == -1), ensures y > 0 ==> r as int == (x as int) % (y as int), y < 0 ==> r as int == (x as int) % (-(y as int));
pub assume_specification[ i64::abs ](x: i64) -> (r: i64) requires x != i64::MIN, ensures r as int == (if x < 0 { -(x as int) } else { x as int });
pub assume_specification[ i64::signum ](x: i64) -> (r: i64) ensures r == (if x > 0 { 1int } else if x < 0 { -1int } else { 0int });
pub assume_specification[ i64::is_positive ](x: i64) -> (r: bool) ensures r == (x > 0);
pub assume_specification[ i64::is_negative ](x: i64) -> (r: bool) ensures r == (x < 0);
pub assume_specification[ i64::checked_neg ](x: i64) -> (r: Option<i64>) ensures x == i64::MIN ==> r.is_none(), x != i64::MIN ==> r == Some((-x) as i64);
pub assume_specification[ i64::saturating_add ](x: i64, y: i64) -> (r: i64) ensures i64::MIN <= x + y <= i64::MAX ==> r == x + y, x + y > i64::MAX ==> r == i64::MAX, x + y < i64::MIN ==> r == i64::MIN;
pub assume_specification[ i64::saturating_sub ](x: i64, y: i64) -> (r: i64) ensures i64::MIN <= x - y <= i64::MAX ==> r == x - y, x - y > i64::MAX ==> r == i64::MAX, x - y < i64::MIN ==> r == i64::MIN;
pub assume_specification[ i64::saturating_neg ](x: i64) -> (r: i64) ensures x == i64::MIN ==> r == i64::MAX, x != i64::MIN ==> r == -x;
pub assume_specification[ i64::unsigned_abs ](x: i64) -> (r: u64) ensures r as int == (if x < 0 { -(x as int) } else { x as int });
pub assume_specification[ i64::checked_abs ](x: i64) -> (r: Option<i64>) ensures x == i64::MIN ==> r.is_none(), x != i64::MIN ==> r == Some((if x < 0 { -x } else { x as int }) as i64);
pub assume_specification[ i128::div_euclid ](x: i128, y: i128) -> (r: i128) requires y != 0, !(x == i128::MIN && y == -1), ensures y > 0 ==> r as int == (x as int) / (y as int);
pub assume_specification[ i128::rem_euclid ](x: i128, y: i128) -> (r: i128) requires y != 0, !(x == i128::MIN && y == -1), ensures y > 0 ==> r as int == (x as int) % (y as int), y < 0 ==> r as int == (x as int) % (-(y as int));
pub assume_specification[ i128::abs ](x: i128) -> (r: i128) requires x != i128::MIN, ensures r as int == (if x < 0 { -(x as int) } else { x as int });
pub assume_specification[ i128::signum ](x: i128) -> (r: i128) ensures r == (if x > 0 { 1int } else if x < 0 { -1int } else { 0int });
pub assume_specification[ i128::is_positive ](x: i128) -> (r: bool) ensures r == (x > 0);
pub assume_specification[ i128::is_negative ](x: i128) -> (r: bool) ensures r == (x < 0);
pub assume_specification[ i128::checked_neg ](x: i128) -> (r: Option<i128>) ensures x == i128::MIN ==> r.is_none(), x != i128::MIN ==> r == Some((-x) as i128);
pub assume_specification[ i128::saturating_add ](x: i128, y: i128) -> (r: i128) ensures i128::MIN <= x + y <= i128::MAX ==> r == x + y, x + y > i128::MAX ==> r == i128::MAX, x + y < i128::MIN ==> r == i128::MIN;
pub assume_specification[ i128::saturating_sub ](x: i128, y: i128) -> (r: i128) ensures i128::MIN <= x - y <= i128::MAX ==> r == x - y, x - y > i128::MAX ==> r == i128::MAX, x - y < i128::MIN ==> r == i128::MIN;
pub assume_specification[ i128::saturating_neg ](x: i128) -> (r: i128) ensures x == i128::MIN ==> r == i128::MAX, x != i128::MIN ==> r == -x;
pub assume_specification[ i128::unsigned_abs ](x: i128) -> (r: u128) ensures r as int == (if x < 0 { -(x as int) } else { x as int });
pub assume_specification[ i128::checked_abs ](x: i128) -> (r: Option<i128>) ensures x == i128::MIN ==> r.is_none(), x != i128::MIN ==> r == Some((if x < 0 { -x } else { x as int }) as i128);

// ---- include lib/rangeint.vrs ----
// GENERATED by lib/gen_rangeint.py -- the rangeint model (T2).  Do not edit by hand.
use vstd::std_specs::cmp::*;
use vstd::std_specs::ops::*;
use core::cmp::Ordering;

#[derive(Clone, Copy)]
pub struct Constant(pub i64);
#[allow(non_snake_case)]
pub fn C(v: i64) -> (r: ri64) ensures r.val == v { ri64 { val: v } }
#[allow(non_snake_case)]
pub fn C128(v: i64) -> (r: ri128) ensures r.val == v { ri128 { val: v as i128 } }
impl Constant {
    pub fn value(self) -> (r: i64) ensures r == self.0 { self.0 }
    pub fn bound(self) -> (r: i128) ensures r == self.0 { self.0 as i128 }
}
pub open spec fn int_cmp(a: int, b: int) -> Ordering { if a < b { Ordering::Less } else if a > b { Ordering::Greater } else { Ordering::Equal } }
/// truncating division / remainder (Rust `/`, `%` on primitives), b != 0
pub open spec fn tdiv(a: int, b: int) -> int {
    if b > 0 { if a >= 0 { a / b } else { -((-a) / b) } } else { if a >= 0 { -(a / (-b)) } else { (-a) / (-b) } }
}
pub open spec fn trem(a: int, b: int) -> int { a - tdiv(a, b) * b }

pub trait RInto<T>: Sized {
    spec fn rinto_spec(self) -> T;
    spec fn rinto_req(self) -> bool;
    fn rinto(self) -> (r: T) requires self.rinto_req() ensures r == self.rinto_spec();
}
pub trait RFrom<T>: Sized {
    spec fn rfrom_spec(t: T) -> Self;
    spec fn rfrom_req(t: T) -> bool;
    fn rfrom(t: T) -> (r: Self) requires Self::rfrom_req(t) ensures r == Self::rfrom_spec(t);
}


// ------------------------------------------------------------------ ri8
#[derive(Clone, Copy)]
pub struct ri8 { pub val: i8 }
impl ri8 {
    pub fn new_unchecked(val: i8) -> (r: Self) ensures r.val == val { ri8 { val } }
    pub fn get(self) -> (r: i8) ensures r == self.val { self.val }
    pub fn get_unchecked(self) -> (r: i8) ensures r == self.val { self.val }
    pub fn without_bounds(self) -> (r: Self) ensures r == self { self }
    // `T::N::<VAL>()` is rewritten to `T::verif_N(VAL)`: the constant VAL (release: `Self { val: VAL }`, no bound is consulted).
    // (Not modelled with a const generic: Verus 0.2026.09.13 derives `false` from a negative const generic argument.)
    pub const fn verif_N(v: i8) -> (r: Self) ensures r.val == v { ri8 { val: v } }
    #[verifier::external_body]
    pub fn abs(self) -> (r: Self)
        requires self.val > i8::MIN,
        ensures r.val == (if self.val < 0 { -self.val } else { self.val as int })
    { unimplemented!() }
    // real: returns `riN<-1, 1>` of the SAME width
    pub fn signum(self) -> (r: Self) ensures r.val == (if self.val < 0 { -1int } else if self.val > 0 { 1int } else { 0int })
    { if self.val < 0 { ri8 { val: -1 } } else if self.val > 0 { ri8 { val: 1 } } else { ri8 { val: 0 } } }
    pub fn min<R: RInto<Self>>(self, other: R) -> (r: Self)
        requires other.rinto_req(),
        ensures r.val == (if other.rinto_spec().val < self.val { other.rinto_spec().val } else { self.val })
    { let o = other.rinto(); if o.val < self.val { o } else { self } }
    pub fn max<R: RInto<Self>>(self, other: R) -> (r: Self)
        requires other.rinto_req(),
        ensures r.val == (if other.rinto_spec().val > self.val { other.rinto_spec().val } else { self.val })
    { let o = other.rinto(); if o.val > self.val { o } else { self } }
    // truncating
    #[verifier::external_body]
    pub fn div_ceil<R: RInto<Self>>(self, rhs: R) -> (r: Self)
        requires rhs.rinto_req(), rhs.rinto_spec().val != 0, !(self.val == i8::MIN && rhs.rinto_spec().val == -1),
        ensures r.val == tdiv(self.val as int, rhs.rinto_spec().val as int)
    { unimplemented!() }
    #[verifier::external_body]
    pub fn rem_ceil<R: RInto<Self>>(self, rhs: R) -> (r: Self)
        requires rhs.rinto_req(), rhs.rinto_spec().val != 0, !(self.val == i8::MIN && rhs.rinto_spec().val == -1),
        ensures r.val == trem(self.val as int, rhs.rinto_spec().val as int)
    { unimplemented!() }
    // Euclidean (divisor > 0 required here; every use in jiff divides by a positive quantity)
    #[verifier::external_body]
    pub fn div_floor<R: RInto<Self>>(self, rhs: R) -> (r: Self)
        requires rhs.rinto_req(), rhs.rinto_spec().val > 0,
        ensures r.val == (self.val as int) / (rhs.rinto_spec().val as int)
    { unimplemented!() }
    #[verifier::external_body]
    pub fn rem_floor<R: RInto<Self>>(self, rhs: R) -> (r: Self)
        requires rhs.rinto_req(), rhs.rinto_spec().val > 0,
        ensures r.val == (self.val as int) % (rhs.rinto_spec().val as int)
    { unimplemented!() }
    #[verifier::external_body]
    pub fn saturating_mul<R: RInto<Self>>(self, rhs: R) -> (r: Self)
        requires rhs.rinto_req(),
        ensures i8::MIN <= self.val * rhs.rinto_spec().val <= i8::MAX ==> r.val == self.val * rhs.rinto_spec().val,
                self.val * rhs.rinto_spec().val > i8::MAX ==> r.val == i8::MAX,
                self.val * rhs.rinto_spec().val < i8::MIN ==> r.val == i8::MIN,
    { unimplemented!() }
    #[verifier::external_body]
    pub fn saturating_add<R: RInto<Self>>(self, rhs: R) -> (r: Self)
        requires rhs.rinto_req(),
        ensures i8::MIN <= self.val + rhs.rinto_spec().val <= i8::MAX ==> r.val == self.val + rhs.rinto_spec().val,
                self.val + rhs.rinto_spec().val > i8::MAX ==> r.val == i8::MAX,
                self.val + rhs.rinto_spec().val < i8::MIN ==> r.val == i8::MIN,
    { unimplemented!() }
}
// `type Range = ri8<{ LO }, { HI }>; Range::try_new("what", v)`: the bounds of an anonymous range are passed explicitly
#[verifier::external_body]
pub fn verif_try_new_range_8(lo: i128, hi: i128, v: i64) -> (res: Result<ri8, Error>)
    requires i8::MIN <= lo, hi <= i8::MAX,
    ensures res.is_ok() <==> lo <= v <= hi, res.is_ok() ==> res.unwrap().val == v
{ unimplemented!() }
impl RInto<ri8> for ri8 {
    open spec fn rinto_spec(self) -> ri8 { self }
    open spec fn rinto_req(self) -> bool { true }
    fn rinto(self) -> (r: ri8) { self }
}
impl RFrom<ri8> for ri8 {
    open spec fn rfrom_spec(t: ri8) -> ri8 { t }
    open spec fn rfrom_req(t: ri8) -> bool { true }
    fn rfrom(t: ri8) -> (r: ri8) { t }
}
impl RInto<ri8> for Constant {
    open spec fn rinto_spec(self) -> ri8 { ri8 { val: self.0 as i8 } }
    open spec fn rinto_req(self) -> bool { i8::MIN <= self.0 <= i8::MAX }
    #[verifier::external_body]
    fn rinto(self) -> (r: ri8) { unimplemented!() }
}
impl RFrom<Constant> for ri8 {
    open spec fn rfrom_spec(t: Constant) -> ri8 { ri8 { val: t.0 as i8 } }
    open spec fn rfrom_req(t: Constant) -> bool { i8::MIN <= t.0 <= i8::MAX }
    #[verifier::external_body]
    fn rfrom(t: Constant) -> (r: ri8) { unimplemented!() }
}
impl RInto<i8> for ri8 {
    open spec fn rinto_spec(self) -> i8 { self.val }
    open spec fn rinto_req(self) -> bool { true }
    fn rinto(self) -> (r: i8) { self.val }
}

impl PartialEqSpecImpl<ri8> for ri8 {
    open spec fn obeys_eq_spec() -> bool { true }
    open spec fn eq_spec(&self, other: &ri8) -> bool { self.val == other.val }
}
impl PartialEq<ri8> for ri8 {
    #[verifier::external_body]
    fn eq(&self, other: &ri8) -> bool { unimplemented!() }
}
impl PartialOrdSpecImpl<ri8> for ri8 {
    open spec fn obeys_partial_cmp_spec() -> bool { true }
    open spec fn partial_cmp_spec(&self, other: &ri8) -> Option<Ordering> { Some(int_cmp(self.val as int, other.val as int)) }
}
impl PartialOrd<ri8> for ri8 {
    #[verifier::external_body]
    fn partial_cmp(&self, other: &ri8) -> Option<Ordering> { unimplemented!() }
}

impl PartialEqSpecImpl<Constant> for ri8 {
    open spec fn obeys_eq_spec() -> bool { true }
    open spec fn eq_spec(&self, other: &Constant) -> bool { self.val == other.0 }
}
impl PartialEq<Constant> for ri8 {
    #[verifier::external_body]
    fn eq(&self, other: &Constant) -> bool { unimplemented!() }
}
impl PartialOrdSpecImpl<Constant> for ri8 {
    open spec fn obeys_partial_cmp_spec() -> bool { true }
    open spec fn partial_cmp_spec(&self, other: &Constant) -> Option<Ordering> { Some(int_cmp(self.val as int, other.0 as int)) }
}
impl PartialOrd<Constant> for ri8 {
    #[verifier::external_body]
    fn partial_cmp(&self, other: &Constant) -> Option<Ordering> { unimplemented!() }
}

impl PartialEqSpecImpl<ri16> for ri8 {
    open spec fn obeys_eq_spec() -> bool { true }
    open spec fn eq_spec(&self, other: &ri16) -> bool { self.val == other.val }
}
impl PartialEq<ri16> for ri8 {
    #[verifier::external_body]
    fn eq(&self, other: &ri16) -> bool { unimplemented!() }
}
impl PartialOrdSpecImpl<ri16> for ri8 {
    open spec fn obeys_partial_cmp_spec() -> bool { true }
    open spec fn partial_cmp_spec(&self, other: &ri16) -> Option<Ordering> { Some(int_cmp(self.val as int, other.val as int)) }
}
impl PartialOrd<ri16> for ri8 {
    #[verifier::external_body]
    fn partial_cmp(&self, other: &ri16) -> Option<Ordering> { unimplemented!() }
}

impl PartialEqSpecImpl<ri32> for ri8 {
    open spec fn obeys_eq_spec() -> bool { true }
    open spec fn eq_spec(&self, other: &ri32) -> bool { self.val == other.val }
}
impl PartialEq<ri32> for ri8 {
    #[verifier::external_body]
    fn eq(&self, other: &ri32) -> bool { unimplemented!() }
}
impl PartialOrdSpecImpl<ri32> for ri8 {
    open spec fn obeys_partial_cmp_spec() -> bool { true }
    open spec fn partial_cmp_spec(&self, other: &ri32) -> Option<Ordering> { Some(int_cmp(self.val as int, other.val as int)) }
}
impl PartialOrd<ri32> for ri8 {
    #[verifier::external_body]
    fn partial_cmp(&self, other: &ri32) -> Option<Ordering> { unimplemented!() }
}

impl PartialEqSpecImpl<ri64> for ri8 {
    open spec fn obeys_eq_spec() -> bool { true }
    open spec fn eq_spec(&self, other: &ri64) -> bool { self.val == other.val }
}
impl PartialEq<ri64> for ri8 {
    #[verifier::external_body]
    fn eq(&self, other: &ri64) -> bool { unimplemented!() }
}
impl PartialOrdSpecImpl<ri64> for ri8 {
    open spec fn obeys_partial_cmp_spec() -> bool { true }
    open spec fn partial_cmp_spec(&self, other: &ri64) -> Option<Ordering> { Some(int_cmp(self.val as int, other.val as int)) }
}
impl PartialOrd<ri64> for ri8 {
    #[verifier::external_body]
    fn partial_cmp(&self, other: &ri64) -> Option<Ordering> { unimplemented!() }
}

impl PartialEqSpecImpl<ri128> for ri8 {
    open spec fn obeys_eq_spec() -> bool { true }
    open spec fn eq_spec(&self, other: &ri128) -> bool { self.val == other.val }
}
impl PartialEq<ri128> for ri8 {
    #[verifier::external_body]
    fn eq(&self, other: &ri128) -> bool { unimplemented!() }
}
impl PartialOrdSpecImpl<ri128> for ri8 {
    open spec fn obeys_partial_cmp_spec() -> bool { true }
    open spec fn partial_cmp_spec(&self, other: &ri128) -> Option<Ordering> { Some(int_cmp(self.val as int, other.val as int)) }
}
impl PartialOrd<ri128> for ri8 {
    #[verifier::external_body]
    fn partial_cmp(&self, other: &ri128) -> Option<Ordering> { unimplemented!() }
}

impl AddSpecImpl<ri8> for ri8 {
    open spec fn obeys_add_spec() -> bool { true }
    open spec fn add_req(self, rhs: ri8) -> bool { i8::MIN <= self.val + rhs.val <= i8::MAX }
    open spec fn add_spec(self, rhs: ri8) -> ri8 { ri8 { val: (self.val + rhs.val) as i8 } }
}
impl core::ops::Add<ri8> for ri8 {
    type Output = ri8;
    #[verifier::external_body]
    fn add(self, rhs: ri8) -> ri8 { unimplemented!() }
}
impl AddAssignSpecImpl<ri8> for ri8 {
    open spec fn obeys_add_assign_spec() -> bool { true }
    open spec fn add_assign_req(&self, rhs: ri8) -> bool { i8::MIN <= self.val + rhs.val <= i8::MAX }
    open spec fn add_assign_spec(&self, rhs: ri8) -> &ri8 { &ri8 { val: (self.val + rhs.val) as i8 } }
}
impl core::ops::AddAssign<ri8> for ri8 {
    #[verifier::external_body]
    fn add_assign(&mut self, rhs: ri8) { unimplemented!() }
}

impl SubSpecImpl<ri8> for ri8 {
    open spec fn obeys_sub_spec() -> bool { true }
    open spec fn sub_req(self, rhs: ri8) -> bool { i8::MIN <= self.val - rhs.val <= i8::MAX }
    open spec fn sub_spec(self, rhs: ri8) -> ri8 { ri8 { val: (self.val - rhs.val) as i8 } }
}
impl core::ops::Sub<ri8> for ri8 {
    type Output = ri8;
    #[verifier::external_body]
    fn sub(self, rhs: ri8) -> ri8 { unimplemented!() }
}
impl SubAssignSpecImpl<ri8> for ri8 {
    open spec fn obeys_sub_assign_spec() -> bool { true }
    open spec fn sub_assign_req(&self, rhs: ri8) -> bool { i8::MIN <= self.val - rhs.val <= i8::MAX }
    open spec fn sub_assign_spec(&self, rhs: ri8) -> &ri8 { &ri8 { val: (self.val - rhs.val) as i8 } }
}
impl core::ops::SubAssign<ri8> for ri8 {
    #[verifier::external_body]
    fn sub_assign(&mut self, rhs: ri8) { unimplemented!() }
}

impl MulSpecImpl<ri8> for ri8 {
    open spec fn obeys_mul_spec() -> bool { true }
    open spec fn mul_req(self, rhs: ri8) -> bool { i8::MIN <= self.val * rhs.val <= i8::MAX }
    open spec fn mul_spec(self, rhs: ri8) -> ri8 { ri8 { val: (self.val * rhs.val) as i8 } }
}
impl core::ops::Mul<ri8> for ri8 {
    type Output = ri8;
    #[verifier::external_body]
    fn mul(self, rhs: ri8) -> ri8 { unimplemented!() }
}
impl MulAssignSpecImpl<ri8> for ri8 {
    open spec fn obeys_mul_assign_spec() -> bool { true }
    open spec fn mul_assign_req(&self, rhs: ri8) -> bool { i8::MIN <= self.val * rhs.val <= i8::MAX }
    open spec fn mul_assign_spec(&self, rhs: ri8) -> &ri8 { &ri8 { val: (self.val * rhs.val) as i8 } }
}
impl core::ops::MulAssign<ri8> for ri8 {
    #[verifier::external_body]
    fn mul_assign(&mut self, rhs: ri8) { unimplemented!() }
}

impl DivSpecImpl<ri8> for ri8 {
    open spec fn obeys_div_spec() -> bool { true }
    open spec fn div_req(self, rhs: ri8) -> bool { rhs.val > 0 }
    open spec fn div_spec(self, rhs: ri8) -> ri8 { ri8 { val: (self.val as int / rhs.val as int) as i8 } }
}
impl core::ops::Div<ri8> for ri8 {
    type Output = ri8;
    #[verifier::external_body]
    fn div(self, rhs: ri8) -> ri8 { unimplemented!() }
}
impl RemSpecImpl<ri8> for ri8 {
    open spec fn obeys_rem_spec() -> bool { true }
    open spec fn rem_req(self, rhs: ri8) -> bool { rhs.val > 0 }
    open spec fn rem_spec(self, rhs: ri8) -> ri8 { ri8 { val: (self.val as int % rhs.val as int) as i8 } }
}
impl core::ops::Rem<ri8> for ri8 {
    type Output = ri8;
    #[verifier::external_body]
    fn rem(self, rhs: ri8) -> ri8 { unimplemented!() }
}

impl AddSpecImpl<Constant> for ri8 {
    open spec fn obeys_add_spec() -> bool { true }
    open spec fn add_req(self, rhs: Constant) -> bool { i8::MIN <= self.val + rhs.0 <= i8::MAX }
    open spec fn add_spec(self, rhs: Constant) -> ri8 { ri8 { val: (self.val + rhs.0) as i8 } }
}
impl core::ops::Add<Constant> for ri8 {
    type Output = ri8;
    #[verifier::external_body]
    fn add(self, rhs: Constant) -> ri8 { unimplemented!() }
}
impl AddAssignSpecImpl<Constant> for ri8 {
    open spec fn obeys_add_assign_spec() -> bool { true }
    open spec fn add_assign_req(&self, rhs: Constant) -> bool { i8::MIN <= self.val + rhs.0 <= i8::MAX }
    open spec fn add_assign_spec(&self, rhs: Constant) -> &ri8 { &ri8 { val: (self.val + rhs.0) as i8 } }
}
impl core::ops::AddAssign<Constant> for ri8 {
    #[verifier::external_body]
    fn add_assign(&mut self, rhs: Constant) { unimplemented!() }
}

impl SubSpecImpl<Constant> for ri8 {
    open spec fn obeys_sub_spec() -> bool { true }
    open spec fn sub_req(self, rhs: Constant) -> bool { i8::MIN <= self.val - rhs.0 <= i8::MAX }
    open spec fn sub_spec(self, rhs: Constant) -> ri8 { ri8 { val: (self.val - rhs.0) as i8 } }
}
impl core::ops::Sub<Constant> for ri8 {
    type Output = ri8;
    #[verifier::external_body]
    fn sub(self, rhs: Constant) -> ri8 { unimplemented!() }
}
impl SubAssignSpecImpl<Constant> for ri8 {
    open spec fn obeys_sub_assign_spec() -> bool { true }
    open spec fn sub_assign_req(&self, rhs: Constant) -> bool { i8::MIN <= self.val - rhs.0 <= i8::MAX }
    open spec fn sub_assign_spec(&self, rhs: Constant) -> &ri8 { &ri8 { val: (self.val - rhs.0) as i8 } }
}
impl core::ops::SubAssign<Constant> for ri8 {
    #[verifier::external_body]
    fn sub_assign(&mut self, rhs: Constant) { unimplemented!() }
}

impl MulSpecImpl<Constant> for ri8 {
    open spec fn obeys_mul_spec() -> bool { true }
    open spec fn mul_req(self, rhs: Constant) -> bool { i8::MIN <= self.val * rhs.0 <= i8::MAX }
    open spec fn mul_spec(self, rhs: Constant) -> ri8 { ri8 { val: (self.val * rhs.0) as i8 } }
}
impl core::ops::Mul<Constant> for ri8 {
    type Output = ri8;
    #[verifier::external_body]
    fn mul(self, rhs: Constant) -> ri8 { unimplemented!() }
}
impl MulAssignSpecImpl<Constant> for ri8 {
    open spec fn obeys_mul_assign_spec() -> bool { true }
    open spec fn mul_assign_req(&self, rhs: Constant) -> bool { i8::MIN <= self.val * rhs.0 <= i8::MAX }
    open spec fn mul_assign_spec(&self, rhs: Constant) -> &ri8 { &ri8 { val: (self.val * rhs.0) as i8 } }
}
impl core::ops::MulAssign<Constant> for ri8 {
    #[verifier::external_body]
    fn mul_assign(&mut self, rhs: Constant) { unimplemented!() }
}

impl DivSpecImpl<Constant> for ri8 {
    open spec fn obeys_div_spec() -> bool { true }
    open spec fn div_req(self, rhs: Constant) -> bool { rhs.0 > 0 }
    open spec fn div_spec(self, rhs: Constant) -> ri8 { ri8 { val: (self.val as int / rhs.0 as int) as i8 } }
}
impl core::ops::Div<Constant> for ri8 {
    type Output = ri8;
    #[verifier::external_body]
    fn div(self, rhs: Constant) -> ri8 { unimplemented!() }
}
impl RemSpecImpl<Constant> for ri8 {
    open spec fn obeys_rem_spec() -> bool { true }
    open spec fn rem_req(self, rhs: Constant) -> bool { rhs.0 > 0 }
    open spec fn rem_spec(self, rhs: Constant) -> ri8 { ri8 { val: (self.val as int % rhs.0 as int) as i8 } }
}
impl core::ops::Rem<Constant> for ri8 {
    type Output = ri8;
    #[verifier::external_body]
    fn rem(self, rhs: Constant) -> ri8 { unimplemented!() }
}

impl AddSpecImpl<ri16> for ri8 {
    open spec fn obeys_add_spec() -> bool { true }
    open spec fn add_req(self, rhs: ri16) -> bool { i8::MIN <= self.val + rhs.val <= i8::MAX }
    open spec fn add_spec(self, rhs: ri16) -> ri8 { ri8 { val: (self.val + rhs.val) as i8 } }
}
impl core::ops::Add<ri16> for ri8 {
    type Output = ri8;
    #[verifier::external_body]
    fn add(self, rhs: ri16) -> ri8 { unimplemented!() }
}
impl AddAssignSpecImpl<ri16> for ri8 {
    open spec fn obeys_add_assign_spec() -> bool { true }
    open spec fn add_assign_req(&self, rhs: ri16) -> bool { i8::MIN <= self.val + rhs.val <= i8::MAX }
    open spec fn add_assign_spec(&self, rhs: ri16) -> &ri8 { &ri8 { val: (self.val + rhs.val) as i8 } }
}
impl core::ops::AddAssign<ri16> for ri8 {
    #[verifier::external_body]
    fn add_assign(&mut self, rhs: ri16) { unimplemented!() }
}

impl SubSpecImpl<ri16> for ri8 {
    open spec fn obeys_sub_spec() -> bool { true }
    open spec fn sub_req(self, rhs: ri16) -> bool { i8::MIN <= self.val - rhs.val <= i8::MAX }
    open spec fn sub_spec(self, rhs: ri16) -> ri8 { ri8 { val: (self.val - rhs.val) as i8 } }
}
impl core::ops::Sub<ri16> for ri8 {
    type Output = ri8;
    #[verifier::external_body]
    fn sub(self, rhs: ri16) -> ri8 { unimplemented!() }
}
impl SubAssignSpecImpl<ri16> for ri8 {
    open spec fn obeys_sub_assign_spec() -> bool { true }
    open spec fn sub_assign_req(&self, rhs: ri16) -> bool { i8::MIN <= self.val - rhs.val <= i8::MAX }
    open spec fn sub_assign_spec(&self, rhs: ri16) -> &ri8 { &ri8 { val: (self.val - rhs.val) as i8 } }
}
impl core::ops::SubAssign<ri16> for ri8 {
    #[verifier::external_body]
    fn sub_assign(&mut self, rhs: ri16) { unimplemented!() }
}

impl MulSpecImpl<ri16> for ri8 {
    open spec fn obeys_mul_spec() -> bool { true }
    open spec fn mul_req(self, rhs: ri16) -> bool { i8::MIN <= self.val * rhs.val <= i8::MAX }
    open spec fn mul_spec(self, rhs: ri16) -> ri8 { ri8 { val: (self.val * rhs.val) as i8 } }
}
impl core::ops::Mul<ri16> for ri8 {
    type Output = ri8;
    #[verifier::external_body]
    fn mul(self, rhs: ri16) -> ri8 { unimplemented!() }
}
impl MulAssignSpecImpl<ri16> for ri8 {
    open spec fn obeys_mul_assign_spec() -> bool { true }
    open spec fn mul_assign_req(&self, rhs: ri16) -> bool { i8::MIN <= self.val * rhs.val <= i8::MAX }
    open spec fn mul_assign_spec(&self, rhs: ri16) -> &ri8 { &ri8 { val: (self.val * rhs.val) as i8 } }
}
impl core::ops::MulAssign<ri16> for ri8 {
    #[verifier::external_body]
    fn mul_assign(&mut self, rhs: ri16) { unimplemented!() }
}

impl DivSpecImpl<ri16> for ri8 {
    open spec fn obeys_div_spec() -> bool { true }
    open spec fn div_req(self, rhs: ri16) -> bool { rhs.val > 0 }
    open spec fn div_spec(self, rhs: ri16) -> ri8 { ri8 { val: (self.val as int / rhs.val as int) as i8 } }
}
impl core::ops::Div<ri16> for ri8 {
    type Output = ri8;
    #[verifier::external_body]
    fn div(self, rhs: ri16) -> ri8 { unimplemented!() }
}
impl RemSpecImpl<ri16> for ri8 {
    open spec fn obeys_rem_spec() -> bool { true }
    open spec fn rem_req(self, rhs: ri16) -> bool { rhs.val > 0 }
    open spec fn rem_spec(self, rhs: ri16) -> ri8 { ri8 { val: (self.val as int % rhs.val as int) as i8 } }
}
impl core::ops::Rem<ri16> for ri8 {
    type Output = ri8;
    #[verifier::external_body]
    fn rem(self, rhs: ri16) -> ri8 { unimplemented!() }
}

impl AddSpecImpl<ri32> for ri8 {
    open spec fn obeys_add_spec() -> bool { true }
    open spec fn add_req(self, rhs: ri32) -> bool { i8::MIN <= self.val + rhs.val <= i8::MAX }
    open spec fn add_spec(self, rhs: ri32) -> ri8 { ri8 { val: (self.val + rhs.val) as i8 } }
}
impl core::ops::Add<ri32> for ri8 {
    type Output = ri8;
    #[verifier::external_body]
    fn add(self, rhs: ri32) -> ri8 { unimplemented!() }
}
impl AddAssignSpecImpl<ri32> for ri8 {
    open spec fn obeys_add_assign_spec() -> bool { true }
    open spec fn add_assign_req(&self, rhs: ri32) -> bool { i8::MIN <= self.val + rhs.val <= i8::MAX }
    open spec fn add_assign_spec(&self, rhs: ri32) -> &ri8 { &ri8 { val: (self.val + rhs.val) as i8 } }
}
impl core::ops::AddAssign<ri32> for ri8 {
    #[verifier::external_body]
    fn add_assign(&mut self, rhs: ri32) { unimplemented!() }
}

impl SubSpecImpl<ri32> for ri8 {
    open spec fn obeys_sub_spec() -> bool { true }
    open spec fn sub_req(self, rhs: ri32) -> bool { i8::MIN <= self.val - rhs.val <= i8::MAX }
    open spec fn sub_spec(self, rhs: ri32) -> ri8 { ri8 { val: (self.val - rhs.val) as i8 } }
}
impl core::ops::Sub<ri32> for ri8 {
    type Output = ri8;
    #[verifier::external_body]
    fn sub(self, rhs: ri32) -> ri8 { unimplemented!() }
}
impl SubAssignSpecImpl<ri32> for ri8 {
    open spec fn obeys_sub_assign_spec() -> bool { true }
    open spec fn sub_assign_req(&self, rhs: ri32) -> bool { i8::MIN <= self.val - rhs.val <= i8::MAX }
    open spec fn sub_assign_spec(&self, rhs: ri32) -> &ri8 { &ri8 { val: (self.val - rhs.val) as i8 } }
}
impl core::ops::SubAssign<ri32> for ri8 {
    #[verifier::external_body]
    fn sub_assign(&mut self, rhs: ri32) { unimplemented!() }
}

impl MulSpecImpl<ri32> for ri8 {
    open spec fn obeys_mul_spec() -> bool { true }
    open spec fn mul_req(self, rhs: ri32) -> bool { i8::MIN <= self.val * rhs.val <= i8::MAX }
    open spec fn mul_spec(self, rhs: ri32) -> ri8 { ri8 { val: (self.val * rhs.val) as i8 } }
}
impl core::ops::Mul<ri32> for ri8 {
    type Output = ri8;
    #[verifier::external_body]
    fn mul(self, rhs: ri32) -> ri8 { unimplemented!() }
}
impl MulAssignSpecImpl<ri32> for ri8 {
    open spec fn obeys_mul_assign_spec() -> bool { true }
    open spec fn mul_assign_req(&self, rhs: ri32) -> bool { i8::MIN <= self.val * rhs.val <= i8::MAX }
    open spec fn mul_assign_spec(&self, rhs: ri32) -> &ri8 { &ri8 { val: (self.val * rhs.val) as i8 } }
}
impl core::ops::MulAssign<ri32> for ri8 {
    #[verifier::external_body]
    fn mul_assign(&mut self, rhs: ri32) { unimplemented!() }
}

impl DivSpecImpl<ri32> for ri8 {
    open spec fn obeys_div_spec() -> bool { true }
    open spec fn div_req(self, rhs: ri32) -> bool { rhs.val > 0 }
    open spec fn div_spec(self, rhs: ri32) -> ri8 { ri8 { val: (self.val as int / rhs.val as int) as i8 } }
}
impl core::ops::Div<ri32> for ri8 {
    type Output = ri8;
    #[verifier::external_body]
    fn div(self, rhs: ri32) -> ri8 { unimplemented!() }
}
impl RemSpecImpl<ri32> for ri8 {
    open spec fn obeys_rem_spec() -> bool { true }
    open spec fn rem_req(self, rhs: ri32) -> bool { rhs.val > 0 }
    open spec fn rem_spec(self, rhs: ri32) -> ri8 { ri8 { val: (self.val as int % rhs.val as int) as i8 } }
}
impl core::ops::Rem<ri32> for ri8 {
    type Output = ri8;
    #[verifier::external_body]
    fn rem(self, rhs: ri32) -> ri8 { unimplemented!() }
}

impl AddSpecImpl<ri64> for ri8 {
    open spec fn obeys_add_spec() -> bool { true }
    open spec fn add_req(self, rhs: ri64) -> bool { i8::MIN <= self.val + rhs.val <= i8::MAX }
    open spec fn add_spec(self, rhs: ri64) -> ri8 { ri8 { val: (self.val + rhs.val) as i8 } }
}
impl core::ops::Add<ri64> for ri8 {
    type Output = ri8;
    #[verifier::external_body]
    fn add(self, rhs: ri64) -> ri8 { unimplemented!() }
}
impl AddAssignSpecImpl<ri64> for ri8 {
    open spec fn obeys_add_assign_spec() -> bool { true }
    open spec fn add_assign_req(&self, rhs: ri64) -> bool { i8::MIN <= self.val + rhs.val <= i8::MAX }
    open spec fn add_assign_spec(&self, rhs: ri64) -> &ri8 { &ri8 { val: (self.val + rhs.val) as i8 } }
}
impl core::ops::AddAssign<ri64> for ri8 {
    #[verifier::external_body]
    fn add_assign(&mut self, rhs: ri64) { unimplemented!() }
}

impl SubSpecImpl<ri64> for ri8 {
    open spec fn obeys_sub_spec() -> bool { true }
    open spec fn sub_req(self, rhs: ri64) -> bool { i8::MIN <= self.val - rhs.val <= i8::MAX }
    open spec fn sub_spec(self, rhs: ri64) -> ri8 { ri8 { val: (self.val - rhs.val) as i8 } }
}
impl core::ops::Sub<ri64> for ri8 {
    type Output = ri8;
    #[verifier::external_body]
    fn sub(self, rhs: ri64) -> ri8 { unimplemented!() }
}
impl SubAssignSpecImpl<ri64> for ri8 {
    open spec fn obeys_sub_assign_spec() -> bool { true }
    open spec fn sub_assign_req(&self, rhs: ri64) -> bool { i8::MIN <= self.val - rhs.val <= i8::MAX }
    open spec fn sub_assign_spec(&self, rhs: ri64) -> &ri8 { &ri8 { val: (self.val - rhs.val) as i8 } }
}
impl core::ops::SubAssign<ri64> for ri8 {
    #[verifier::external_body]
    fn sub_assign(&mut self, rhs: ri64) { unimplemented!() }
}

impl MulSpecImpl<ri64> for ri8 {
    open spec fn obeys_mul_spec() -> bool { true }
    open spec fn mul_req(self, rhs: ri64) -> bool { i8::MIN <= self.val * rhs.val <= i8::MAX }
    open spec fn mul_spec(self, rhs: ri64) -> ri8 { ri8 { val: (self.val * rhs.val) as i8 } }
}
impl core::ops::Mul<ri64> for ri8 {
    type Output = ri8;
    #[verifier::external_body]
    fn mul(self, rhs: ri64) -> ri8 { unimplemented!() }
}
impl MulAssignSpecImpl<ri64> for ri8 {
    open spec fn obeys_mul_assign_spec() -> bool { true }
    open spec fn mul_assign_req(&self, rhs: ri64) -> bool { i8::MIN <= self.val * rhs.val <= i8::MAX }
    open spec fn mul_assign_spec(&self, rhs: ri64) -> &ri8 { &ri8 { val: (self.val * rhs.val) as i8 } }
}
impl core::ops::MulAssign<ri64> for ri8 {
    #[verifier::external_body]
    fn mul_assign(&mut self, rhs: ri64) { unimplemented!() }
}

impl DivSpecImpl<ri64> for ri8 {
    open spec fn obeys_div_spec() -> bool { true }
    open spec fn div_req(self, rhs: ri64) -> bool { rhs.val > 0 }
    open spec fn div_spec(self, rhs: ri64) -> ri8 { ri8 { val: (self.val as int / rhs.val as int) as i8 } }
}
impl core::ops::Div<ri64> for ri8 {
    type Output = ri8;
    #[verifier::external_body]
    fn div(self, rhs: ri64) -> ri8 { unimplemented!() }
}
impl RemSpecImpl<ri64> for ri8 {
    open spec fn obeys_rem_spec() -> bool { true }
    open spec fn rem_req(self, rhs: ri64) -> bool { rhs.val > 0 }
    open spec fn rem_spec(self, rhs: ri64) -> ri8 { ri8 { val: (self.val as int % rhs.val as int) as i8 } }
}
impl core::ops::Rem<ri64> for ri8 {
    type Output = ri8;
    #[verifier::external_body]
    fn rem(self, rhs: ri64) -> ri8 { unimplemented!() }
}

impl AddSpecImpl<ri128> for ri8 {
    open spec fn obeys_add_spec() -> bool { true }
    open spec fn add_req(self, rhs: ri128) -> bool { i8::MIN <= self.val + rhs.val <= i8::MAX }
    open spec fn add_spec(self, rhs: ri128) -> ri8 { ri8 { val: (self.val + rhs.val) as i8 } }
}
impl core::ops::Add<ri128> for ri8 {
    type Output = ri8;
    #[verifier::external_body]
    fn add(self, rhs: ri128) -> ri8 { unimplemented!() }
}
impl AddAssignSpecImpl<ri128> for ri8 {
    open spec fn obeys_add_assign_spec() -> bool { true }
    open spec fn add_assign_req(&self, rhs: ri128) -> bool { i8::MIN <= self.val + rhs.val <= i8::MAX }
    open spec fn add_assign_spec(&self, rhs: ri128) -> &ri8 { &ri8 { val: (self.val + rhs.val) as i8 } }
}
impl core::ops::AddAssign<ri128> for ri8 {
    #[verifier::external_body]
    fn add_assign(&mut self, rhs: ri128) { unimplemented!() }
}

impl SubSpecImpl<ri128> for ri8 {
    open spec fn obeys_sub_spec() -> bool { true }
    open spec fn sub_req(self, rhs: ri128) -> bool { i8::MIN <= self.val - rhs.val <= i8::MAX }
    open spec fn sub_spec(self, rhs: ri128) -> ri8 { ri8 { val: (self.val - rhs.val) as i8 } }
}
impl core::ops::Sub<ri128> for ri8 {
    type Output = ri8;
    #[verifier::external_body]
    fn sub(self, rhs: ri128) -> ri8 { unimplemented!() }
}
impl SubAssignSpecImpl<ri128> for ri8 {
    open spec fn obeys_sub_assign_spec() -> bool { true }
    open spec fn sub_assign_req(&self, rhs: ri128) -> bool { i8::MIN <= self.val - rhs.val <= i8::MAX }
    open spec fn sub_assign_spec(&self, rhs: ri128) -> &ri8 { &ri8 { val: (self.val - rhs.val) as i8 } }
}
impl core::ops::SubAssign<ri128> for ri8 {
    #[verifier::external_body]
    fn sub_assign(&mut self, rhs: ri128) { unimplemented!() }
}

impl MulSpecImpl<ri128> for ri8 {
    open spec fn obeys_mul_spec() -> bool { true }
    open spec fn mul_req(self, rhs: ri128) -> bool { i8::MIN <= self.val * rhs.val <= i8::MAX }
    open spec fn mul_spec(self, rhs: ri128) -> ri8 { ri8 { val: (self.val * rhs.val) as i8 } }
}
impl core::ops::Mul<ri128> for ri8 {
    type Output = ri8;
    #[verifier::external_body]
    fn mul(self, rhs: ri128) -> ri8 { unimplemented!() }
}
impl MulAssignSpecImpl<ri128> for ri8 {
    open spec fn obeys_mul_assign_spec() -> bool { true }
    open spec fn mul_assign_req(&self, rhs: ri128) -> bool { i8::MIN <= self.val * rhs.val <= i8::MAX }
    open spec fn mul_assign_spec(&self, rhs: ri128) -> &ri8 { &ri8 { val: (self.val * rhs.val) as i8 } }
}
impl core::ops::MulAssign<ri128> for ri8 {
    #[verifier::external_body]
    fn mul_assign(&mut self, rhs: ri128) { unimplemented!() }
}

impl DivSpecImpl<ri128> for ri8 {
    open spec fn obeys_div_spec() -> bool { true }
    open spec fn div_req(self, rhs: ri128) -> bool { rhs.val > 0 }
    open spec fn div_spec(self, rhs: ri128) -> ri8 { ri8 { val: (self.val as int / rhs.val as int) as i8 } }
}
impl core::ops::Div<ri128> for ri8 {
    type Output = ri8;
    #[verifier::external_body]
    fn div(self, rhs: ri128) -> ri8 { unimplemented!() }
}
impl RemSpecImpl<ri128> for ri8 {
    open spec fn obeys_rem_spec() -> bool { true }
    open spec fn rem_req(self, rhs: ri128) -> bool { rhs.val > 0 }
    open spec fn rem_spec(self, rhs: ri128) -> ri8 { ri8 { val: (self.val as int % rhs.val as int) as i8 } }
}
impl core::ops::Rem<ri128> for ri8 {
    type Output = ri8;
    #[verifier::external_body]
    fn rem(self, rhs: ri128) -> ri8 { unimplemented!() }
}

impl NegSpecImpl for ri8 {
    open spec fn obeys_neg_spec() -> bool { true }
    open spec fn neg_req(self) -> bool { self.val > i8::MIN }
    open spec fn neg_spec(self) -> ri8 { ri8 { val: (-self.val) as i8 } }
}
impl core::ops::Neg for ri8 {
    type Output = ri8;
    #[verifier::external_body]
    fn neg(self) -> ri8 { unimplemented!() }
}


// ------------------------------------------------------------------ ri16
#[derive(Clone, Copy)]
pub struct ri16 { pub val: i16 }
impl ri16 {
    pub fn new_unchecked(val: i16) -> (r: Self) ensures r.val == val { ri16 { val } }
    pub fn get(self) -> (r: i16) ensures r == self.val { self.val }
    pub fn get_unchecked(self) -> (r: i16) ensures r == self.val { self.val }
    pub fn without_bounds(self) -> (r: Self) ensures r == self { self }
    // `T::N::<VAL>()` is rewritten to `T::verif_N(VAL)`: the constant VAL (release: `Self { val: VAL }`, no bound is consulted).
    // (Not modelled with a const generic: Verus 0.2026.09.13 derives `false` from a negative const generic argument.)
    pub const fn verif_N(v: i16) -> (r: Self) ensures r.val == v { ri16 { val: v } }
    #[verifier::external_body]
    pub fn abs(self) -> (r: Self)
        requires self.val > i16::MIN,
        ensures r.val == (if self.val < 0 { -self.val } else { self.val as int })
    { unimplemented!() }
    // real: returns `riN<-1, 1>` of the SAME width
    pub fn signum(self) -> (r: Self) ensures r.val == (if self.val < 0 { -1int } else if self.val > 0 { 1int } else { 0int })
    { if self.val < 0 { ri16 { val: -1 } } else if self.val > 0 { ri16 { val: 1 } } else { ri16 { val: 0 } } }
    pub fn min<R: RInto<Self>>(self, other: R) -> (r: Self)
        requires other.rinto_req(),
        ensures r.val == (if other.rinto_spec().val < self.val { other.rinto_spec().val } else { self.val })
    { let o = other.rinto(); if o.val < self.val { o } else { self } }
    pub fn max<R: RInto<Self>>(self, other: R) -> (r: Self)
        requires other.rinto_req(),
        ensures r.val == (if other.rinto_spec().val > self.val { other.rinto_spec().val } else { self.val })
    { let o = other.rinto(); if o.val > self.val { o } else { self } }
    // truncating
    #[verifier::external_body]
    pub fn div_ceil<R: RInto<Self>>(self, rhs: R) -> (r: Self)
        requires rhs.rinto_req(), rhs.rinto_spec().val != 0, !(self.val == i16::MIN && rhs.rinto_spec().val == -1),
        ensures r.val == tdiv(self.val as int, rhs.rinto_spec().val as int)
    { unimplemented!() }
    #[verifier::external_body]
    pub fn rem_ceil<R: RInto<Self>>(self, rhs: R) -> (r: Self)
        requires rhs.rinto_req(), rhs.rinto_spec().val != 0, !(self.val == i16::MIN && rhs.rinto_spec().val == -1),
        ensures r.val == trem(self.val as int, rhs.rinto_spec().val as int)
    { unimplemented!() }
    // Euclidean (divisor > 0 required here; every use in jiff divides by a positive quantity)
    #[verifier::external_body]
    pub fn div_floor<R: RInto<Self>>(self, rhs: R) -> (r: Self)
        requires rhs.rinto_req(), rhs.rinto_spec().val > 0,
        ensures r.val == (self.val as int) / (rhs.rinto_spec().val as int)
    { unimplemented!() }
    #[verifier::external_body]
    pub fn rem_floor<R: RInto<Self>>(self, rhs: R) -> (r: Self)
        requires rhs.rinto_req(), rhs.rinto_spec().val > 0,
        ensures r.val == (self.val as int) % (rhs.rinto_spec().val as int)
    { unimplemented!() }
    #[verifier::external_body]
    pub fn saturating_mul<R: RInto<Self>>(self, rhs: R) -> (r: Self)
        requires rhs.rinto_req(),
        ensures i16::MIN <= self.val * rhs.rinto_spec().val <= i16::MAX ==> r.val == self.val * rhs.rinto_spec().val,
                self.val * rhs.rinto_spec().val > i16::MAX ==> r.val == i16::MAX,
                self.val * rhs.rinto_spec().val < i16::MIN ==> r.val == i16::MIN,
    { unimplemented!() }
    #[verifier::external_body]
    pub fn saturating_add<R: RInto<Self>>(self, rhs: R) -> (r: Self)
        requires rhs.rinto_req(),
        ensures i16::MIN <= self.val + rhs.rinto_spec().val <= i16::MAX ==> r.val == self.val + rhs.rinto_spec().val,
                self.val + rhs.rinto_spec().val > i16::MAX ==> r.val == i16::MAX,
                self.val + rhs.rinto_spec().val < i16::MIN ==> r.val == i16::MIN,
    { unimplemented!() }
}
// `type Range = ri16<{ LO }, { HI }>; Range::try_new("what", v)`: the bounds of an anonymous range are passed explicitly
#[verifier::external_body]
pub fn verif_try_new_range_16(lo: i128, hi: i128, v: i64) -> (res: Result<ri16, Error>)
    requires i16::MIN <= lo, hi <= i16::MAX,
    ensures res.is_ok() <==> lo <= v <= hi, res.is_ok() ==> res.unwrap().val == v
{ unimplemented!() }
impl RInto<ri16> for ri16 {
    open spec fn rinto_spec(self) -> ri16 { self }
    open spec fn rinto_req(self) -> bool { true }
    fn rinto(self) -> (r: ri16) { self }
}
impl RFrom<ri16> for ri16 {
    open spec fn rfrom_spec(t: ri16) -> ri16 { t }
    open spec fn rfrom_req(t: ri16) -> bool { true }
    fn rfrom(t: ri16) -> (r: ri16) { t }
}
impl RInto<ri16> for Constant {
    open spec fn rinto_spec(self) -> ri16 { ri16 { val: self.0 as i16 } }
    open spec fn rinto_req(self) -> bool { i16::MIN <= self.0 <= i16::MAX }
    #[verifier::external_body]
    fn rinto(self) -> (r: ri16) { unimplemented!() }
}
impl RFrom<Constant> for ri16 {
    open spec fn rfrom_spec(t: Constant) -> ri16 { ri16 { val: t.0 as i16 } }
    open spec fn rfrom_req(t: Constant) -> bool { i16::MIN <= t.0 <= i16::MAX }
    #[verifier::external_body]
    fn rfrom(t: Constant) -> (r: ri16) { unimplemented!() }
}
impl RInto<i16> for ri16 {
    open spec fn rinto_spec(self) -> i16 { self.val }
    open spec fn rinto_req(self) -> bool { true }
    fn rinto(self) -> (r: i16) { self.val }
}

impl PartialEqSpecImpl<ri16> for ri16 {
    open spec fn obeys_eq_spec() -> bool { true }
    open spec fn eq_spec(&self, other: &ri16) -> bool { self.val == other.val }
}
impl PartialEq<ri16> for ri16 {
    #[verifier::external_body]
    fn eq(&self, other: &ri16) -> bool { unimplemented!() }
}
impl PartialOrdSpecImpl<ri16> for ri16 {
    open spec fn obeys_partial_cmp_spec() -> bool { true }
    open spec fn partial_cmp_spec(&self, other: &ri16) -> Option<Ordering> { Some(int_cmp(self.val as int, other.val as int)) }
}
impl PartialOrd<ri16> for ri16 {
    #[verifier::external_body]
    fn partial_cmp(&self, other: &ri16) -> Option<Ordering> { unimplemented!() }
}

impl PartialEqSpecImpl<Constant> for ri16 {
    open spec fn obeys_eq_spec() -> bool { true }
    open spec fn eq_spec(&self, other: &Constant) -> bool { self.val == other.0 }
}
impl PartialEq<Constant> for ri16 {
    #[verifier::external_body]
    fn eq(&self, other: &Constant) -> bool { unimplemented!() }
}
impl PartialOrdSpecImpl<Constant> for ri16 {
    open spec fn obeys_partial_cmp_spec() -> bool { true }
    open spec fn partial_cmp_spec(&self, other: &Constant) -> Option<Ordering> { Some(int_cmp(self.val as int, other.0 as int)) }
}
impl PartialOrd<Constant> for ri16 {
    #[verifier::external_body]
    fn partial_cmp(&self, other: &Constant) -> Option<Ordering> { unimplemented!() }
}

impl PartialEqSpecImpl<ri8> for ri16 {
    open spec fn obeys_eq_spec() -> bool { true }
    open spec fn eq_spec(&self, other: &ri8) -> bool { self.val == other.val }
}
impl PartialEq<ri8> for ri16 {
    #[verifier::external_body]
    fn eq(&self, other: &ri8) -> bool { unimplemented!() }
}
impl PartialOrdSpecImpl<ri8> for ri16 {
    open spec fn obeys_partial_cmp_spec() -> bool { true }
    open spec fn partial_cmp_spec(&self, other: &ri8) -> Option<Ordering> { Some(int_cmp(self.val as int, other.val as int)) }
}
impl PartialOrd<ri8> for ri16 {
    #[verifier::external_body]
    fn partial_cmp(&self, other: &ri8) -> Option<Ordering> { unimplemented!() }
}

impl PartialEqSpecImpl<ri32> for ri16 {
    open spec fn obeys_eq_spec() -> bool { true }
    open spec fn eq_spec(&self, other: &ri32) -> bool { self.val == other.val }
}
impl PartialEq<ri32> for ri16 {
    #[verifier::external_body]
    fn eq(&self, other: &ri32) -> bool { unimplemented!() }
}
impl PartialOrdSpecImpl<ri32> for ri16 {
    open spec fn obeys_partial_cmp_spec() -> bool { true }
    open spec fn partial_cmp_spec(&self, other: &ri32) -> Option<Ordering> { Some(int_cmp(self.val as int, other.val as int)) }
}
impl PartialOrd<ri32> for ri16 {
    #[verifier::external_body]
    fn partial_cmp(&self, other: &ri32) -> Option<Ordering> { unimplemented!() }
}

impl PartialEqSpecImpl<ri64> for ri16 {
    open spec fn obeys_eq_spec() -> bool { true }
    open spec fn eq_spec(&self, other: &ri64) -> bool { self.val == other.val }
}
impl PartialEq<ri64> for ri16 {
    #[verifier::external_body]
    fn eq(&self, other: &ri64) -> bool { unimplemented!() }
}
impl PartialOrdSpecImpl<ri64> for ri16 {
    open spec fn obeys_partial_cmp_spec() -> bool { true }
    open spec fn partial_cmp_spec(&self, other: &ri64) -> Option<Ordering> { Some(int_cmp(self.val as int, other.val as int)) }
}
impl PartialOrd<ri64> for ri16 {
    #[verifier::external_body]
    fn partial_cmp(&self, other: &ri64) -> Option<Ordering> { unimplemented!() }
}

impl PartialEqSpecImpl<ri128> for ri16 {
    open spec fn obeys_eq_spec() -> bool { true }
    open spec fn eq_spec(&self, other: &ri128) -> bool { self.val == other.val }
}
impl PartialEq<ri128> for ri16 {
    #[verifier::external_body]
    fn eq(&self, other: &ri128) -> bool { unimplemented!() }
}
impl PartialOrdSpecImpl<ri128> for ri16 {
    open spec fn obeys_partial_cmp_spec() -> bool { true }
    open spec fn partial_cmp_spec(&self, other: &ri128) -> Option<Ordering> { Some(int_cmp(self.val as int, other.val as int)) }
}
impl PartialOrd<ri128> for ri16 {
    #[verifier::external_body]
    fn partial_cmp(&self, other: &ri128) -> Option<Ordering> { unimplemented!() }
}

impl AddSpecImpl<ri16> for ri16 {
    open spec fn obeys_add_spec() -> bool { true }
    open spec fn add_req(self, rhs: ri16) -> bool { i16::MIN <= self.val + rhs.val <= i16::MAX }
    open spec fn add_spec(self, rhs: ri16) -> ri16 { ri16 { val: (self.val + rhs.val) as i16 } }
}
impl core::ops::Add<ri16> for ri16 {
    type Output = ri16;
    #[verifier::external_body]
    fn add(self, rhs: ri16) -> ri16 { unimplemented!() }
}
impl AddAssignSpecImpl<ri16> for ri16 {
    open spec fn obeys_add_assign_spec() -> bool { true }
    open spec fn add_assign_req(&self, rhs: ri16) -> bool { i16::MIN <= self.val + rhs.val <= i16::MAX }
    open spec fn add_assign_spec(&self, rhs: ri16) -> &ri16 { &ri16 { val: (self.val + rhs.val) as i16 } }
}
impl core::ops::AddAssign<ri16> for ri16 {
    #[verifier::external_body]
    fn add_assign(&mut self, rhs: ri16) { unimplemented!() }
}

impl SubSpecImpl<ri16> for ri16 {
    open spec fn obeys_sub_spec() -> bool { true }
    open spec fn sub_req(self, rhs: ri16) -> bool { i16::MIN <= self.val - rhs.val <= i16::MAX }
    open spec fn sub_spec(self, rhs: ri16) -> ri16 { ri16 { val: (self.val - rhs.val) as i16 } }
}
impl core::ops::Sub<ri16> for ri16 {
    type Output = ri16;
    #[verifier::external_body]
    fn sub(self, rhs: ri16) -> ri16 { unimplemented!() }
}
impl SubAssignSpecImpl<ri16> for ri16 {
    open spec fn obeys_sub_assign_spec() -> bool { true }
    open spec fn sub_assign_req(&self, rhs: ri16) -> bool { i16::MIN <= self.val - rhs.val <= i16::MAX }
    open spec fn sub_assign_spec(&self, rhs: ri16) -> &ri16 { &ri16 { val: (self.val - rhs.val) as i16 } }
}
impl core::ops::SubAssign<ri16> for ri16 {
    #[verifier::external_body]
    fn sub_assign(&mut self, rhs: ri16) { unimplemented!() }
}

impl MulSpecImpl<ri16> for ri16 {
    open spec fn obeys_mul_spec() -> bool { true }
    open spec fn mul_req(self, rhs: ri16) -> bool { i16::MIN <= self.val * rhs.val <= i16::MAX }
    open spec fn mul_spec(self, rhs: ri16) -> ri16 { ri16 { val: (self.val * rhs.val) as i16 } }
}
impl core::ops::Mul<ri16> for ri16 {
    type Output = ri16;
    #[verifier::external_body]
    fn mul(self, rhs: ri16) -> ri16 { unimplemented!() }
}
impl MulAssignSpecImpl<ri16> for ri16 {
    open spec fn obeys_mul_assign_spec() -> bool { true }
    open spec fn mul_assign_req(&self, rhs: ri16) -> bool { i16::MIN <= self.val * rhs.val <= i16::MAX }
    open spec fn mul_assign_spec(&self, rhs: ri16) -> &ri16 { &ri16 { val: (self.val * rhs.val) as i16 } }
}
impl core::ops::MulAssign<ri16> for ri16 {
    #[verifier::external_body]
    fn mul_assign(&mut self, rhs: ri16) { unimplemented!() }
}

impl DivSpecImpl<ri16> for ri16 {
    open spec fn obeys_div_spec() -> bool { true }
    open spec fn div_req(self, rhs: ri16) -> bool { rhs.val > 0 }
    open spec fn div_spec(self, rhs: ri16) -> ri16 { ri16 { val: (self.val as int / rhs.val as int) as i16 } }
}
impl core::ops::Div<ri16> for ri16 {
    type Output = ri16;
    #[verifier::external_body]
    fn div(self, rhs: ri16) -> ri16 { unimplemented!() }
}
impl RemSpecImpl<ri16> for ri16 {
    open spec fn obeys_rem_spec() -> bool { true }
    open spec fn rem_req(self, rhs: ri16) -> bool { rhs.val > 0 }
    open spec fn rem_spec(self, rhs: ri16) -> ri16 { ri16 { val: (self.val as int % rhs.val as int) as i16 } }
}
impl core::ops::Rem<ri16> for ri16 {
    type Output = ri16;
    #[verifier::external_body]
    fn rem(self, rhs: ri16) -> ri16 { unimplemented!() }
}

impl AddSpecImpl<Constant> for ri16 {
    open spec fn obeys_add_spec() -> bool { true }
    open spec fn add_req(self, rhs: Constant) -> bool { i16::MIN <= self.val + rhs.0 <= i16::MAX }
    open spec fn add_spec(self, rhs: Constant) -> ri16 { ri16 { val: (self.val + rhs.0) as i16 } }
}
impl core::ops::Add<Constant> for ri16 {
    type Output = ri16;
    #[verifier::external_body]
    fn add(self, rhs: Constant) -> ri16 { unimplemented!() }
}
impl AddAssignSpecImpl<Constant> for ri16 {
    open spec fn obeys_add_assign_spec() -> bool { true }
    open spec fn add_assign_req(&self, rhs: Constant) -> bool { i16::MIN <= self.val + rhs.0 <= i16::MAX }
    open spec fn add_assign_spec(&self, rhs: Constant) -> &ri16 { &ri16 { val: (self.val + rhs.0) as i16 } }
}
impl core::ops::AddAssign<Constant> for ri16 {
    #[verifier::external_body]
    fn add_assign(&mut self, rhs: Constant) { unimplemented!() }
}

impl SubSpecImpl<Constant> for ri16 {
    open spec fn obeys_sub_spec() -> bool { true }
    open spec fn sub_req(self, rhs: Constant) -> bool { i16::MIN <= self.val - rhs.0 <= i16::MAX }
    open spec fn sub_spec(self, rhs: Constant) -> ri16 { ri16 { val: (self.val - rhs.0) as i16 } }
}
impl core::ops::Sub<Constant> for ri16 {
    type Output = ri16;
    #[verifier::external_body]
    fn sub(self, rhs: Constant) -> ri16 { unimplemented!() }
}
impl SubAssignSpecImpl<Constant> for ri16 {
    open spec fn obeys_sub_assign_spec() -> bool { true }
    open spec fn sub_assign_req(&self, rhs: Constant) -> bool { i16::MIN <= self.val - rhs.0 <= i16::MAX }
    open spec fn sub_assign_spec(&self, rhs: Constant) -> &ri16 { &ri16 { val: (self.val - rhs.0) as i16 } }
}
impl core::ops::SubAssign<Constant> for ri16 {
    #[verifier::external_body]
    fn sub_assign(&mut self, rhs: Constant) { unimplemented!() }
}

impl MulSpecImpl<Constant> for ri16 {
    open spec fn obeys_mul_spec() -> bool { true }
    open spec fn mul_req(self, rhs: Constant) -> bool { i16::MIN <= self.val * rhs.0 <= i16::MAX }
    open spec fn mul_spec(self, rhs: Constant) -> ri16 { ri16 { val: (self.val * rhs.0) as i16 } }
}
impl core::ops::Mul<Constant> for ri16 {
    type Output = ri16;
    #[verifier::external_body]
    fn mul(self, rhs: Constant) -> ri16 { unimplemented!() }
}
impl MulAssignSpecImpl<Constant> for ri16 {
    open spec fn obeys_mul_assign_spec() -> bool { true }
    open spec fn mul_assign_req(&self, rhs: Constant) -> bool { i16::MIN <= self.val * rhs.0 <= i16::MAX }
    open spec fn mul_assign_spec(&self, rhs: Constant) -> &ri16 { &ri16 { val: (self.val * rhs.0) as i16 } }
}
impl core::ops::MulAssign<Constant> for ri16 {
    #[verifier::external_body]
    fn mul_assign(&mut self, rhs: Constant) { unimplemented!() }
}

impl DivSpecImpl<Constant> for ri16 {
    open spec fn obeys_div_spec() -> bool { true }
    open spec fn div_req(self, rhs: Constant) -> bool { rhs.0 > 0 }
    open spec fn div_spec(self, rhs: Constant) -> ri16 { ri16 { val: (self.val as int / rhs.0 as int) as i16 } }
}
impl core::ops::Div<Constant> for ri16 {
    type Output = ri16;
    #[verifier::external_body]
    fn div(self, rhs: Constant) -> ri16 { unimplemented!() }
}
impl RemSpecImpl<Constant> for ri16 {
    open spec fn obeys_rem_spec() -> bool { true }
    open spec fn rem_req(self, rhs: Constant) -> bool { rhs.0 > 0 }
    open spec fn rem_spec(self, rhs: Constant) -> ri16 { ri16 { val: (self.val as int % rhs.0 as int) as i16 } }
}
impl core::ops::Rem<Constant> for ri16 {
    type Output = ri16;
    #[verifier::external_body]
    fn rem(self, rhs: Constant) -> ri16 { unimplemented!() }
}

impl AddSpecImpl<ri8> for ri16 {
    open spec fn obeys_add_spec() -> bool { true }
    open spec fn add_req(self, rhs: ri8) -> bool { i16::MIN <= self.val + rhs.val <= i16::MAX }
    open spec fn add_spec(self, rhs: ri8) -> ri16 { ri16 { val: (self.val + rhs.val) as i16 } }
}
impl core::ops::Add<ri8> for ri16 {
    type Output = ri16;
    #[verifier::external_body]
    fn add(self, rhs: ri8) -> ri16 { unimplemented!() }
}
impl AddAssignSpecImpl<ri8> for ri16 {
    open spec fn obeys_add_assign_spec() -> bool { true }
    open spec fn add_assign_req(&self, rhs: ri8) -> bool { i16::MIN <= self.val + rhs.val <= i16::MAX }
    open spec fn add_assign_spec(&self, rhs: ri8) -> &ri16 { &ri16 { val: (self.val + rhs.val) as i16 } }
}
impl core::ops::AddAssign<ri8> for ri16 {
    #[verifier::external_body]
    fn add_assign(&mut self, rhs: ri8) { unimplemented!() }
}

impl SubSpecImpl<ri8> for ri16 {
    open spec fn obeys_sub_spec() -> bool { true }
    open spec fn sub_req(self, rhs: ri8) -> bool { i16::MIN <= self.val - rhs.val <= i16::MAX }
    open spec fn sub_spec(self, rhs: ri8) -> ri16 { ri16 { val: (self.val - rhs.val) as i16 } }
}
impl core::ops::Sub<ri8> for ri16 {
    type Output = ri16;
    #[verifier::external_body]
    fn sub(self, rhs: ri8) -> ri16 { unimplemented!() }
}
impl SubAssignSpecImpl<ri8> for ri16 {
    open spec fn obeys_sub_assign_spec() -> bool { true }
    open spec fn sub_assign_req(&self, rhs: ri8) -> bool { i16::MIN <= self.val - rhs.val <= i16::MAX }
    open spec fn sub_assign_spec(&self, rhs: ri8) -> &ri16 { &ri16 { val: (self.val - rhs.val) as i16 } }
}
impl core::ops::SubAssign<ri8> for ri16 {
    #[verifier::external_body]
    fn sub_assign(&mut self, rhs: ri8) { unimplemented!() }
}

impl MulSpecImpl<ri8> for ri16 {
    open spec fn obeys_mul_spec() -> bool { true }
    open spec fn mul_req(self, rhs: ri8) -> bool { i16::MIN <= self.val * rhs.val <= i16::MAX }
    open spec fn mul_spec(self, rhs: ri8) -> ri16 { ri16 { val: (self.val * rhs.val) as i16 } }
}
impl core::ops::Mul<ri8> for ri16 {
    type Output = ri16;
    #[verifier::external_body]
    fn mul(self, rhs: ri8) -> ri16 { unimplemented!() }
}
impl MulAssignSpecImpl<ri8> for ri16 {
    open spec fn obeys_mul_assign_spec() -> bool { true }
    open spec fn mul_assign_req(&self, rhs: ri8) -> bool { i16::MIN <= self.val * rhs.val <= i16::MAX }
    open spec fn mul_assign_spec(&self, rhs: ri8) -> &ri16 { &ri16 { val: (self.val * rhs.val) as i16 } }
}
impl core::ops::MulAssign<ri8> for ri16 {
    #[verifier::external_body]
    fn mul_assign(&mut self, rhs: ri8) { unimplemented!() }
}

impl DivSpecImpl<ri8> for ri16 {
    open spec fn obeys_div_spec() -> bool { true }
    open spec fn div_req(self, rhs: ri8) -> bool { rhs.val > 0 }
    open spec fn div_spec(self, rhs: ri8) -> ri16 { ri16 { val: (self.val as int / rhs.val as int) as i16 } }
}
impl core::ops::Div<ri8> for ri16 {
    type Output = ri16;
    #[verifier::external_body]
    fn div(self, rhs: ri8) -> ri16 { unimplemented!() }
}
impl RemSpecImpl<ri8> for ri16 {
    open spec fn obeys_rem_spec() -> bool { true }
    open spec fn rem_req(self, rhs: ri8) -> bool { rhs.val > 0 }
    open spec fn rem_spec(self, rhs: ri8) -> ri16 { ri16 { val: (self.val as int % rhs.val as int) as i16 } }
}
impl core::ops::Rem<ri8> for ri16 {
    type Output = ri16;
    #[verifier::external_body]
    fn rem(self, rhs: ri8) -> ri16 { unimplemented!() }
}

impl AddSpecImpl<ri32> for ri16 {
    open spec fn obeys_add_spec() -> bool { true }
    open spec fn add_req(self, rhs: ri32) -> bool { i16::MIN <= self.val + rhs.val <= i16::MAX }
    open spec fn add_spec(self, rhs: ri32) -> ri16 { ri16 { val: (self.val + rhs.val) as i16 } }
}
impl core::ops::Add<ri32> for ri16 {
    type Output = ri16;
    #[verifier::external_body]
    fn add(self, rhs: ri32) -> ri16 { unimplemented!() }
}
impl AddAssignSpecImpl<ri32> for ri16 {
    open spec fn obeys_add_assign_spec() -> bool { true }
    open spec fn add_assign_req(&self, rhs: ri32) -> bool { i16::MIN <= self.val + rhs.val <= i16::MAX }
    open spec fn add_assign_spec(&self, rhs: ri32) -> &ri16 { &ri16 { val: (self.val + rhs.val) as i16 } }
}
impl core::ops::AddAssign<ri32> for ri16 {
    #[verifier::external_body]
    fn add_assign(&mut self, rhs: ri32) { unimplemented!() }
}

impl SubSpecImpl<ri32> for ri16 {
    open spec fn obeys_sub_spec() -> bool { true }
    open spec fn sub_req(self, rhs: ri32) -> bool { i16::MIN <= self.val - rhs.val <= i16::MAX }
    open spec fn sub_spec(self, rhs: ri32) -> ri16 { ri16 { val: (self.val - rhs.val) as i16 } }
}
impl core::ops::Sub<ri32> for ri16 {
    type Output = ri16;
    #[verifier::external_body]
    fn sub(self, rhs: ri32) -> ri16 { unimplemented!() }
}
impl SubAssignSpecImpl<ri32> for ri16 {
    open spec fn obeys_sub_assign_spec() -> bool { true }
    open spec fn sub_assign_req(&self, rhs: ri32) -> bool { i16::MIN <= self.val - rhs.val <= i16::MAX }
    open spec fn sub_assign_spec(&self, rhs: ri32) -> &ri16 { &ri16 { val: (self.val - rhs.val) as i16 } }
}
impl core::ops::SubAssign<ri32> for ri16 {
    #[verifier::external_body]
    fn sub_assign(&mut self, rhs: ri32) { unimplemented!() }
}

impl MulSpecImpl<ri32> for ri16 {
    open spec fn obeys_mul_spec() -> bool { true }
    open spec fn mul_req(self, rhs: ri32) -> bool { i16::MIN <= self.val * rhs.val <= i16::MAX }
    open spec fn mul_spec(self, rhs: ri32) -> ri16 { ri16 { val: (self.val * rhs.val) as i16 } }
}
impl core::ops::Mul<ri32> for ri16 {
    type Output = ri16;
    #[verifier::external_body]
    fn mul(self, rhs: ri32) -> ri16 { unimplemented!() }
}
impl MulAssignSpecImpl<ri32> for ri16 {
    open spec fn obeys_mul_assign_spec() -> bool { true }
    open spec fn mul_assign_req(&self, rhs: ri32) -> bool { i16::MIN <= self.val * rhs.val <= i16::MAX }
    open spec fn mul_assign_spec(&self, rhs: ri32) -> &ri16 { &ri16 { val: (self.val * rhs.val) as i16 } }
}
impl core::ops::MulAssign<ri32> for ri16 {
    #[verifier::external_body]
    fn mul_assign(&mut self, rhs: ri32) { unimplemented!() }
}

impl DivSpecImpl<ri32> for ri16 {
    open spec fn obeys_div_spec() -> bool { true }
    open spec fn div_req(self, rhs: ri32) -> bool { rhs.val > 0 }
    open spec fn div_spec(self, rhs: ri32) -> ri16 { ri16 { val: (self.val as int / rhs.val as int) as i16 } }
}
impl core::ops::Div<ri32> for ri16 {
    type Output = ri16;
    #[verifier::external_body]
    fn div(self, rhs: ri32) -> ri16 { unimplemented!() }
}
impl RemSpecImpl<ri32> for ri16 {
    open spec fn obeys_rem_spec() -> bool { true }
    open spec fn rem_req(self, rhs: ri32) -> bool { rhs.val > 0 }
    open spec fn rem_spec(self, rhs: ri32) -> ri16 { ri16 { val: (self.val as int % rhs.val as int) as i16 } }
}
impl core::ops::Rem<ri32> for ri16 {
    type Output = ri16;
    #[verifier::external_body]
    fn rem(self, rhs: ri32) -> ri16 { unimplemented!() }
}

impl AddSpecImpl<ri64> for ri16 {
    open spec fn obeys_add_spec() -> bool { true }
    open spec fn add_req(self, rhs: ri64) -> bool { i16::MIN <= self.val + rhs.val <= i16::MAX }
    open spec fn add_spec(self, rhs: ri64) -> ri16 { ri16 { val: (self.val + rhs.val) as i16 } }
}
impl core::ops::Add<ri64> for ri16 {
    type Output = ri16;
    #[verifier::external_body]
    fn add(self, rhs: ri64) -> ri16 { unimplemented!() }
}
impl AddAssignSpecImpl<ri64> for ri16 {
    open spec fn obeys_add_assign_spec() -> bool { true }
    open spec fn add_assign_req(&self, rhs: ri64) -> bool { i16::MIN <= self.val + rhs.val <= i16::MAX }
    open spec fn add_assign_spec(&self, rhs: ri64) -> &ri16 { &ri16 { val: (self.val + rhs.val) as i16 } }
}
impl core::ops::AddAssign<ri64> for ri16 {
    #[verifier::external_body]
    fn add_assign(&mut self, rhs: ri64) { unimplemented!() }
}

impl SubSpecImpl<ri64> for ri16 {
    open spec fn obeys_sub_spec() -> bool { true }
    open spec fn sub_req(self, rhs: ri64) -> bool { i16::MIN <= self.val - rhs.val <= i16::MAX }
    open spec fn sub_spec(self, rhs: ri64) -> ri16 { ri16 { val: (self.val - rhs.val) as i16 } }
}
impl core::ops::Sub<ri64> for ri16 {
    type Output = ri16;
    #[verifier::external_body]
    fn sub(self, rhs: ri64) -> ri16 { unimplemented!() }
}
impl SubAssignSpecImpl<ri64> for ri16 {
    open spec fn obeys_sub_assign_spec() -> bool { true }
    open spec fn sub_assign_req(&self, rhs: ri64) -> bool { i16::MIN <= self.val - rhs.val <= i16::MAX }
    open spec fn sub_assign_spec(&self, rhs: ri64) -> &ri16 { &ri16 { val: (self.val - rhs.val) as i16 } }
}
impl core::ops::SubAssign<ri64> for ri16 {
    #[verifier::external_body]
    fn sub_assign(&mut self, rhs: ri64) { unimplemented!() }
}

impl MulSpecImpl<ri64> for ri16 {
    open spec fn obeys_mul_spec() -> bool { true }
    open spec fn mul_req(self, rhs: ri64) -> bool { i16::MIN <= self.val * rhs.val <= i16::MAX }
    open spec fn mul_spec(self, rhs: ri64) -> ri16 { ri16 { val: (self.val * rhs.val) as i16 } }
}
impl core::ops::Mul<ri64> for ri16 {
    type Output = ri16;
    #[verifier::external_body]
    fn mul(self, rhs: ri64) -> ri16 { unimplemented!() }
}
impl MulAssignSpecImpl<ri64> for ri16 {
    open spec fn obeys_mul_assign_spec() -> bool { true }
    open spec fn mul_assign_req(&self, rhs: ri64) -> bool { i16::MIN <= self.val * rhs.val <= i16::MAX }
    open spec fn mul_assign_spec(&self, rhs: ri64) -> &ri16 { &ri16 { val: (self.val * rhs.val) as i16 } }
}
impl core::ops::MulAssign<ri64> for ri16 {
    #[verifier::external_body]
    fn mul_assign(&mut self, rhs: ri64) { unimplemented!() }
}

impl DivSpecImpl<ri64> for ri16 {
    open spec fn obeys_div_spec() -> bool { true }
    open spec fn div_req(self, rhs: ri64) -> bool { rhs.val > 0 }
    open spec fn div_spec(self, rhs: ri64) -> ri16 { ri16 { val: (self.val as int / rhs.val as int) as i16 } }
}
impl core::ops::Div<ri64> for ri16 {
    type Output = ri16;
    #[verifier::external_body]
    fn div(self, rhs: ri64) -> ri16 { unimplemented!() }
}
impl RemSpecImpl<ri64> for ri16 {
    open spec fn obeys_rem_spec() -> bool { true }
    open spec fn rem_req(self, rhs: ri64) -> bool { rhs.val > 0 }
    open spec fn rem_spec(self, rhs: ri64) -> ri16 { ri16 { val: (self.val as int % rhs.val as int) as i16 } }
}
impl core::ops::Rem<ri64> for ri16 {
    type Output = ri16;
    #[verifier::external_body]
    fn rem(self, rhs: ri64) -> ri16 { unimplemented!() }
}

impl AddSpecImpl<ri128> for ri16 {
    open spec fn obeys_add_spec() -> bool { true }
    open spec fn add_req(self, rhs: ri128) -> bool { i16::MIN <= self.val + rhs.val <= i16::MAX }
    open spec fn add_spec(self, rhs: ri128) -> ri16 { ri16 { val: (self.val + rhs.val) as i16 } }
}
impl core::ops::Add<ri128> for ri16 {
    type Output = ri16;
    #[verifier::external_body]
    fn add(self, rhs: ri128) -> ri16 { unimplemented!() }
}
impl AddAssignSpecImpl<ri128> for ri16 {
    open spec fn obeys_add_assign_spec() -> bool { true }
    open spec fn add_assign_req(&self, rhs: ri128) -> bool { i16::MIN <= self.val + rhs.val <= i16::MAX }
    open spec fn add_assign_spec(&self, rhs: ri128) -> &ri16 { &ri16 { val: (self.val + rhs.val) as i16 } }
}
impl core::ops::AddAssign<ri128> for ri16 {
    #[verifier::external_body]
    fn add_assign(&mut self, rhs: ri128) { unimplemented!() }
}

impl SubSpecImpl<ri128> for ri16 {
    open spec fn obeys_sub_spec() -> bool { true }
    open spec fn sub_req(self, rhs: ri128) -> bool { i16::MIN <= self.val - rhs.val <= i16::MAX }
    open spec fn sub_spec(self, rhs: ri128) -> ri16 { ri16 { val: (self.val - rhs.val) as i16 } }
}
impl core::ops::Sub<ri128> for ri16 {
    type Output = ri16;
    #[verifier::external_body]
    fn sub(self, rhs: ri128) -> ri16 { unimplemented!() }
}
impl SubAssignSpecImpl<ri128> for ri16 {
    open spec fn obeys_sub_assign_spec() -> bool { true }
    open spec fn sub_assign_req(&self, rhs: ri128) -> bool { i16::MIN <= self.val - rhs.val <= i16::MAX }
    open spec fn sub_assign_spec(&self, rhs: ri128) -> &ri16 { &ri16 { val: (self.val - rhs.val) as i16 } }
}
impl core::ops::SubAssign<ri128> for ri16 {
    #[verifier::external_body]
    fn sub_assign(&mut self, rhs: ri128) { unimplemented!() }
}

impl MulSpecImpl<ri128> for ri16 {
    open spec fn obeys_mul_spec() -> bool { true }
    open spec fn mul_req(self, rhs: ri128) -> bool { i16::MIN <= self.val * rhs.val <= i16::MAX }
    open spec fn mul_spec(self, rhs: ri128) -> ri16 { ri16 { val: (self.val * rhs.val) as i16 } }
}
impl core::ops::Mul<ri128> for ri16 {
    type Output = ri16;
    #[verifier::external_body]
    fn mul(self, rhs: ri128) -> ri16 { unimplemented!() }
}
impl MulAssignSpecImpl<ri128> for ri16 {
    open spec fn obeys_mul_assign_spec() -> bool { true }
    open spec fn mul_assign_req(&self, rhs: ri128) -> bool { i16::MIN <= self.val * rhs.val <= i16::MAX }
    open spec fn mul_assign_spec(&self, rhs: ri128) -> &ri16 { &ri16 { val: (self.val * rhs.val) as i16 } }
}
impl core::ops::MulAssign<ri128> for ri16 {
    #[verifier::external_body]
    fn mul_assign(&mut self, rhs: ri128) { unimplemented!() }
}

impl DivSpecImpl<ri128> for ri16 {
    open spec fn obeys_div_spec() -> bool { true }
    open spec fn div_req(self, rhs: ri128) -> bool { rhs.val > 0 }
    open spec fn div_spec(self, rhs: ri128) -> ri16 { ri16 { val: (self.val as int / rhs.val as int) as i16 } }
}
impl core::ops::Div<ri128> for ri16 {
    type Output = ri16;
    #[verifier::external_body]
    fn div(self, rhs: ri128) -> ri16 { unimplemented!() }
}
impl RemSpecImpl<ri128> for ri16 {
    open spec fn obeys_rem_spec() -> bool { true }
    open spec fn rem_req(self, rhs: ri128) -> bool { rhs.val > 0 }
    open spec fn rem_spec(self, rhs: ri128) -> ri16 { ri16 { val: (self.val as int % rhs.val as int) as i16 } }
}
impl core::ops::Rem<ri128> for ri16 {
    type Output = ri16;
    #[verifier::external_body]
    fn rem(self, rhs: ri128) -> ri16 { unimplemented!() }
}

impl NegSpecImpl for ri16 {
    open spec fn obeys_neg_spec() -> bool { true }
    open spec fn neg_req(self) -> bool { self.val > i16::MIN }
    open spec fn neg_spec(self) -> ri16 { ri16 { val: (-self.val) as i16 } }
}
impl core::ops::Neg for ri16 {
    type Output = ri16;
    #[verifier::external_body]
    fn neg(self) -> ri16 { unimplemented!() }
}


// ------------------------------------------------------------------ ri32
#[derive(Clone, Copy)]
pub struct ri32 { pub val: i32 }
impl ri32 {
    pub fn new_unchecked(val: i32) -> (r: Self) ensures r.val == val { ri32 { val } }
    pub fn get(self) -> (r: i32) ensures r == self.val { self.val }
    pub fn get_unchecked(self) -> (r: i32) ensures r == self.val { self.val }
    pub fn without_bounds(self) -> (r: Self) ensures r == self { self }
    // `T::N::<VAL>()` is rewritten to `T::verif_N(VAL)`: the constant VAL (release: `Self { val: VAL }`, no bound is consulted).
    // (Not modelled with a const generic: Verus 0.2026.09.13 derives `false` from a negative const generic argument.)
    pub const fn verif_N(v: i32) -> (r: Self) ensures r.val == v { ri32 { val: v } }
    #[verifier::external_body]
    pub fn abs(self) -> (r: Self)
        requires self.val > i32::MIN,
        ensures r.val == (if self.val < 0 { -self.val } else { self.val as int })
    { unimplemented!() }
    // real: returns `riN<-1, 1>` of the SAME width
    pub fn signum(self) -> (r: Self) ensures r.val == (if self.val < 0 { -1int } else if self.val > 0 { 1int } else { 0int })
    { if self.val < 0 { ri32 { val: -1 } } else if self.val > 0 { ri32 { val: 1 } } else { ri32 { val: 0 } } }
    pub fn min<R: RInto<Self>>(self, other: R) -> (r: Self)
        requires other.rinto_req(),
        ensures r.val == (if other.rinto_spec().val < self.val { other.rinto_spec().val } else { self.val })
    { let o = other.rinto(); if o.val < self.val { o } else { self } }
    pub fn max<R: RInto<Self>>(self, other: R) -> (r: Self)
        requires other.rinto_req(),
        ensures r.val == (if other.rinto_spec().val > self.val { other.rinto_spec().val } else { self.val })
    { let o = other.rinto(); if o.val > self.val { o } else { self } }
    // truncating
    #[verifier::external_body]
    pub fn div_ceil<R: RInto<Self>>(self, rhs: R) -> (r: Self)
        requires rhs.rinto_req(), rhs.rinto_spec().val != 0, !(self.val == i32::MIN && rhs.rinto_spec().val == -1),
        ensures r.val == tdiv(self.val as int, rhs.rinto_spec().val as int)
    { unimplemented!() }
    #[verifier::external_body]
    pub fn rem_ceil<R: RInto<Self>>(self, rhs: R) -> (r: Self)
        requires rhs.rinto_req(), rhs.rinto_spec().val != 0, !(self.val == i32::MIN && rhs.rinto_spec().val == -1),
        ensures r.val == trem(self.val as int, rhs.rinto_spec().val as int)
    { unimplemented!() }
    // Euclidean (divisor > 0 required here; every use in jiff divides by a positive quantity)
    #[verifier::external_body]
    pub fn div_floor<R: RInto<Self>>(self, rhs: R) -> (r: Self)
        requires rhs.rinto_req(), rhs.rinto_spec().val > 0,
        ensures r.val == (self.val as int) / (rhs.rinto_spec().val as int)
    { unimplemented!() }
    #[verifier::external_body]
    pub fn rem_floor<R: RInto<Self>>(self, rhs: R) -> (r: Self)
        requires rhs.rinto_req(), rhs.rinto_spec().val > 0,
        ensures r.val == (self.val as int) % (rhs.rinto_spec().val as int)
    { unimplemented!() }
    #[verifier::external_body]
    pub fn saturating_mul<R: RInto<Self>>(self, rhs: R) -> (r: Self)
        requires rhs.rinto_req(),
        ensures i32::MIN <= self.val * rhs.rinto_spec().val <= i32::MAX ==> r.val == self.val * rhs.rinto_spec().val,
                self.val * rhs.rinto_spec().val > i32::MAX ==> r.val == i32::MAX,
                self.val * rhs.rinto_spec().val < i32::MIN ==> r.val == i32::MIN,
    { unimplemented!() }
    #[verifier::external_body]
    pub fn saturating_add<R: RInto<Self>>(self, rhs: R) -> (r: Self)
        requires rhs.rinto_req(),
        ensures i32::MIN <= self.val + rhs.rinto_spec().val <= i32::MAX ==> r.val == self.val + rhs.rinto_spec().val,
                self.val + rhs.rinto_spec().val > i32::MAX ==> r.val == i32::MAX,
                self.val + rhs.rinto_spec().val < i32::MIN ==> r.val == i32::MIN,
    { unimplemented!() }
}
// `type Range = ri32<{ LO }, { HI }>; Range::try_new("what", v)`: the bounds of an anonymous range are passed explicitly
#[verifier::external_body]
pub fn verif_try_new_range_32(lo: i128, hi: i128, v: i64) -> (res: Result<ri32, Error>)
    requires i32::MIN <= lo, hi <= i32::MAX,
    ensures res.is_ok() <==> lo <= v <= hi, res.is_ok() ==> res.unwrap().val == v
{ unimplemented!() }
impl RInto<ri32> for ri32 {
    open spec fn rinto_spec(self) -> ri32 { self }
    open spec fn rinto_req(self) -> bool { true }
    fn rinto(self) -> (r: ri32) { self }
}
impl RFrom<ri32> for ri32 {
    open spec fn rfrom_spec(t: ri32) -> ri32 { t }
    open spec fn rfrom_req(t: ri32) -> bool { true }
    fn rfrom(t: ri32) -> (r: ri32) { t }
}
impl RInto<ri32> for Constant {
    open spec fn rinto_spec(self) -> ri32 { ri32 { val: self.0 as i32 } }
    open spec fn rinto_req(self) -> bool { i32::MIN <= self.0 <= i32::MAX }
    #[verifier::external_body]
    fn rinto(self) -> (r: ri32) { unimplemented!() }
}
impl RFrom<Constant> for ri32 {
    open spec fn rfrom_spec(t: Constant) -> ri32 { ri32 { val: t.0 as i32 } }
    open spec fn rfrom_req(t: Constant) -> bool { i32::MIN <= t.0 <= i32::MAX }
    #[verifier::external_body]
    fn rfrom(t: Constant) -> (r: ri32) { unimplemented!() }
}
impl RInto<i32> for ri32 {
    open spec fn rinto_spec(self) -> i32 { self.val }
    open spec fn rinto_req(self) -> bool { true }
    fn rinto(self) -> (r: i32) { self.val }
}

impl PartialEqSpecImpl<ri32> for ri32 {
    open spec fn obeys_eq_spec() -> bool { true }
    open spec fn eq_spec(&self, other: &ri32) -> bool { self.val == other.val }
}
impl PartialEq<ri32> for ri32 {
    #[verifier::external_body]
    fn eq(&self, other: &ri32) -> bool { unimplemented!() }
}
impl PartialOrdSpecImpl<ri32> for ri32 {
    open spec fn obeys_partial_cmp_spec() -> bool { true }
    open spec fn partial_cmp_spec(&self, other: &ri32) -> Option<Ordering> { Some(int_cmp(self.val as int, other.val as int)) }
}
impl PartialOrd<ri32> for ri32 {
    #[verifier::external_body]
    fn partial_cmp(&self, other: &ri32) -> Option<Ordering> { unimplemented!() }
}

impl PartialEqSpecImpl<Constant> for ri32 {
    open spec fn obeys_eq_spec() -> bool { true }
    open spec fn eq_spec(&self, other: &Constant) -> bool { self.val == other.0 }
}
impl PartialEq<Constant> for ri32 {
    #[verifier::external_body]
    fn eq(&self, other: &Constant) -> bool { unimplemented!() }
}
impl PartialOrdSpecImpl<Constant> for ri32 {
    open spec fn obeys_partial_cmp_spec() -> bool { true }
    open spec fn partial_cmp_spec(&self, other: &Constant) -> Option<Ordering> { Some(int_cmp(self.val as int, other.0 as int)) }
}
impl PartialOrd<Constant> for ri32 {
    #[verifier::external_body]
    fn partial_cmp(&self, other: &Constant) -> Option<Ordering> { unimplemented!() }
}

impl PartialEqSpecImpl<ri8> for ri32 {
    open spec fn obeys_eq_spec() -> bool { true }
    open spec fn eq_spec(&self, other: &ri8) -> bool { self.val == other.val }
}
impl PartialEq<ri8> for ri32 {
    #[verifier::external_body]
    fn eq(&self, other: &ri8) -> bool { unimplemented!() }
}
impl PartialOrdSpecImpl<ri8> for ri32 {
    open spec fn obeys_partial_cmp_spec() -> bool { true }
    open spec fn partial_cmp_spec(&self, other: &ri8) -> Option<Ordering> { Some(int_cmp(self.val as int, other.val as int)) }
}
impl PartialOrd<ri8> for ri32 {
    #[verifier::external_body]
    fn partial_cmp(&self, other: &ri8) -> Option<Ordering> { unimplemented!() }
}

impl PartialEqSpecImpl<ri16> for ri32 {
    open spec fn obeys_eq_spec() -> bool { true }
    open spec fn eq_spec(&self, other: &ri16) -> bool { self.val == other.val }
}
impl PartialEq<ri16> for ri32 {
    #[verifier::external_body]
    fn eq(&self, other: &ri16) -> bool { unimplemented!() }
}
impl PartialOrdSpecImpl<ri16> for ri32 {
    open spec fn obeys_partial_cmp_spec() -> bool { true }
    open spec fn partial_cmp_spec(&self, other: &ri16) -> Option<Ordering> { Some(int_cmp(self.val as int, other.val as int)) }
}
impl PartialOrd<ri16> for ri32 {
    #[verifier::external_body]
    fn partial_cmp(&self, other: &ri16) -> Option<Ordering> { unimplemented!() }
}

impl PartialEqSpecImpl<ri64> for ri32 {
    open spec fn obeys_eq_spec() -> bool { true }
    open spec fn eq_spec(&self, other: &ri64) -> bool { self.val == other.val }
}
impl PartialEq<ri64> for ri32 {
    #[verifier::external_body]
    fn eq(&self, other: &ri64) -> bool { unimplemented!() }
}
impl PartialOrdSpecImpl<ri64> for ri32 {
    open spec fn obeys_partial_cmp_spec() -> bool { true }
    open spec fn partial_cmp_spec(&self, other: &ri64) -> Option<Ordering> { Some(int_cmp(self.val as int, other.val as int)) }
}
impl PartialOrd<ri64> for ri32 {
    #[verifier::external_body]
    fn partial_cmp(&self, other: &ri64) -> Option<Ordering> { unimplemented!() }
}

impl PartialEqSpecImpl<ri128> for ri32 {
    open spec fn obeys_eq_spec() -> bool { true }
    open spec fn eq_spec(&self, other: &ri128) -> bool { self.val == other.val }
}
impl PartialEq<ri128> for ri32 {
    #[verifier::external_body]
    fn eq(&self, other: &ri128) -> bool { unimplemented!() }
}
impl PartialOrdSpecImpl<ri128> for ri32 {
    open spec fn obeys_partial_cmp_spec() -> bool { true }
    open spec fn partial_cmp_spec(&self, other: &ri128) -> Option<Ordering> { Some(int_cmp(self.val as int, other.val as int)) }
}
impl PartialOrd<ri128> for ri32 {
    #[verifier::external_body]
    fn partial_cmp(&self, other: &ri128) -> Option<Ordering> { unimplemented!() }
}

impl AddSpecImpl<ri32> for ri32 {
    open spec fn obeys_add_spec() -> bool { true }
    open spec fn add_req(self, rhs: ri32) -> bool { i32::MIN <= self.val + rhs.val <= i32::MAX }
    open spec fn add_spec(self, rhs: ri32) -> ri32 { ri32 { val: (self.val + rhs.val) as i32 } }
}
impl core::ops::Add<ri32> for ri32 {
    type Output = ri32;
    #[verifier::external_body]
    fn add(self, rhs: ri32) -> ri32 { unimplemented!() }
}
impl AddAssignSpecImpl<ri32> for ri32 {
    open spec fn obeys_add_assign_spec() -> bool { true }
    open spec fn add_assign_req(&self, rhs: ri32) -> bool { i32::MIN <= self.val + rhs.val <= i32::MAX }
    open spec fn add_assign_spec(&self, rhs: ri32) -> &ri32 { &ri32 { val: (self.val + rhs.val) as i32 } }
}
impl core::ops::AddAssign<ri32> for ri32 {
    #[verifier::external_body]
    fn add_assign(&mut self, rhs: ri32) { unimplemented!() }
}

impl SubSpecImpl<ri32> for ri32 {
    open spec fn obeys_sub_spec() -> bool { true }
    open spec fn sub_req(self, rhs: ri32) -> bool { i32::MIN <= self.val - rhs.val <= i32::MAX }
    open spec fn sub_spec(self, rhs: ri32) -> ri32 { ri32 { val: (self.val - rhs.val) as i32 } }
}
impl core::ops::Sub<ri32> for ri32 {
    type Output = ri32;
    #[verifier::external_body]
    fn sub(self, rhs: ri32) -> ri32 { unimplemented!() }
}
impl SubAssignSpecImpl<ri32> for ri32 {
    open spec fn obeys_sub_assign_spec() -> bool { true }
    open spec fn sub_assign_req(&self, rhs: ri32) -> bool { i32::MIN <= self.val - rhs.val <= i32::MAX }
    open spec fn sub_assign_spec(&self, rhs: ri32) -> &ri32 { &ri32 { val: (self.val - rhs.val) as i32 } }
}
impl core::ops::SubAssign<ri32> for ri32 {
    #[verifier::external_body]
    fn sub_assign(&mut self, rhs: ri32) { unimplemented!() }
}

impl MulSpecImpl<ri32> for ri32 {
    open spec fn obeys_mul_spec() -> bool { true }
    open spec fn mul_req(self, rhs: ri32) -> bool { i32::MIN <= self.val * rhs.val <= i32::MAX }
    open spec fn mul_spec(self, rhs: ri32) -> ri32 { ri32 { val: (self.val * rhs.val) as i32 } }
}
impl core::ops::Mul<ri32> for ri32 {
    type Output = ri32;
    #[verifier::external_body]
    fn mul(self, rhs: ri32) -> ri32 { unimplemented!() }
}
impl MulAssignSpecImpl<ri32> for ri32 {
    open spec fn obeys_mul_assign_spec() -> bool { true }
    open spec fn mul_assign_req(&self, rhs: ri32) -> bool { i32::MIN <= self.val * rhs.val <= i32::MAX }
    open spec fn mul_assign_spec(&self, rhs: ri32) -> &ri32 { &ri32 { val: (self.val * rhs.val) as i32 } }
}
impl core::ops::MulAssign<ri32> for ri32 {
    #[verifier::external_body]
    fn mul_assign(&mut self, rhs: ri32) { unimplemented!() }
}

impl DivSpecImpl<ri32> for ri32 {
    open spec fn obeys_div_spec() -> bool { true }
    open spec fn div_req(self, rhs: ri32) -> bool { rhs.val > 0 }
    open spec fn div_spec(self, rhs: ri32) -> ri32 { ri32 { val: (self.val as int / rhs.val as int) as i32 } }
}
impl core::ops::Div<ri32> for ri32 {
    type Output = ri32;
    #[verifier::external_body]
    fn div(self, rhs: ri32) -> ri32 { unimplemented!() }
}
impl RemSpecImpl<ri32> for ri32 {
    open spec fn obeys_rem_spec() -> bool { true }
    open spec fn rem_req(self, rhs: ri32) -> bool { rhs.val > 0 }
    open spec fn rem_spec(self, rhs: ri32) -> ri32 { ri32 { val: (self.val as int % rhs.val as int) as i32 } }
}
impl core::ops::Rem<ri32> for ri32 {
    type Output = ri32;
    #[verifier::external_body]
    fn rem(self, rhs: ri32) -> ri32 { unimplemented!() }
}

impl AddSpecImpl<Constant> for ri32 {
    open spec fn obeys_add_spec() -> bool { true }
    open spec fn add_req(self, rhs: Constant) -> bool { i32::MIN <= self.val + rhs.0 <= i32::MAX }
    open spec fn add_spec(self, rhs: Constant) -> ri32 { ri32 { val: (self.val + rhs.0) as i32 } }
}
impl core::ops::Add<Constant> for ri32 {
    type Output = ri32;
    #[verifier::external_body]
    fn add(self, rhs: Constant) -> ri32 { unimplemented!() }
}
impl AddAssignSpecImpl<Constant> for ri32 {
    open spec fn obeys_add_assign_spec() -> bool { true }
    open spec fn add_assign_req(&self, rhs: Constant) -> bool { i32::MIN <= self.val + rhs.0 <= i32::MAX }
    open spec fn add_assign_spec(&self, rhs: Constant) -> &ri32 { &ri32 { val: (self.val + rhs.0) as i32 } }
}
impl core::ops::AddAssign<Constant> for ri32 {
    #[verifier::external_body]
    fn add_assign(&mut self, rhs: Constant) { unimplemented!() }
}

impl SubSpecImpl<Constant> for ri32 {
    open spec fn obeys_sub_spec() -> bool { true }
    open spec fn sub_req(self, rhs: Constant) -> bool { i32::MIN <= self.val - rhs.0 <= i32::MAX }
    open spec fn sub_spec(self, rhs: Constant) -> ri32 { ri32 { val: (self.val - rhs.0) as i32 } }
}
impl core::ops::Sub<Constant> for ri32 {
    type Output = ri32;
    #[verifier::external_body]
    fn sub(self, rhs: Constant) -> ri32 { unimplemented!() }
}
impl SubAssignSpecImpl<Constant> for ri32 {
    open spec fn obeys_sub_assign_spec() -> bool { true }
    open spec fn sub_assign_req(&self, rhs: Constant) -> bool { i32::MIN <= self.val - rhs.0 <= i32::MAX }
    open spec fn sub_assign_spec(&self, rhs: Constant) -> &ri32 { &ri32 { val: (self.val - rhs.0) as i32 } }
}
impl core::ops::SubAssign<Constant> for ri32 {
    #[verifier::external_body]
    fn sub_assign(&mut self, rhs: Constant) { unimplemented!() }
}

impl MulSpecImpl<Constant> for ri32 {
    open spec fn obeys_mul_spec() -> bool { true }
    open spec fn mul_req(self, rhs: Constant) -> bool { i32::MIN <= self.val * rhs.0 <= i32::MAX }
    open spec fn mul_spec(self, rhs: Constant) -> ri32 { ri32 { val: (self.val * rhs.0) as i32 } }
}
impl core::ops::Mul<Constant> for ri32 {
    type Output = ri32;
    #[verifier::external_body]
    fn mul(self, rhs: Constant) -> ri32 { unimplemented!() }
}
impl MulAssignSpecImpl<Constant> for ri32 {
    open spec fn obeys_mul_assign_spec() -> bool { true }
    open spec fn mul_assign_req(&self, rhs: Constant) -> bool { i32::MIN <= self.val * rhs.0 <= i32::MAX }
    open spec fn mul_assign_spec(&self, rhs: Constant) -> &ri32 { &ri32 { val: (self.val * rhs.0) as i32 } }
}
impl core::ops::MulAssign<Constant> for ri32 {
    #[verifier::external_body]
    fn mul_assign(&mut self, rhs: Constant) { unimplemented!() }
}

impl DivSpecImpl<Constant> for ri32 {
    open spec fn obeys_div_spec() -> bool { true }
    open spec fn div_req(self, rhs: Constant) -> bool { rhs.0 > 0 }
    open spec fn div_spec(self, rhs: Constant) -> ri32 { ri32 { val: (self.val as int / rhs.0 as int) as i32 } }
}
impl core::ops::Div<Constant> for ri32 {
    type Output = ri32;
    #[verifier::external_body]
    fn div(self, rhs: Constant) -> ri32 { unimplemented!() }
}
impl RemSpecImpl<Constant> for ri32 {
    open spec fn obeys_rem_spec() -> bool { true }
    open spec fn rem_req(self, rhs: Constant) -> bool { rhs.0 > 0 }
    open spec fn rem_spec(self, rhs: Constant) -> ri32 { ri32 { val: (self.val as int % rhs.0 as int) as i32 } }
}
impl core::ops::Rem<Constant> for ri32 {
    type Output = ri32;
    #[verifier::external_body]
    fn rem(self, rhs: Constant) -> ri32 { unimplemented!() }
}

impl AddSpecImpl<ri8> for ri32 {
    open spec fn obeys_add_spec() -> bool { true }
    open spec fn add_req(self, rhs: ri8) -> bool { i32::MIN <= self.val + rhs.val <= i32::MAX }
    open spec fn add_spec(self, rhs: ri8) -> ri32 { ri32 { val: (self.val + rhs.val) as i32 } }
}
impl core::ops::Add<ri8> for ri32 {
    type Output = ri32;
    #[verifier::external_body]
    fn add(self, rhs: ri8) -> ri32 { unimplemented!() }
}
impl AddAssignSpecImpl<ri8> for ri32 {
    open spec fn obeys_add_assign_spec() -> bool { true }
    open spec fn add_assign_req(&self, rhs: ri8) -> bool { i32::MIN <= self.val + rhs.val <= i32::MAX }
    open spec fn add_assign_spec(&self, rhs: ri8) -> &ri32 { &ri32 { val: (self.val + rhs.val) as i32 } }
}
impl core::ops::AddAssign<ri8> for ri32 {
    #[verifier::external_body]
    fn add_assign(&mut self, rhs: ri8) { unimplemented!() }
}

impl SubSpecImpl<ri8> for ri32 {
    open spec fn obeys_sub_spec() -> bool { true }
    open spec fn sub_req(self, rhs: ri8) -> bool { i32::MIN <= self.val - rhs.val <= i32::MAX }
    open spec fn sub_spec(self, rhs: ri8) -> ri32 { ri32 { val: (self.val - rhs.val) as i32 } }
}
impl core::ops::Sub<ri8> for ri32 {
    type Output = ri32;
    #[verifier::external_body]
    fn sub(self, rhs: ri8) -> ri32 { unimplemented!() }
}
impl SubAssignSpecImpl<ri8> for ri32 {
    open spec fn obeys_sub_assign_spec() -> bool { true }
    open spec fn sub_assign_req(&self, rhs: ri8) -> bool { i32::MIN <= self.val - rhs.val <= i32::MAX }
    open spec fn sub_assign_spec(&self, rhs: ri8) -> &ri32 { &ri32 { val: (self.val - rhs.val) as i32 } }
}
impl core::ops::SubAssign<ri8> for ri32 {
    #[verifier::external_body]
    fn sub_assign(&mut self, rhs: ri8) { unimplemented!() }
}

impl MulSpecImpl<ri8> for ri32 {
    open spec fn obeys_mul_spec() -> bool { true }
    open spec fn mul_req(self, rhs: ri8) -> bool { i32::MIN <= self.val * rhs.val <= i32::MAX }
    open spec fn mul_spec(self, rhs: ri8) -> ri32 { ri32 { val: (self.val * rhs.val) as i32 } }
}
impl core::ops::Mul<ri8> for ri32 {
    type Output = ri32;
    #[verifier::external_body]
    fn mul(self, rhs: ri8) -> ri32 { unimplemented!() }
}
impl MulAssignSpecImpl<ri8> for ri32 {
    open spec fn obeys_mul_assign_spec() -> bool { true }
    open spec fn mul_assign_req(&self, rhs: ri8) -> bool { i32::MIN <= self.val * rhs.val <= i32::MAX }
    open spec fn mul_assign_spec(&self, rhs: ri8) -> &ri32 { &ri32 { val: (self.val * rhs.val) as i32 } }
}
impl core::ops::MulAssign<ri8> for ri32 {
    #[verifier::external_body]
    fn mul_assign(&mut self, rhs: ri8) { unimplemented!() }
}

impl DivSpecImpl<ri8> for ri32 {
    open spec fn obeys_div_spec() -> bool { true }
    open spec fn div_req(self, rhs: ri8) -> bool { rhs.val > 0 }
    open spec fn div_spec(self, rhs: ri8) -> ri32 { ri32 { val: (self.val as int / rhs.val as int) as i32 } }
}
impl core::ops::Div<ri8> for ri32 {
    type Output = ri32;
    #[verifier::external_body]
    fn div(self, rhs: ri8) -> ri32 { unimplemented!() }
}
impl RemSpecImpl<ri8> for ri32 {
    open spec fn obeys_rem_spec() -> bool { true }
    open spec fn rem_req(self, rhs: ri8) -> bool { rhs.val > 0 }
    open spec fn rem_spec(self, rhs: ri8) -> ri32 { ri32 { val: (self.val as int % rhs.val as int) as i32 } }
}
impl core::ops::Rem<ri8> for ri32 {
    type Output = ri32;
    #[verifier::external_body]
    fn rem(self, rhs: ri8) -> ri32 { unimplemented!() }
}

impl AddSpecImpl<ri16> for ri32 {
    open spec fn obeys_add_spec() -> bool { true }
    open spec fn add_req(self, rhs: ri16) -> bool { i32::MIN <= self.val + rhs.val <= i32::MAX }
    open spec fn add_spec(self, rhs: ri16) -> ri32 { ri32 { val: (self.val + rhs.val) as i32 } }
}
impl core::ops::Add<ri16> for ri32 {
    type Output = ri32;
    #[verifier::external_body]
    fn add(self, rhs: ri16) -> ri32 { unimplemented!() }
}
impl AddAssignSpecImpl<ri16> for ri32 {
    open spec fn obeys_add_assign_spec() -> bool { true }
    open spec fn add_assign_req(&self, rhs: ri16) -> bool { i32::MIN <= self.val + rhs.val <= i32::MAX }
    open spec fn add_assign_spec(&self, rhs: ri16) -> &ri32 { &ri32 { val: (self.val + rhs.val) as i32 } }
}
impl core::ops::AddAssign<ri16> for ri32 {
    #[verifier::external_body]
    fn add_assign(&mut self, rhs: ri16) { unimplemented!() }
}

impl SubSpecImpl<ri16> for ri32 {
    open spec fn obeys_sub_spec() -> bool { true }
    open spec fn sub_req(self, rhs: ri16) -> bool { i32::MIN <= self.val - rhs.val <= i32::MAX }
    open spec fn sub_spec(self, rhs: ri16) -> ri32 { ri32 { val: (self.val - rhs.val) as i32 } }
}
impl core::ops::Sub<ri16> for ri32 {
    type Output = ri32;
    #[verifier::external_body]
    fn sub(self, rhs: ri16) -> ri32 { unimplemented!() }
}
impl SubAssignSpecImpl<ri16> for ri32 {
    open spec fn obeys_sub_assign_spec() -> bool { true }
    open spec fn sub_assign_req(&self, rhs: ri16) -> bool { i32::MIN <= self.val - rhs.val <= i32::MAX }
    open spec fn sub_assign_spec(&self, rhs: ri16) -> &ri32 { &ri32 { val: (self.val - rhs.val) as i32 } }
}
impl core::ops::SubAssign<ri16> for ri32 {
    #[verifier::external_body]
    fn sub_assign(&mut self, rhs: ri16) { unimplemented!() }
}

impl MulSpecImpl<ri16> for ri32 {
    open spec fn obeys_mul_spec() -> bool { true }
    open spec fn mul_req(self, rhs: ri16) -> bool { i32::MIN <= self.val * rhs.val <= i32::MAX }
    open spec fn mul_spec(self, rhs: ri16) -> ri32 { ri32 { val: (self.val * rhs.val) as i32 } }
}
impl core::ops::Mul<ri16> for ri32 {
    type Output = ri32;
    #[verifier::external_body]
    fn mul(self, rhs: ri16) -> ri32 { unimplemented!() }
}
impl MulAssignSpecImpl<ri16> for ri32 {
    open spec fn obeys_mul_assign_spec() -> bool { true }
    open spec fn mul_assign_req(&self, rhs: ri16) -> bool { i32::MIN <= self.val * rhs.val <= i32::MAX }
    open spec fn mul_assign_spec(&self, rhs: ri16) -> &ri32 { &ri32 { val: (self.val * rhs.val) as i32 } }
}
impl core::ops::MulAssign<ri16> for ri32 {
    #[verifier::external_body]
    fn mul_assign(&mut self, rhs: ri16) { unimplemented!() }
}

impl DivSpecImpl<ri16> for ri32 {
    open spec fn obeys_div_spec() -> bool { true }
    open spec fn div_req(self, rhs: ri16) -> bool { rhs.val > 0 }
    open spec fn div_spec(self, rhs: ri16) -> ri32 { ri32 { val: (self.val as int / rhs.val as int) as i32 } }
}
impl core::ops::Div<ri16> for ri32 {
    type Output = ri32;
    #[verifier::external_body]
    fn div(self, rhs: ri16) -> ri32 { unimplemented!() }
}
impl RemSpecImpl<ri16> for ri32 {
    open spec fn obeys_rem_spec() -> bool { true }
    open spec fn rem_req(self, rhs: ri16) -> bool { rhs.val > 0 }
    open spec fn rem_spec(self, rhs: ri16) -> ri32 { ri32 { val: (self.val as int % rhs.val as int) as i32 } }
}
impl core::ops::Rem<ri16> for ri32 {
    type Output = ri32;
    #[verifier::external_body]
    fn rem(self, rhs: ri16) -> ri32 { unimplemented!() }
}

impl AddSpecImpl<ri64> for ri32 {
    open spec fn obeys_add_spec() -> bool { true }
    open spec fn add_req(self, rhs: ri64) -> bool { i32::MIN <= self.val + rhs.val <= i32::MAX }
    open spec fn add_spec(self, rhs: ri64) -> ri32 { ri32 { val: (self.val + rhs.val) as i32 } }
}
impl core::ops::Add<ri64> for ri32 {
    type Output = ri32;
    #[verifier::external_body]
    fn add(self, rhs: ri64) -> ri32 { unimplemented!() }
}
impl AddAssignSpecImpl<ri64> for ri32 {
    open spec fn obeys_add_assign_spec() -> bool { true }
    open spec fn add_assign_req(&self, rhs: ri64) -> bool { i32::MIN <= self.val + rhs.val <= i32::MAX }
    open spec fn add_assign_spec(&self, rhs: ri64) -> &ri32 { &ri32 { val: (self.val + rhs.val) as i32 } }
}
impl core::ops::AddAssign<ri64> for ri32 {
    #[verifier::external_body]
    fn add_assign(&mut self, rhs: ri64) { unimplemented!() }
}

impl SubSpecImpl<ri64> for ri32 {
    open spec fn obeys_sub_spec() -> bool { true }
    open spec fn sub_req(self, rhs: ri64) -> bool { i32::MIN <= self.val - rhs.val <= i32::MAX }
    open spec fn sub_spec(self, rhs: ri64) -> ri32 { ri32 { val: (self.val - rhs.val) as i32 } }
}
impl core::ops::Sub<ri64> for ri32 {
    type Output = ri32;
    #[verifier::external_body]
    fn sub(self, rhs: ri64) -> ri32 { unimplemented!() }
}
impl SubAssignSpecImpl<ri64> for ri32 {
    open spec fn obeys_sub_assign_spec() -> bool { true }
    open spec fn sub_assign_req(&self, rhs: ri64) -> bool { i32::MIN <= self.val - rhs.val <= i32::MAX }
    open spec fn sub_assign_spec(&self, rhs: ri64) -> &ri32 { &ri32 { val: (self.val - rhs.val) as i32 } }
}
impl core::ops::SubAssign<ri64> for ri32 {
    #[verifier::external_body]
    fn sub_assign(&mut self, rhs: ri64) { unimplemented!() }
}

impl MulSpecImpl<ri64> for ri32 {
    open spec fn obeys_mul_spec() -> bool { true }
    open spec fn mul_req(self, rhs: ri64) -> bool { i32::MIN <= self.val * rhs.val <= i32::MAX }
    open spec fn mul_spec(self, rhs: ri64) -> ri32 { ri32 { val: (self.val * rhs.val) as i32 } }
}
impl core::ops::Mul<ri64> for ri32 {
    type Output = ri32;
    #[verifier::external_body]
    fn mul(self, rhs: ri64) -> ri32 { unimplemented!() }
}
impl MulAssignSpecImpl<ri64> for ri32 {
    open spec fn obeys_mul_assign_spec() -> bool { true }
    open spec fn mul_assign_req(&self, rhs: ri64) -> bool { i32::MIN <= self.val * rhs.val <= i32::MAX }
    open spec fn mul_assign_spec(&self, rhs: ri64) -> &ri32 { &ri32 { val: (self.val * rhs.val) as i32 } }
}
impl core::ops::MulAssign<ri64> for ri32 {
    #[verifier::external_body]
    fn mul_assign(&mut self, rhs: ri64) { unimplemented!() }
}

impl DivSpecImpl<ri64> for ri32 {
    open spec fn obeys_div_spec() -> bool { true }
    open spec fn div_req(self, rhs: ri64) -> bool { rhs.val > 0 }
    open spec fn div_spec(self, rhs: ri64) -> ri32 { ri32 { val: (self.val as int / rhs.val as int) as i32 } }
}
impl core::ops::Div<ri64> for ri32 {
    type Output = ri32;
    #[verifier::external_body]
    fn div(self, rhs: ri64) -> ri32 { unimplemented!() }
}
impl RemSpecImpl<ri64> for ri32 {
    open spec fn obeys_rem_spec() -> bool { true }
    open spec fn rem_req(self, rhs: ri64) -> bool { rhs.val > 0 }
    open spec fn rem_spec(self, rhs: ri64) -> ri32 { ri32 { val: (self.val as int % rhs.val as int) as i32 } }
}
impl core::ops::Rem<ri64> for ri32 {
    type Output = ri32;
    #[verifier::external_body]
    fn rem(self, rhs: ri64) -> ri32 { unimplemented!() }
}

impl AddSpecImpl<ri128> for ri32 {
    open spec fn obeys_add_spec() -> bool { true }
    open spec fn add_req(self, rhs: ri128) -> bool { i32::MIN <= self.val + rhs.val <= i32::MAX }
    open spec fn add_spec(self, rhs: ri128) -> ri32 { ri32 { val: (self.val + rhs.val) as i32 } }
}
impl core::ops::Add<ri128> for ri32 {
    type Output = ri32;
    #[verifier::external_body]
    fn add(self, rhs: ri128) -> ri32 { unimplemented!() }
}
impl AddAssignSpecImpl<ri128> for ri32 {
    open spec fn obeys_add_assign_spec() -> bool { true }
    open spec fn add_assign_req(&self, rhs: ri128) -> bool { i32::MIN <= self.val + rhs.val <= i32::MAX }
    open spec fn add_assign_spec(&self, rhs: ri128) -> &ri32 { &ri32 { val: (self.val + rhs.val) as i32 } }
}
impl core::ops::AddAssign<ri128> for ri32 {
    #[verifier::external_body]
    fn add_assign(&mut self, rhs: ri128) { unimplemented!() }
}

impl SubSpecImpl<ri128> for ri32 {
    open spec fn obeys_sub_spec() -> bool { true }
    open spec fn sub_req(self, rhs: ri128) -> bool { i32::MIN <= self.val - rhs.val <= i32::MAX }
    open spec fn sub_spec(self, rhs: ri128) -> ri32 { ri32 { val: (self.val - rhs.val) as i32 } }
}
impl core::ops::Sub<ri128> for ri32 {
    type Output = ri32;
    #[verifier::external_body]
    fn sub(self, rhs: ri128) -> ri32 { unimplemented!() }
}
impl SubAssignSpecImpl<ri128> for ri32 {
    open spec fn obeys_sub_assign_spec() -> bool { true }
    open spec fn sub_assign_req(&self, rhs: ri128) -> bool { i32::MIN <= self.val - rhs.val <= i32::MAX }
    open spec fn sub_assign_spec(&self, rhs: ri128) -> &ri32 { &ri32 { val: (self.val - rhs.val) as i32 } }
}
impl core::ops::SubAssign<ri128> for ri32 {
    #[verifier::external_body]
    fn sub_assign(&mut self, rhs: ri128) { unimplemented!() }
}

impl MulSpecImpl<ri128> for ri32 {
    open spec fn obeys_mul_spec() -> bool { true }
    open spec fn mul_req(self, rhs: ri128) -> bool { i32::MIN <= self.val * rhs.val <= i32::MAX }
    open spec fn mul_spec(self, rhs: ri128) -> ri32 { ri32 { val: (self.val * rhs.val) as i32 } }
}
impl core::ops::Mul<ri128> for ri32 {
    type Output = ri32;
    #[verifier::external_body]
    fn mul(self, rhs: ri128) -> ri32 { unimplemented!() }
}
impl MulAssignSpecImpl<ri128> for ri32 {
    open spec fn obeys_mul_assign_spec() -> bool { true }
    open spec fn mul_assign_req(&self, rhs: ri128) -> bool { i32::MIN <= self.val * rhs.val <= i32::MAX }
    open spec fn mul_assign_spec(&self, rhs: ri128) -> &ri32 { &ri32 { val: (self.val * rhs.val) as i32 } }
}
impl core::ops::MulAssign<ri128> for ri32 {
    #[verifier::external_body]
    fn mul_assign(&mut self, rhs: ri128) { unimplemented!() }
}

impl DivSpecImpl<ri128> for ri32 {
    open spec fn obeys_div_spec() -> bool { true }
    open spec fn div_req(self, rhs: ri128) -> bool { rhs.val > 0 }
    open spec fn div_spec(self, rhs: ri128) -> ri32 { ri32 { val: (self.val as int / rhs.val as int) as i32 } }
}
impl core::ops::Div<ri128> for ri32 {
    type Output = ri32;
    #[verifier::external_body]
    fn div(self, rhs: ri128) -> ri32 { unimplemented!() }
}
impl RemSpecImpl<ri128> for ri32 {
    open spec fn obeys_rem_spec() -> bool { true }
    open spec fn rem_req(self, rhs: ri128) -> bool { rhs.val > 0 }
    open spec fn rem_spec(self, rhs: ri128) -> ri32 { ri32 { val: (self.val as int % rhs.val as int) as i32 } }
}
impl core::ops::Rem<ri128> for ri32 {
    type Output = ri32;
    #[verifier::external_body]
    fn rem(self, rhs: ri128) -> ri32 { unimplemented!() }
}

impl NegSpecImpl for ri32 {
    open spec fn obeys_neg_spec() -> bool { true }
    open spec fn neg_req(self) -> bool { self.val > i32::MIN }
    open spec fn neg_spec(self) -> ri32 { ri32 { val: (-self.val) as i32 } }
}
impl core::ops::Neg for ri32 {
    type Output = ri32;
    #[verifier::external_body]
    fn neg(self) -> ri32 { unimplemented!() }
}


// ------------------------------------------------------------------ ri64
#[derive(Clone, Copy)]
pub struct ri64 { pub val: i64 }
impl ri64 {
    pub fn new_unchecked(val: i64) -> (r: Self) ensures r.val == val { ri64 { val } }
    pub fn get(self) -> (r: i64) ensures r == self.val { self.val }
    pub fn get_unchecked(self) -> (r: i64) ensures r == self.val { self.val }
    pub fn without_bounds(self) -> (r: Self) ensures r == self { self }
    // `T::N::<VAL>()` is rewritten to `T::verif_N(VAL)`: the constant VAL (release: `Self { val: VAL }`, no bound is consulted).
    // (Not modelled with a const generic: Verus 0.2026.09.13 derives `false` from a negative const generic argument.)
    pub const fn verif_N(v: i64) -> (r: Self) ensures r.val == v { ri64 { val: v } }
    #[verifier::external_body]
    pub fn abs(self) -> (r: Self)
        requires self.val > i64::MIN,
        ensures r.val == (if self.val < 0 { -self.val } else { self.val as int })
    { unimplemented!() }
    // real: returns `riN<-1, 1>` of the SAME width
    pub fn signum(self) -> (r: Self) ensures r.val == (if self.val < 0 { -1int } else if self.val > 0 { 1int } else { 0int })
    { if self.val < 0 { ri64 { val: -1 } } else if self.val > 0 { ri64 { val: 1 } } else { ri64 { val: 0 } } }
    pub fn min<R: RInto<Self>>(self, other: R) -> (r: Self)
        requires other.rinto_req(),
        ensures r.val == (if other.rinto_spec().val < self.val { other.rinto_spec().val } else { self.val })
    { let o = other.rinto(); if o.val < self.val { o } else { self } }
    pub fn max<R: RInto<Self>>(self, other: R) -> (r: Self)
        requires other.rinto_req(),
        ensures r.val == (if other.rinto_spec().val > self.val { other.rinto_spec().val } else { self.val })
    { let o = other.rinto(); if o.val > self.val { o } else { self } }
    // truncating
    #[verifier::external_body]
    pub fn div_ceil<R: RInto<Self>>(self, rhs: R) -> (r: Self)
        requires rhs.rinto_req(), rhs.rinto_spec().val != 0, !(self.val == i64::MIN && rhs.rinto_spec().val == -1),
        ensures r.val == tdiv(self.val as int, rhs.rinto_spec().val as int)
    { unimplemented!() }
    #[verifier::external_body]
    pub fn rem_ceil<R: RInto<Self>>(self, rhs: R) -> (r: Self)
        requires rhs.rinto_req(), rhs.rinto_spec().val != 0, !(self.val == i64::MIN && rhs.rinto_spec().val == -1),
        ensures r.val == trem(self.val as int, rhs.rinto_spec().val as int)
    { unimplemented!() }
    // Euclidean (divisor > 0 required here; every use in jiff divides by a positive quantity)
    #[verifier::external_body]
    pub fn div_floor<R: RInto<Self>>(self, rhs: R) -> (r: Self)
        requires rhs.rinto_req(), rhs.rinto_spec().val > 0,
        ensures r.val == (self.val as int) / (rhs.rinto_spec().val as int)
    { unimplemented!() }
    #[verifier::external_body]
    pub fn rem_floor<R: RInto<Self>>(self, rhs: R) -> (r: Self)
        requires rhs.rinto_req(), rhs.rinto_spec().val > 0,
        ensures r.val == (self.val as int) % (rhs.rinto_spec().val as int)
    { unimplemented!() }
    #[verifier::external_body]
    pub fn saturating_mul<R: RInto<Self>>(self, rhs: R) -> (r: Self)
        requires rhs.rinto_req(),
        ensures i64::MIN <= self.val * rhs.rinto_spec().val <= i64::MAX ==> r.val == self.val * rhs.rinto_spec().val,
                self.val * rhs.rinto_spec().val > i64::MAX ==> r.val == i64::MAX,
                self.val * rhs.rinto_spec().val < i64::MIN ==> r.val == i64::MIN,
    { unimplemented!() }
    #[verifier::external_body]
    pub fn saturating_add<R: RInto<Self>>(self, rhs: R) -> (r: Self)
        requires rhs.rinto_req(),
        ensures i64::MIN <= self.val + rhs.rinto_spec().val <= i64::MAX ==> r.val == self.val + rhs.rinto_spec().val,
                self.val + rhs.rinto_spec().val > i64::MAX ==> r.val == i64::MAX,
                self.val + rhs.rinto_spec().val < i64::MIN ==> r.val == i64::MIN,
    { unimplemented!() }
}
// `type Range = ri64<{ LO }, { HI }>; Range::try_new("what", v)`: the bounds of an anonymous range are passed explicitly
#[verifier::external_body]
pub fn verif_try_new_range_64(lo: i128, hi: i128, v: i64) -> (res: Result<ri64, Error>)
    requires i64::MIN <= lo, hi <= i64::MAX,
    ensures res.is_ok() <==> lo <= v <= hi, res.is_ok() ==> res.unwrap().val == v
{ unimplemented!() }
impl RInto<ri64> for ri64 {
    open spec fn rinto_spec(self) -> ri64 { self }
    open spec fn rinto_req(self) -> bool { true }
    fn rinto(self) -> (r: ri64) { self }
}
impl RFrom<ri64> for ri64 {
    open spec fn rfrom_spec(t: ri64) -> ri64 { t }
    open spec fn rfrom_req(t: ri64) -> bool { true }
    fn rfrom(t: ri64) -> (r: ri64) { t }
}
impl RInto<ri64> for Constant {
    open spec fn rinto_spec(self) -> ri64 { ri64 { val: self.0 as i64 } }
    open spec fn rinto_req(self) -> bool { i64::MIN <= self.0 <= i64::MAX }
    #[verifier::external_body]
    fn rinto(self) -> (r: ri64) { unimplemented!() }
}
impl RFrom<Constant> for ri64 {
    open spec fn rfrom_spec(t: Constant) -> ri64 { ri64 { val: t.0 as i64 } }
    open spec fn rfrom_req(t: Constant) -> bool { i64::MIN <= t.0 <= i64::MAX }
    #[verifier::external_body]
    fn rfrom(t: Constant) -> (r: ri64) { unimplemented!() }
}
impl RInto<i64> for ri64 {
    open spec fn rinto_spec(self) -> i64 { self.val }
    open spec fn rinto_req(self) -> bool { true }
    fn rinto(self) -> (r: i64) { self.val }
}

impl PartialEqSpecImpl<ri64> for ri64 {
    open spec fn obeys_eq_spec() -> bool { true }
    open spec fn eq_spec(&self, other: &ri64) -> bool { self.val == other.val }
}
impl PartialEq<ri64> for ri64 {
    #[verifier::external_body]
    fn eq(&self, other: &ri64) -> bool { unimplemented!() }
}
impl PartialOrdSpecImpl<ri64> for ri64 {
    open spec fn obeys_partial_cmp_spec() -> bool { true }
    open spec fn partial_cmp_spec(&self, other: &ri64) -> Option<Ordering> { Some(int_cmp(self.val as int, other.val as int)) }
}
impl PartialOrd<ri64> for ri64 {
    #[verifier::external_body]
    fn partial_cmp(&self, other: &ri64) -> Option<Ordering> { unimplemented!() }
}

impl PartialEqSpecImpl<Constant> for ri64 {
    open spec fn obeys_eq_spec() -> bool { true }
    open spec fn eq_spec(&self, other: &Constant) -> bool { self.val == other.0 }
}
impl PartialEq<Constant> for ri64 {
    #[verifier::external_body]
    fn eq(&self, other: &Constant) -> bool { unimplemented!() }
}
impl PartialOrdSpecImpl<Constant> for ri64 {
    open spec fn obeys_partial_cmp_spec() -> bool { true }
    open spec fn partial_cmp_spec(&self, other: &Constant) -> Option<Ordering> { Some(int_cmp(self.val as int, other.0 as int)) }
}
impl PartialOrd<Constant> for ri64 {
    #[verifier::external_body]
    fn partial_cmp(&self, other: &Constant) -> Option<Ordering> { unimplemented!() }
}

impl PartialEqSpecImpl<ri8> for ri64 {
    open spec fn obeys_eq_spec() -> bool { true }
    open spec fn eq_spec(&self, other: &ri8) -> bool { self.val == other.val }
}
impl PartialEq<ri8> for ri64 {
    #[verifier::external_body]
    fn eq(&self, other: &ri8) -> bool { unimplemented!() }
}
impl PartialOrdSpecImpl<ri8> for ri64 {
    open spec fn obeys_partial_cmp_spec() -> bool { true }
    open spec fn partial_cmp_spec(&self, other: &ri8) -> Option<Ordering> { Some(int_cmp(self.val as int, other.val as int)) }
}
impl PartialOrd<ri8> for ri64 {
    #[verifier::external_body]
    fn partial_cmp(&self, other: &ri8) -> Option<Ordering> { unimplemented!() }
}

impl PartialEqSpecImpl<ri16> for ri64 {
    open spec fn obeys_eq_spec() -> bool { true }
    open spec fn eq_spec(&self, other: &ri16) -> bool { self.val == other.val }
}
impl PartialEq<ri16> for ri64 {
    #[verifier::external_body]
    fn eq(&self, other: &ri16) -> bool { unimplemented!() }
}
impl PartialOrdSpecImpl<ri16> for ri64 {
    open spec fn obeys_partial_cmp_spec() -> bool { true }
    open spec fn partial_cmp_spec(&self, other: &ri16) -> Option<Ordering> { Some(int_cmp(self.val as int, other.val as int)) }
}
impl PartialOrd<ri16> for ri64 {
    #[verifier::external_body]
    fn partial_cmp(&self, other: &ri16) -> Option<Ordering> { unimplemented!() }
}

impl PartialEqSpecImpl<ri32> for ri64 {
    open spec fn obeys_eq_spec() -> bool { true }
    open spec fn eq_spec(&self, other: &ri32) -> bool { self.val == other.val }
}
impl PartialEq<ri32> for ri64 {
    #[verifier::external_body]
    fn eq(&self, other: &ri32) -> bool { unimplemented!() }
}
impl PartialOrdSpecImpl<ri32> for ri64 {
    open spec fn obeys_partial_cmp_spec() -> bool { true }
    open spec fn partial_cmp_spec(&self, other: &ri32) -> Option<Ordering> { Some(int_cmp(self.val as int, other.val as int)) }
}
impl PartialOrd<ri32> for ri64 {
    #[verifier::external_body]
    fn partial_cmp(&self, other: &ri32) -> Option<Ordering> { unimplemented!() }
}

impl PartialEqSpecImpl<ri128> for ri64 {
    open spec fn obeys_eq_spec() -> bool { true }
    open spec fn eq_spec(&self, other: &ri128) -> bool { self.val == other.val }
}
impl PartialEq<ri128> for ri64 {
    #[verifier::external_body]
    fn eq(&self, other: &ri128) -> bool { unimplemented!() }
}
impl PartialOrdSpecImpl<ri128> for ri64 {
    open spec fn obeys_partial_cmp_spec() -> bool { true }
    open spec fn partial_cmp_spec(&self, other: &ri128) -> Option<Ordering> { Some(int_cmp(self.val as int, other.val as int)) }
}
impl PartialOrd<ri128> for ri64 {
    #[verifier::external_body]
    fn partial_cmp(&self, other: &ri128) -> Option<Ordering> { unimplemented!() }
}

impl AddSpecImpl<ri64> for ri64 {
    open spec fn obeys_add_spec() -> bool { true }
    open spec fn add_req(self, rhs: ri64) -> bool { i64::MIN <= self.val + rhs.val <= i64::MAX }
    open spec fn add_spec(self, rhs: ri64) -> ri64 { ri64 { val: (self.val + rhs.val) as i64 } }
}
impl core::ops::Add<ri64> for ri64 {
    type Output = ri64;
    #[verifier::external_body]
    fn add(self, rhs: ri64) -> ri64 { unimplemented!() }
}
impl AddAssignSpecImpl<ri64> for ri64 {
    open spec fn obeys_add_assign_spec() -> bool { true }
    open spec fn add_assign_req(&self, rhs: ri64) -> bool { i64::MIN <= self.val + rhs.val <= i64::MAX }
    open spec fn add_assign_spec(&self, rhs: ri64) -> &ri64 { &ri64 { val: (self.val + rhs.val) as i64 } }
}
impl core::ops::AddAssign<ri64> for ri64 {
    #[verifier::external_body]
    fn add_assign(&mut self, rhs: ri64) { unimplemented!() }
}

impl SubSpecImpl<ri64> for ri64 {
    open spec fn obeys_sub_spec() -> bool { true }
    open spec fn sub_req(self, rhs: ri64) -> bool { i64::MIN <= self.val - rhs.val <= i64::MAX }
    open spec fn sub_spec(self, rhs: ri64) -> ri64 { ri64 { val: (self.val - rhs.val) as i64 } }
}
impl core::ops::Sub<ri64> for ri64 {
    type Output = ri64;
    #[verifier::external_body]
    fn sub(self, rhs: ri64) -> ri64 { unimplemented!() }
}
impl SubAssignSpecImpl<ri64> for ri64 {
    open spec fn obeys_sub_assign_spec() -> bool { true }
    open spec fn sub_assign_req(&self, rhs: ri64) -> bool { i64::MIN <= self.val - rhs.val <= i64::MAX }
    open spec fn sub_assign_spec(&self, rhs: ri64) -> &ri64 { &ri64 { val: (self.val - rhs.val) as i64 } }
}
impl core::ops::SubAssign<ri64> for ri64 {
    #[verifier::external_body]
    fn sub_assign(&mut self, rhs: ri64) { unimplemented!() }
}

impl MulSpecImpl<ri64> for ri64 {
    open spec fn obeys_mul_spec() -> bool { true }
    open spec fn mul_req(self, rhs: ri64) -> bool { i64::MIN <= self.val * rhs.val <= i64::MAX }
    open spec fn mul_spec(self, rhs: ri64) -> ri64 { ri64 { val: (self.val * rhs.val) as i64 } }
}
impl core::ops::Mul<ri64> for ri64 {
    type Output = ri64;
    #[verifier::external_body]
    fn mul(self, rhs: ri64) -> ri64 { unimplemented!() }
}
impl MulAssignSpecImpl<ri64> for ri64 {
    open spec fn obeys_mul_assign_spec() -> bool { true }
    open spec fn mul_assign_req(&self, rhs: ri64) -> bool { i64::MIN <= self.val * rhs.val <= i64::MAX }
    open spec fn mul_assign_spec(&self, rhs: ri64) -> &ri64 { &ri64 { val: (self.val * rhs.val) as i64 } }
}
impl core::ops::MulAssign<ri64> for ri64 {
    #[verifier::external_body]
    fn mul_assign(&mut self, rhs: ri64) { unimplemented!() }
}

impl DivSpecImpl<ri64> for ri64 {
    open spec fn obeys_div_spec() -> bool { true }
    open spec fn div_req(self, rhs: ri64) -> bool { rhs.val > 0 }
    open spec fn div_spec(self, rhs: ri64) -> ri64 { ri64 { val: (self.val as int / rhs.val as int) as i64 } }
}
impl core::ops::Div<ri64> for ri64 {
    type Output = ri64;
    #[verifier::external_body]
    fn div(self, rhs: ri64) -> ri64 { unimplemented!() }
}
impl RemSpecImpl<ri64> for ri64 {
    open spec fn obeys_rem_spec() -> bool { true }
    open spec fn rem_req(self, rhs: ri64) -> bool { rhs.val > 0 }
    open spec fn rem_spec(self, rhs: ri64) -> ri64 { ri64 { val: (self.val as int % rhs.val as int) as i64 } }
}
impl core::ops::Rem<ri64> for ri64 {
    type Output = ri64;
    #[verifier::external_body]
    fn rem(self, rhs: ri64) -> ri64 { unimplemented!() }
}

impl AddSpecImpl<Constant> for ri64 {
    open spec fn obeys_add_spec() -> bool { true }
    open spec fn add_req(self, rhs: Constant) -> bool { i64::MIN <= self.val + rhs.0 <= i64::MAX }
    open spec fn add_spec(self, rhs: Constant) -> ri64 { ri64 { val: (self.val + rhs.0) as i64 } }
}
impl core::ops::Add<Constant> for ri64 {
    type Output = ri64;
    #[verifier::external_body]
    fn add(self, rhs: Constant) -> ri64 { unimplemented!() }
}
impl AddAssignSpecImpl<Constant> for ri64 {
    open spec fn obeys_add_assign_spec() -> bool { true }
    open spec fn add_assign_req(&self, rhs: Constant) -> bool { i64::MIN <= self.val + rhs.0 <= i64::MAX }
    open spec fn add_assign_spec(&self, rhs: Constant) -> &ri64 { &ri64 { val: (self.val + rhs.0) as i64 } }
}
impl core::ops::AddAssign<Constant> for ri64 {
    #[verifier::external_body]
    fn add_assign(&mut self, rhs: Constant) { unimplemented!() }
}

impl SubSpecImpl<Constant> for ri64 {
    open spec fn obeys_sub_spec() -> bool { true }
    open spec fn sub_req(self, rhs: Constant) -> bool { i64::MIN <= self.val - rhs.0 <= i64::MAX }
    open spec fn sub_spec(self, rhs: Constant) -> ri64 { ri64 { val: (self.val - rhs.0) as i64 } }
}
impl core::ops::Sub<Constant> for ri64 {
    type Output = ri64;
    #[verifier::external_body]
    fn sub(self, rhs: Constant) -> ri64 { unimplemented!() }
}
impl SubAssignSpecImpl<Constant> for ri64 {
    open spec fn obeys_sub_assign_spec() -> bool { true }
    open spec fn sub_assign_req(&self, rhs: Constant) -> bool { i64::MIN <= self.val - rhs.0 <= i64::MAX }
    open spec fn sub_assign_spec(&self, rhs: Constant) -> &ri64 { &ri64 { val: (self.val - rhs.0) as i64 } }
}
impl core::ops::SubAssign<Constant> for ri64 {
    #[verifier::external_body]
    fn sub_assign(&mut self, rhs: Constant) { unimplemented!() }
}

impl MulSpecImpl<Constant> for ri64 {
    open spec fn obeys_mul_spec() -> bool { true }
    open spec fn mul_req(self, rhs: Constant) -> bool { i64::MIN <= self.val * rhs.0 <= i64::MAX }
    open spec fn mul_spec(self, rhs: Constant) -> ri64 { ri64 { val: (self.val * rhs.0) as i64 } }
}
impl core::ops::Mul<Constant> for ri64 {
    type Output = ri64;
    #[verifier::external_body]
    fn mul(self, rhs: Constant) -> ri64 { unimplemented!() }
}
impl MulAssignSpecImpl<Constant> for ri64 {
    open spec fn obeys_mul_assign_spec() -> bool { true }
    open spec fn mul_assign_req(&self, rhs: Constant) -> bool { i64::MIN <= self.val * rhs.0 <= i64::MAX }
    open spec fn mul_assign_spec(&self, rhs: Constant) -> &ri64 { &ri64 { val: (self.val * rhs.0) as i64 } }
}
impl core::ops::MulAssign<Constant> for ri64 {
    #[verifier::external_body]
    fn mul_assign(&mut self, rhs: Constant) { unimplemented!() }
}

impl DivSpecImpl<Constant> for ri64 {
    open spec fn obeys_div_spec() -> bool { true }
    open spec fn div_req(self, rhs: Constant) -> bool { rhs.0 > 0 }
    open spec fn div_spec(self, rhs: Constant) -> ri64 { ri64 { val: (self.val as int / rhs.0 as int) as i64 } }
}
impl core::ops::Div<Constant> for ri64 {
    type Output = ri64;
    #[verifier::external_body]
    fn div(self, rhs: Constant) -> ri64 { unimplemented!() }
}
impl RemSpecImpl<Constant> for ri64 {
    open spec fn obeys_rem_spec() -> bool { true }
    open spec fn rem_req(self, rhs: Constant) -> bool { rhs.0 > 0 }
    open spec fn rem_spec(self, rhs: Constant) -> ri64 { ri64 { val: (self.val as int % rhs.0 as int) as i64 } }
}
impl core::ops::Rem<Constant> for ri64 {
    type Output = ri64;
    #[verifier::external_body]
    fn rem(self, rhs: Constant) -> ri64 { unimplemented!() }
}

impl AddSpecImpl<ri8> for ri64 {
    open spec fn obeys_add_spec() -> bool { true }
    open spec fn add_req(self, rhs: ri8) -> bool { i64::MIN <= self.val + rhs.val <= i64::MAX }
    open spec fn add_spec(self, rhs: ri8) -> ri64 { ri64 { val: (self.val + rhs.val) as i64 } }
}
impl core::ops::Add<ri8> for ri64 {
    type Output = ri64;
    #[verifier::external_body]
    fn add(self, rhs: ri8) -> ri64 { unimplemented!() }
}
impl AddAssignSpecImpl<ri8> for ri64 {
    open spec fn obeys_add_assign_spec() -> bool { true }
    open spec fn add_assign_req(&self, rhs: ri8) -> bool { i64::MIN <= self.val + rhs.val <= i64::MAX }
    open spec fn add_assign_spec(&self, rhs: ri8) -> &ri64 { &ri64 { val: (self.val + rhs.val) as i64 } }
}
impl core::ops::AddAssign<ri8> for ri64 {
    #[verifier::external_body]
    fn add_assign(&mut self, rhs: ri8) { unimplemented!() }
}

impl SubSpecImpl<ri8> for ri64 {
    open spec fn obeys_sub_spec() -> bool { true }
    open spec fn sub_req(self, rhs: ri8) -> bool { i64::MIN <= self.val - rhs.val <= i64::MAX }
    open spec fn sub_spec(self, rhs: ri8) -> ri64 { ri64 { val: (self.val - rhs.val) as i64 } }
}
impl core::ops::Sub<ri8> for ri64 {
    type Output = ri64;
    #[verifier::external_body]
    fn sub(self, rhs: ri8) -> ri64 { unimplemented!() }
}
impl SubAssignSpecImpl<ri8> for ri64 {
    open spec fn obeys_sub_assign_spec() -> bool { true }
    open spec fn sub_assign_req(&self, rhs: ri8) -> bool { i64::MIN <= self.val - rhs.val <= i64::MAX }
    open spec fn sub_assign_spec(&self, rhs: ri8) -> &ri64 { &ri64 { val: (self.val - rhs.val) as i64 } }
}
impl core::ops::SubAssign<ri8> for ri64 {
    #[verifier::external_body]
    fn sub_assign(&mut self, rhs: ri8) { unimplemented!() }
}

impl MulSpecImpl<ri8> for ri64 {
    open spec fn obeys_mul_spec() -> bool { true }
    open spec fn mul_req(self, rhs: ri8) -> bool { i64::MIN <= self.val * rhs.val <= i64::MAX }
    open spec fn mul_spec(self, rhs: ri8) -> ri64 { ri64 { val: (self.val * rhs.val) as i64 } }
}
impl core::ops::Mul<ri8> for ri64 {
    type Output = ri64;
    #[verifier::external_body]
    fn mul(self, rhs: ri8) -> ri64 { unimplemented!() }
}
impl MulAssignSpecImpl<ri8> for ri64 {
    open spec fn obeys_mul_assign_spec() -> bool { true }
    open spec fn mul_assign_req(&self, rhs: ri8) -> bool { i64::MIN <= self.val * rhs.val <= i64::MAX }
    open spec fn mul_assign_spec(&self, rhs: ri8) -> &ri64 { &ri64 { val: (self.val * rhs.val) as i64 } }
}
impl core::ops::MulAssign<ri8> for ri64 {
    #[verifier::external_body]
    fn mul_assign(&mut self, rhs: ri8) { unimplemented!() }
}

impl DivSpecImpl<ri8> for ri64 {
    open spec fn obeys_div_spec() -> bool { true }
    open spec fn div_req(self, rhs: ri8) -> bool { rhs.val > 0 }
    open spec fn div_spec(self, rhs: ri8) -> ri64 { ri64 { val: (self.val as int / rhs.val as int) as i64 } }
}
impl core::ops::Div<ri8> for ri64 {
    type Output = ri64;
    #[verifier::external_body]
    fn div(self, rhs: ri8) -> ri64 { unimplemented!() }
}
impl RemSpecImpl<ri8> for ri64 {
    open spec fn obeys_rem_spec() -> bool { true }
    open spec fn rem_req(self, rhs: ri8) -> bool { rhs.val > 0 }
    open spec fn rem_spec(self, rhs: ri8) -> ri64 { ri64 { val: (self.val as int % rhs.val as int) as i64 } }
}
impl core::ops::Rem<ri8> for ri64 {
    type Output = ri64;
    #[verifier::external_body]
    fn rem(self, rhs: ri8) -> ri64 { unimplemented!() }
}

impl AddSpecImpl<ri16> for ri64 {
    open spec fn obeys_add_spec() -> bool { true }
    open spec fn add_req(self, rhs: ri16) -> bool { i64::MIN <= self.val + rhs.val <= i64::MAX }
    open spec fn add_spec(self, rhs: ri16) -> ri64 { ri64 { val: (self.val + rhs.val) as i64 } }
}
impl core::ops::Add<ri16> for ri64 {
    type Output = ri64;
    #[verifier::external_body]
    fn add(self, rhs: ri16) -> ri64 { unimplemented!() }
}
impl AddAssignSpecImpl<ri16> for ri64 {
    open spec fn obeys_add_assign_spec() -> bool { true }
    open spec fn add_assign_req(&self, rhs: ri16) -> bool { i64::MIN <= self.val + rhs.val <= i64::MAX }
    open spec fn add_assign_spec(&self, rhs: ri16) -> &ri64 { &ri64 { val: (self.val + rhs.val) as i64 } }
}
impl core::ops::AddAssign<ri16> for ri64 {
    #[verifier::external_body]
    fn add_assign(&mut self, rhs: ri16) { unimplemented!() }
}

impl SubSpecImpl<ri16> for ri64 {
    open spec fn obeys_sub_spec() -> bool { true }
    open spec fn sub_req(self, rhs: ri16) -> bool { i64::MIN <= self.val - rhs.val <= i64::MAX }
    open spec fn sub_spec(self, rhs: ri16) -> ri64 { ri64 { val: (self.val - rhs.val) as i64 } }
}
impl core::ops::Sub<ri16> for ri64 {
    type Output = ri64;
    #[verifier::external_body]
    fn sub(self, rhs: ri16) -> ri64 { unimplemented!() }
}
impl SubAssignSpecImpl<ri16> for ri64 {
    open spec fn obeys_sub_assign_spec() -> bool { true }
    open spec fn sub_assign_req(&self, rhs: ri16) -> bool { i64::MIN <= self.val - rhs.val <= i64::MAX }
    open spec fn sub_assign_spec(&self, rhs: ri16) -> &ri64 { &ri64 { val: (self.val - rhs.val) as i64 } }
}
impl core::ops::SubAssign<ri16> for ri64 {
    #[verifier::external_body]
    fn sub_assign(&mut self, rhs: ri16) { unimplemented!() }
}

impl MulSpecImpl<ri16> for ri64 {
    open spec fn obeys_mul_spec() -> bool { true }
    open spec fn mul_req(self, rhs: ri16) -> bool { i64::MIN <= self.val * rhs.val <= i64::MAX }
    open spec fn mul_spec(self, rhs: ri16) -> ri64 { ri64 { val: (self.val * rhs.val) as i64 } }
}
impl core::ops::Mul<ri16> for ri64 {
    type Output = ri64;
    #[verifier::external_body]
    fn mul(self, rhs: ri16) -> ri64 { unimplemented!() }
}
impl MulAssignSpecImpl<ri16> for ri64 {
    open spec fn obeys_mul_assign_spec() -> bool { true }
    open spec fn mul_assign_req(&self, rhs: ri16) -> bool { i64::MIN <= self.val * rhs.val <= i64::MAX }
    open spec fn mul_assign_spec(&self, rhs: ri16) -> &ri64 { &ri64 { val: (self.val * rhs.val) as i64 } }
}
impl core::ops::MulAssign<ri16> for ri64 {
    #[verifier::external_body]
    fn mul_assign(&mut self, rhs: ri16) { unimplemented!() }
}

impl DivSpecImpl<ri16> for ri64 {
    open spec fn obeys_div_spec() -> bool { true }
    open spec fn div_req(self, rhs: ri16) -> bool { rhs.val > 0 }
    open spec fn div_spec(self, rhs: ri16) -> ri64 { ri64 { val: (self.val as int / rhs.val as int) as i64 } }
}
impl core::ops::Div<ri16> for ri64 {
    type Output = ri64;
    #[verifier::external_body]
    fn div(self, rhs: ri16) -> ri64 { unimplemented!() }
}
impl RemSpecImpl<ri16> for ri64 {
    open spec fn obeys_rem_spec() -> bool { true }
    open spec fn rem_req(self, rhs: ri16) -> bool { rhs.val > 0 }
    open spec fn rem_spec(self, rhs: ri16) -> ri64 { ri64 { val: (self.val as int % rhs.val as int) as i64 } }
}
impl core::ops::Rem<ri16> for ri64 {
    type Output = ri64;
    #[verifier::external_body]
    fn rem(self, rhs: ri16) -> ri64 { unimplemented!() }
}

impl AddSpecImpl<ri32> for ri64 {
    open spec fn obeys_add_spec() -> bool { true }
    open spec fn add_req(self, rhs: ri32) -> bool { i64::MIN <= self.val + rhs.val <= i64::MAX }
    open spec fn add_spec(self, rhs: ri32) -> ri64 { ri64 { val: (self.val + rhs.val) as i64 } }
}
impl core::ops::Add<ri32> for ri64 {
    type Output = ri64;
    #[verifier::external_body]
    fn add(self, rhs: ri32) -> ri64 { unimplemented!() }
}
impl AddAssignSpecImpl<ri32> for ri64 {
    open spec fn obeys_add_assign_spec() -> bool { true }
    open spec fn add_assign_req(&self, rhs: ri32) -> bool { i64::MIN <= self.val + rhs.val <= i64::MAX }
    open spec fn add_assign_spec(&self, rhs: ri32) -> &ri64 { &ri64 { val: (self.val + rhs.val) as i64 } }
}
impl core::ops::AddAssign<ri32> for ri64 {
    #[verifier::external_body]
    fn add_assign(&mut self, rhs: ri32) { unimplemented!() }
}

impl SubSpecImpl<ri32> for ri64 {
    open spec fn obeys_sub_spec() -> bool { true }
    open spec fn sub_req(self, rhs: ri32) -> bool { i64::MIN <= self.val - rhs.val <= i64::MAX }
    open spec fn sub_spec(self, rhs: ri32) -> ri64 { ri64 { val: (self.val - rhs.val) as i64 } }
}
impl core::ops::Sub<ri32> for ri64 {
    type Output = ri64;
    #[verifier::external_body]
    fn sub(self, rhs: ri32) -> ri64 { unimplemented!() }
}
impl SubAssignSpecImpl<ri32> for ri64 {
    open spec fn obeys_sub_assign_spec() -> bool { true }
    open spec fn sub_assign_req(&self, rhs: ri32) -> bool { i64::MIN <= self.val - rhs.val <= i64::MAX }
    open spec fn sub_assign_spec(&self, rhs: ri32) -> &ri64 { &ri64 { val: (self.val - rhs.val) as i64 } }
}
impl core::ops::SubAssign<ri32> for ri64 {
    #[verifier::external_body]
    fn sub_assign(&mut self, rhs: ri32) { unimplemented!() }
}

impl MulSpecImpl<ri32> for ri64 {
    open spec fn obeys_mul_spec() -> bool { true }
    open spec fn mul_req(self, rhs: ri32) -> bool { i64::MIN <= self.val * rhs.val <= i64::MAX }
    open spec fn mul_spec(self, rhs: ri32) -> ri64 { ri64 { val: (self.val * rhs.val) as i64 } }
}
impl core::ops::Mul<ri32> for ri64 {
    type Output = ri64;
    #[verifier::external_body]
    fn mul(self, rhs: ri32) -> ri64 { unimplemented!() }
}
impl MulAssignSpecImpl<ri32> for ri64 {
    open spec fn obeys_mul_assign_spec() -> bool { true }
    open spec fn mul_assign_req(&self, rhs: ri32) -> bool { i64::MIN <= self.val * rhs.val <= i64::MAX }
    open spec fn mul_assign_spec(&self, rhs: ri32) -> &ri64 { &ri64 { val: (self.val * rhs.val) as i64 } }
}
impl core::ops::MulAssign<ri32> for ri64 {
    #[verifier::external_body]
    fn mul_assign(&mut self, rhs: ri32) { unimplemented!() }
}

impl DivSpecImpl<ri32> for ri64 {
    open spec fn obeys_div_spec() -> bool { true }
    open spec fn div_req(self, rhs: ri32) -> bool { rhs.val > 0 }
    open spec fn div_spec(self, rhs: ri32) -> ri64 { ri64 { val: (self.val as int / rhs.val as int) as i64 } }
}
impl core::ops::Div<ri32> for ri64 {
    type Output = ri64;
    #[verifier::external_body]
    fn div(self, rhs: ri32) -> ri64 { unimplemented!() }
}
impl RemSpecImpl<ri32> for ri64 {
    open spec fn obeys_rem_spec() -> bool { true }
    open spec fn rem_req(self, rhs: ri32) -> bool { rhs.val > 0 }
    open spec fn rem_spec(self, rhs: ri32) -> ri64 { ri64 { val: (self.val as int % rhs.val as int) as i64 } }
}
impl core::ops::Rem<ri32> for ri64 {
    type Output = ri64;
    #[verifier::external_body]
    fn rem(self, rhs: ri32) -> ri64 { unimplemented!() }
}

impl AddSpecImpl<ri128> for ri64 {
    open spec fn obeys_add_spec() -> bool { true }
    open spec fn add_req(self, rhs: ri128) -> bool { i64::MIN <= self.val + rhs.val <= i64::MAX }
    open spec fn add_spec(self, rhs: ri128) -> ri64 { ri64 { val: (self.val + rhs.val) as i64 } }
}
impl core::ops::Add<ri128> for ri64 {
    type Output = ri64;
    #[verifier::external_body]
    fn add(self, rhs: ri128) -> ri64 { unimplemented!() }
}
impl AddAssignSpecImpl<ri128> for ri64 {
    open spec fn obeys_add_assign_spec() -> bool { true }
    open spec fn add_assign_req(&self, rhs: ri128) -> bool { i64::MIN <= self.val + rhs.val <= i64::MAX }
    open spec fn add_assign_spec(&self, rhs: ri128) -> &ri64 { &ri64 { val: (self.val + rhs.val) as i64 } }
}
impl core::ops::AddAssign<ri128> for ri64 {
    #[verifier::external_body]
    fn add_assign(&mut self, rhs: ri128) { unimplemented!() }
}

impl SubSpecImpl<ri128> for ri64 {
    open spec fn obeys_sub_spec() -> bool { true }
    open spec fn sub_req(self, rhs: ri128) -> bool { i64::MIN <= self.val - rhs.val <= i64::MAX }
    open spec fn sub_spec(self, rhs: ri128) -> ri64 { ri64 { val: (self.val - rhs.val) as i64 } }
}
impl core::ops::Sub<ri128> for ri64 {
    type Output = ri64;
    #[verifier::external_body]
    fn sub(self, rhs: ri128) -> ri64 { unimplemented!() }
}
impl SubAssignSpecImpl<ri128> for ri64 {
    open spec fn obeys_sub_assign_spec() -> bool { true }
    open spec fn sub_assign_req(&self, rhs: ri128) -> bool { i64::MIN <= self.val - rhs.val <= i64::MAX }
    open spec fn sub_assign_spec(&self, rhs: ri128) -> &ri64 { &ri64 { val: (self.val - rhs.val) as i64 } }
}
impl core::ops::SubAssign<ri128> for ri64 {
    #[verifier::external_body]
    fn sub_assign(&mut self, rhs: ri128) { unimplemented!() }
}

impl MulSpecImpl<ri128> for ri64 {
    open spec fn obeys_mul_spec() -> bool { true }
    open spec fn mul_req(self, rhs: ri128) -> bool { i64::MIN <= self.val * rhs.val <= i64::MAX }
    open spec fn mul_spec(self, rhs: ri128) -> ri64 { ri64 { val: (self.val * rhs.val) as i64 } }
}
impl core::ops::Mul<ri128> for ri64 {
    type Output = ri64;
    #[verifier::external_body]
    fn mul(self, rhs: ri128) -> ri64 { unimplemented!() }
}
impl MulAssignSpecImpl<ri128> for ri64 {
    open spec fn obeys_mul_assign_spec() -> bool { true }
    open spec fn mul_assign_req(&self, rhs: ri128) -> bool { i64::MIN <= self.val * rhs.val <= i64::MAX }
    open spec fn mul_assign_spec(&self, rhs: ri128) -> &ri64 { &ri64 { val: (self.val * rhs.val) as i64 } }
}
impl core::ops::MulAssign<ri128> for ri64 {
    #[verifier::external_body]
    fn mul_assign(&mut self, rhs: ri128) { unimplemented!() }
}

impl DivSpecImpl<ri128> for ri64 {
    open spec fn obeys_div_spec() -> bool { true }
    open spec fn div_req(self, rhs: ri128) -> bool { rhs.val > 0 }
    open spec fn div_spec(self, rhs: ri128) -> ri64 { ri64 { val: (self.val as int / rhs.val as int) as i64 } }
}
impl core::ops::Div<ri128> for ri64 {
    type Output = ri64;
    #[verifier::external_body]
    fn div(self, rhs: ri128) -> ri64 { unimplemented!() }
}
impl RemSpecImpl<ri128> for ri64 {
    open spec fn obeys_rem_spec() -> bool { true }
    open spec fn rem_req(self, rhs: ri128) -> bool { rhs.val > 0 }
    open spec fn rem_spec(self, rhs: ri128) -> ri64 { ri64 { val: (self.val as int % rhs.val as int) as i64 } }
}
impl core::ops::Rem<ri128> for ri64 {
    type Output = ri64;
    #[verifier::external_body]
    fn rem(self, rhs: ri128) -> ri64 { unimplemented!() }
}

impl NegSpecImpl for ri64 {
    open spec fn obeys_neg_spec() -> bool { true }
    open spec fn neg_req(self) -> bool { self.val > i64::MIN }
    open spec fn neg_spec(self) -> ri64 { ri64 { val: (-self.val) as i64 } }
}
impl core::ops::Neg for ri64 {
    type Output = ri64;
    #[verifier::external_body]
    fn neg(self) -> ri64 { unimplemented!() }
}


// ------------------------------------------------------------------ ri128
#[derive(Clone, Copy)]
pub struct ri128 { pub val: i128 }
impl ri128 {
    pub fn new_unchecked(val: i128) -> (r: Self) ensures r.val == val { ri128 { val } }
    pub fn get(self) -> (r: i128) ensures r == self.val { self.val }
    pub fn get_unchecked(self) -> (r: i128) ensures r == self.val { self.val }
    pub fn without_bounds(self) -> (r: Self) ensures r == self { self }
    // `T::N::<VAL>()` is rewritten to `T::verif_N(VAL)`: the constant VAL (release: `Self { val: VAL }`, no bound is consulted).
    // (Not modelled with a const generic: Verus 0.2026.09.13 derives `false` from a negative const generic argument.)
    pub const fn verif_N(v: i128) -> (r: Self) ensures r.val == v { ri128 { val: v } }
    #[verifier::external_body]
    pub fn abs(self) -> (r: Self)
        requires self.val > i128::MIN,
        ensures r.val == (if self.val < 0 { -self.val } else { self.val as int })
    { unimplemented!() }
    // real: returns `riN<-1, 1>` of the SAME width
    pub fn signum(self) -> (r: Self) ensures r.val == (if self.val < 0 { -1int } else if self.val > 0 { 1int } else { 0int })
    { if self.val < 0 { ri128 { val: -1 } } else if self.val > 0 { ri128 { val: 1 } } else { ri128 { val: 0 } } }
    pub fn min<R: RInto<Self>>(self, other: R) -> (r: Self)
        requires other.rinto_req(),
        ensures r.val == (if other.rinto_spec().val < self.val { other.rinto_spec().val } else { self.val })
    { let o = other.rinto(); if o.val < self.val { o } else { self } }
    pub fn max<R: RInto<Self>>(self, other: R) -> (r: Self)
        requires other.rinto_req(),
        ensures r.val == (if other.rinto_spec().val > self.val { other.rinto_spec().val } else { self.val })
    { let o = other.rinto(); if o.val > self.val { o } else { self } }
    // truncating
    #[verifier::external_body]
    pub fn div_ceil<R: RInto<Self>>(self, rhs: R) -> (r: Self)
        requires rhs.rinto_req(), rhs.rinto_spec().val != 0, !(self.val == i128::MIN && rhs.rinto_spec().val == -1),
        ensures r.val == tdiv(self.val as int, rhs.rinto_spec().val as int)
    { unimplemented!() }
    #[verifier::external_body]
    pub fn rem_ceil<R: RInto<Self>>(self, rhs: R) -> (r: Self)
        requires rhs.rinto_req(), rhs.rinto_spec().val != 0, !(self.val == i128::MIN && rhs.rinto_spec().val == -1),
        ensures r.val == trem(self.val as int, rhs.rinto_spec().val as int)
    { unimplemented!() }
    // Euclidean (divisor > 0 required here; every use in jiff divides by a positive quantity)
    #[verifier::external_body]
    pub fn div_floor<R: RInto<Self>>(self, rhs: R) -> (r: Self)
        requires rhs.rinto_req(), rhs.rinto_spec().val > 0,
        ensures r.val == (self.val as int) / (rhs.rinto_spec().val as int)
    { unimplemented!() }
    #[verifier::external_body]
    pub fn rem_floor<R: RInto<Self>>(self, rhs: R) -> (r: Self)
        requires rhs.rinto_req(), rhs.rinto_spec().val > 0,
        ensures r.val == (self.val as int) % (rhs.rinto_spec().val as int)
    { unimplemented!() }
    #[verifier::external_body]
    pub fn saturating_mul<R: RInto<Self>>(self, rhs: R) -> (r: Self)
        requires rhs.rinto_req(),
        ensures i128::MIN <= self.val * rhs.rinto_spec().val <= i128::MAX ==> r.val == self.val * rhs.rinto_spec().val,
                self.val * rhs.rinto_spec().val > i128::MAX ==> r.val == i128::MAX,
                self.val * rhs.rinto_spec().val < i128::MIN ==> r.val == i128::MIN,
    { unimplemented!() }
    #[verifier::external_body]
    pub fn saturating_add<R: RInto<Self>>(self, rhs: R) -> (r: Self)
        requires rhs.rinto_req(),
        ensures i128::MIN <= self.val + rhs.rinto_spec().val <= i128::MAX ==> r.val == self.val + rhs.rinto_spec().val,
                self.val + rhs.rinto_spec().val > i128::MAX ==> r.val == i128::MAX,
                self.val + rhs.rinto_spec().val < i128::MIN ==> r.val == i128::MIN,
    { unimplemented!() }
}
// `type Range = ri128<{ LO }, { HI }>; Range::try_new("what", v)`: the bounds of an anonymous range are passed explicitly
#[verifier::external_body]
pub fn verif_try_new_range_128(lo: i128, hi: i128, v: i64) -> (res: Result<ri128, Error>)
    requires i128::MIN <= lo, hi <= i128::MAX,
    ensures res.is_ok() <==> lo <= v <= hi, res.is_ok() ==> res.unwrap().val == v
{ unimplemented!() }
impl RInto<ri128> for ri128 {
    open spec fn rinto_spec(self) -> ri128 { self }
    open spec fn rinto_req(self) -> bool { true }
    fn rinto(self) -> (r: ri128) { self }
}
impl RFrom<ri128> for ri128 {
    open spec fn rfrom_spec(t: ri128) -> ri128 { t }
    open spec fn rfrom_req(t: ri128) -> bool { true }
    fn rfrom(t: ri128) -> (r: ri128) { t }
}
impl RInto<ri128> for Constant {
    open spec fn rinto_spec(self) -> ri128 { ri128 { val: self.0 as i128 } }
    open spec fn rinto_req(self) -> bool { i128::MIN <= self.0 <= i128::MAX }
    #[verifier::external_body]
    fn rinto(self) -> (r: ri128) { unimplemented!() }
}
impl RFrom<Constant> for ri128 {
    open spec fn rfrom_spec(t: Constant) -> ri128 { ri128 { val: t.0 as i128 } }
    open spec fn rfrom_req(t: Constant) -> bool { i128::MIN <= t.0 <= i128::MAX }
    #[verifier::external_body]
    fn rfrom(t: Constant) -> (r: ri128) { unimplemented!() }
}
impl RInto<i128> for ri128 {
    open spec fn rinto_spec(self) -> i128 { self.val }
    open spec fn rinto_req(self) -> bool { true }
    fn rinto(self) -> (r: i128) { self.val }
}

impl PartialEqSpecImpl<ri128> for ri128 {
    open spec fn obeys_eq_spec() -> bool { true }
    open spec fn eq_spec(&self, other: &ri128) -> bool { self.val == other.val }
}
impl PartialEq<ri128> for ri128 {
    #[verifier::external_body]
    fn eq(&self, other: &ri128) -> bool { unimplemented!() }
}
impl PartialOrdSpecImpl<ri128> for ri128 {
    open spec fn obeys_partial_cmp_spec() -> bool { true }
    open spec fn partial_cmp_spec(&self, other: &ri128) -> Option<Ordering> { Some(int_cmp(self.val as int, other.val as int)) }
}
impl PartialOrd<ri128> for ri128 {
    #[verifier::external_body]
    fn partial_cmp(&self, other: &ri128) -> Option<Ordering> { unimplemented!() }
}

impl PartialEqSpecImpl<Constant> for ri128 {
    open spec fn obeys_eq_spec() -> bool { true }
    open spec fn eq_spec(&self, other: &Constant) -> bool { self.val == other.0 }
}
impl PartialEq<Constant> for ri128 {
    #[verifier::external_body]
    fn eq(&self, other: &Constant) -> bool { unimplemented!() }
}
impl PartialOrdSpecImpl<Constant> for ri128 {
    open spec fn obeys_partial_cmp_spec() -> bool { true }
    open spec fn partial_cmp_spec(&self, other: &Constant) -> Option<Ordering> { Some(int_cmp(self.val as int, other.0 as int)) }
}
impl PartialOrd<Constant> for ri128 {
    #[verifier::external_body]
    fn partial_cmp(&self, other: &Constant) -> Option<Ordering> { unimplemented!() }
}

impl PartialEqSpecImpl<ri8> for ri128 {
    open spec fn obeys_eq_spec() -> bool { true }
    open spec fn eq_spec(&self, other: &ri8) -> bool { self.val == other.val }
}
impl PartialEq<ri8> for ri128 {
    #[verifier::external_body]
    fn eq(&self, other: &ri8) -> bool { unimplemented!() }
}
impl PartialOrdSpecImpl<ri8> for ri128 {
    open spec fn obeys_partial_cmp_spec() -> bool { true }
    open spec fn partial_cmp_spec(&self, other: &ri8) -> Option<Ordering> { Some(int_cmp(self.val as int, other.val as int)) }
}
impl PartialOrd<ri8> for ri128 {
    #[verifier::external_body]
    fn partial_cmp(&self, other: &ri8) -> Option<Ordering> { unimplemented!() }
}

impl PartialEqSpecImpl<ri16> for ri128 {
    open spec fn obeys_eq_spec() -> bool { true }
    open spec fn eq_spec(&self, other: &ri16) -> bool { self.val == other.val }
}
impl PartialEq<ri16> for ri128 {
    #[verifier::external_body]
    fn eq(&self, other: &ri16) -> bool { unimplemented!() }
}
impl PartialOrdSpecImpl<ri16> for ri128 {
    open spec fn obeys_partial_cmp_spec() -> bool { true }
    open spec fn partial_cmp_spec(&self, other: &ri16) -> Option<Ordering> { Some(int_cmp(self.val as int, other.val as int)) }
}
impl PartialOrd<ri16> for ri128 {
    #[verifier::external_body]
    fn partial_cmp(&self, other: &ri16) -> Option<Ordering> { unimplemented!() }
}

impl PartialEqSpecImpl<ri32> for ri128 {
    open spec fn obeys_eq_spec() -> bool { true }
    open spec fn eq_spec(&self, other: &ri32) -> bool { self.val == other.val }
}
impl PartialEq<ri32> for ri128 {
    #[verifier::external_body]
    fn eq(&self, other: &ri32) -> bool { unimplemented!() }
}
impl PartialOrdSpecImpl<ri32> for ri128 {
    open spec fn obeys_partial_cmp_spec() -> bool { true }
    open spec fn partial_cmp_spec(&self, other: &ri32) -> Option<Ordering> { Some(int_cmp(self.val as int, other.val as int)) }
}
impl PartialOrd<ri32> for ri128 {
    #[verifier::external_body]
    fn partial_cmp(&self, other: &ri32) -> Option<Ordering> { unimplemented!() }
}

impl PartialEqSpecImpl<ri64> for ri128 {
    open spec fn obeys_eq_spec() -> bool { true }
    open spec fn eq_spec(&self, other: &ri64) -> bool { self.val == other.val }
}
impl PartialEq<ri64> for ri128 {
    #[verifier::external_body]
    fn eq(&self, other: &ri64) -> bool { unimplemented!() }
}
impl PartialOrdSpecImpl<ri64> for ri128 {
    open spec fn obeys_partial_cmp_spec() -> bool { true }
    open spec fn partial_cmp_spec(&self, other: &ri64) -> Option<Ordering> { Some(int_cmp(self.val as int, other.val as int)) }
}
impl PartialOrd<ri64> for ri128 {
    #[verifier::external_body]
    fn partial_cmp(&self, other: &ri64) -> Option<Ordering> { unimplemented!() }
}

impl AddSpecImpl<ri128> for ri128 {
    open spec fn obeys_add_spec() -> bool { true }
    open spec fn add_req(self, rhs: ri128) -> bool { i128::MIN <= self.val + rhs.val <= i128::MAX }
    open spec fn add_spec(self, rhs: ri128) -> ri128 { ri128 { val: (self.val + rhs.val) as i128 } }
}
impl core::ops::Add<ri128> for ri128 {
    type Output = ri128;
    #[verifier::external_body]
    fn add(self, rhs: ri128) -> ri128 { unimplemented!() }
}
impl AddAssignSpecImpl<ri128> for ri128 {
    open spec fn obeys_add_assign_spec() -> bool { true }
    open spec fn add_assign_req(&self, rhs: ri128) -> bool { i128::MIN <= self.val + rhs.val <= i128::MAX }
    open spec fn add_assign_spec(&self, rhs: ri128) -> &ri128 { &ri128 { val: (self.val + rhs.val) as i128 } }
}
impl core::ops::AddAssign<ri128> for ri128 {
    #[verifier::external_body]
    fn add_assign(&mut self, rhs: ri128) { unimplemented!() }
}

impl SubSpecImpl<ri128> for ri128 {
    open spec fn obeys_sub_spec() -> bool { true }
    open spec fn sub_req(self, rhs: ri128) -> bool { i128::MIN <= self.val - rhs.val <= i128::MAX }
    open spec fn sub_spec(self, rhs: ri128) -> ri128 { ri128 { val: (self.val - rhs.val) as i128 } }
}
impl core::ops::Sub<ri128> for ri128 {
    type Output = ri128;
    #[verifier::external_body]
    fn sub(self, rhs: ri128) -> ri128 { unimplemented!() }
}
impl SubAssignSpecImpl<ri128> for ri128 {
    open spec fn obeys_sub_assign_spec() -> bool { true }
    open spec fn sub_assign_req(&self, rhs: ri128) -> bool { i128::MIN <= self.val - rhs.val <= i128::MAX }
    open spec fn sub_assign_spec(&self, rhs: ri128) -> &ri128 { &ri128 { val: (self.val - rhs.val) as i128 } }
}
impl core::ops::SubAssign<ri128> for ri128 {
    #[verifier::external_body]
    fn sub_assign(&mut self, rhs: ri128) { unimplemented!() }
}

impl MulSpecImpl<ri128> for ri128 {
    open spec fn obeys_mul_spec() -> bool { true }
    open spec fn mul_req(self, rhs: ri128) -> bool { i128::MIN <= self.val * rhs.val <= i128::MAX }
    open spec fn mul_spec(self, rhs: ri128) -> ri128 { ri128 { val: (self.val * rhs.val) as i128 } }
}
impl core::ops::Mul<ri128> for ri128 {
    type Output = ri128;
    #[verifier::external_body]
    fn mul(self, rhs: ri128) -> ri128 { unimplemented!() }
}
impl MulAssignSpecImpl<ri128> for ri128 {
    open spec fn obeys_mul_assign_spec() -> bool { true }
    open spec fn mul_assign_req(&self, rhs: ri128) -> bool { i128::MIN <= self.val * rhs.val <= i128::MAX }
    open spec fn mul_assign_spec(&self, rhs: ri128) -> &ri128 { &ri128 { val: (self.val * rhs.val) as i128 } }
}
impl core::ops::MulAssign<ri128> for ri128 {
    #[verifier::external_body]
    fn mul_assign(&mut self, rhs: ri128) { unimplemented!() }
}

impl DivSpecImpl<ri128> for ri128 {
    open spec fn obeys_div_spec() -> bool { true }
    open spec fn div_req(self, rhs: ri128) -> bool { rhs.val > 0 }
    open spec fn div_spec(self, rhs: ri128) -> ri128 { ri128 { val: (self.val as int / rhs.val as int) as i128 } }
}
impl core::ops::Div<ri128> for ri128 {
    type Output = ri128;
    #[verifier::external_body]
    fn div(self, rhs: ri128) -> ri128 { unimplemented!() }
}
impl RemSpecImpl<ri128> for ri128 {
    open spec fn obeys_rem_spec() -> bool { true }
    open spec fn rem_req(self, rhs: ri128) -> bool { rhs.val > 0 }
    open spec fn rem_spec(self, rhs: ri128) -> ri128 { ri128 { val: (self.val as int % rhs.val as int) as i128 } }
}
impl core::ops::Rem<ri128> for ri128 {
    type Output = ri128;
    #[verifier::external_body]
    fn rem(self, rhs: ri128) -> ri128 { unimplemented!() }
}

impl AddSpecImpl<Constant> for ri128 {
    open spec fn obeys_add_spec() -> bool { true }
    open spec fn add_req(self, rhs: Constant) -> bool { i128::MIN <= self.val + rhs.0 <= i128::MAX }
    open spec fn add_spec(self, rhs: Constant) -> ri128 { ri128 { val: (self.val + rhs.0) as i128 } }
}
impl core::ops::Add<Constant> for ri128 {
    type Output = ri128;
    #[verifier::external_body]
    fn add(self, rhs: Constant) -> ri128 { unimplemented!() }
}
impl AddAssignSpecImpl<Constant> for ri128 {
    open spec fn obeys_add_assign_spec() -> bool { true }
    open spec fn add_assign_req(&self, rhs: Constant) -> bool { i128::MIN <= self.val + rhs.0 <= i128::MAX }
    open spec fn add_assign_spec(&self, rhs: Constant) -> &ri128 { &ri128 { val: (self.val + rhs.0) as i128 } }
}
impl core::ops::AddAssign<Constant> for ri128 {
    #[verifier::external_body]
    fn add_assign(&mut self, rhs: Constant) { unimplemented!() }
}

impl SubSpecImpl<Constant> for ri128 {
    open spec fn obeys_sub_spec() -> bool { true }
    open spec fn sub_req(self, rhs: Constant) -> bool { i128::MIN <= self.val - rhs.0 <= i128::MAX }
    open spec fn sub_spec(self, rhs: Constant) -> ri128 { ri128 { val: (self.val - rhs.0) as i128 } }
}
impl core::ops::Sub<Constant> for ri128 {
    type Output = ri128;
    #[verifier::external_body]
    fn sub(self, rhs: Constant) -> ri128 { unimplemented!() }
}
impl SubAssignSpecImpl<Constant> for ri128 {
    open spec fn obeys_sub_assign_spec() -> bool { true }
    open spec fn sub_assign_req(&self, rhs: Constant) -> bool { i128::MIN <= self.val - rhs.0 <= i128::MAX }
    open spec fn sub_assign_spec(&self, rhs: Constant) -> &ri128 { &ri128 { val: (self.val - rhs.0) as i128 } }
}
impl core::ops::SubAssign<Constant> for ri128 {
    #[verifier::external_body]
    fn sub_assign(&mut self, rhs: Constant) { unimplemented!() }
}

impl MulSpecImpl<Constant> for ri128 {
    open spec fn obeys_mul_spec() -> bool { true }
    open spec fn mul_req(self, rhs: Constant) -> bool { i128::MIN <= self.val * rhs.0 <= i128::MAX }
    open spec fn mul_spec(self, rhs: Constant) -> ri128 { ri128 { val: (self.val * rhs.0) as i128 } }
}
impl core::ops::Mul<Constant> for ri128 {
    type Output = ri128;
    #[verifier::external_body]
    fn mul(self, rhs: Constant) -> ri128 { unimplemented!() }
}
impl MulAssignSpecImpl<Constant> for ri128 {
    open spec fn obeys_mul_assign_spec() -> bool { true }
    open spec fn mul_assign_req(&self, rhs: Constant) -> bool { i128::MIN <= self.val * rhs.0 <= i128::MAX }
    open spec fn mul_assign_spec(&self, rhs: Constant) -> &ri128 { &ri128 { val: (self.val * rhs.0) as i128 } }
}
impl core::ops::MulAssign<Constant> for ri128 {
    #[verifier::external_body]
    fn mul_assign(&mut self, rhs: Constant) { unimplemented!() }
}

impl DivSpecImpl<Constant> for ri128 {
    open spec fn obeys_div_spec() -> bool { true }
    open spec fn div_req(self, rhs: Constant) -> bool { rhs.0 > 0 }
    open spec fn div_spec(self, rhs: Constant) -> ri128 { ri128 { val: (self.val as int / rhs.0 as int) as i128 } }
}
impl core::ops::Div<Constant> for ri128 {
    type Output = ri128;
    #[verifier::external_body]
    fn div(self, rhs: Constant) -> ri128 { unimplemented!() }
}
impl RemSpecImpl<Constant> for ri128 {
    open spec fn obeys_rem_spec() -> bool { true }
    open spec fn rem_req(self, rhs: Constant) -> bool { rhs.0 > 0 }
    open spec fn rem_spec(self, rhs: Constant) -> ri128 { ri128 { val: (self.val as int % rhs.0 as int) as i128 } }
}
impl core::ops::Rem<Constant> for ri128 {
    type Output = ri128;
    #[verifier::external_body]
    fn rem(self, rhs: Constant) -> ri128 { unimplemented!() }
}

impl AddSpecImpl<ri8> for ri128 {
    open spec fn obeys_add_spec() -> bool { true }
    open spec fn add_req(self, rhs: ri8) -> bool { i128::MIN <= self.val + rhs.val <= i128::MAX }
    open spec fn add_spec(self, rhs: ri8) -> ri128 { ri128 { val: (self.val + rhs.val) as i128 } }
}
impl core::ops::Add<ri8> for ri128 {
    type Output = ri128;
    #[verifier::external_body]
    fn add(self, rhs: ri8) -> ri128 { unimplemented!() }
}
impl AddAssignSpecImpl<ri8> for ri128 {
    open spec fn obeys_add_assign_spec() -> bool { true }
    open spec fn add_assign_req(&self, rhs: ri8) -> bool { i128::MIN <= self.val + rhs.val <= i128::MAX }
    open spec fn add_assign_spec(&self, rhs: ri8) -> &ri128 { &ri128 { val: (self.val + rhs.val) as i128 } }
}
impl core::ops::AddAssign<ri8> for ri128 {
    #[verifier::external_body]
    fn add_assign(&mut self, rhs: ri8) { unimplemented!() }
}

impl SubSpecImpl<ri8> for ri128 {
    open spec fn obeys_sub_spec() -> bool { true }
    open spec fn sub_req(self, rhs: ri8) -> bool { i128::MIN <= self.val - rhs.val <= i128::MAX }
    open spec fn sub_spec(self, rhs: ri8) -> ri128 { ri128 { val: (self.val - rhs.val) as i128 } }
}
impl core::ops::Sub<ri8> for ri128 {
    type Output = ri128;
    #[verifier::external_body]
    fn sub(self, rhs: ri8) -> ri128 { unimplemented!() }
}
impl SubAssignSpecImpl<ri8> for ri128 {
    open spec fn obeys_sub_assign_spec() -> bool { true }
    open spec fn sub_assign_req(&self, rhs: ri8) -> bool { i128::MIN <= self.val - rhs.val <= i128::MAX }
    open spec fn sub_assign_spec(&self, rhs: ri8) -> &ri128 { &ri128 { val: (self.val - rhs.val) as i128 } }
}
impl core::ops::SubAssign<ri8> for ri128 {
    #[verifier::external_body]
    fn sub_assign(&mut self, rhs: ri8) { unimplemented!() }
}

impl MulSpecImpl<ri8> for ri128 {
    open spec fn obeys_mul_spec() -> bool { true }
    open spec fn mul_req(self, rhs: ri8) -> bool { i128::MIN <= self.val * rhs.val <= i128::MAX }
    open spec fn mul_spec(self, rhs: ri8) -> ri128 { ri128 { val: (self.val * rhs.val) as i128 } }
}
impl core::ops::Mul<ri8> for ri128 {
    type Output = ri128;
    #[verifier::external_body]
    fn mul(self, rhs: ri8) -> ri128 { unimplemented!() }
}
impl MulAssignSpecImpl<ri8> for ri128 {
    open spec fn obeys_mul_assign_spec() -> bool { true }
    open spec fn mul_assign_req(&self, rhs: ri8) -> bool { i128::MIN <= self.val * rhs.val <= i128::MAX }
    open spec fn mul_assign_spec(&self, rhs: ri8) -> &ri128 { &ri128 { val: (self.val * rhs.val) as i128 } }
}
impl core::ops::MulAssign<ri8> for ri128 {
    #[verifier::external_body]
    fn mul_assign(&mut self, rhs: ri8) { unimplemented!() }
}

impl DivSpecImpl<ri8> for ri128 {
    open spec fn obeys_div_spec() -> bool { true }
    open spec fn div_req(self, rhs: ri8) -> bool { rhs.val > 0 }
    open spec fn div_spec(self, rhs: ri8) -> ri128 { ri128 { val: (self.val as int / rhs.val as int) as i128 } }
}
impl core::ops::Div<ri8> for ri128 {
    type Output = ri128;
    #[verifier::external_body]
    fn div(self, rhs: ri8) -> ri128 { unimplemented!() }
}
impl RemSpecImpl<ri8> for ri128 {
    open spec fn obeys_rem_spec() -> bool { true }
    open spec fn rem_req(self, rhs: ri8) -> bool { rhs.val > 0 }
    open spec fn rem_spec(self, rhs: ri8) -> ri128 { ri128 { val: (self.val as int % rhs.val as int) as i128 } }
}
impl core::ops::Rem<ri8> for ri128 {
    type Output = ri128;
    #[verifier::external_body]
    fn rem(self, rhs: ri8) -> ri128 { unimplemented!() }
}

impl AddSpecImpl<ri16> for ri128 {
    open spec fn obeys_add_spec() -> bool { true }
    open spec fn add_req(self, rhs: ri16) -> bool { i128::MIN <= self.val + rhs.val <= i128::MAX }
    open spec fn add_spec(self, rhs: ri16) -> ri128 { ri128 { val: (self.val + rhs.val) as i128 } }
}
impl core::ops::Add<ri16> for ri128 {
    type Output = ri128;
    #[verifier::external_body]
    fn add(self, rhs: ri16) -> ri128 { unimplemented!() }
}
impl AddAssignSpecImpl<ri16> for ri128 {
    open spec fn obeys_add_assign_spec() -> bool { true }
    open spec fn add_assign_req(&self, rhs: ri16) -> bool { i128::MIN <= self.val + rhs.val <= i128::MAX }
    open spec fn add_assign_spec(&self, rhs: ri16) -> &ri128 { &ri128 { val: (self.val + rhs.val) as i128 } }
}
impl core::ops::AddAssign<ri16> for ri128 {
    #[verifier::external_body]
    fn add_assign(&mut self, rhs: ri16) { unimplemented!() }
}

impl SubSpecImpl<ri16> for ri128 {
    open spec fn obeys_sub_spec() -> bool { true }
    open spec fn sub_req(self, rhs: ri16) -> bool { i128::MIN <= self.val - rhs.val <= i128::MAX }
    open spec fn sub_spec(self, rhs: ri16) -> ri128 { ri128 { val: (self.val - rhs.val) as i128 } }
}
impl core::ops::Sub<ri16> for ri128 {
    type Output = ri128;
    #[verifier::external_body]
    fn sub(self, rhs: ri16) -> ri128 { unimplemented!() }
}
impl SubAssignSpecImpl<ri16> for ri128 {
    open spec fn obeys_sub_assign_spec() -> bool { true }
    open spec fn sub_assign_req(&self, rhs: ri16) -> bool { i128::MIN <= self.val - rhs.val <= i128::MAX }
    open spec fn sub_assign_spec(&self, rhs: ri16) -> &ri128 { &ri128 { val: (self.val - rhs.val) as i128 } }
}
impl core::ops::SubAssign<ri16> for ri128 {
    #[verifier::external_body]
    fn sub_assign(&mut self, rhs: ri16) { unimplemented!() }
}

impl MulSpecImpl<ri16> for ri128 {
    open spec fn obeys_mul_spec() -> bool { true }
    open spec fn mul_req(self, rhs: ri16) -> bool { i128::MIN <= self.val * rhs.val <= i128::MAX }
    open spec fn mul_spec(self, rhs: ri16) -> ri128 { ri128 { val: (self.val * rhs.val) as i128 } }
}
impl core::ops::Mul<ri16> for ri128 {
    type Output = ri128;
    #[verifier::external_body]
    fn mul(self, rhs: ri16) -> ri128 { unimplemented!() }
}
impl MulAssignSpecImpl<ri16> for ri128 {
    open spec fn obeys_mul_assign_spec() -> bool { true }
    open spec fn mul_assign_req(&self, rhs: ri16) -> bool { i128::MIN <= self.val * rhs.val <= i128::MAX }
    open spec fn mul_assign_spec(&self, rhs: ri16) -> &ri128 { &ri128 { val: (self.val * rhs.val) as i128 } }
}
impl core::ops::MulAssign<ri16> for ri128 {
    #[verifier::external_body]
    fn mul_assign(&mut self, rhs: ri16) { unimplemented!() }
}

impl DivSpecImpl<ri16> for ri128 {
    open spec fn obeys_div_spec() -> bool { true }
    open spec fn div_req(self, rhs: ri16) -> bool { rhs.val > 0 }
    open spec fn div_spec(self, rhs: ri16) -> ri128 { ri128 { val: (self.val as int / rhs.val as int) as i128 } }
}
impl core::ops::Div<ri16> for ri128 {
    type Output = ri128;
    #[verifier::external_body]
    fn div(self, rhs: ri16) -> ri128 { unimplemented!() }
}
impl RemSpecImpl<ri16> for ri128 {
    open spec fn obeys_rem_spec() -> bool { true }
    open spec fn rem_req(self, rhs: ri16) -> bool { rhs.val > 0 }
    open spec fn rem_spec(self, rhs: ri16) -> ri128 { ri128 { val: (self.val as int % rhs.val as int) as i128 } }
}
impl core::ops::Rem<ri16> for ri128 {
    type Output = ri128;
    #[verifier::external_body]
    fn rem(self, rhs: ri16) -> ri128 { unimplemented!() }
}

impl AddSpecImpl<ri32> for ri128 {
    open spec fn obeys_add_spec() -> bool { true }
    open spec fn add_req(self, rhs: ri32) -> bool { i128::MIN <= self.val + rhs.val <= i128::MAX }
    open spec fn add_spec(self, rhs: ri32) -> ri128 { ri128 { val: (self.val + rhs.val) as i128 } }
}
impl core::ops::Add<ri32> for ri128 {
    type Output = ri128;
    #[verifier::external_body]
    fn add(self, rhs: ri32) -> ri128 { unimplemented!() }
}
impl AddAssignSpecImpl<ri32> for ri128 {
    open spec fn obeys_add_assign_spec() -> bool { true }
    open spec fn add_assign_req(&self, rhs: ri32) -> bool { i128::MIN <= self.val + rhs.val <= i128::MAX }
    open spec fn add_assign_spec(&self, rhs: ri32) -> &ri128 { &ri128 { val: (self.val + rhs.val) as i128 } }
}
impl core::ops::AddAssign<ri32> for ri128 {
    #[verifier::external_body]
    fn add_assign(&mut self, rhs: ri32) { unimplemented!() }
}

impl SubSpecImpl<ri32> for ri128 {
    open spec fn obeys_sub_spec() -> bool { true }
    open spec fn sub_req(self, rhs: ri32) -> bool { i128::MIN <= self.val - rhs.val <= i128::MAX }
    open spec fn sub_spec(self, rhs: ri32) -> ri128 { ri128 { val: (self.val - rhs.val) as i128 } }
}
impl core::ops::Sub<ri32> for ri128 {
    type Output = ri128;
    #[verifier::external_body]
    fn sub(self, rhs: ri32) -> ri128 { unimplemented!() }
}
impl SubAssignSpecImpl<ri32> for ri128 {
    open spec fn obeys_sub_assign_spec() -> bool { true }
    open spec fn sub_assign_req(&self, rhs: ri32) -> bool { i128::MIN <= self.val - rhs.val <= i128::MAX }
    open spec fn sub_assign_spec(&self, rhs: ri32) -> &ri128 { &ri128 { val: (self.val - rhs.val) as i128 } }
}
impl core::ops::SubAssign<ri32> for ri128 {
    #[verifier::external_body]
    fn sub_assign(&mut self, rhs: ri32) { unimplemented!() }
}

impl MulSpecImpl<ri32> for ri128 {
    open spec fn obeys_mul_spec() -> bool { true }
    open spec fn mul_req(self, rhs: ri32) -> bool { i128::MIN <= self.val * rhs.val <= i128::MAX }
    open spec fn mul_spec(self, rhs: ri32) -> ri128 { ri128 { val: (self.val * rhs.val) as i128 } }
}
impl core::ops::Mul<ri32> for ri128 {
    type Output = ri128;
    #[verifier::external_body]
    fn mul(self, rhs: ri32) -> ri128 { unimplemented!() }
}
impl MulAssignSpecImpl<ri32> for ri128 {
    open spec fn obeys_mul_assign_spec() -> bool { true }
    open spec fn mul_assign_req(&self, rhs: ri32) -> bool { i128::MIN <= self.val * rhs.val <= i128::MAX }
    open spec fn mul_assign_spec(&self, rhs: ri32) -> &ri128 { &ri128 { val: (self.val * rhs.val) as i128 } }
}
impl core::ops::MulAssign<ri32> for ri128 {
    #[verifier::external_body]
    fn mul_assign(&mut self, rhs: ri32) { unimplemented!() }
}

impl DivSpecImpl<ri32> for ri128 {
    open spec fn obeys_div_spec() -> bool { true }
    open spec fn div_req(self, rhs: ri32) -> bool { rhs.val > 0 }
    open spec fn div_spec(self, rhs: ri32) -> ri128 { ri128 { val: (self.val as int / rhs.val as int) as i128 } }
}
impl core::ops::Div<ri32> for ri128 {
    type Output = ri128;
    #[verifier::external_body]
    fn div(self, rhs: ri32) -> ri128 { unimplemented!() }
}
impl RemSpecImpl<ri32> for ri128 {
    open spec fn obeys_rem_spec() -> bool { true }
    open spec fn rem_req(self, rhs: ri32) -> bool { rhs.val > 0 }
    open spec fn rem_spec(self, rhs: ri32) -> ri128 { ri128 { val: (self.val as int % rhs.val as int) as i128 } }
}
impl core::ops::Rem<ri32> for ri128 {
    type Output = ri128;
    #[verifier::external_body]
    fn rem(self, rhs: ri32) -> ri128 { unimplemented!() }
}

impl AddSpecImpl<ri64> for ri128 {
    open spec fn obeys_add_spec() -> bool { true }
    open spec fn add_req(self, rhs: ri64) -> bool { i128::MIN <= self.val + rhs.val <= i128::MAX }
    open spec fn add_spec(self, rhs: ri64) -> ri128 { ri128 { val: (self.val + rhs.val) as i128 } }
}
impl core::ops::Add<ri64> for ri128 {
    type Output = ri128;
    #[verifier::external_body]
    fn add(self, rhs: ri64) -> ri128 { unimplemented!() }
}
impl AddAssignSpecImpl<ri64> for ri128 {
    open spec fn obeys_add_assign_spec() -> bool { true }
    open spec fn add_assign_req(&self, rhs: ri64) -> bool { i128::MIN <= self.val + rhs.val <= i128::MAX }
    open spec fn add_assign_spec(&self, rhs: ri64) -> &ri128 { &ri128 { val: (self.val + rhs.val) as i128 } }
}
impl core::ops::AddAssign<ri64> for ri128 {
    #[verifier::external_body]
    fn add_assign(&mut self, rhs: ri64) { unimplemented!() }
}

impl SubSpecImpl<ri64> for ri128 {
    open spec fn obeys_sub_spec() -> bool { true }
    open spec fn sub_req(self, rhs: ri64) -> bool { i128::MIN <= self.val - rhs.val <= i128::MAX }
    open spec fn sub_spec(self, rhs: ri64) -> ri128 { ri128 { val: (self.val - rhs.val) as i128 } }
}
impl core::ops::Sub<ri64> for ri128 {
    type Output = ri128;
    #[verifier::external_body]
    fn sub(self, rhs: ri64) -> ri128 { unimplemented!() }
}
impl SubAssignSpecImpl<ri64> for ri128 {
    open spec fn obeys_sub_assign_spec() -> bool { true }
    open spec fn sub_assign_req(&self, rhs: ri64) -> bool { i128::MIN <= self.val - rhs.val <= i128::MAX }
    open spec fn sub_assign_spec(&self, rhs: ri64) -> &ri128 { &ri128 { val: (self.val - rhs.val) as i128 } }
}
impl core::ops::SubAssign<ri64> for ri128 {
    #[verifier::external_body]
    fn sub_assign(&mut self, rhs: ri64) { unimplemented!() }
}

impl MulSpecImpl<ri64> for ri128 {
    open spec fn obeys_mul_spec() -> bool { true }
    open spec fn mul_req(self, rhs: ri64) -> bool { i128::MIN <= self.val * rhs.val <= i128::MAX }
    open spec fn mul_spec(self, rhs: ri64) -> ri128 { ri128 { val: (self.val * rhs.val) as i128 } }
}
impl core::ops::Mul<ri64> for ri128 {
    type Output = ri128;
    #[verifier::external_body]
    fn mul(self, rhs: ri64) -> ri128 { unimplemented!() }
}
impl MulAssignSpecImpl<ri64> for ri128 {
    open spec fn obeys_mul_assign_spec() -> bool { true }
    open spec fn mul_assign_req(&self, rhs: ri64) -> bool { i128::MIN <= self.val * rhs.val <= i128::MAX }
    open spec fn mul_assign_spec(&self, rhs: ri64) -> &ri128 { &ri128 { val: (self.val * rhs.val) as i128 } }
}
impl core::ops::MulAssign<ri64> for ri128 {
    #[verifier::external_body]
    fn mul_assign(&mut self, rhs: ri64) { unimplemented!() }
}

impl DivSpecImpl<ri64> for ri128 {
    open spec fn obeys_div_spec() -> bool { true }
    open spec fn div_req(self, rhs: ri64) -> bool { rhs.val > 0 }
    open spec fn div_spec(self, rhs: ri64) -> ri128 { ri128 { val: (self.val as int / rhs.val as int) as i128 } }
}
impl core::ops::Div<ri64> for ri128 {
    type Output = ri128;
    #[verifier::external_body]
    fn div(self, rhs: ri64) -> ri128 { unimplemented!() }
}
impl RemSpecImpl<ri64> for ri128 {
    open spec fn obeys_rem_spec() -> bool { true }
    open spec fn rem_req(self, rhs: ri64) -> bool { rhs.val > 0 }
    open spec fn rem_spec(self, rhs: ri64) -> ri128 { ri128 { val: (self.val as int % rhs.val as int) as i128 } }
}
impl core::ops::Rem<ri64> for ri128 {
    type Output = ri128;
    #[verifier::external_body]
    fn rem(self, rhs: ri64) -> ri128 { unimplemented!() }
}

impl NegSpecImpl for ri128 {
    open spec fn obeys_neg_spec() -> bool { true }
    open spec fn neg_req(self) -> bool { self.val > i128::MIN }
    open spec fn neg_spec(self) -> ri128 { ri128 { val: (-self.val) as i128 } }
}
impl core::ops::Neg for ri128 {
    type Output = ri128;
    #[verifier::external_body]
    fn neg(self) -> ri128 { unimplemented!() }
}

impl RInto<ri16> for ri8 {
    open spec fn rinto_spec(self) -> ri16 { ri16 { val: self.val as i16 } }
    open spec fn rinto_req(self) -> bool { true }
    #[verifier::external_body]
    fn rinto(self) -> (r: ri16) { unimplemented!() }
}
impl RFrom<ri8> for ri16 {
    open spec fn rfrom_spec(t: ri8) -> ri16 { ri16 { val: t.val as i16 } }
    open spec fn rfrom_req(t: ri8) -> bool { true }
    #[verifier::external_body]
    fn rfrom(t: ri8) -> (r: ri16) { unimplemented!() }
}

impl RInto<ri32> for ri8 {
    open spec fn rinto_spec(self) -> ri32 { ri32 { val: self.val as i32 } }
    open spec fn rinto_req(self) -> bool { true }
    #[verifier::external_body]
    fn rinto(self) -> (r: ri32) { unimplemented!() }
}
impl RFrom<ri8> for ri32 {
    open spec fn rfrom_spec(t: ri8) -> ri32 { ri32 { val: t.val as i32 } }
    open spec fn rfrom_req(t: ri8) -> bool { true }
    #[verifier::external_body]
    fn rfrom(t: ri8) -> (r: ri32) { unimplemented!() }
}

impl RInto<ri64> for ri8 {
    open spec fn rinto_spec(self) -> ri64 { ri64 { val: self.val as i64 } }
    open spec fn rinto_req(self) -> bool { true }
    #[verifier::external_body]
    fn rinto(self) -> (r: ri64) { unimplemented!() }
}
impl RFrom<ri8> for ri64 {
    open spec fn rfrom_spec(t: ri8) -> ri64 { ri64 { val: t.val as i64 } }
    open spec fn rfrom_req(t: ri8) -> bool { true }
    #[verifier::external_body]
    fn rfrom(t: ri8) -> (r: ri64) { unimplemented!() }
}

impl RInto<ri128> for ri8 {
    open spec fn rinto_spec(self) -> ri128 { ri128 { val: self.val as i128 } }
    open spec fn rinto_req(self) -> bool { true }
    #[verifier::external_body]
    fn rinto(self) -> (r: ri128) { unimplemented!() }
}
impl RFrom<ri8> for ri128 {
    open spec fn rfrom_spec(t: ri8) -> ri128 { ri128 { val: t.val as i128 } }
    open spec fn rfrom_req(t: ri8) -> bool { true }
    #[verifier::external_body]
    fn rfrom(t: ri8) -> (r: ri128) { unimplemented!() }
}

impl RInto<ri8> for ri16 {
    open spec fn rinto_spec(self) -> ri8 { ri8 { val: self.val as i8 } }
    open spec fn rinto_req(self) -> bool { i8::MIN <= self.val <= i8::MAX }
    #[verifier::external_body]
    fn rinto(self) -> (r: ri8) { unimplemented!() }
}
impl RFrom<ri16> for ri8 {
    open spec fn rfrom_spec(t: ri16) -> ri8 { ri8 { val: t.val as i8 } }
    open spec fn rfrom_req(t: ri16) -> bool { i8::MIN <= t.val <= i8::MAX }
    #[verifier::external_body]
    fn rfrom(t: ri16) -> (r: ri8) { unimplemented!() }
}

impl RInto<ri32> for ri16 {
    open spec fn rinto_spec(self) -> ri32 { ri32 { val: self.val as i32 } }
    open spec fn rinto_req(self) -> bool { true }
    #[verifier::external_body]
    fn rinto(self) -> (r: ri32) { unimplemented!() }
}
impl RFrom<ri16> for ri32 {
    open spec fn rfrom_spec(t: ri16) -> ri32 { ri32 { val: t.val as i32 } }
    open spec fn rfrom_req(t: ri16) -> bool { true }
    #[verifier::external_body]
    fn rfrom(t: ri16) -> (r: ri32) { unimplemented!() }
}

impl RInto<ri64> for ri16 {
    open spec fn rinto_spec(self) -> ri64 { ri64 { val: self.val as i64 } }
    open spec fn rinto_req(self) -> bool { true }
    #[verifier::external_body]
    fn rinto(self) -> (r: ri64) { unimplemented!() }
}
impl RFrom<ri16> for ri64 {
    open spec fn rfrom_spec(t: ri16) -> ri64 { ri64 { val: t.val as i64 } }
    open spec fn rfrom_req(t: ri16) -> bool { true }
    #[verifier::external_body]
    fn rfrom(t: ri16) -> (r: ri64) { unimplemented!() }
}

impl RInto<ri128> for ri16 {
    open spec fn rinto_spec(self) -> ri128 { ri128 { val: self.val as i128 } }
    open spec fn rinto_req(self) -> bool { true }
    #[verifier::external_body]
    fn rinto(self) -> (r: ri128) { unimplemented!() }
}
impl RFrom<ri16> for ri128 {
    open spec fn rfrom_spec(t: ri16) -> ri128 { ri128 { val: t.val as i128 } }
    open spec fn rfrom_req(t: ri16) -> bool { true }
    #[verifier::external_body]
    fn rfrom(t: ri16) -> (r: ri128) { unimplemented!() }
}

impl RInto<ri8> for ri32 {
    open spec fn rinto_spec(self) -> ri8 { ri8 { val: self.val as i8 } }
    open spec fn rinto_req(self) -> bool { i8::MIN <= self.val <= i8::MAX }
    #[verifier::external_body]
    fn rinto(self) -> (r: ri8) { unimplemented!() }
}
impl RFrom<ri32> for ri8 {
    open spec fn rfrom_spec(t: ri32) -> ri8 { ri8 { val: t.val as i8 } }
    open spec fn rfrom_req(t: ri32) -> bool { i8::MIN <= t.val <= i8::MAX }
    #[verifier::external_body]
    fn rfrom(t: ri32) -> (r: ri8) { unimplemented!() }
}

impl RInto<ri16> for ri32 {
    open spec fn rinto_spec(self) -> ri16 { ri16 { val: self.val as i16 } }
    open spec fn rinto_req(self) -> bool { i16::MIN <= self.val <= i16::MAX }
    #[verifier::external_body]
    fn rinto(self) -> (r: ri16) { unimplemented!() }
}
impl RFrom<ri32> for ri16 {
    open spec fn rfrom_spec(t: ri32) -> ri16 { ri16 { val: t.val as i16 } }
    open spec fn rfrom_req(t: ri32) -> bool { i16::MIN <= t.val <= i16::MAX }
    #[verifier::external_body]
    fn rfrom(t: ri32) -> (r: ri16) { unimplemented!() }
}

impl RInto<ri64> for ri32 {
    open spec fn rinto_spec(self) -> ri64 { ri64 { val: self.val as i64 } }
    open spec fn rinto_req(self) -> bool { true }
    #[verifier::external_body]
    fn rinto(self) -> (r: ri64) { unimplemented!() }
}
impl RFrom<ri32> for ri64 {
    open spec fn rfrom_spec(t: ri32) -> ri64 { ri64 { val: t.val as i64 } }
    open spec fn rfrom_req(t: ri32) -> bool { true }
    #[verifier::external_body]
    fn rfrom(t: ri32) -> (r: ri64) { unimplemented!() }
}

impl RInto<ri128> for ri32 {
    open spec fn rinto_spec(self) -> ri128 { ri128 { val: self.val as i128 } }
    open spec fn rinto_req(self) -> bool { true }
    #[verifier::external_body]
    fn rinto(self) -> (r: ri128) { unimplemented!() }
}
impl RFrom<ri32> for ri128 {
    open spec fn rfrom_spec(t: ri32) -> ri128 { ri128 { val: t.val as i128 } }
    open spec fn rfrom_req(t: ri32) -> bool { true }
    #[verifier::external_body]
    fn rfrom(t: ri32) -> (r: ri128) { unimplemented!() }
}

impl RInto<ri8> for ri64 {
    open spec fn rinto_spec(self) -> ri8 { ri8 { val: self.val as i8 } }
    open spec fn rinto_req(self) -> bool { i8::MIN <= self.val <= i8::MAX }
    #[verifier::external_body]
    fn rinto(self) -> (r: ri8) { unimplemented!() }
}
impl RFrom<ri64> for ri8 {
    open spec fn rfrom_spec(t: ri64) -> ri8 { ri8 { val: t.val as i8 } }
    open spec fn rfrom_req(t: ri64) -> bool { i8::MIN <= t.val <= i8::MAX }
    #[verifier::external_body]
    fn rfrom(t: ri64) -> (r: ri8) { unimplemented!() }
}

impl RInto<ri16> for ri64 {
    open spec fn rinto_spec(self) -> ri16 { ri16 { val: self.val as i16 } }
    open spec fn rinto_req(self) -> bool { i16::MIN <= self.val <= i16::MAX }
    #[verifier::external_body]
    fn rinto(self) -> (r: ri16) { unimplemented!() }
}
impl RFrom<ri64> for ri16 {
    open spec fn rfrom_spec(t: ri64) -> ri16 { ri16 { val: t.val as i16 } }
    open spec fn rfrom_req(t: ri64) -> bool { i16::MIN <= t.val <= i16::MAX }
    #[verifier::external_body]
    fn rfrom(t: ri64) -> (r: ri16) { unimplemented!() }
}

impl RInto<ri32> for ri64 {
    open spec fn rinto_spec(self) -> ri32 { ri32 { val: self.val as i32 } }
    open spec fn rinto_req(self) -> bool { i32::MIN <= self.val <= i32::MAX }
    #[verifier::external_body]
    fn rinto(self) -> (r: ri32) { unimplemented!() }
}
impl RFrom<ri64> for ri32 {
    open spec fn rfrom_spec(t: ri64) -> ri32 { ri32 { val: t.val as i32 } }
    open spec fn rfrom_req(t: ri64) -> bool { i32::MIN <= t.val <= i32::MAX }
    #[verifier::external_body]
    fn rfrom(t: ri64) -> (r: ri32) { unimplemented!() }
}

impl RInto<ri128> for ri64 {
    open spec fn rinto_spec(self) -> ri128 { ri128 { val: self.val as i128 } }
    open spec fn rinto_req(self) -> bool { true }
    #[verifier::external_body]
    fn rinto(self) -> (r: ri128) { unimplemented!() }
}
impl RFrom<ri64> for ri128 {
    open spec fn rfrom_spec(t: ri64) -> ri128 { ri128 { val: t.val as i128 } }
    open spec fn rfrom_req(t: ri64) -> bool { true }
    #[verifier::external_body]
    fn rfrom(t: ri64) -> (r: ri128) { unimplemented!() }
}

impl RInto<ri8> for ri128 {
    open spec fn rinto_spec(self) -> ri8 { ri8 { val: self.val as i8 } }
    open spec fn rinto_req(self) -> bool { i8::MIN <= self.val <= i8::MAX }
    #[verifier::external_body]
    fn rinto(self) -> (r: ri8) { unimplemented!() }
}
impl RFrom<ri128> for ri8 {
    open spec fn rfrom_spec(t: ri128) -> ri8 { ri8 { val: t.val as i8 } }
    open spec fn rfrom_req(t: ri128) -> bool { i8::MIN <= t.val <= i8::MAX }
    #[verifier::external_body]
    fn rfrom(t: ri128) -> (r: ri8) { unimplemented!() }
}

impl RInto<ri16> for ri128 {
    open spec fn rinto_spec(self) -> ri16 { ri16 { val: self.val as i16 } }
    open spec fn rinto_req(self) -> bool { i16::MIN <= self.val <= i16::MAX }
    #[verifier::external_body]
    fn rinto(self) -> (r: ri16) { unimplemented!() }
}
impl RFrom<ri128> for ri16 {
    open spec fn rfrom_spec(t: ri128) -> ri16 { ri16 { val: t.val as i16 } }
    open spec fn rfrom_req(t: ri128) -> bool { i16::MIN <= t.val <= i16::MAX }
    #[verifier::external_body]
    fn rfrom(t: ri128) -> (r: ri16) { unimplemented!() }
}

impl RInto<ri32> for ri128 {
    open spec fn rinto_spec(self) -> ri32 { ri32 { val: self.val as i32 } }
    open spec fn rinto_req(self) -> bool { i32::MIN <= self.val <= i32::MAX }
    #[verifier::external_body]
    fn rinto(self) -> (r: ri32) { unimplemented!() }
}
impl RFrom<ri128> for ri32 {
    open spec fn rfrom_spec(t: ri128) -> ri32 { ri32 { val: t.val as i32 } }
    open spec fn rfrom_req(t: ri128) -> bool { i32::MIN <= t.val <= i32::MAX }
    #[verifier::external_body]
    fn rfrom(t: ri128) -> (r: ri32) { unimplemented!() }
}

impl RInto<ri64> for ri128 {
    open spec fn rinto_spec(self) -> ri64 { ri64 { val: self.val as i64 } }
    open spec fn rinto_req(self) -> bool { i64::MIN <= self.val <= i64::MAX }
    #[verifier::external_body]
    fn rinto(self) -> (r: ri64) { unimplemented!() }
}
impl RFrom<ri128> for ri64 {
    open spec fn rfrom_spec(t: ri128) -> ri64 { ri64 { val: t.val as i64 } }
    open spec fn rfrom_req(t: ri128) -> bool { i64::MIN <= t.val <= i64::MAX }
    #[verifier::external_body]
    fn rfrom(t: ri128) -> (r: ri64) { unimplemented!() }
}


// ------------------------------------------------------------------ aliases (bounds re-introduced here only)
#[verifier::external_body]
#[derive(Debug)]
pub struct Error { _p: () }
#[verifier::external_body]
pub fn verif_err() -> Error { unimplemented!() }
pub type NoUnits = ri64;
pub open spec fn NoUnits_MIN() -> int { -9223372036854775808 }
pub open spec fn NoUnits_MAX() -> int { 9223372036854775807 }
pub open spec fn in_NoUnits(v: int) -> bool { -9223372036854775808 <= v <= 9223372036854775807 }
#[verifier::external_body]
pub fn verif_try_rfrom_NoUnits_8(r: ri8) -> (res: Result<ri64, Error>)
    ensures res.is_ok() <==> in_NoUnits(r.val as int), res.is_ok() ==> res.unwrap().val == r.val
{ unimplemented!() }
#[verifier::external_body]
pub fn verif_try_rfrom_NoUnits_16(r: ri16) -> (res: Result<ri64, Error>)
    ensures res.is_ok() <==> in_NoUnits(r.val as int), res.is_ok() ==> res.unwrap().val == r.val
{ unimplemented!() }
#[verifier::external_body]
pub fn verif_try_rfrom_NoUnits_32(r: ri32) -> (res: Result<ri64, Error>)
    ensures res.is_ok() <==> in_NoUnits(r.val as int), res.is_ok() ==> res.unwrap().val == r.val
{ unimplemented!() }
#[verifier::external_body]
pub fn verif_try_rfrom_NoUnits_64(r: ri64) -> (res: Result<ri64, Error>)
    ensures res.is_ok() <==> in_NoUnits(r.val as int), res.is_ok() ==> res.unwrap().val == r.val
{ unimplemented!() }
#[verifier::external_body]
pub fn verif_try_rfrom_NoUnits_128(r: ri128) -> (res: Result<ri64, Error>)
    ensures res.is_ok() <==> in_NoUnits(r.val as int), res.is_ok() ==> res.unwrap().val == r.val
{ unimplemented!() }
#[verifier::external_body]
pub fn verif_try_new_NoUnits(v: i64) -> (res: Result<ri64, Error>)
    ensures res.is_ok() <==> in_NoUnits(v as int), res.is_ok() ==> res.unwrap().val == v
{ unimplemented!() }
#[verifier::external_body]
pub fn verif_try_new128_NoUnits(v: i128) -> (res: Result<ri64, Error>)
    ensures res.is_ok() <==> in_NoUnits(v as int), res.is_ok() ==> res.unwrap().val == v
{ unimplemented!() }
// `NoUnits::MIN` / `NoUnits::MAX` (associated consts of type i128)
pub fn verif_MIN_NoUnits() -> (r: i128) ensures r == NoUnits_MIN() { -9223372036854775808 }
pub fn verif_MAX_NoUnits() -> (r: i128) ensures r == NoUnits_MAX() { 9223372036854775807 }
// `x.try_checked_mul("what", rhs)` with x: NoUnits -- Ok iff the exact product lies within NoUnits::MIN..=MAX
#[verifier::external_body]
pub fn verif_try_checked_mul_NoUnits<R: RInto<ri64>>(x: ri64, rhs: R) -> (res: Result<ri64, Error>)
    requires rhs.rinto_req(),
    ensures res.is_ok() <==> in_NoUnits(x.val * rhs.rinto_spec().val), res.is_ok() ==> res.unwrap().val == x.val * rhs.rinto_spec().val
{ unimplemented!() }
// `x.try_checked_add/sub("what", rhs)` and `x.checked_add/sub/mul(rhs)` with x: NoUnits -- fail iff the exact result leaves NoUnits::MIN..=MAX
#[verifier::external_body]
pub fn verif_try_checked_add_NoUnits<R: RInto<ri64>>(x: ri64, rhs: R) -> (res: Result<ri64, Error>)
    requires rhs.rinto_req(),
    ensures res.is_ok() <==> in_NoUnits(x.val + rhs.rinto_spec().val), res.is_ok() ==> res.unwrap().val == x.val + rhs.rinto_spec().val
{ unimplemented!() }
#[verifier::external_body]
pub fn verif_try_checked_sub_NoUnits<R: RInto<ri64>>(x: ri64, rhs: R) -> (res: Result<ri64, Error>)
    requires rhs.rinto_req(),
    ensures res.is_ok() <==> in_NoUnits(x.val - rhs.rinto_spec().val), res.is_ok() ==> res.unwrap().val == x.val - rhs.rinto_spec().val
{ unimplemented!() }
#[verifier::external_body]
pub fn verif_checked_add_NoUnits<R: RInto<ri64>>(x: ri64, rhs: R) -> (res: Option<ri64>)
    requires rhs.rinto_req(),
    ensures res.is_some() <==> in_NoUnits(x.val + rhs.rinto_spec().val), res.is_some() ==> res.unwrap().val == x.val + rhs.rinto_spec().val
{ unimplemented!() }
#[verifier::external_body]
pub fn verif_checked_sub_NoUnits<R: RInto<ri64>>(x: ri64, rhs: R) -> (res: Option<ri64>)
    requires rhs.rinto_req(),
    ensures res.is_some() <==> in_NoUnits(x.val - rhs.rinto_spec().val), res.is_some() ==> res.unwrap().val == x.val - rhs.rinto_spec().val
{ unimplemented!() }
#[verifier::external_body]
pub fn verif_checked_mul_NoUnits<R: RInto<ri64>>(x: ri64, rhs: R) -> (res: Option<ri64>)
    requires rhs.rinto_req(),
    ensures res.is_some() <==> in_NoUnits(x.val * rhs.rinto_spec().val), res.is_some() ==> res.unwrap().val == x.val * rhs.rinto_spec().val
{ unimplemented!() }
pub type NoUnits128 = ri128;
pub open spec fn NoUnits128_MIN() -> int { -170141183460469231731687303715884105728 }
pub open spec fn NoUnits128_MAX() -> int { 170141183460469231731687303715884105727 }
pub open spec fn in_NoUnits128(v: int) -> bool { -170141183460469231731687303715884105728 <= v <= 170141183460469231731687303715884105727 }
#[verifier::external_body]
pub fn verif_try_rfrom_NoUnits128_8(r: ri8) -> (res: Result<ri128, Error>)
    ensures res.is_ok() <==> in_NoUnits128(r.val as int), res.is_ok() ==> res.unwrap().val == r.val
{ unimplemented!() }
#[verifier::external_body]
pub fn verif_try_rfrom_NoUnits128_16(r: ri16) -> (res: Result<ri128, Error>)
    ensures res.is_ok() <==> in_NoUnits128(r.val as int), res.is_ok() ==> res.unwrap().val == r.val
{ unimplemented!() }
#[verifier::external_body]
pub fn verif_try_rfrom_NoUnits128_32(r: ri32) -> (res: Result<ri128, Error>)
    ensures res.is_ok() <==> in_NoUnits128(r.val as int), res.is_ok() ==> res.unwrap().val == r.val
{ unimplemented!() }
#[verifier::external_body]
pub fn verif_try_rfrom_NoUnits128_64(r: ri64) -> (res: Result<ri128, Error>)
    ensures res.is_ok() <==> in_NoUnits128(r.val as int), res.is_ok() ==> res.unwrap().val == r.val
{ unimplemented!() }
#[verifier::external_body]
pub fn verif_try_rfrom_NoUnits128_128(r: ri128) -> (res: Result<ri128, Error>)
    ensures res.is_ok() <==> in_NoUnits128(r.val as int), res.is_ok() ==> res.unwrap().val == r.val
{ unimplemented!() }
#[verifier::external_body]
pub fn verif_try_new_NoUnits128(v: i64) -> (res: Result<ri128, Error>)
    ensures res.is_ok() <==> in_NoUnits128(v as int), res.is_ok() ==> res.unwrap().val == v
{ unimplemented!() }
#[verifier::external_body]
pub fn verif_try_new128_NoUnits128(v: i128) -> (res: Result<ri128, Error>)
    ensures res.is_ok() <==> in_NoUnits128(v as int), res.is_ok() ==> res.unwrap().val == v
{ unimplemented!() }
// `NoUnits128::MIN` / `NoUnits128::MAX` (associated consts of type i128)
pub fn verif_MIN_NoUnits128() -> (r: i128) ensures r == NoUnits128_MIN() { -170141183460469231731687303715884105728 }
pub fn verif_MAX_NoUnits128() -> (r: i128) ensures r == NoUnits128_MAX() { 170141183460469231731687303715884105727 }
// `x.try_checked_mul("what", rhs)` with x: NoUnits128 -- Ok iff the exact product lies within NoUnits128::MIN..=MAX
#[verifier::external_body]
pub fn verif_try_checked_mul_NoUnits128<R: RInto<ri128>>(x: ri128, rhs: R) -> (res: Result<ri128, Error>)
    requires rhs.rinto_req(),
    ensures res.is_ok() <==> in_NoUnits128(x.val * rhs.rinto_spec().val), res.is_ok() ==> res.unwrap().val == x.val * rhs.rinto_spec().val
{ unimplemented!() }
// `x.try_checked_add/sub("what", rhs)` and `x.checked_add/sub/mul(rhs)` with x: NoUnits128 -- fail iff the exact result leaves NoUnits128::MIN..=MAX
#[verifier::external_body]
pub fn verif_try_checked_add_NoUnits128<R: RInto<ri128>>(x: ri128, rhs: R) -> (res: Result<ri128, Error>)
    requires rhs.rinto_req(),
    ensures res.is_ok() <==> in_NoUnits128(x.val + rhs.rinto_spec().val), res.is_ok() ==> res.unwrap().val == x.val + rhs.rinto_spec().val
{ unimplemented!() }
#[verifier::external_body]
pub fn verif_try_checked_sub_NoUnits128<R: RInto<ri128>>(x: ri128, rhs: R) -> (res: Result<ri128, Error>)
    requires rhs.rinto_req(),
    ensures res.is_ok() <==> in_NoUnits128(x.val - rhs.rinto_spec().val), res.is_ok() ==> res.unwrap().val == x.val - rhs.rinto_spec().val
{ unimplemented!() }
#[verifier::external_body]
pub fn verif_checked_add_NoUnits128<R: RInto<ri128>>(x: ri128, rhs: R) -> (res: Option<ri128>)
    requires rhs.rinto_req(),
    ensures res.is_some() <==> in_NoUnits128(x.val + rhs.rinto_spec().val), res.is_some() ==> res.unwrap().val == x.val + rhs.rinto_spec().val
{ unimplemented!() }
#[verifier::external_body]
pub fn verif_checked_sub_NoUnits128<R: RInto<ri128>>(x: ri128, rhs: R) -> (res: Option<ri128>)
    requires rhs.rinto_req(),
    ensures res.is_some() <==> in_NoUnits128(x.val - rhs.rinto_spec().val), res.is_some() ==> res.unwrap().val == x.val - rhs.rinto_spec().val
{ unimplemented!() }
#[verifier::external_body]
pub fn verif_checked_mul_NoUnits128<R: RInto<ri128>>(x: ri128, rhs: R) -> (res: Option<ri128>)
    requires rhs.rinto_req(),
    ensures res.is_some() <==> in_NoUnits128(x.val * rhs.rinto_spec().val), res.is_some() ==> res.unwrap().val == x.val * rhs.rinto_spec().val
{ unimplemented!() }
pub type NoUnits96 = ri128;
pub open spec fn NoUnits96_MIN() -> int { -39614081257132168796771975168 }
pub open spec fn NoUnits96_MAX() -> int { 39614081257132168796771975167 }
pub open spec fn in_NoUnits96(v: int) -> bool { -39614081257132168796771975168 <= v <= 39614081257132168796771975167 }
#[verifier::external_body]
pub fn verif_try_rfrom_NoUnits96_8(r: ri8) -> (res: Result<ri128, Error>)
    ensures res.is_ok() <==> in_NoUnits96(r.val as int), res.is_ok() ==> res.unwrap().val == r.val
{ unimplemented!() }
#[verifier::external_body]
pub fn verif_try_rfrom_NoUnits96_16(r: ri16) -> (res: Result<ri128, Error>)
    ensures res.is_ok() <==> in_NoUnits96(r.val as int), res.is_ok() ==> res.unwrap().val == r.val
{ unimplemented!() }
#[verifier::external_body]
pub fn verif_try_rfrom_NoUnits96_32(r: ri32) -> (res: Result<ri128, Error>)
    ensures res.is_ok() <==> in_NoUnits96(r.val as int), res.is_ok() ==> res.unwrap().val == r.val
{ unimplemented!() }
#[verifier::external_body]
pub fn verif_try_rfrom_NoUnits96_64(r: ri64) -> (res: Result<ri128, Error>)
    ensures res.is_ok() <==> in_NoUnits96(r.val as int), res.is_ok() ==> res.unwrap().val == r.val
{ unimplemented!() }
#[verifier::external_body]
pub fn verif_try_rfrom_NoUnits96_128(r: ri128) -> (res: Result<ri128, Error>)
    ensures res.is_ok() <==> in_NoUnits96(r.val as int), res.is_ok() ==> res.unwrap().val == r.val
{ unimplemented!() }
#[verifier::external_body]
pub fn verif_try_new_NoUnits96(v: i64) -> (res: Result<ri128, Error>)
    ensures res.is_ok() <==> in_NoUnits96(v as int), res.is_ok() ==> res.unwrap().val == v
{ unimplemented!() }
#[verifier::external_body]
pub fn verif_try_new128_NoUnits96(v: i128) -> (res: Result<ri128, Error>)
    ensures res.is_ok() <==> in_NoUnits96(v as int), res.is_ok() ==> res.unwrap().val == v
{ unimplemented!() }
// `NoUnits96::MIN` / `NoUnits96::MAX` (associated consts of type i128)
pub fn verif_MIN_NoUnits96() -> (r: i128) ensures r == NoUnits96_MIN() { -39614081257132168796771975168 }
pub fn verif_MAX_NoUnits96() -> (r: i128) ensures r == NoUnits96_MAX() { 39614081257132168796771975167 }
// `x.try_checked_mul("what", rhs)` with x: NoUnits96 -- Ok iff the exact product lies within NoUnits96::MIN..=MAX
#[verifier::external_body]
pub fn verif_try_checked_mul_NoUnits96<R: RInto<ri128>>(x: ri128, rhs: R) -> (res: Result<ri128, Error>)
    requires rhs.rinto_req(),
    ensures res.is_ok() <==> in_NoUnits96(x.val * rhs.rinto_spec().val), res.is_ok() ==> res.unwrap().val == x.val * rhs.rinto_spec().val
{ unimplemented!() }
// `x.try_checked_add/sub("what", rhs)` and `x.checked_add/sub/mul(rhs)` with x: NoUnits96 -- fail iff the exact result leaves NoUnits96::MIN..=MAX
#[verifier::external_body]
pub fn verif_try_checked_add_NoUnits96<R: RInto<ri128>>(x: ri128, rhs: R) -> (res: Result<ri128, Error>)
    requires rhs.rinto_req(),
    ensures res.is_ok() <==> in_NoUnits96(x.val + rhs.rinto_spec().val), res.is_ok() ==> res.unwrap().val == x.val + rhs.rinto_spec().val
{ unimplemented!() }
#[verifier::external_body]
pub fn verif_try_checked_sub_NoUnits96<R: RInto<ri128>>(x: ri128, rhs: R) -> (res: Result<ri128, Error>)
    requires rhs.rinto_req(),
    ensures res.is_ok() <==> in_NoUnits96(x.val - rhs.rinto_spec().val), res.is_ok() ==> res.unwrap().val == x.val - rhs.rinto_spec().val
{ unimplemented!() }
#[verifier::external_body]
pub fn verif_checked_add_NoUnits96<R: RInto<ri128>>(x: ri128, rhs: R) -> (res: Option<ri128>)
    requires rhs.rinto_req(),
    ensures res.is_some() <==> in_NoUnits96(x.val + rhs.rinto_spec().val), res.is_some() ==> res.unwrap().val == x.val + rhs.rinto_spec().val
{ unimplemented!() }
#[verifier::external_body]
pub fn verif_checked_sub_NoUnits96<R: RInto<ri128>>(x: ri128, rhs: R) -> (res: Option<ri128>)
    requires rhs.rinto_req(),
    ensures res.is_some() <==> in_NoUnits96(x.val - rhs.rinto_spec().val), res.is_some() ==> res.unwrap().val == x.val - rhs.rinto_spec().val
{ unimplemented!() }
#[verifier::external_body]
pub fn verif_checked_mul_NoUnits96<R: RInto<ri128>>(x: ri128, rhs: R) -> (res: Option<ri128>)
    requires rhs.rinto_req(),
    ensures res.is_some() <==> in_NoUnits96(x.val * rhs.rinto_spec().val), res.is_some() ==> res.unwrap().val == x.val * rhs.rinto_spec().val
{ unimplemented!() }
pub type NoUnits32 = ri32;
pub open spec fn NoUnits32_MIN() -> int { -2147483648 }
pub open spec fn NoUnits32_MAX() -> int { 2147483647 }
pub open spec fn in_NoUnits32(v: int) -> bool { -2147483648 <= v <= 2147483647 }
#[verifier::external_body]
pub fn verif_try_rfrom_NoUnits32_8(r: ri8) -> (res: Result<ri32, Error>)
    ensures res.is_ok() <==> in_NoUnits32(r.val as int), res.is_ok() ==> res.unwrap().val == r.val
{ unimplemented!() }
#[verifier::external_body]
pub fn verif_try_rfrom_NoUnits32_16(r: ri16) -> (res: Result<ri32, Error>)
    ensures res.is_ok() <==> in_NoUnits32(r.val as int), res.is_ok() ==> res.unwrap().val == r.val
{ unimplemented!() }
#[verifier::external_body]
pub fn verif_try_rfrom_NoUnits32_32(r: ri32) -> (res: Result<ri32, Error>)
    ensures res.is_ok() <==> in_NoUnits32(r.val as int), res.is_ok() ==> res.unwrap().val == r.val
{ unimplemented!() }
#[verifier::external_body]
pub fn verif_try_rfrom_NoUnits32_64(r: ri64) -> (res: Result<ri32, Error>)
    ensures res.is_ok() <==> in_NoUnits32(r.val as int), res.is_ok() ==> res.unwrap().val == r.val
{ unimplemented!() }
#[verifier::external_body]
pub fn verif_try_rfrom_NoUnits32_128(r: ri128) -> (res: Result<ri32, Error>)
    ensures res.is_ok() <==> in_NoUnits32(r.val as int), res.is_ok() ==> res.unwrap().val == r.val
{ unimplemented!() }
#[verifier::external_body]
pub fn verif_try_new_NoUnits32(v: i64) -> (res: Result<ri32, Error>)
    ensures res.is_ok() <==> in_NoUnits32(v as int), res.is_ok() ==> res.unwrap().val == v
{ unimplemented!() }
#[verifier::external_body]
pub fn verif_try_new128_NoUnits32(v: i128) -> (res: Result<ri32, Error>)
    ensures res.is_ok() <==> in_NoUnits32(v as int), res.is_ok() ==> res.unwrap().val == v
{ unimplemented!() }
// `NoUnits32::MIN` / `NoUnits32::MAX` (associated consts of type i128)
pub fn verif_MIN_NoUnits32() -> (r: i128) ensures r == NoUnits32_MIN() { -2147483648 }
pub fn verif_MAX_NoUnits32() -> (r: i128) ensures r == NoUnits32_MAX() { 2147483647 }
// `x.try_checked_mul("what", rhs)` with x: NoUnits32 -- Ok iff the exact product lies within NoUnits32::MIN..=MAX
#[verifier::external_body]
pub fn verif_try_checked_mul_NoUnits32<R: RInto<ri32>>(x: ri32, rhs: R) -> (res: Result<ri32, Error>)
    requires rhs.rinto_req(),
    ensures res.is_ok() <==> in_NoUnits32(x.val * rhs.rinto_spec().val), res.is_ok() ==> res.unwrap().val == x.val * rhs.rinto_spec().val
{ unimplemented!() }
// `x.try_checked_add/sub("what", rhs)` and `x.checked_add/sub/mul(rhs)` with x: NoUnits32 -- fail iff the exact result leaves NoUnits32::MIN..=MAX
#[verifier::external_body]
pub fn verif_try_checked_add_NoUnits32<R: RInto<ri32>>(x: ri32, rhs: R) -> (res: Result<ri32, Error>)
    requires rhs.rinto_req(),
    ensures res.is_ok() <==> in_NoUnits32(x.val + rhs.rinto_spec().val), res.is_ok() ==> res.unwrap().val == x.val + rhs.rinto_spec().val
{ unimplemented!() }
#[verifier::external_body]
pub fn verif_try_checked_sub_NoUnits32<R: RInto<ri32>>(x: ri32, rhs: R) -> (res: Result<ri32, Error>)
    requires rhs.rinto_req(),
    ensures res.is_ok() <==> in_NoUnits32(x.val - rhs.rinto_spec().val), res.is_ok() ==> res.unwrap().val == x.val - rhs.rinto_spec().val
{ unimplemented!() }
#[verifier::external_body]
pub fn verif_checked_add_NoUnits32<R: RInto<ri32>>(x: ri32, rhs: R) -> (res: Option<ri32>)
    requires rhs.rinto_req(),
    ensures res.is_some() <==> in_NoUnits32(x.val + rhs.rinto_spec().val), res.is_some() ==> res.unwrap().val == x.val + rhs.rinto_spec().val
{ unimplemented!() }
#[verifier::external_body]
pub fn verif_checked_sub_NoUnits32<R: RInto<ri32>>(x: ri32, rhs: R) -> (res: Option<ri32>)
    requires rhs.rinto_req(),
    ensures res.is_some() <==> in_NoUnits32(x.val - rhs.rinto_spec().val), res.is_some() ==> res.unwrap().val == x.val - rhs.rinto_spec().val
{ unimplemented!() }
#[verifier::external_body]
pub fn verif_checked_mul_NoUnits32<R: RInto<ri32>>(x: ri32, rhs: R) -> (res: Option<ri32>)
    requires rhs.rinto_req(),
    ensures res.is_some() <==> in_NoUnits32(x.val * rhs.rinto_spec().val), res.is_some() ==> res.unwrap().val == x.val * rhs.rinto_spec().val
{ unimplemented!() }
pub type NoUnits16 = ri16;
pub open spec fn NoUnits16_MIN() -> int { -32768 }
pub open spec fn NoUnits16_MAX() -> int { 32767 }
pub open spec fn in_NoUnits16(v: int) -> bool { -32768 <= v <= 32767 }
#[verifier::external_body]
pub fn verif_try_rfrom_NoUnits16_8(r: ri8) -> (res: Result<ri16, Error>)
    ensures res.is_ok() <==> in_NoUnits16(r.val as int), res.is_ok() ==> res.unwrap().val == r.val
{ unimplemented!() }
#[verifier::external_body]
pub fn verif_try_rfrom_NoUnits16_16(r: ri16) -> (res: Result<ri16, Error>)
    ensures res.is_ok() <==> in_NoUnits16(r.val as int), res.is_ok() ==> res.unwrap().val == r.val
{ unimplemented!() }
#[verifier::external_body]
pub fn verif_try_rfrom_NoUnits16_32(r: ri32) -> (res: Result<ri16, Error>)
    ensures res.is_ok() <==> in_NoUnits16(r.val as int), res.is_ok() ==> res.unwrap().val == r.val
{ unimplemented!() }
#[verifier::external_body]
pub fn verif_try_rfrom_NoUnits16_64(r: ri64) -> (res: Result<ri16, Error>)
    ensures res.is_ok() <==> in_NoUnits16(r.val as int), res.is_ok() ==> res.unwrap().val == r.val
{ unimplemented!() }
#[verifier::external_body]
pub fn verif_try_rfrom_NoUnits16_128(r: ri128) -> (res: Result<ri16, Error>)
    ensures res.is_ok() <==> in_NoUnits16(r.val as int), res.is_ok() ==> res.unwrap().val == r.val
{ unimplemented!() }
#[verifier::external_body]
pub fn verif_try_new_NoUnits16(v: i64) -> (res: Result<ri16, Error>)
    ensures res.is_ok() <==> in_NoUnits16(v as int), res.is_ok() ==> res.unwrap().val == v
{ unimplemented!() }
#[verifier::external_body]
pub fn verif_try_new128_NoUnits16(v: i128) -> (res: Result<ri16, Error>)
    ensures res.is_ok() <==> in_NoUnits16(v as int), res.is_ok() ==> res.unwrap().val == v
{ unimplemented!() }
// `NoUnits16::MIN` / `NoUnits16::MAX` (associated consts of type i128)
pub fn verif_MIN_NoUnits16() -> (r: i128) ensures r == NoUnits16_MIN() { -32768 }
pub fn verif_MAX_NoUnits16() -> (r: i128) ensures r == NoUnits16_MAX() { 32767 }
// `x.try_checked_mul("what", rhs)` with x: NoUnits16 -- Ok iff the exact product lies within NoUnits16::MIN..=MAX
#[verifier::external_body]
pub fn verif_try_checked_mul_NoUnits16<R: RInto<ri16>>(x: ri16, rhs: R) -> (res: Result<ri16, Error>)
    requires rhs.rinto_req(),
    ensures res.is_ok() <==> in_NoUnits16(x.val * rhs.rinto_spec().val), res.is_ok() ==> res.unwrap().val == x.val * rhs.rinto_spec().val
{ unimplemented!() }
// `x.try_checked_add/sub("what", rhs)` and `x.checked_add/sub/mul(rhs)` with x: NoUnits16 -- fail iff the exact result leaves NoUnits16::MIN..=MAX
#[verifier::external_body]
pub fn verif_try_checked_add_NoUnits16<R: RInto<ri16>>(x: ri16, rhs: R) -> (res: Result<ri16, Error>)
    requires rhs.rinto_req(),
    ensures res.is_ok() <==> in_NoUnits16(x.val + rhs.rinto_spec().val), res.is_ok() ==> res.unwrap().val == x.val + rhs.rinto_spec().val
{ unimplemented!() }
#[verifier::external_body]
pub fn verif_try_checked_sub_NoUnits16<R: RInto<ri16>>(x: ri16, rhs: R) -> (res: Result<ri16, Error>)
    requires rhs.rinto_req(),
    ensures res.is_ok() <==> in_NoUnits16(x.val - rhs.rinto_spec().val), res.is_ok() ==> res.unwrap().val == x.val - rhs.rinto_spec().val
{ unimplemented!() }
#[verifier::external_body]
pub fn verif_checked_add_NoUnits16<R: RInto<ri16>>(x: ri16, rhs: R) -> (res: Option<ri16>)
    requires rhs.rinto_req(),
    ensures res.is_some() <==> in_NoUnits16(x.val + rhs.rinto_spec().val), res.is_some() ==> res.unwrap().val == x.val + rhs.rinto_spec().val
{ unimplemented!() }
#[verifier::external_body]
pub fn verif_checked_sub_NoUnits16<R: RInto<ri16>>(x: ri16, rhs: R) -> (res: Option<ri16>)
    requires rhs.rinto_req(),
    ensures res.is_some() <==> in_NoUnits16(x.val - rhs.rinto_spec().val), res.is_some() ==> res.unwrap().val == x.val - rhs.rinto_spec().val
{ unimplemented!() }
#[verifier::external_body]
pub fn verif_checked_mul_NoUnits16<R: RInto<ri16>>(x: ri16, rhs: R) -> (res: Option<ri16>)
    requires rhs.rinto_req(),
    ensures res.is_some() <==> in_NoUnits16(x.val * rhs.rinto_spec().val), res.is_some() ==> res.unwrap().val == x.val * rhs.rinto_spec().val
{ unimplemented!() }
pub type NoUnits8 = ri8;
pub open spec fn NoUnits8_MIN() -> int { -128 }
pub open spec fn NoUnits8_MAX() -> int { 127 }
pub open spec fn in_NoUnits8(v: int) -> bool { -128 <= v <= 127 }
#[verifier::external_body]
pub fn verif_try_rfrom_NoUnits8_8(r: ri8) -> (res: Result<ri8, Error>)
    ensures res.is_ok() <==> in_NoUnits8(r.val as int), res.is_ok() ==> res.unwrap().val == r.val
{ unimplemented!() }
#[verifier::external_body]
pub fn verif_try_rfrom_NoUnits8_16(r: ri16) -> (res: Result<ri8, Error>)
    ensures res.is_ok() <==> in_NoUnits8(r.val as int), res.is_ok() ==> res.unwrap().val == r.val
{ unimplemented!() }
#[verifier::external_body]
pub fn verif_try_rfrom_NoUnits8_32(r: ri32) -> (res: Result<ri8, Error>)
    ensures res.is_ok() <==> in_NoUnits8(r.val as int), res.is_ok() ==> res.unwrap().val == r.val
{ unimplemented!() }
#[verifier::external_body]
pub fn verif_try_rfrom_NoUnits8_64(r: ri64) -> (res: Result<ri8, Error>)
    ensures res.is_ok() <==> in_NoUnits8(r.val as int), res.is_ok() ==> res.unwrap().val == r.val
{ unimplemented!() }
#[verifier::external_body]
pub fn verif_try_rfrom_NoUnits8_128(r: ri128) -> (res: Result<ri8, Error>)
    ensures res.is_ok() <==> in_NoUnits8(r.val as int), res.is_ok() ==> res.unwrap().val == r.val
{ unimplemented!() }
#[verifier::external_body]
pub fn verif_try_new_NoUnits8(v: i64) -> (res: Result<ri8, Error>)
    ensures res.is_ok() <==> in_NoUnits8(v as int), res.is_ok() ==> res.unwrap().val == v
{ unimplemented!() }
#[verifier::external_body]
pub fn verif_try_new128_NoUnits8(v: i128) -> (res: Result<ri8, Error>)
    ensures res.is_ok() <==> in_NoUnits8(v as int), res.is_ok() ==> res.unwrap().val == v
{ unimplemented!() }
// `NoUnits8::MIN` / `NoUnits8::MAX` (associated consts of type i128)
pub fn verif_MIN_NoUnits8() -> (r: i128) ensures r == NoUnits8_MIN() { -128 }
pub fn verif_MAX_NoUnits8() -> (r: i128) ensures r == NoUnits8_MAX() { 127 }
// `x.try_checked_mul("what", rhs)` with x: NoUnits8 -- Ok iff the exact product lies within NoUnits8::MIN..=MAX
#[verifier::external_body]
pub fn verif_try_checked_mul_NoUnits8<R: RInto<ri8>>(x: ri8, rhs: R) -> (res: Result<ri8, Error>)
    requires rhs.rinto_req(),
    ensures res.is_ok() <==> in_NoUnits8(x.val * rhs.rinto_spec().val), res.is_ok() ==> res.unwrap().val == x.val * rhs.rinto_spec().val
{ unimplemented!() }
// `x.try_checked_add/sub("what", rhs)` and `x.checked_add/sub/mul(rhs)` with x: NoUnits8 -- fail iff the exact result leaves NoUnits8::MIN..=MAX
#[verifier::external_body]
pub fn verif_try_checked_add_NoUnits8<R: RInto<ri8>>(x: ri8, rhs: R) -> (res: Result<ri8, Error>)
    requires rhs.rinto_req(),
    ensures res.is_ok() <==> in_NoUnits8(x.val + rhs.rinto_spec().val), res.is_ok() ==> res.unwrap().val == x.val + rhs.rinto_spec().val
{ unimplemented!() }
#[verifier::external_body]
pub fn verif_try_checked_sub_NoUnits8<R: RInto<ri8>>(x: ri8, rhs: R) -> (res: Result<ri8, Error>)
    requires rhs.rinto_req(),
    ensures res.is_ok() <==> in_NoUnits8(x.val - rhs.rinto_spec().val), res.is_ok() ==> res.unwrap().val == x.val - rhs.rinto_spec().val
{ unimplemented!() }
#[verifier::external_body]
pub fn verif_checked_add_NoUnits8<R: RInto<ri8>>(x: ri8, rhs: R) -> (res: Option<ri8>)
    requires rhs.rinto_req(),
    ensures res.is_some() <==> in_NoUnits8(x.val + rhs.rinto_spec().val), res.is_some() ==> res.unwrap().val == x.val + rhs.rinto_spec().val
{ unimplemented!() }
#[verifier::external_body]
pub fn verif_checked_sub_NoUnits8<R: RInto<ri8>>(x: ri8, rhs: R) -> (res: Option<ri8>)
    requires rhs.rinto_req(),
    ensures res.is_some() <==> in_NoUnits8(x.val - rhs.rinto_spec().val), res.is_some() ==> res.unwrap().val == x.val - rhs.rinto_spec().val
{ unimplemented!() }
#[verifier::external_body]
pub fn verif_checked_mul_NoUnits8<R: RInto<ri8>>(x: ri8, rhs: R) -> (res: Option<ri8>)
    requires rhs.rinto_req(),
    ensures res.is_some() <==> in_NoUnits8(x.val * rhs.rinto_spec().val), res.is_some() ==> res.unwrap().val == x.val * rhs.rinto_spec().val
{ unimplemented!() }
pub type Sign = ri8;
pub open spec fn Sign_MIN() -> int { -1 }
pub open spec fn Sign_MAX() -> int { 1 }
pub open spec fn in_Sign(v: int) -> bool { -1 <= v <= 1 }
#[verifier::external_body]
pub fn verif_try_rfrom_Sign_8(r: ri8) -> (res: Result<ri8, Error>)
    ensures res.is_ok() <==> in_Sign(r.val as int), res.is_ok() ==> res.unwrap().val == r.val
{ unimplemented!() }
#[verifier::external_body]
pub fn verif_try_rfrom_Sign_16(r: ri16) -> (res: Result<ri8, Error>)
    ensures res.is_ok() <==> in_Sign(r.val as int), res.is_ok() ==> res.unwrap().val == r.val
{ unimplemented!() }
#[verifier::external_body]
pub fn verif_try_rfrom_Sign_32(r: ri32) -> (res: Result<ri8, Error>)
    ensures res.is_ok() <==> in_Sign(r.val as int), res.is_ok() ==> res.unwrap().val == r.val
{ unimplemented!() }
#[verifier::external_body]
pub fn verif_try_rfrom_Sign_64(r: ri64) -> (res: Result<ri8, Error>)
    ensures res.is_ok() <==> in_Sign(r.val as int), res.is_ok() ==> res.unwrap().val == r.val
{ unimplemented!() }
#[verifier::external_body]
pub fn verif_try_rfrom_Sign_128(r: ri128) -> (res: Result<ri8, Error>)
    ensures res.is_ok() <==> in_Sign(r.val as int), res.is_ok() ==> res.unwrap().val == r.val
{ unimplemented!() }
#[verifier::external_body]
pub fn verif_try_new_Sign(v: i64) -> (res: Result<ri8, Error>)
    ensures res.is_ok() <==> in_Sign(v as int), res.is_ok() ==> res.unwrap().val == v
{ unimplemented!() }
#[verifier::external_body]
pub fn verif_try_new128_Sign(v: i128) -> (res: Result<ri8, Error>)
    ensures res.is_ok() <==> in_Sign(v as int), res.is_ok() ==> res.unwrap().val == v
{ unimplemented!() }
// `Sign::MIN` / `Sign::MAX` (associated consts of type i128)
pub fn verif_MIN_Sign() -> (r: i128) ensures r == Sign_MIN() { -1 }
pub fn verif_MAX_Sign() -> (r: i128) ensures r == Sign_MAX() { 1 }
// `x.try_checked_mul("what", rhs)` with x: Sign -- Ok iff the exact product lies within Sign::MIN..=MAX
#[verifier::external_body]
pub fn verif_try_checked_mul_Sign<R: RInto<ri8>>(x: ri8, rhs: R) -> (res: Result<ri8, Error>)
    requires rhs.rinto_req(),
    ensures res.is_ok() <==> in_Sign(x.val * rhs.rinto_spec().val), res.is_ok() ==> res.unwrap().val == x.val * rhs.rinto_spec().val
{ unimplemented!() }
// `x.try_checked_add/sub("what", rhs)` and `x.checked_add/sub/mul(rhs)` with x: Sign -- fail iff the exact result leaves Sign::MIN..=MAX
#[verifier::external_body]
pub fn verif_try_checked_add_Sign<R: RInto<ri8>>(x: ri8, rhs: R) -> (res: Result<ri8, Error>)
    requires rhs.rinto_req(),
    ensures res.is_ok() <==> in_Sign(x.val + rhs.rinto_spec().val), res.is_ok() ==> res.unwrap().val == x.val + rhs.rinto_spec().val
{ unimplemented!() }
#[verifier::external_body]
pub fn verif_try_checked_sub_Sign<R: RInto<ri8>>(x: ri8, rhs: R) -> (res: Result<ri8, Error>)
    requires rhs.rinto_req(),
    ensures res.is_ok() <==> in_Sign(x.val - rhs.rinto_spec().val), res.is_ok() ==> res.unwrap().val == x.val - rhs.rinto_spec().val
{ unimplemented!() }
#[verifier::external_body]
pub fn verif_checked_add_Sign<R: RInto<ri8>>(x: ri8, rhs: R) -> (res: Option<ri8>)
    requires rhs.rinto_req(),
    ensures res.is_some() <==> in_Sign(x.val + rhs.rinto_spec().val), res.is_some() ==> res.unwrap().val == x.val + rhs.rinto_spec().val
{ unimplemented!() }
#[verifier::external_body]
pub fn verif_checked_sub_Sign<R: RInto<ri8>>(x: ri8, rhs: R) -> (res: Option<ri8>)
    requires rhs.rinto_req(),
    ensures res.is_some() <==> in_Sign(x.val - rhs.rinto_spec().val), res.is_some() ==> res.unwrap().val == x.val - rhs.rinto_spec().val
{ unimplemented!() }
#[verifier::external_body]
pub fn verif_checked_mul_Sign<R: RInto<ri8>>(x: ri8, rhs: R) -> (res: Option<ri8>)
    requires rhs.rinto_req(),
    ensures res.is_some() <==> in_Sign(x.val * rhs.rinto_spec().val), res.is_some() ==> res.unwrap().val == x.val * rhs.rinto_spec().val
{ unimplemented!() }
pub type Year = ri16;
pub open spec fn Year_MIN() -> int { -9999 }
pub open spec fn Year_MAX() -> int { 9999 }
pub open spec fn in_Year(v: int) -> bool { -9999 <= v <= 9999 }
#[verifier::external_body]
pub fn verif_try_rfrom_Year_8(r: ri8) -> (res: Result<ri16, Error>)
    ensures res.is_ok() <==> in_Year(r.val as int), res.is_ok() ==> res.unwrap().val == r.val
{ unimplemented!() }
#[verifier::external_body]
pub fn verif_try_rfrom_Year_16(r: ri16) -> (res: Result<ri16, Error>)
    ensures res.is_ok() <==> in_Year(r.val as int), res.is_ok() ==> res.unwrap().val == r.val
{ unimplemented!() }
#[verifier::external_body]
pub fn verif_try_rfrom_Year_32(r: ri32) -> (res: Result<ri16, Error>)
    ensures res.is_ok() <==> in_Year(r.val as int), res.is_ok() ==> res.unwrap().val == r.val
{ unimplemented!() }
#[verifier::external_body]
pub fn verif_try_rfrom_Year_64(r: ri64) -> (res: Result<ri16, Error>)
    ensures res.is_ok() <==> in_Year(r.val as int), res.is_ok() ==> res.unwrap().val == r.val
{ unimplemented!() }
#[verifier::external_body]
pub fn verif_try_rfrom_Year_128(r: ri128) -> (res: Result<ri16, Error>)
    ensures res.is_ok() <==> in_Year(r.val as int), res.is_ok() ==> res.unwrap().val == r.val
{ unimplemented!() }
#[verifier::external_body]
pub fn verif_try_new_Year(v: i64) -> (res: Result<ri16, Error>)
    ensures res.is_ok() <==> in_Year(v as int), res.is_ok() ==> res.unwrap().val == v
{ unimplemented!() }
#[verifier::external_body]
pub fn verif_try_new128_Year(v: i128) -> (res: Result<ri16, Error>)
    ensures res.is_ok() <==> in_Year(v as int), res.is_ok() ==> res.unwrap().val == v
{ unimplemented!() }
// `Year::MIN` / `Year::MAX` (associated consts of type i128)
pub fn verif_MIN_Year() -> (r: i128) ensures r == Year_MIN() { -9999 }
pub fn verif_MAX_Year() -> (r: i128) ensures r == Year_MAX() { 9999 }
// `x.try_checked_mul("what", rhs)` with x: Year -- Ok iff the exact product lies within Year::MIN..=MAX
#[verifier::external_body]
pub fn verif_try_checked_mul_Year<R: RInto<ri16>>(x: ri16, rhs: R) -> (res: Result<ri16, Error>)
    requires rhs.rinto_req(),
    ensures res.is_ok() <==> in_Year(x.val * rhs.rinto_spec().val), res.is_ok() ==> res.unwrap().val == x.val * rhs.rinto_spec().val
{ unimplemented!() }
// `x.try_checked_add/sub("what", rhs)` and `x.checked_add/sub/mul(rhs)` with x: Year -- fail iff the exact result leaves Year::MIN..=MAX
#[verifier::external_body]
pub fn verif_try_checked_add_Year<R: RInto<ri16>>(x: ri16, rhs: R) -> (res: Result<ri16, Error>)
    requires rhs.rinto_req(),
    ensures res.is_ok() <==> in_Year(x.val + rhs.rinto_spec().val), res.is_ok() ==> res.unwrap().val == x.val + rhs.rinto_spec().val
{ unimplemented!() }
#[verifier::external_body]
pub fn verif_try_checked_sub_Year<R: RInto<ri16>>(x: ri16, rhs: R) -> (res: Result<ri16, Error>)
    requires rhs.rinto_req(),
    ensures res.is_ok() <==> in_Year(x.val - rhs.rinto_spec().val), res.is_ok() ==> res.unwrap().val == x.val - rhs.rinto_spec().val
{ unimplemented!() }
#[verifier::external_body]
pub fn verif_checked_add_Year<R: RInto<ri16>>(x: ri16, rhs: R) -> (res: Option<ri16>)
    requires rhs.rinto_req(),
    ensures res.is_some() <==> in_Year(x.val + rhs.rinto_spec().val), res.is_some() ==> res.unwrap().val == x.val + rhs.rinto_spec().val
{ unimplemented!() }
#[verifier::external_body]
pub fn verif_checked_sub_Year<R: RInto<ri16>>(x: ri16, rhs: R) -> (res: Option<ri16>)
    requires rhs.rinto_req(),
    ensures res.is_some() <==> in_Year(x.val - rhs.rinto_spec().val), res.is_some() ==> res.unwrap().val == x.val - rhs.rinto_spec().val
{ unimplemented!() }
#[verifier::external_body]
pub fn verif_checked_mul_Year<R: RInto<ri16>>(x: ri16, rhs: R) -> (res: Option<ri16>)
    requires rhs.rinto_req(),
    ensures res.is_some() <==> in_Year(x.val * rhs.rinto_spec().val), res.is_some() ==> res.unwrap().val == x.val * rhs.rinto_spec().val
{ unimplemented!() }
pub type Month = ri8;
pub open spec fn Month_MIN() -> int { 1 }
pub open spec fn Month_MAX() -> int { 12 }
pub open spec fn in_Month(v: int) -> bool { 1 <= v <= 12 }
#[verifier::external_body]
pub fn verif_try_rfrom_Month_8(r: ri8) -> (res: Result<ri8, Error>)
    ensures res.is_ok() <==> in_Month(r.val as int), res.is_ok() ==> res.unwrap().val == r.val
{ unimplemented!() }
#[verifier::external_body]
pub fn verif_try_rfrom_Month_16(r: ri16) -> (res: Result<ri8, Error>)
    ensures res.is_ok() <==> in_Month(r.val as int), res.is_ok() ==> res.unwrap().val == r.val
{ unimplemented!() }
#[verifier::external_body]
pub fn verif_try_rfrom_Month_32(r: ri32) -> (res: Result<ri8, Error>)
    ensures res.is_ok() <==> in_Month(r.val as int), res.is_ok() ==> res.unwrap().val == r.val
{ unimplemented!() }
#[verifier::external_body]
pub fn verif_try_rfrom_Month_64(r: ri64) -> (res: Result<ri8, Error>)
    ensures res.is_ok() <==> in_Month(r.val as int), res.is_ok() ==> res.unwrap().val == r.val
{ unimplemented!() }
#[verifier::external_body]
pub fn verif_try_rfrom_Month_128(r: ri128) -> (res: Result<ri8, Error>)
    ensures res.is_ok() <==> in_Month(r.val as int), res.is_ok() ==> res.unwrap().val == r.val
{ unimplemented!() }
#[verifier::external_body]
pub fn verif_try_new_Month(v: i64) -> (res: Result<ri8, Error>)
    ensures res.is_ok() <==> in_Month(v as int), res.is_ok() ==> res.unwrap().val == v
{ unimplemented!() }
#[verifier::external_body]
pub fn verif_try_new128_Month(v: i128) -> (res: Result<ri8, Error>)
    ensures res.is_ok() <==> in_Month(v as int), res.is_ok() ==> res.unwrap().val == v
{ unimplemented!() }
// `Month::MIN` / `Month::MAX` (associated consts of type i128)
pub fn verif_MIN_Month() -> (r: i128) ensures r == Month_MIN() { 1 }
pub fn verif_MAX_Month() -> (r: i128) ensures r == Month_MAX() { 12 }
// `x.try_checked_mul("what", rhs)` with x: Month -- Ok iff the exact product lies within Month::MIN..=MAX
#[verifier::external_body]
pub fn verif_try_checked_mul_Month<R: RInto<ri8>>(x: ri8, rhs: R) -> (res: Result<ri8, Error>)
    requires rhs.rinto_req(),
    ensures res.is_ok() <==> in_Month(x.val * rhs.rinto_spec().val), res.is_ok() ==> res.unwrap().val == x.val * rhs.rinto_spec().val
{ unimplemented!() }
// `x.try_checked_add/sub("what", rhs)` and `x.checked_add/sub/mul(rhs)` with x: Month -- fail iff the exact result leaves Month::MIN..=MAX
#[verifier::external_body]
pub fn verif_try_checked_add_Month<R: RInto<ri8>>(x: ri8, rhs: R) -> (res: Result<ri8, Error>)
    requires rhs.rinto_req(),
    ensures res.is_ok() <==> in_Month(x.val + rhs.rinto_spec().val), res.is_ok() ==> res.unwrap().val == x.val + rhs.rinto_spec().val
{ unimplemented!() }
#[verifier::external_body]
pub fn verif_try_checked_sub_Month<R: RInto<ri8>>(x: ri8, rhs: R) -> (res: Result<ri8, Error>)
    requires rhs.rinto_req(),
    ensures res.is_ok() <==> in_Month(x.val - rhs.rinto_spec().val), res.is_ok() ==> res.unwrap().val == x.val - rhs.rinto_spec().val
{ unimplemented!() }
#[verifier::external_body]
pub fn verif_checked_add_Month<R: RInto<ri8>>(x: ri8, rhs: R) -> (res: Option<ri8>)
    requires rhs.rinto_req(),
    ensures res.is_some() <==> in_Month(x.val + rhs.rinto_spec().val), res.is_some() ==> res.unwrap().val == x.val + rhs.rinto_spec().val
{ unimplemented!() }
#[verifier::external_body]
pub fn verif_checked_sub_Month<R: RInto<ri8>>(x: ri8, rhs: R) -> (res: Option<ri8>)
    requires rhs.rinto_req(),
    ensures res.is_some() <==> in_Month(x.val - rhs.rinto_spec().val), res.is_some() ==> res.unwrap().val == x.val - rhs.rinto_spec().val
{ unimplemented!() }
#[verifier::external_body]
pub fn verif_checked_mul_Month<R: RInto<ri8>>(x: ri8, rhs: R) -> (res: Option<ri8>)
    requires rhs.rinto_req(),
    ensures res.is_some() <==> in_Month(x.val * rhs.rinto_spec().val), res.is_some() ==> res.unwrap().val == x.val * rhs.rinto_spec().val
{ unimplemented!() }
pub type Day = ri8;
pub open spec fn Day_MIN() -> int { 1 }
pub open spec fn Day_MAX() -> int { 31 }
pub open spec fn in_Day(v: int) -> bool { 1 <= v <= 31 }
#[verifier::external_body]
pub fn verif_try_rfrom_Day_8(r: ri8) -> (res: Result<ri8, Error>)
    ensures res.is_ok() <==> in_Day(r.val as int), res.is_ok() ==> res.unwrap().val == r.val
{ unimplemented!() }
#[verifier::external_body]
pub fn verif_try_rfrom_Day_16(r: ri16) -> (res: Result<ri8, Error>)
    ensures res.is_ok() <==> in_Day(r.val as int), res.is_ok() ==> res.unwrap().val == r.val
{ unimplemented!() }
#[verifier::external_body]
pub fn verif_try_rfrom_Day_32(r: ri32) -> (res: Result<ri8, Error>)
    ensures res.is_ok() <==> in_Day(r.val as int), res.is_ok() ==> res.unwrap().val == r.val
{ unimplemented!() }
#[verifier::external_body]
pub fn verif_try_rfrom_Day_64(r: ri64) -> (res: Result<ri8, Error>)
    ensures res.is_ok() <==> in_Day(r.val as int), res.is_ok() ==> res.unwrap().val == r.val
{ unimplemented!() }
#[verifier::external_body]
pub fn verif_try_rfrom_Day_128(r: ri128) -> (res: Result<ri8, Error>)
    ensures res.is_ok() <==> in_Day(r.val as int), res.is_ok() ==> res.unwrap().val == r.val
{ unimplemented!() }
#[verifier::external_body]
pub fn verif_try_new_Day(v: i64) -> (res: Result<ri8, Error>)
    ensures res.is_ok() <==> in_Day(v as int), res.is_ok() ==> res.unwrap().val == v
{ unimplemented!() }
#[verifier::external_body]
pub fn verif_try_new128_Day(v: i128) -> (res: Result<ri8, Error>)
    ensures res.is_ok() <==> in_Day(v as int), res.is_ok() ==> res.unwrap().val == v
{ unimplemented!() }
// `Day::MIN` / `Day::MAX` (associated consts of type i128)
pub fn verif_MIN_Day() -> (r: i128) ensures r == Day_MIN() { 1 }
pub fn verif_MAX_Day() -> (r: i128) ensures r == Day_MAX() { 31 }
// `x.try_checked_mul("what", rhs)` with x: Day -- Ok iff the exact product lies within Day::MIN..=MAX
#[verifier::external_body]
pub fn verif_try_checked_mul_Day<R: RInto<ri8>>(x: ri8, rhs: R) -> (res: Result<ri8, Error>)
    requires rhs.rinto_req(),
    ensures res.is_ok() <==> in_Day(x.val * rhs.rinto_spec().val), res.is_ok() ==> res.unwrap().val == x.val * rhs.rinto_spec().val
{ unimplemented!() }
// `x.try_checked_add/sub("what", rhs)` and `x.checked_add/sub/mul(rhs)` with x: Day -- fail iff the exact result leaves Day::MIN..=MAX
#[verifier::external_body]
pub fn verif_try_checked_add_Day<R: RInto<ri8>>(x: ri8, rhs: R) -> (res: Result<ri8, Error>)
    requires rhs.rinto_req(),
    ensures res.is_ok() <==> in_Day(x.val + rhs.rinto_spec().val), res.is_ok() ==> res.unwrap().val == x.val + rhs.rinto_spec().val
{ unimplemented!() }
#[verifier::external_body]
pub fn verif_try_checked_sub_Day<R: RInto<ri8>>(x: ri8, rhs: R) -> (res: Result<ri8, Error>)
    requires rhs.rinto_req(),
    ensures res.is_ok() <==> in_Day(x.val - rhs.rinto_spec().val), res.is_ok() ==> res.unwrap().val == x.val - rhs.rinto_spec().val
{ unimplemented!() }
#[verifier::external_body]
pub fn verif_checked_add_Day<R: RInto<ri8>>(x: ri8, rhs: R) -> (res: Option<ri8>)
    requires rhs.rinto_req(),
    ensures res.is_some() <==> in_Day(x.val + rhs.rinto_spec().val), res.is_some() ==> res.unwrap().val == x.val + rhs.rinto_spec().val
{ unimplemented!() }
#[verifier::external_body]
pub fn verif_checked_sub_Day<R: RInto<ri8>>(x: ri8, rhs: R) -> (res: Option<ri8>)
    requires rhs.rinto_req(),
    ensures res.is_some() <==> in_Day(x.val - rhs.rinto_spec().val), res.is_some() ==> res.unwrap().val == x.val - rhs.rinto_spec().val
{ unimplemented!() }
#[verifier::external_body]
pub fn verif_checked_mul_Day<R: RInto<ri8>>(x: ri8, rhs: R) -> (res: Option<ri8>)
    requires rhs.rinto_req(),
    ensures res.is_some() <==> in_Day(x.val * rhs.rinto_spec().val), res.is_some() ==> res.unwrap().val == x.val * rhs.rinto_spec().val
{ unimplemented!() }
pub type Hour = ri8;
pub open spec fn Hour_MIN() -> int { 0 }
pub open spec fn Hour_MAX() -> int { 23 }
pub open spec fn in_Hour(v: int) -> bool { 0 <= v <= 23 }
#[verifier::external_body]
pub fn verif_try_rfrom_Hour_8(r: ri8) -> (res: Result<ri8, Error>)
    ensures res.is_ok() <==> in_Hour(r.val as int), res.is_ok() ==> res.unwrap().val == r.val
{ unimplemented!() }
#[verifier::external_body]
pub fn verif_try_rfrom_Hour_16(r: ri16) -> (res: Result<ri8, Error>)
    ensures res.is_ok() <==> in_Hour(r.val as int), res.is_ok() ==> res.unwrap().val == r.val
{ unimplemented!() }
#[verifier::external_body]
pub fn verif_try_rfrom_Hour_32(r: ri32) -> (res: Result<ri8, Error>)
    ensures res.is_ok() <==> in_Hour(r.val as int), res.is_ok() ==> res.unwrap().val == r.val
{ unimplemented!() }
#[verifier::external_body]
pub fn verif_try_rfrom_Hour_64(r: ri64) -> (res: Result<ri8, Error>)
    ensures res.is_ok() <==> in_Hour(r.val as int), res.is_ok() ==> res.unwrap().val == r.val
{ unimplemented!() }
#[verifier::external_body]
pub fn verif_try_rfrom_Hour_128(r: ri128) -> (res: Result<ri8, Error>)
    ensures res.is_ok() <==> in_Hour(r.val as int), res.is_ok() ==> res.unwrap().val == r.val
{ unimplemented!() }
#[verifier::external_body]
pub fn verif_try_new_Hour(v: i64) -> (res: Result<ri8, Error>)
    ensures res.is_ok() <==> in_Hour(v as int), res.is_ok() ==> res.unwrap().val == v
{ unimplemented!() }
#[verifier::external_body]
pub fn verif_try_new128_Hour(v: i128) -> (res: Result<ri8, Error>)
    ensures res.is_ok() <==> in_Hour(v as int), res.is_ok() ==> res.unwrap().val == v
{ unimplemented!() }
// `Hour::MIN` / `Hour::MAX` (associated consts of type i128)
pub fn verif_MIN_Hour() -> (r: i128) ensures r == Hour_MIN() { 0 }
pub fn verif_MAX_Hour() -> (r: i128) ensures r == Hour_MAX() { 23 }
// `x.try_checked_mul("what", rhs)` with x: Hour -- Ok iff the exact product lies within Hour::MIN..=MAX
#[verifier::external_body]
pub fn verif_try_checked_mul_Hour<R: RInto<ri8>>(x: ri8, rhs: R) -> (res: Result<ri8, Error>)
    requires rhs.rinto_req(),
    ensures res.is_ok() <==> in_Hour(x.val * rhs.rinto_spec().val), res.is_ok() ==> res.unwrap().val == x.val * rhs.rinto_spec().val
{ unimplemented!() }
// `x.try_checked_add/sub("what", rhs)` and `x.checked_add/sub/mul(rhs)` with x: Hour -- fail iff the exact result leaves Hour::MIN..=MAX
#[verifier::external_body]
pub fn verif_try_checked_add_Hour<R: RInto<ri8>>(x: ri8, rhs: R) -> (res: Result<ri8, Error>)
    requires rhs.rinto_req(),
    ensures res.is_ok() <==> in_Hour(x.val + rhs.rinto_spec().val), res.is_ok() ==> res.unwrap().val == x.val + rhs.rinto_spec().val
{ unimplemented!() }
#[verifier::external_body]
pub fn verif_try_checked_sub_Hour<R: RInto<ri8>>(x: ri8, rhs: R) -> (res: Result<ri8, Error>)
    requires rhs.rinto_req(),
    ensures res.is_ok() <==> in_Hour(x.val - rhs.rinto_spec().val), res.is_ok() ==> res.unwrap().val == x.val - rhs.rinto_spec().val
{ unimplemented!() }
#[verifier::external_body]
pub fn verif_checked_add_Hour<R: RInto<ri8>>(x: ri8, rhs: R) -> (res: Option<ri8>)
    requires rhs.rinto_req(),
    ensures res.is_some() <==> in_Hour(x.val + rhs.rinto_spec().val), res.is_some() ==> res.unwrap().val == x.val + rhs.rinto_spec().val
{ unimplemented!() }
#[verifier::external_body]
pub fn verif_checked_sub_Hour<R: RInto<ri8>>(x: ri8, rhs: R) -> (res: Option<ri8>)
    requires rhs.rinto_req(),
    ensures res.is_some() <==> in_Hour(x.val - rhs.rinto_spec().val), res.is_some() ==> res.unwrap().val == x.val - rhs.rinto_spec().val
{ unimplemented!() }
#[verifier::external_body]
pub fn verif_checked_mul_Hour<R: RInto<ri8>>(x: ri8, rhs: R) -> (res: Option<ri8>)
    requires rhs.rinto_req(),
    ensures res.is_some() <==> in_Hour(x.val * rhs.rinto_spec().val), res.is_some() ==> res.unwrap().val == x.val * rhs.rinto_spec().val
{ unimplemented!() }
pub type Minute = ri8;
pub open spec fn Minute_MIN() -> int { 0 }
pub open spec fn Minute_MAX() -> int { 59 }
pub open spec fn in_Minute(v: int) -> bool { 0 <= v <= 59 }
#[verifier::external_body]
pub fn verif_try_rfrom_Minute_8(r: ri8) -> (res: Result<ri8, Error>)
    ensures res.is_ok() <==> in_Minute(r.val as int), res.is_ok() ==> res.unwrap().val == r.val
{ unimplemented!() }
#[verifier::external_body]
pub fn verif_try_rfrom_Minute_16(r: ri16) -> (res: Result<ri8, Error>)
    ensures res.is_ok() <==> in_Minute(r.val as int), res.is_ok() ==> res.unwrap().val == r.val
{ unimplemented!() }
#[verifier::external_body]
pub fn verif_try_rfrom_Minute_32(r: ri32) -> (res: Result<ri8, Error>)
    ensures res.is_ok() <==> in_Minute(r.val as int), res.is_ok() ==> res.unwrap().val == r.val
{ unimplemented!() }
#[verifier::external_body]
pub fn verif_try_rfrom_Minute_64(r: ri64) -> (res: Result<ri8, Error>)
    ensures res.is_ok() <==> in_Minute(r.val as int), res.is_ok() ==> res.unwrap().val == r.val
{ unimplemented!() }
#[verifier::external_body]
pub fn verif_try_rfrom_Minute_128(r: ri128) -> (res: Result<ri8, Error>)
    ensures res.is_ok() <==> in_Minute(r.val as int), res.is_ok() ==> res.unwrap().val == r.val
{ unimplemented!() }
#[verifier::external_body]
pub fn verif_try_new_Minute(v: i64) -> (res: Result<ri8, Error>)
    ensures res.is_ok() <==> in_Minute(v as int), res.is_ok() ==> res.unwrap().val == v
{ unimplemented!() }
#[verifier::external_body]
pub fn verif_try_new128_Minute(v: i128) -> (res: Result<ri8, Error>)
    ensures res.is_ok() <==> in_Minute(v as int), res.is_ok() ==> res.unwrap().val == v
{ unimplemented!() }
// `Minute::MIN` / `Minute::MAX` (associated consts of type i128)
pub fn verif_MIN_Minute() -> (r: i128) ensures r == Minute_MIN() { 0 }
pub fn verif_MAX_Minute() -> (r: i128) ensures r == Minute_MAX() { 59 }
// `x.try_checked_mul("what", rhs)` with x: Minute -- Ok iff the exact product lies within Minute::MIN..=MAX
#[verifier::external_body]
pub fn verif_try_checked_mul_Minute<R: RInto<ri8>>(x: ri8, rhs: R) -> (res: Result<ri8, Error>)
    requires rhs.rinto_req(),
    ensures res.is_ok() <==> in_Minute(x.val * rhs.rinto_spec().val), res.is_ok() ==> res.unwrap().val == x.val * rhs.rinto_spec().val
{ unimplemented!() }
// `x.try_checked_add/sub("what", rhs)` and `x.checked_add/sub/mul(rhs)` with x: Minute -- fail iff the exact result leaves Minute::MIN..=MAX
#[verifier::external_body]
pub fn verif_try_checked_add_Minute<R: RInto<ri8>>(x: ri8, rhs: R) -> (res: Result<ri8, Error>)
    requires rhs.rinto_req(),
    ensures res.is_ok() <==> in_Minute(x.val + rhs.rinto_spec().val), res.is_ok() ==> res.unwrap().val == x.val + rhs.rinto_spec().val
{ unimplemented!() }
#[verifier::external_body]
pub fn verif_try_checked_sub_Minute<R: RInto<ri8>>(x: ri8, rhs: R) -> (res: Result<ri8, Error>)
    requires rhs.rinto_req(),
    ensures res.is_ok() <==> in_Minute(x.val - rhs.rinto_spec().val), res.is_ok() ==> res.unwrap().val == x.val - rhs.rinto_spec().val
{ unimplemented!() }
#[verifier::external_body]
pub fn verif_checked_add_Minute<R: RInto<ri8>>(x: ri8, rhs: R) -> (res: Option<ri8>)
    requires rhs.rinto_req(),
    ensures res.is_some() <==> in_Minute(x.val + rhs.rinto_spec().val), res.is_some() ==> res.unwrap().val == x.val + rhs.rinto_spec().val
{ unimplemented!() }
#[verifier::external_body]
pub fn verif_checked_sub_Minute<R: RInto<ri8>>(x: ri8, rhs: R) -> (res: Option<ri8>)
    requires rhs.rinto_req(),
    ensures res.is_some() <==> in_Minute(x.val - rhs.rinto_spec().val), res.is_some() ==> res.unwrap().val == x.val - rhs.rinto_spec().val
{ unimplemented!() }
#[verifier::external_body]
pub fn verif_checked_mul_Minute<R: RInto<ri8>>(x: ri8, rhs: R) -> (res: Option<ri8>)
    requires rhs.rinto_req(),
    ensures res.is_some() <==> in_Minute(x.val * rhs.rinto_spec().val), res.is_some() ==> res.unwrap().val == x.val * rhs.rinto_spec().val
{ unimplemented!() }
pub type Second = ri8;
pub open spec fn Second_MIN() -> int { 0 }
pub open spec fn Second_MAX() -> int { 59 }
pub open spec fn in_Second(v: int) -> bool { 0 <= v <= 59 }
#[verifier::external_body]
pub fn verif_try_rfrom_Second_8(r: ri8) -> (res: Result<ri8, Error>)
    ensures res.is_ok() <==> in_Second(r.val as int), res.is_ok() ==> res.unwrap().val == r.val
{ unimplemented!() }
#[verifier::external_body]
pub fn verif_try_rfrom_Second_16(r: ri16) -> (res: Result<ri8, Error>)
    ensures res.is_ok() <==> in_Second(r.val as int), res.is_ok() ==> res.unwrap().val == r.val
{ unimplemented!() }
#[verifier::external_body]
pub fn verif_try_rfrom_Second_32(r: ri32) -> (res: Result<ri8, Error>)
    ensures res.is_ok() <==> in_Second(r.val as int), res.is_ok() ==> res.unwrap().val == r.val
{ unimplemented!() }
#[verifier::external_body]
pub fn verif_try_rfrom_Second_64(r: ri64) -> (res: Result<ri8, Error>)
    ensures res.is_ok() <==> in_Second(r.val as int), res.is_ok() ==> res.unwrap().val == r.val
{ unimplemented!() }
#[verifier::external_body]
pub fn verif_try_rfrom_Second_128(r: ri128) -> (res: Result<ri8, Error>)
    ensures res.is_ok() <==> in_Second(r.val as int), res.is_ok() ==> res.unwrap().val == r.val
{ unimplemented!() }
#[verifier::external_body]
pub fn verif_try_new_Second(v: i64) -> (res: Result<ri8, Error>)
    ensures res.is_ok() <==> in_Second(v as int), res.is_ok() ==> res.unwrap().val == v
{ unimplemented!() }
#[verifier::external_body]
pub fn verif_try_new128_Second(v: i128) -> (res: Result<ri8, Error>)
    ensures res.is_ok() <==> in_Second(v as int), res.is_ok() ==> res.unwrap().val == v
{ unimplemented!() }
// `Second::MIN` / `Second::MAX` (associated consts of type i128)
pub fn verif_MIN_Second() -> (r: i128) ensures r == Second_MIN() { 0 }
pub fn verif_MAX_Second() -> (r: i128) ensures r == Second_MAX() { 59 }
// `x.try_checked_mul("what", rhs)` with x: Second -- Ok iff the exact product lies within Second::MIN..=MAX
#[verifier::external_body]
pub fn verif_try_checked_mul_Second<R: RInto<ri8>>(x: ri8, rhs: R) -> (res: Result<ri8, Error>)
    requires rhs.rinto_req(),
    ensures res.is_ok() <==> in_Second(x.val * rhs.rinto_spec().val), res.is_ok() ==> res.unwrap().val == x.val * rhs.rinto_spec().val
{ unimplemented!() }
// `x.try_checked_add/sub("what", rhs)` and `x.checked_add/sub/mul(rhs)` with x: Second -- fail iff the exact result leaves Second::MIN..=MAX
#[verifier::external_body]
pub fn verif_try_checked_add_Second<R: RInto<ri8>>(x: ri8, rhs: R) -> (res: Result<ri8, Error>)
    requires rhs.rinto_req(),
    ensures res.is_ok() <==> in_Second(x.val + rhs.rinto_spec().val), res.is_ok() ==> res.unwrap().val == x.val + rhs.rinto_spec().val
{ unimplemented!() }
#[verifier::external_body]
pub fn verif_try_checked_sub_Second<R: RInto<ri8>>(x: ri8, rhs: R) -> (res: Result<ri8, Error>)
    requires rhs.rinto_req(),
    ensures res.is_ok() <==> in_Second(x.val - rhs.rinto_spec().val), res.is_ok() ==> res.unwrap().val == x.val - rhs.rinto_spec().val
{ unimplemented!() }
#[verifier::external_body]
pub fn verif_checked_add_Second<R: RInto<ri8>>(x: ri8, rhs: R) -> (res: Option<ri8>)
    requires rhs.rinto_req(),
    ensures res.is_some() <==> in_Second(x.val + rhs.rinto_spec().val), res.is_some() ==> res.unwrap().val == x.val + rhs.rinto_spec().val
{ unimplemented!() }
#[verifier::external_body]
pub fn verif_checked_sub_Second<R: RInto<ri8>>(x: ri8, rhs: R) -> (res: Option<ri8>)
    requires rhs.rinto_req(),
    ensures res.is_some() <==> in_Second(x.val - rhs.rinto_spec().val), res.is_some() ==> res.unwrap().val == x.val - rhs.rinto_spec().val
{ unimplemented!() }
#[verifier::external_body]
pub fn verif_checked_mul_Second<R: RInto<ri8>>(x: ri8, rhs: R) -> (res: Option<ri8>)
    requires rhs.rinto_req(),
    ensures res.is_some() <==> in_Second(x.val * rhs.rinto_spec().val), res.is_some() ==> res.unwrap().val == x.val * rhs.rinto_spec().val
{ unimplemented!() }
pub type SubsecNanosecond = ri32;
pub open spec fn SubsecNanosecond_MIN() -> int { 0 }
pub open spec fn SubsecNanosecond_MAX() -> int { 999999999 }
pub open spec fn in_SubsecNanosecond(v: int) -> bool { 0 <= v <= 999999999 }
#[verifier::external_body]
pub fn verif_try_rfrom_SubsecNanosecond_8(r: ri8) -> (res: Result<ri32, Error>)
    ensures res.is_ok() <==> in_SubsecNanosecond(r.val as int), res.is_ok() ==> res.unwrap().val == r.val
{ unimplemented!() }
#[verifier::external_body]
pub fn verif_try_rfrom_SubsecNanosecond_16(r: ri16) -> (res: Result<ri32, Error>)
    ensures res.is_ok() <==> in_SubsecNanosecond(r.val as int), res.is_ok() ==> res.unwrap().val == r.val
{ unimplemented!() }
#[verifier::external_body]
pub fn verif_try_rfrom_SubsecNanosecond_32(r: ri32) -> (res: Result<ri32, Error>)
    ensures res.is_ok() <==> in_SubsecNanosecond(r.val as int), res.is_ok() ==> res.unwrap().val == r.val
{ unimplemented!() }
#[verifier::external_body]
pub fn verif_try_rfrom_SubsecNanosecond_64(r: ri64) -> (res: Result<ri32, Error>)
    ensures res.is_ok() <==> in_SubsecNanosecond(r.val as int), res.is_ok() ==> res.unwrap().val == r.val
{ unimplemented!() }
#[verifier::external_body]
pub fn verif_try_rfrom_SubsecNanosecond_128(r: ri128) -> (res: Result<ri32, Error>)
    ensures res.is_ok() <==> in_SubsecNanosecond(r.val as int), res.is_ok() ==> res.unwrap().val == r.val
{ unimplemented!() }
#[verifier::external_body]
pub fn verif_try_new_SubsecNanosecond(v: i64) -> (res: Result<ri32, Error>)
    ensures res.is_ok() <==> in_SubsecNanosecond(v as int), res.is_ok() ==> res.unwrap().val == v
{ unimplemented!() }
#[verifier::external_body]
pub fn verif_try_new128_SubsecNanosecond(v: i128) -> (res: Result<ri32, Error>)
    ensures res.is_ok() <==> in_SubsecNanosecond(v as int), res.is_ok() ==> res.unwrap().val == v
{ unimplemented!() }
// `SubsecNanosecond::MIN` / `SubsecNanosecond::MAX` (associated consts of type i128)
pub fn verif_MIN_SubsecNanosecond() -> (r: i128) ensures r == SubsecNanosecond_MIN() { 0 }
pub fn verif_MAX_SubsecNanosecond() -> (r: i128) ensures r == SubsecNanosecond_MAX() { 999999999 }
// `x.try_checked_mul("what", rhs)` with x: SubsecNanosecond -- Ok iff the exact product lies within SubsecNanosecond::MIN..=MAX
#[verifier::external_body]
pub fn verif_try_checked_mul_SubsecNanosecond<R: RInto<ri32>>(x: ri32, rhs: R) -> (res: Result<ri32, Error>)
    requires rhs.rinto_req(),
    ensures res.is_ok() <==> in_SubsecNanosecond(x.val * rhs.rinto_spec().val), res.is_ok() ==> res.unwrap().val == x.val * rhs.rinto_spec().val
{ unimplemented!() }
// `x.try_checked_add/sub("what", rhs)` and `x.checked_add/sub/mul(rhs)` with x: SubsecNanosecond -- fail iff the exact result leaves SubsecNanosecond::MIN..=MAX
#[verifier::external_body]
pub fn verif_try_checked_add_SubsecNanosecond<R: RInto<ri32>>(x: ri32, rhs: R) -> (res: Result<ri32, Error>)
    requires rhs.rinto_req(),
    ensures res.is_ok() <==> in_SubsecNanosecond(x.val + rhs.rinto_spec().val), res.is_ok() ==> res.unwrap().val == x.val + rhs.rinto_spec().val
{ unimplemented!() }
#[verifier::external_body]
pub fn verif_try_checked_sub_SubsecNanosecond<R: RInto<ri32>>(x: ri32, rhs: R) -> (res: Result<ri32, Error>)
    requires rhs.rinto_req(),
    ensures res.is_ok() <==> in_SubsecNanosecond(x.val - rhs.rinto_spec().val), res.is_ok() ==> res.unwrap().val == x.val - rhs.rinto_spec().val
{ unimplemented!() }
#[verifier::external_body]
pub fn verif_checked_add_SubsecNanosecond<R: RInto<ri32>>(x: ri32, rhs: R) -> (res: Option<ri32>)
    requires rhs.rinto_req(),
    ensures res.is_some() <==> in_SubsecNanosecond(x.val + rhs.rinto_spec().val), res.is_some() ==> res.unwrap().val == x.val + rhs.rinto_spec().val
{ unimplemented!() }
#[verifier::external_body]
pub fn verif_checked_sub_SubsecNanosecond<R: RInto<ri32>>(x: ri32, rhs: R) -> (res: Option<ri32>)
    requires rhs.rinto_req(),
    ensures res.is_some() <==> in_SubsecNanosecond(x.val - rhs.rinto_spec().val), res.is_some() ==> res.unwrap().val == x.val - rhs.rinto_spec().val
{ unimplemented!() }
#[verifier::external_body]
pub fn verif_checked_mul_SubsecNanosecond<R: RInto<ri32>>(x: ri32, rhs: R) -> (res: Option<ri32>)
    requires rhs.rinto_req(),
    ensures res.is_some() <==> in_SubsecNanosecond(x.val * rhs.rinto_spec().val), res.is_some() ==> res.unwrap().val == x.val * rhs.rinto_spec().val
{ unimplemented!() }
pub type CivilDayNanosecond = ri64;
pub open spec fn CivilDayNanosecond_MIN() -> int { 0 }
pub open spec fn CivilDayNanosecond_MAX() -> int { 86399999999999 }
pub open spec fn in_CivilDayNanosecond(v: int) -> bool { 0 <= v <= 86399999999999 }
#[verifier::external_body]
pub fn verif_try_rfrom_CivilDayNanosecond_8(r: ri8) -> (res: Result<ri64, Error>)
    ensures res.is_ok() <==> in_CivilDayNanosecond(r.val as int), res.is_ok() ==> res.unwrap().val == r.val
{ unimplemented!() }
#[verifier::external_body]
pub fn verif_try_rfrom_CivilDayNanosecond_16(r: ri16) -> (res: Result<ri64, Error>)
    ensures res.is_ok() <==> in_CivilDayNanosecond(r.val as int), res.is_ok() ==> res.unwrap().val == r.val
{ unimplemented!() }
#[verifier::external_body]
pub fn verif_try_rfrom_CivilDayNanosecond_32(r: ri32) -> (res: Result<ri64, Error>)
    ensures res.is_ok() <==> in_CivilDayNanosecond(r.val as int), res.is_ok() ==> res.unwrap().val == r.val
{ unimplemented!() }
#[verifier::external_body]
pub fn verif_try_rfrom_CivilDayNanosecond_64(r: ri64) -> (res: Result<ri64, Error>)
    ensures res.is_ok() <==> in_CivilDayNanosecond(r.val as int), res.is_ok() ==> res.unwrap().val == r.val
{ unimplemented!() }
#[verifier::external_body]
pub fn verif_try_rfrom_CivilDayNanosecond_128(r: ri128) -> (res: Result<ri64, Error>)
    ensures res.is_ok() <==> in_CivilDayNanosecond(r.val as int), res.is_ok() ==> res.unwrap().val == r.val
{ unimplemented!() }
#[verifier::external_body]
pub fn verif_try_new_CivilDayNanosecond(v: i64) -> (res: Result<ri64, Error>)
    ensures res.is_ok() <==> in_CivilDayNanosecond(v as int), res.is_ok() ==> res.unwrap().val == v
{ unimplemented!() }
#[verifier::external_body]
pub fn verif_try_new128_CivilDayNanosecond(v: i128) -> (res: Result<ri64, Error>)
    ensures res.is_ok() <==> in_CivilDayNanosecond(v as int), res.is_ok() ==> res.unwrap().val == v
{ unimplemented!() }
// `CivilDayNanosecond::MIN` / `CivilDayNanosecond::MAX` (associated consts of type i128)
pub fn verif_MIN_CivilDayNanosecond() -> (r: i128) ensures r == CivilDayNanosecond_MIN() { 0 }
pub fn verif_MAX_CivilDayNanosecond() -> (r: i128) ensures r == CivilDayNanosecond_MAX() { 86399999999999 }
// `x.try_checked_mul("what", rhs)` with x: CivilDayNanosecond -- Ok iff the exact product lies within CivilDayNanosecond::MIN..=MAX
#[verifier::external_body]
pub fn verif_try_checked_mul_CivilDayNanosecond<R: RInto<ri64>>(x: ri64, rhs: R) -> (res: Result<ri64, Error>)
    requires rhs.rinto_req(),
    ensures res.is_ok() <==> in_CivilDayNanosecond(x.val * rhs.rinto_spec().val), res.is_ok() ==> res.unwrap().val == x.val * rhs.rinto_spec().val
{ unimplemented!() }
// `x.try_checked_add/sub("what", rhs)` and `x.checked_add/sub/mul(rhs)` with x: CivilDayNanosecond -- fail iff the exact result leaves CivilDayNanosecond::MIN..=MAX
#[verifier::external_body]
pub fn verif_try_checked_add_CivilDayNanosecond<R: RInto<ri64>>(x: ri64, rhs: R) -> (res: Result<ri64, Error>)
    requires rhs.rinto_req(),
    ensures res.is_ok() <==> in_CivilDayNanosecond(x.val + rhs.rinto_spec().val), res.is_ok() ==> res.unwrap().val == x.val + rhs.rinto_spec().val
{ unimplemented!() }
#[verifier::external_body]
pub fn verif_try_checked_sub_CivilDayNanosecond<R: RInto<ri64>>(x: ri64, rhs: R) -> (res: Result<ri64, Error>)
    requires rhs.rinto_req(),
    ensures res.is_ok() <==> in_CivilDayNanosecond(x.val - rhs.rinto_spec().val), res.is_ok() ==> res.unwrap().val == x.val - rhs.rinto_spec().val
{ unimplemented!() }
#[verifier::external_body]
pub fn verif_checked_add_CivilDayNanosecond<R: RInto<ri64>>(x: ri64, rhs: R) -> (res: Option<ri64>)
    requires rhs.rinto_req(),
    ensures res.is_some() <==> in_CivilDayNanosecond(x.val + rhs.rinto_spec().val), res.is_some() ==> res.unwrap().val == x.val + rhs.rinto_spec().val
{ unimplemented!() }
#[verifier::external_body]
pub fn verif_checked_sub_CivilDayNanosecond<R: RInto<ri64>>(x: ri64, rhs: R) -> (res: Option<ri64>)
    requires rhs.rinto_req(),
    ensures res.is_some() <==> in_CivilDayNanosecond(x.val - rhs.rinto_spec().val), res.is_some() ==> res.unwrap().val == x.val - rhs.rinto_spec().val
{ unimplemented!() }
#[verifier::external_body]
pub fn verif_checked_mul_CivilDayNanosecond<R: RInto<ri64>>(x: ri64, rhs: R) -> (res: Option<ri64>)
    requires rhs.rinto_req(),
    ensures res.is_some() <==> in_CivilDayNanosecond(x.val * rhs.rinto_spec().val), res.is_some() ==> res.unwrap().val == x.val * rhs.rinto_spec().val
{ unimplemented!() }
pub type CivilDaySecond = ri32;
pub open spec fn CivilDaySecond_MIN() -> int { 0 }
pub open spec fn CivilDaySecond_MAX() -> int { 86399 }
pub open spec fn in_CivilDaySecond(v: int) -> bool { 0 <= v <= 86399 }
#[verifier::external_body]
pub fn verif_try_rfrom_CivilDaySecond_8(r: ri8) -> (res: Result<ri32, Error>)
    ensures res.is_ok() <==> in_CivilDaySecond(r.val as int), res.is_ok() ==> res.unwrap().val == r.val
{ unimplemented!() }
#[verifier::external_body]
pub fn verif_try_rfrom_CivilDaySecond_16(r: ri16) -> (res: Result<ri32, Error>)
    ensures res.is_ok() <==> in_CivilDaySecond(r.val as int), res.is_ok() ==> res.unwrap().val == r.val
{ unimplemented!() }
#[verifier::external_body]
pub fn verif_try_rfrom_CivilDaySecond_32(r: ri32) -> (res: Result<ri32, Error>)
    ensures res.is_ok() <==> in_CivilDaySecond(r.val as int), res.is_ok() ==> res.unwrap().val == r.val
{ unimplemented!() }
#[verifier::external_body]
pub fn verif_try_rfrom_CivilDaySecond_64(r: ri64) -> (res: Result<ri32, Error>)
    ensures res.is_ok() <==> in_CivilDaySecond(r.val as int), res.is_ok() ==> res.unwrap().val == r.val
{ unimplemented!() }
#[verifier::external_body]
pub fn verif_try_rfrom_CivilDaySecond_128(r: ri128) -> (res: Result<ri32, Error>)
    ensures res.is_ok() <==> in_CivilDaySecond(r.val as int), res.is_ok() ==> res.unwrap().val == r.val
{ unimplemented!() }
#[verifier::external_body]
pub fn verif_try_new_CivilDaySecond(v: i64) -> (res: Result<ri32, Error>)
    ensures res.is_ok() <==> in_CivilDaySecond(v as int), res.is_ok() ==> res.unwrap().val == v
{ unimplemented!() }
#[verifier::external_body]
pub fn verif_try_new128_CivilDaySecond(v: i128) -> (res: Result<ri32, Error>)
    ensures res.is_ok() <==> in_CivilDaySecond(v as int), res.is_ok() ==> res.unwrap().val == v
{ unimplemented!() }
// `CivilDaySecond::MIN` / `CivilDaySecond::MAX` (associated consts of type i128)
pub fn verif_MIN_CivilDaySecond() -> (r: i128) ensures r == CivilDaySecond_MIN() { 0 }
pub fn verif_MAX_CivilDaySecond() -> (r: i128) ensures r == CivilDaySecond_MAX() { 86399 }
// `x.try_checked_mul("what", rhs)` with x: CivilDaySecond -- Ok iff the exact product lies within CivilDaySecond::MIN..=MAX
#[verifier::external_body]
pub fn verif_try_checked_mul_CivilDaySecond<R: RInto<ri32>>(x: ri32, rhs: R) -> (res: Result<ri32, Error>)
    requires rhs.rinto_req(),
    ensures res.is_ok() <==> in_CivilDaySecond(x.val * rhs.rinto_spec().val), res.is_ok() ==> res.unwrap().val == x.val * rhs.rinto_spec().val
{ unimplemented!() }
// `x.try_checked_add/sub("what", rhs)` and `x.checked_add/sub/mul(rhs)` with x: CivilDaySecond -- fail iff the exact result leaves CivilDaySecond::MIN..=MAX
#[verifier::external_body]
pub fn verif_try_checked_add_CivilDaySecond<R: RInto<ri32>>(x: ri32, rhs: R) -> (res: Result<ri32, Error>)
    requires rhs.rinto_req(),
    ensures res.is_ok() <==> in_CivilDaySecond(x.val + rhs.rinto_spec().val), res.is_ok() ==> res.unwrap().val == x.val + rhs.rinto_spec().val
{ unimplemented!() }
#[verifier::external_body]
pub fn verif_try_checked_sub_CivilDaySecond<R: RInto<ri32>>(x: ri32, rhs: R) -> (res: Result<ri32, Error>)
    requires rhs.rinto_req(),
    ensures res.is_ok() <==> in_CivilDaySecond(x.val - rhs.rinto_spec().val), res.is_ok() ==> res.unwrap().val == x.val - rhs.rinto_spec().val
{ unimplemented!() }
#[verifier::external_body]
pub fn verif_checked_add_CivilDaySecond<R: RInto<ri32>>(x: ri32, rhs: R) -> (res: Option<ri32>)
    requires rhs.rinto_req(),
    ensures res.is_some() <==> in_CivilDaySecond(x.val + rhs.rinto_spec().val), res.is_some() ==> res.unwrap().val == x.val + rhs.rinto_spec().val
{ unimplemented!() }
#[verifier::external_body]
pub fn verif_checked_sub_CivilDaySecond<R: RInto<ri32>>(x: ri32, rhs: R) -> (res: Option<ri32>)
    requires rhs.rinto_req(),
    ensures res.is_some() <==> in_CivilDaySecond(x.val - rhs.rinto_spec().val), res.is_some() ==> res.unwrap().val == x.val - rhs.rinto_spec().val
{ unimplemented!() }
#[verifier::external_body]
pub fn verif_checked_mul_CivilDaySecond<R: RInto<ri32>>(x: ri32, rhs: R) -> (res: Option<ri32>)
    requires rhs.rinto_req(),
    ensures res.is_some() <==> in_CivilDaySecond(x.val * rhs.rinto_spec().val), res.is_some() ==> res.unwrap().val == x.val * rhs.rinto_spec().val
{ unimplemented!() }
pub type UnixEpochDay = ri32;
pub open spec fn UnixEpochDay_MIN() -> int { -4371587 }
pub open spec fn UnixEpochDay_MAX() -> int { 2932896 }
pub open spec fn in_UnixEpochDay(v: int) -> bool { -4371587 <= v <= 2932896 }
#[verifier::external_body]
pub fn verif_try_rfrom_UnixEpochDay_8(r: ri8) -> (res: Result<ri32, Error>)
    ensures res.is_ok() <==> in_UnixEpochDay(r.val as int), res.is_ok() ==> res.unwrap().val == r.val
{ unimplemented!() }
#[verifier::external_body]
pub fn verif_try_rfrom_UnixEpochDay_16(r: ri16) -> (res: Result<ri32, Error>)
    ensures res.is_ok() <==> in_UnixEpochDay(r.val as int), res.is_ok() ==> res.unwrap().val == r.val
{ unimplemented!() }
#[verifier::external_body]
pub fn verif_try_rfrom_UnixEpochDay_32(r: ri32) -> (res: Result<ri32, Error>)
    ensures res.is_ok() <==> in_UnixEpochDay(r.val as int), res.is_ok() ==> res.unwrap().val == r.val
{ unimplemented!() }
#[verifier::external_body]
pub fn verif_try_rfrom_UnixEpochDay_64(r: ri64) -> (res: Result<ri32, Error>)
    ensures res.is_ok() <==> in_UnixEpochDay(r.val as int), res.is_ok() ==> res.unwrap().val == r.val
{ unimplemented!() }
#[verifier::external_body]
pub fn verif_try_rfrom_UnixEpochDay_128(r: ri128) -> (res: Result<ri32, Error>)
    ensures res.is_ok() <==> in_UnixEpochDay(r.val as int), res.is_ok() ==> res.unwrap().val == r.val
{ unimplemented!() }
#[verifier::external_body]
pub fn verif_try_new_UnixEpochDay(v: i64) -> (res: Result<ri32, Error>)
    ensures res.is_ok() <==> in_UnixEpochDay(v as int), res.is_ok() ==> res.unwrap().val == v
{ unimplemented!() }
#[verifier::external_body]
pub fn verif_try_new128_UnixEpochDay(v: i128) -> (res: Result<ri32, Error>)
    ensures res.is_ok() <==> in_UnixEpochDay(v as int), res.is_ok() ==> res.unwrap().val == v
{ unimplemented!() }
// `UnixEpochDay::MIN` / `UnixEpochDay::MAX` (associated consts of type i128)
pub fn verif_MIN_UnixEpochDay() -> (r: i128) ensures r == UnixEpochDay_MIN() { -4371587 }
pub fn verif_MAX_UnixEpochDay() -> (r: i128) ensures r == UnixEpochDay_MAX() { 2932896 }
// `x.try_checked_mul("what", rhs)` with x: UnixEpochDay -- Ok iff the exact product lies within UnixEpochDay::MIN..=MAX
#[verifier::external_body]
pub fn verif_try_checked_mul_UnixEpochDay<R: RInto<ri32>>(x: ri32, rhs: R) -> (res: Result<ri32, Error>)
    requires rhs.rinto_req(),
    ensures res.is_ok() <==> in_UnixEpochDay(x.val * rhs.rinto_spec().val), res.is_ok() ==> res.unwrap().val == x.val * rhs.rinto_spec().val
{ unimplemented!() }
// `x.try_checked_add/sub("what", rhs)` and `x.checked_add/sub/mul(rhs)` with x: UnixEpochDay -- fail iff the exact result leaves UnixEpochDay::MIN..=MAX
#[verifier::external_body]
pub fn verif_try_checked_add_UnixEpochDay<R: RInto<ri32>>(x: ri32, rhs: R) -> (res: Result<ri32, Error>)
    requires rhs.rinto_req(),
    ensures res.is_ok() <==> in_UnixEpochDay(x.val + rhs.rinto_spec().val), res.is_ok() ==> res.unwrap().val == x.val + rhs.rinto_spec().val
{ unimplemented!() }
#[verifier::external_body]
pub fn verif_try_checked_sub_UnixEpochDay<R: RInto<ri32>>(x: ri32, rhs: R) -> (res: Result<ri32, Error>)
    requires rhs.rinto_req(),
    ensures res.is_ok() <==> in_UnixEpochDay(x.val - rhs.rinto_spec().val), res.is_ok() ==> res.unwrap().val == x.val - rhs.rinto_spec().val
{ unimplemented!() }
#[verifier::external_body]
pub fn verif_checked_add_UnixEpochDay<R: RInto<ri32>>(x: ri32, rhs: R) -> (res: Option<ri32>)
    requires rhs.rinto_req(),
    ensures res.is_some() <==> in_UnixEpochDay(x.val + rhs.rinto_spec().val), res.is_some() ==> res.unwrap().val == x.val + rhs.rinto_spec().val
{ unimplemented!() }
#[verifier::external_body]
pub fn verif_checked_sub_UnixEpochDay<R: RInto<ri32>>(x: ri32, rhs: R) -> (res: Option<ri32>)
    requires rhs.rinto_req(),
    ensures res.is_some() <==> in_UnixEpochDay(x.val - rhs.rinto_spec().val), res.is_some() ==> res.unwrap().val == x.val - rhs.rinto_spec().val
{ unimplemented!() }
#[verifier::external_body]
pub fn verif_checked_mul_UnixEpochDay<R: RInto<ri32>>(x: ri32, rhs: R) -> (res: Option<ri32>)
    requires rhs.rinto_req(),
    ensures res.is_some() <==> in_UnixEpochDay(x.val * rhs.rinto_spec().val), res.is_some() ==> res.unwrap().val == x.val * rhs.rinto_spec().val
{ unimplemented!() }
pub type UnixSeconds = ri64;
pub open spec fn UnixSeconds_MIN() -> int { -377705023201 }
pub open spec fn UnixSeconds_MAX() -> int { 253402207200 }
pub open spec fn in_UnixSeconds(v: int) -> bool { -377705023201 <= v <= 253402207200 }
#[verifier::external_body]
pub fn verif_try_rfrom_UnixSeconds_8(r: ri8) -> (res: Result<ri64, Error>)
    ensures res.is_ok() <==> in_UnixSeconds(r.val as int), res.is_ok() ==> res.unwrap().val == r.val
{ unimplemented!() }
#[verifier::external_body]
pub fn verif_try_rfrom_UnixSeconds_16(r: ri16) -> (res: Result<ri64, Error>)
    ensures res.is_ok() <==> in_UnixSeconds(r.val as int), res.is_ok() ==> res.unwrap().val == r.val
{ unimplemented!() }
#[verifier::external_body]
pub fn verif_try_rfrom_UnixSeconds_32(r: ri32) -> (res: Result<ri64, Error>)
    ensures res.is_ok() <==> in_UnixSeconds(r.val as int), res.is_ok() ==> res.unwrap().val == r.val
{ unimplemented!() }
#[verifier::external_body]
pub fn verif_try_rfrom_UnixSeconds_64(r: ri64) -> (res: Result<ri64, Error>)
    ensures res.is_ok() <==> in_UnixSeconds(r.val as int), res.is_ok() ==> res.unwrap().val == r.val
{ unimplemented!() }
#[verifier::external_body]
pub fn verif_try_rfrom_UnixSeconds_128(r: ri128) -> (res: Result<ri64, Error>)
    ensures res.is_ok() <==> in_UnixSeconds(r.val as int), res.is_ok() ==> res.unwrap().val == r.val
{ unimplemented!() }
#[verifier::external_body]
pub fn verif_try_new_UnixSeconds(v: i64) -> (res: Result<ri64, Error>)
    ensures res.is_ok() <==> in_UnixSeconds(v as int), res.is_ok() ==> res.unwrap().val == v
{ unimplemented!() }
#[verifier::external_body]
pub fn verif_try_new128_UnixSeconds(v: i128) -> (res: Result<ri64, Error>)
    ensures res.is_ok() <==> in_UnixSeconds(v as int), res.is_ok() ==> res.unwrap().val == v
{ unimplemented!() }
// `UnixSeconds::MIN` / `UnixSeconds::MAX` (associated consts of type i128)
pub fn verif_MIN_UnixSeconds() -> (r: i128) ensures r == UnixSeconds_MIN() { -377705023201 }
pub fn verif_MAX_UnixSeconds() -> (r: i128) ensures r == UnixSeconds_MAX() { 253402207200 }
// `x.try_checked_mul("what", rhs)` with x: UnixSeconds -- Ok iff the exact product lies within UnixSeconds::MIN..=MAX
#[verifier::external_body]
pub fn verif_try_checked_mul_UnixSeconds<R: RInto<ri64>>(x: ri64, rhs: R) -> (res: Result<ri64, Error>)
    requires rhs.rinto_req(),
    ensures res.is_ok() <==> in_UnixSeconds(x.val * rhs.rinto_spec().val), res.is_ok() ==> res.unwrap().val == x.val * rhs.rinto_spec().val
{ unimplemented!() }
// `x.try_checked_add/sub("what", rhs)` and `x.checked_add/sub/mul(rhs)` with x: UnixSeconds -- fail iff the exact result leaves UnixSeconds::MIN..=MAX
#[verifier::external_body]
pub fn verif_try_checked_add_UnixSeconds<R: RInto<ri64>>(x: ri64, rhs: R) -> (res: Result<ri64, Error>)
    requires rhs.rinto_req(),
    ensures res.is_ok() <==> in_UnixSeconds(x.val + rhs.rinto_spec().val), res.is_ok() ==> res.unwrap().val == x.val + rhs.rinto_spec().val
{ unimplemented!() }
#[verifier::external_body]
pub fn verif_try_checked_sub_UnixSeconds<R: RInto<ri64>>(x: ri64, rhs: R) -> (res: Result<ri64, Error>)
    requires rhs.rinto_req(),
    ensures res.is_ok() <==> in_UnixSeconds(x.val - rhs.rinto_spec().val), res.is_ok() ==> res.unwrap().val == x.val - rhs.rinto_spec().val
{ unimplemented!() }
#[verifier::external_body]
pub fn verif_checked_add_UnixSeconds<R: RInto<ri64>>(x: ri64, rhs: R) -> (res: Option<ri64>)
    requires rhs.rinto_req(),
    ensures res.is_some() <==> in_UnixSeconds(x.val + rhs.rinto_spec().val), res.is_some() ==> res.unwrap().val == x.val + rhs.rinto_spec().val
{ unimplemented!() }
#[verifier::external_body]
pub fn verif_checked_sub_UnixSeconds<R: RInto<ri64>>(x: ri64, rhs: R) -> (res: Option<ri64>)
    requires rhs.rinto_req(),
    ensures res.is_some() <==> in_UnixSeconds(x.val - rhs.rinto_spec().val), res.is_some() ==> res.unwrap().val == x.val - rhs.rinto_spec().val
{ unimplemented!() }
#[verifier::external_body]
pub fn verif_checked_mul_UnixSeconds<R: RInto<ri64>>(x: ri64, rhs: R) -> (res: Option<ri64>)
    requires rhs.rinto_req(),
    ensures res.is_some() <==> in_UnixSeconds(x.val * rhs.rinto_spec().val), res.is_some() ==> res.unwrap().val == x.val * rhs.rinto_spec().val
{ unimplemented!() }
pub type UnixNanoseconds = ri128;
pub open spec fn UnixNanoseconds_MIN() -> int { -377705023201000000000 }
pub open spec fn UnixNanoseconds_MAX() -> int { 253402207200999999999 }
pub open spec fn in_UnixNanoseconds(v: int) -> bool { -377705023201000000000 <= v <= 253402207200999999999 }
#[verifier::external_body]
pub fn verif_try_rfrom_UnixNanoseconds_8(r: ri8) -> (res: Result<ri128, Error>)
    ensures res.is_ok() <==> in_UnixNanoseconds(r.val as int), res.is_ok() ==> res.unwrap().val == r.val
{ unimplemented!() }
#[verifier::external_body]
pub fn verif_try_rfrom_UnixNanoseconds_16(r: ri16) -> (res: Result<ri128, Error>)
    ensures res.is_ok() <==> in_UnixNanoseconds(r.val as int), res.is_ok() ==> res.unwrap().val == r.val
{ unimplemented!() }
#[verifier::external_body]
pub fn verif_try_rfrom_UnixNanoseconds_32(r: ri32) -> (res: Result<ri128, Error>)
    ensures res.is_ok() <==> in_UnixNanoseconds(r.val as int), res.is_ok() ==> res.unwrap().val == r.val
{ unimplemented!() }
#[verifier::external_body]
pub fn verif_try_rfrom_UnixNanoseconds_64(r: ri64) -> (res: Result<ri128, Error>)
    ensures res.is_ok() <==> in_UnixNanoseconds(r.val as int), res.is_ok() ==> res.unwrap().val == r.val
{ unimplemented!() }
#[verifier::external_body]
pub fn verif_try_rfrom_UnixNanoseconds_128(r: ri128) -> (res: Result<ri128, Error>)
    ensures res.is_ok() <==> in_UnixNanoseconds(r.val as int), res.is_ok() ==> res.unwrap().val == r.val
{ unimplemented!() }
#[verifier::external_body]
pub fn verif_try_new_UnixNanoseconds(v: i64) -> (res: Result<ri128, Error>)
    ensures res.is_ok() <==> in_UnixNanoseconds(v as int), res.is_ok() ==> res.unwrap().val == v
{ unimplemented!() }
#[verifier::external_body]
pub fn verif_try_new128_UnixNanoseconds(v: i128) -> (res: Result<ri128, Error>)
    ensures res.is_ok() <==> in_UnixNanoseconds(v as int), res.is_ok() ==> res.unwrap().val == v
{ unimplemented!() }
// `UnixNanoseconds::MIN` / `UnixNanoseconds::MAX` (associated consts of type i128)
pub fn verif_MIN_UnixNanoseconds() -> (r: i128) ensures r == UnixNanoseconds_MIN() { -377705023201000000000 }
pub fn verif_MAX_UnixNanoseconds() -> (r: i128) ensures r == UnixNanoseconds_MAX() { 253402207200999999999 }
// `x.try_checked_mul("what", rhs)` with x: UnixNanoseconds -- Ok iff the exact product lies within UnixNanoseconds::MIN..=MAX
#[verifier::external_body]
pub fn verif_try_checked_mul_UnixNanoseconds<R: RInto<ri128>>(x: ri128, rhs: R) -> (res: Result<ri128, Error>)
    requires rhs.rinto_req(),
    ensures res.is_ok() <==> in_UnixNanoseconds(x.val * rhs.rinto_spec().val), res.is_ok() ==> res.unwrap().val == x.val * rhs.rinto_spec().val
{ unimplemented!() }
// `x.try_checked_add/sub("what", rhs)` and `x.checked_add/sub/mul(rhs)` with x: UnixNanoseconds -- fail iff the exact result leaves UnixNanoseconds::MIN..=MAX
#[verifier::external_body]
pub fn verif_try_checked_add_UnixNanoseconds<R: RInto<ri128>>(x: ri128, rhs: R) -> (res: Result<ri128, Error>)
    requires rhs.rinto_req(),
    ensures res.is_ok() <==> in_UnixNanoseconds(x.val + rhs.rinto_spec().val), res.is_ok() ==> res.unwrap().val == x.val + rhs.rinto_spec().val
{ unimplemented!() }
#[verifier::external_body]
pub fn verif_try_checked_sub_UnixNanoseconds<R: RInto<ri128>>(x: ri128, rhs: R) -> (res: Result<ri128, Error>)
    requires rhs.rinto_req(),
    ensures res.is_ok() <==> in_UnixNanoseconds(x.val - rhs.rinto_spec().val), res.is_ok() ==> res.unwrap().val == x.val - rhs.rinto_spec().val
{ unimplemented!() }
#[verifier::external_body]
pub fn verif_checked_add_UnixNanoseconds<R: RInto<ri128>>(x: ri128, rhs: R) -> (res: Option<ri128>)
    requires rhs.rinto_req(),
    ensures res.is_some() <==> in_UnixNanoseconds(x.val + rhs.rinto_spec().val), res.is_some() ==> res.unwrap().val == x.val + rhs.rinto_spec().val
{ unimplemented!() }
#[verifier::external_body]
pub fn verif_checked_sub_UnixNanoseconds<R: RInto<ri128>>(x: ri128, rhs: R) -> (res: Option<ri128>)
    requires rhs.rinto_req(),
    ensures res.is_some() <==> in_UnixNanoseconds(x.val - rhs.rinto_spec().val), res.is_some() ==> res.unwrap().val == x.val - rhs.rinto_spec().val
{ unimplemented!() }
#[verifier::external_body]
pub fn verif_checked_mul_UnixNanoseconds<R: RInto<ri128>>(x: ri128, rhs: R) -> (res: Option<ri128>)
    requires rhs.rinto_req(),
    ensures res.is_some() <==> in_UnixNanoseconds(x.val * rhs.rinto_spec().val), res.is_some() ==> res.unwrap().val == x.val * rhs.rinto_spec().val
{ unimplemented!() }
pub type SpanYears = ri16;
pub open spec fn SpanYears_MIN() -> int { -19998 }
pub open spec fn SpanYears_MAX() -> int { 19998 }
pub open spec fn in_SpanYears(v: int) -> bool { -19998 <= v <= 19998 }
#[verifier::external_body]
pub fn verif_try_rfrom_SpanYears_8(r: ri8) -> (res: Result<ri16, Error>)
    ensures res.is_ok() <==> in_SpanYears(r.val as int), res.is_ok() ==> res.unwrap().val == r.val
{ unimplemented!() }
#[verifier::external_body]
pub fn verif_try_rfrom_SpanYears_16(r: ri16) -> (res: Result<ri16, Error>)
    ensures res.is_ok() <==> in_SpanYears(r.val as int), res.is_ok() ==> res.unwrap().val == r.val
{ unimplemented!() }
#[verifier::external_body]
pub fn verif_try_rfrom_SpanYears_32(r: ri32) -> (res: Result<ri16, Error>)
    ensures res.is_ok() <==> in_SpanYears(r.val as int), res.is_ok() ==> res.unwrap().val == r.val
{ unimplemented!() }
#[verifier::external_body]
pub fn verif_try_rfrom_SpanYears_64(r: ri64) -> (res: Result<ri16, Error>)
    ensures res.is_ok() <==> in_SpanYears(r.val as int), res.is_ok() ==> res.unwrap().val == r.val
{ unimplemented!() }
#[verifier::external_body]
pub fn verif_try_rfrom_SpanYears_128(r: ri128) -> (res: Result<ri16, Error>)
    ensures res.is_ok() <==> in_SpanYears(r.val as int), res.is_ok() ==> res.unwrap().val == r.val
{ unimplemented!() }
#[verifier::external_body]
pub fn verif_try_new_SpanYears(v: i64) -> (res: Result<ri16, Error>)
    ensures res.is_ok() <==> in_SpanYears(v as int), res.is_ok() ==> res.unwrap().val == v
{ unimplemented!() }
#[verifier::external_body]
pub fn verif_try_new128_SpanYears(v: i128) -> (res: Result<ri16, Error>)
    ensures res.is_ok() <==> in_SpanYears(v as int), res.is_ok() ==> res.unwrap().val == v
{ unimplemented!() }
// `SpanYears::MIN` / `SpanYears::MAX` (associated consts of type i128)
pub fn verif_MIN_SpanYears() -> (r: i128) ensures r == SpanYears_MIN() { -19998 }
pub fn verif_MAX_SpanYears() -> (r: i128) ensures r == SpanYears_MAX() { 19998 }
// `x.try_checked_mul("what", rhs)` with x: SpanYears -- Ok iff the exact product lies within SpanYears::MIN..=MAX
#[verifier::external_body]
pub fn verif_try_checked_mul_SpanYears<R: RInto<ri16>>(x: ri16, rhs: R) -> (res: Result<ri16, Error>)
    requires rhs.rinto_req(),
    ensures res.is_ok() <==> in_SpanYears(x.val * rhs.rinto_spec().val), res.is_ok() ==> res.unwrap().val == x.val * rhs.rinto_spec().val
{ unimplemented!() }
// `x.try_checked_add/sub("what", rhs)` and `x.checked_add/sub/mul(rhs)` with x: SpanYears -- fail iff the exact result leaves SpanYears::MIN..=MAX
#[verifier::external_body]
pub fn verif_try_checked_add_SpanYears<R: RInto<ri16>>(x: ri16, rhs: R) -> (res: Result<ri16, Error>)
    requires rhs.rinto_req(),
    ensures res.is_ok() <==> in_SpanYears(x.val + rhs.rinto_spec().val), res.is_ok() ==> res.unwrap().val == x.val + rhs.rinto_spec().val
{ unimplemented!() }
#[verifier::external_body]
pub fn verif_try_checked_sub_SpanYears<R: RInto<ri16>>(x: ri16, rhs: R) -> (res: Result<ri16, Error>)
    requires rhs.rinto_req(),
    ensures res.is_ok() <==> in_SpanYears(x.val - rhs.rinto_spec().val), res.is_ok() ==> res.unwrap().val == x.val - rhs.rinto_spec().val
{ unimplemented!() }
#[verifier::external_body]
pub fn verif_checked_add_SpanYears<R: RInto<ri16>>(x: ri16, rhs: R) -> (res: Option<ri16>)
    requires rhs.rinto_req(),
    ensures res.is_some() <==> in_SpanYears(x.val + rhs.rinto_spec().val), res.is_some() ==> res.unwrap().val == x.val + rhs.rinto_spec().val
{ unimplemented!() }
#[verifier::external_body]
pub fn verif_checked_sub_SpanYears<R: RInto<ri16>>(x: ri16, rhs: R) -> (res: Option<ri16>)
    requires rhs.rinto_req(),
    ensures res.is_some() <==> in_SpanYears(x.val - rhs.rinto_spec().val), res.is_some() ==> res.unwrap().val == x.val - rhs.rinto_spec().val
{ unimplemented!() }
#[verifier::external_body]
pub fn verif_checked_mul_SpanYears<R: RInto<ri16>>(x: ri16, rhs: R) -> (res: Option<ri16>)
    requires rhs.rinto_req(),
    ensures res.is_some() <==> in_SpanYears(x.val * rhs.rinto_spec().val), res.is_some() ==> res.unwrap().val == x.val * rhs.rinto_spec().val
{ unimplemented!() }
pub type SpanMonths = ri32;
pub open spec fn SpanMonths_MIN() -> int { -239976 }
pub open spec fn SpanMonths_MAX() -> int { 239976 }
pub open spec fn in_SpanMonths(v: int) -> bool { -239976 <= v <= 239976 }
#[verifier::external_body]
pub fn verif_try_rfrom_SpanMonths_8(r: ri8) -> (res: Result<ri32, Error>)
    ensures res.is_ok() <==> in_SpanMonths(r.val as int), res.is_ok() ==> res.unwrap().val == r.val
{ unimplemented!() }
#[verifier::external_body]
pub fn verif_try_rfrom_SpanMonths_16(r: ri16) -> (res: Result<ri32, Error>)
    ensures res.is_ok() <==> in_SpanMonths(r.val as int), res.is_ok() ==> res.unwrap().val == r.val
{ unimplemented!() }
#[verifier::external_body]
pub fn verif_try_rfrom_SpanMonths_32(r: ri32) -> (res: Result<ri32, Error>)
    ensures res.is_ok() <==> in_SpanMonths(r.val as int), res.is_ok() ==> res.unwrap().val == r.val
{ unimplemented!() }
#[verifier::external_body]
pub fn verif_try_rfrom_SpanMonths_64(r: ri64) -> (res: Result<ri32, Error>)
    ensures res.is_ok() <==> in_SpanMonths(r.val as int), res.is_ok() ==> res.unwrap().val == r.val
{ unimplemented!() }
#[verifier::external_body]
pub fn verif_try_rfrom_SpanMonths_128(r: ri128) -> (res: Result<ri32, Error>)
    ensures res.is_ok() <==> in_SpanMonths(r.val as int), res.is_ok() ==> res.unwrap().val == r.val
{ unimplemented!() }
#[verifier::external_body]
pub fn verif_try_new_SpanMonths(v: i64) -> (res: Result<ri32, Error>)
    ensures res.is_ok() <==> in_SpanMonths(v as int), res.is_ok() ==> res.unwrap().val == v
{ unimplemented!() }
#[verifier::external_body]
pub fn verif_try_new128_SpanMonths(v: i128) -> (res: Result<ri32, Error>)
    ensures res.is_ok() <==> in_SpanMonths(v as int), res.is_ok() ==> res.unwrap().val == v
{ unimplemented!() }
// `SpanMonths::MIN` / `SpanMonths::MAX` (associated consts of type i128)
pub fn verif_MIN_SpanMonths() -> (r: i128) ensures r == SpanMonths_MIN() { -239976 }
pub fn verif_MAX_SpanMonths() -> (r: i128) ensures r == SpanMonths_MAX() { 239976 }
// `x.try_checked_mul("what", rhs)` with x: SpanMonths -- Ok iff the exact product lies within SpanMonths::MIN..=MAX
#[verifier::external_body]
pub fn verif_try_checked_mul_SpanMonths<R: RInto<ri32>>(x: ri32, rhs: R) -> (res: Result<ri32, Error>)
    requires rhs.rinto_req(),
    ensures res.is_ok() <==> in_SpanMonths(x.val * rhs.rinto_spec().val), res.is_ok() ==> res.unwrap().val == x.val * rhs.rinto_spec().val
{ unimplemented!() }
// `x.try_checked_add/sub("what", rhs)` and `x.checked_add/sub/mul(rhs)` with x: SpanMonths -- fail iff the exact result leaves SpanMonths::MIN..=MAX
#[verifier::external_body]
pub fn verif_try_checked_add_SpanMonths<R: RInto<ri32>>(x: ri32, rhs: R) -> (res: Result<ri32, Error>)
    requires rhs.rinto_req(),
    ensures res.is_ok() <==> in_SpanMonths(x.val + rhs.rinto_spec().val), res.is_ok() ==> res.unwrap().val == x.val + rhs.rinto_spec().val
{ unimplemented!() }
#[verifier::external_body]
pub fn verif_try_checked_sub_SpanMonths<R: RInto<ri32>>(x: ri32, rhs: R) -> (res: Result<ri32, Error>)
    requires rhs.rinto_req(),
    ensures res.is_ok() <==> in_SpanMonths(x.val - rhs.rinto_spec().val), res.is_ok() ==> res.unwrap().val == x.val - rhs.rinto_spec().val
{ unimplemented!() }
#[verifier::external_body]
pub fn verif_checked_add_SpanMonths<R: RInto<ri32>>(x: ri32, rhs: R) -> (res: Option<ri32>)
    requires rhs.rinto_req(),
    ensures res.is_some() <==> in_SpanMonths(x.val + rhs.rinto_spec().val), res.is_some() ==> res.unwrap().val == x.val + rhs.rinto_spec().val
{ unimplemented!() }
#[verifier::external_body]
pub fn verif_checked_sub_SpanMonths<R: RInto<ri32>>(x: ri32, rhs: R) -> (res: Option<ri32>)
    requires rhs.rinto_req(),
    ensures res.is_some() <==> in_SpanMonths(x.val - rhs.rinto_spec().val), res.is_some() ==> res.unwrap().val == x.val - rhs.rinto_spec().val
{ unimplemented!() }
#[verifier::external_body]
pub fn verif_checked_mul_SpanMonths<R: RInto<ri32>>(x: ri32, rhs: R) -> (res: Option<ri32>)
    requires rhs.rinto_req(),
    ensures res.is_some() <==> in_SpanMonths(x.val * rhs.rinto_spec().val), res.is_some() ==> res.unwrap().val == x.val * rhs.rinto_spec().val
{ unimplemented!() }
pub type SpanWeeks = ri32;
pub open spec fn SpanWeeks_MIN() -> int { -1043497 }
pub open spec fn SpanWeeks_MAX() -> int { 1043497 }
pub open spec fn in_SpanWeeks(v: int) -> bool { -1043497 <= v <= 1043497 }
#[verifier::external_body]
pub fn verif_try_rfrom_SpanWeeks_8(r: ri8) -> (res: Result<ri32, Error>)
    ensures res.is_ok() <==> in_SpanWeeks(r.val as int), res.is_ok() ==> res.unwrap().val == r.val
{ unimplemented!() }
#[verifier::external_body]
pub fn verif_try_rfrom_SpanWeeks_16(r: ri16) -> (res: Result<ri32, Error>)
    ensures res.is_ok() <==> in_SpanWeeks(r.val as int), res.is_ok() ==> res.unwrap().val == r.val
{ unimplemented!() }
#[verifier::external_body]
pub fn verif_try_rfrom_SpanWeeks_32(r: ri32) -> (res: Result<ri32, Error>)
    ensures res.is_ok() <==> in_SpanWeeks(r.val as int), res.is_ok() ==> res.unwrap().val == r.val
{ unimplemented!() }
#[verifier::external_body]
pub fn verif_try_rfrom_SpanWeeks_64(r: ri64) -> (res: Result<ri32, Error>)
    ensures res.is_ok() <==> in_SpanWeeks(r.val as int), res.is_ok() ==> res.unwrap().val == r.val
{ unimplemented!() }
#[verifier::external_body]
pub fn verif_try_rfrom_SpanWeeks_128(r: ri128) -> (res: Result<ri32, Error>)
    ensures res.is_ok() <==> in_SpanWeeks(r.val as int), res.is_ok() ==> res.unwrap().val == r.val
{ unimplemented!() }
#[verifier::external_body]
pub fn verif_try_new_SpanWeeks(v: i64) -> (res: Result<ri32, Error>)
    ensures res.is_ok() <==> in_SpanWeeks(v as int), res.is_ok() ==> res.unwrap().val == v
{ unimplemented!() }
#[verifier::external_body]
pub fn verif_try_new128_SpanWeeks(v: i128) -> (res: Result<ri32, Error>)
    ensures res.is_ok() <==> in_SpanWeeks(v as int), res.is_ok() ==> res.unwrap().val == v
{ unimplemented!() }
// `SpanWeeks::MIN` / `SpanWeeks::MAX` (associated consts of type i128)
pub fn verif_MIN_SpanWeeks() -> (r: i128) ensures r == SpanWeeks_MIN() { -1043497 }
pub fn verif_MAX_SpanWeeks() -> (r: i128) ensures r == SpanWeeks_MAX() { 1043497 }
// `x.try_checked_mul("what", rhs)` with x: SpanWeeks -- Ok iff the exact product lies within SpanWeeks::MIN..=MAX
#[verifier::external_body]
pub fn verif_try_checked_mul_SpanWeeks<R: RInto<ri32>>(x: ri32, rhs: R) -> (res: Result<ri32, Error>)
    requires rhs.rinto_req(),
    ensures res.is_ok() <==> in_SpanWeeks(x.val * rhs.rinto_spec().val), res.is_ok() ==> res.unwrap().val == x.val * rhs.rinto_spec().val
{ unimplemented!() }
// `x.try_checked_add/sub("what", rhs)` and `x.checked_add/sub/mul(rhs)` with x: SpanWeeks -- fail iff the exact result leaves SpanWeeks::MIN..=MAX
#[verifier::external_body]
pub fn verif_try_checked_add_SpanWeeks<R: RInto<ri32>>(x: ri32, rhs: R) -> (res: Result<ri32, Error>)
    requires rhs.rinto_req(),
    ensures res.is_ok() <==> in_SpanWeeks(x.val + rhs.rinto_spec().val), res.is_ok() ==> res.unwrap().val == x.val + rhs.rinto_spec().val
{ unimplemented!() }
#[verifier::external_body]
pub fn verif_try_checked_sub_SpanWeeks<R: RInto<ri32>>(x: ri32, rhs: R) -> (res: Result<ri32, Error>)
    requires rhs.rinto_req(),
    ensures res.is_ok() <==> in_SpanWeeks(x.val - rhs.rinto_spec().val), res.is_ok() ==> res.unwrap().val == x.val - rhs.rinto_spec().val
{ unimplemented!() }
#[verifier::external_body]
pub fn verif_checked_add_SpanWeeks<R: RInto<ri32>>(x: ri32, rhs: R) -> (res: Option<ri32>)
    requires rhs.rinto_req(),
    ensures res.is_some() <==> in_SpanWeeks(x.val + rhs.rinto_spec().val), res.is_some() ==> res.unwrap().val == x.val + rhs.rinto_spec().val
{ unimplemented!() }
#[verifier::external_body]
pub fn verif_checked_sub_SpanWeeks<R: RInto<ri32>>(x: ri32, rhs: R) -> (res: Option<ri32>)
    requires rhs.rinto_req(),
    ensures res.is_some() <==> in_SpanWeeks(x.val - rhs.rinto_spec().val), res.is_some() ==> res.unwrap().val == x.val - rhs.rinto_spec().val
{ unimplemented!() }
#[verifier::external_body]
pub fn verif_checked_mul_SpanWeeks<R: RInto<ri32>>(x: ri32, rhs: R) -> (res: Option<ri32>)
    requires rhs.rinto_req(),
    ensures res.is_some() <==> in_SpanWeeks(x.val * rhs.rinto_spec().val), res.is_some() ==> res.unwrap().val == x.val * rhs.rinto_spec().val
{ unimplemented!() }
pub type SpanDays = ri32;
pub open spec fn SpanDays_MIN() -> int { -7304484 }
pub open spec fn SpanDays_MAX() -> int { 7304484 }
pub open spec fn in_SpanDays(v: int) -> bool { -7304484 <= v <= 7304484 }
#[verifier::external_body]
pub fn verif_try_rfrom_SpanDays_8(r: ri8) -> (res: Result<ri32, Error>)
    ensures res.is_ok() <==> in_SpanDays(r.val as int), res.is_ok() ==> res.unwrap().val == r.val
{ unimplemented!() }
#[verifier::external_body]
pub fn verif_try_rfrom_SpanDays_16(r: ri16) -> (res: Result<ri32, Error>)
    ensures res.is_ok() <==> in_SpanDays(r.val as int), res.is_ok() ==> res.unwrap().val == r.val
{ unimplemented!() }
#[verifier::external_body]
pub fn verif_try_rfrom_SpanDays_32(r: ri32) -> (res: Result<ri32, Error>)
    ensures res.is_ok() <==> in_SpanDays(r.val as int), res.is_ok() ==> res.unwrap().val == r.val
{ unimplemented!() }
#[verifier::external_body]
pub fn verif_try_rfrom_SpanDays_64(r: ri64) -> (res: Result<ri32, Error>)
    ensures res.is_ok() <==> in_SpanDays(r.val as int), res.is_ok() ==> res.unwrap().val == r.val
{ unimplemented!() }
#[verifier::external_body]
pub fn verif_try_rfrom_SpanDays_128(r: ri128) -> (res: Result<ri32, Error>)
    ensures res.is_ok() <==> in_SpanDays(r.val as int), res.is_ok() ==> res.unwrap().val == r.val
{ unimplemented!() }
#[verifier::external_body]
pub fn verif_try_new_SpanDays(v: i64) -> (res: Result<ri32, Error>)
    ensures res.is_ok() <==> in_SpanDays(v as int), res.is_ok() ==> res.unwrap().val == v
{ unimplemented!() }
#[verifier::external_body]
pub fn verif_try_new128_SpanDays(v: i128) -> (res: Result<ri32, Error>)
    ensures res.is_ok() <==> in_SpanDays(v as int), res.is_ok() ==> res.unwrap().val == v
{ unimplemented!() }
// `SpanDays::MIN` / `SpanDays::MAX` (associated consts of type i128)
pub fn verif_MIN_SpanDays() -> (r: i128) ensures r == SpanDays_MIN() { -7304484 }
pub fn verif_MAX_SpanDays() -> (r: i128) ensures r == SpanDays_MAX() { 7304484 }
// `x.try_checked_mul("what", rhs)` with x: SpanDays -- Ok iff the exact product lies within SpanDays::MIN..=MAX
#[verifier::external_body]
pub fn verif_try_checked_mul_SpanDays<R: RInto<ri32>>(x: ri32, rhs: R) -> (res: Result<ri32, Error>)
    requires rhs.rinto_req(),
    ensures res.is_ok() <==> in_SpanDays(x.val * rhs.rinto_spec().val), res.is_ok() ==> res.unwrap().val == x.val * rhs.rinto_spec().val
{ unimplemented!() }
// `x.try_checked_add/sub("what", rhs)` and `x.checked_add/sub/mul(rhs)` with x: SpanDays -- fail iff the exact result leaves SpanDays::MIN..=MAX
#[verifier::external_body]
pub fn verif_try_checked_add_SpanDays<R: RInto<ri32>>(x: ri32, rhs: R) -> (res: Result<ri32, Error>)
    requires rhs.rinto_req(),
    ensures res.is_ok() <==> in_SpanDays(x.val + rhs.rinto_spec().val), res.is_ok() ==> res.unwrap().val == x.val + rhs.rinto_spec().val
{ unimplemented!() }
#[verifier::external_body]
pub fn verif_try_checked_sub_SpanDays<R: RInto<ri32>>(x: ri32, rhs: R) -> (res: Result<ri32, Error>)
    requires rhs.rinto_req(),
    ensures res.is_ok() <==> in_SpanDays(x.val - rhs.rinto_spec().val), res.is_ok() ==> res.unwrap().val == x.val - rhs.rinto_spec().val
{ unimplemented!() }
#[verifier::external_body]
pub fn verif_checked_add_SpanDays<R: RInto<ri32>>(x: ri32, rhs: R) -> (res: Option<ri32>)
    requires rhs.rinto_req(),
    ensures res.is_some() <==> in_SpanDays(x.val + rhs.rinto_spec().val), res.is_some() ==> res.unwrap().val == x.val + rhs.rinto_spec().val
{ unimplemented!() }
#[verifier::external_body]
pub fn verif_checked_sub_SpanDays<R: RInto<ri32>>(x: ri32, rhs: R) -> (res: Option<ri32>)
    requires rhs.rinto_req(),
    ensures res.is_some() <==> in_SpanDays(x.val - rhs.rinto_spec().val), res.is_some() ==> res.unwrap().val == x.val - rhs.rinto_spec().val
{ unimplemented!() }
#[verifier::external_body]
pub fn verif_checked_mul_SpanDays<R: RInto<ri32>>(x: ri32, rhs: R) -> (res: Option<ri32>)
    requires rhs.rinto_req(),
    ensures res.is_some() <==> in_SpanDays(x.val * rhs.rinto_spec().val), res.is_some() ==> res.unwrap().val == x.val * rhs.rinto_spec().val
{ unimplemented!() }
pub type SpanHours = ri32;
pub open spec fn SpanHours_MIN() -> int { -175307616 }
pub open spec fn SpanHours_MAX() -> int { 175307616 }
pub open spec fn in_SpanHours(v: int) -> bool { -175307616 <= v <= 175307616 }
#[verifier::external_body]
pub fn verif_try_rfrom_SpanHours_8(r: ri8) -> (res: Result<ri32, Error>)
    ensures res.is_ok() <==> in_SpanHours(r.val as int), res.is_ok() ==> res.unwrap().val == r.val
{ unimplemented!() }
#[verifier::external_body]
pub fn verif_try_rfrom_SpanHours_16(r: ri16) -> (res: Result<ri32, Error>)
    ensures res.is_ok() <==> in_SpanHours(r.val as int), res.is_ok() ==> res.unwrap().val == r.val
{ unimplemented!() }
#[verifier::external_body]
pub fn verif_try_rfrom_SpanHours_32(r: ri32) -> (res: Result<ri32, Error>)
    ensures res.is_ok() <==> in_SpanHours(r.val as int), res.is_ok() ==> res.unwrap().val == r.val
{ unimplemented!() }
#[verifier::external_body]
pub fn verif_try_rfrom_SpanHours_64(r: ri64) -> (res: Result<ri32, Error>)
    ensures res.is_ok() <==> in_SpanHours(r.val as int), res.is_ok() ==> res.unwrap().val == r.val
{ unimplemented!() }
#[verifier::external_body]
pub fn verif_try_rfrom_SpanHours_128(r: ri128) -> (res: Result<ri32, Error>)
    ensures res.is_ok() <==> in_SpanHours(r.val as int), res.is_ok() ==> res.unwrap().val == r.val
{ unimplemented!() }
#[verifier::external_body]
pub fn verif_try_new_SpanHours(v: i64) -> (res: Result<ri32, Error>)
    ensures res.is_ok() <==> in_SpanHours(v as int), res.is_ok() ==> res.unwrap().val == v
{ unimplemented!() }
#[verifier::external_body]
pub fn verif_try_new128_SpanHours(v: i128) -> (res: Result<ri32, Error>)
    ensures res.is_ok() <==> in_SpanHours(v as int), res.is_ok() ==> res.unwrap().val == v
{ unimplemented!() }
// `SpanHours::MIN` / `SpanHours::MAX` (associated consts of type i128)
pub fn verif_MIN_SpanHours() -> (r: i128) ensures r == SpanHours_MIN() { -175307616 }
pub fn verif_MAX_SpanHours() -> (r: i128) ensures r == SpanHours_MAX() { 175307616 }
// `x.try_checked_mul("what", rhs)` with x: SpanHours -- Ok iff the exact product lies within SpanHours::MIN..=MAX
#[verifier::external_body]
pub fn verif_try_checked_mul_SpanHours<R: RInto<ri32>>(x: ri32, rhs: R) -> (res: Result<ri32, Error>)
    requires rhs.rinto_req(),
    ensures res.is_ok() <==> in_SpanHours(x.val * rhs.rinto_spec().val), res.is_ok() ==> res.unwrap().val == x.val * rhs.rinto_spec().val
{ unimplemented!() }
// `x.try_checked_add/sub("what", rhs)` and `x.checked_add/sub/mul(rhs)` with x: SpanHours -- fail iff the exact result leaves SpanHours::MIN..=MAX
#[verifier::external_body]
pub fn verif_try_checked_add_SpanHours<R: RInto<ri32>>(x: ri32, rhs: R) -> (res: Result<ri32, Error>)
    requires rhs.rinto_req(),
    ensures res.is_ok() <==> in_SpanHours(x.val + rhs.rinto_spec().val), res.is_ok() ==> res.unwrap().val == x.val + rhs.rinto_spec().val
{ unimplemented!() }
#[verifier::external_body]
pub fn verif_try_checked_sub_SpanHours<R: RInto<ri32>>(x: ri32, rhs: R) -> (res: Result<ri32, Error>)
    requires rhs.rinto_req(),
    ensures res.is_ok() <==> in_SpanHours(x.val - rhs.rinto_spec().val), res.is_ok() ==> res.unwrap().val == x.val - rhs.rinto_spec().val
{ unimplemented!() }
#[verifier::external_body]
pub fn verif_checked_add_SpanHours<R: RInto<ri32>>(x: ri32, rhs: R) -> (res: Option<ri32>)
    requires rhs.rinto_req(),
    ensures res.is_some() <==> in_SpanHours(x.val + rhs.rinto_spec().val), res.is_some() ==> res.unwrap().val == x.val + rhs.rinto_spec().val
{ unimplemented!() }
#[verifier::external_body]
pub fn verif_checked_sub_SpanHours<R: RInto<ri32>>(x: ri32, rhs: R) -> (res: Option<ri32>)
    requires rhs.rinto_req(),
    ensures res.is_some() <==> in_SpanHours(x.val - rhs.rinto_spec().val), res.is_some() ==> res.unwrap().val == x.val - rhs.rinto_spec().val
{ unimplemented!() }
#[verifier::external_body]
pub fn verif_checked_mul_SpanHours<R: RInto<ri32>>(x: ri32, rhs: R) -> (res: Option<ri32>)
    requires rhs.rinto_req(),
    ensures res.is_some() <==> in_SpanHours(x.val * rhs.rinto_spec().val), res.is_some() ==> res.unwrap().val == x.val * rhs.rinto_spec().val
{ unimplemented!() }
pub type SpanMinutes = ri64;
pub open spec fn SpanMinutes_MIN() -> int { -10518456960 }
pub open spec fn SpanMinutes_MAX() -> int { 10518456960 }
pub open spec fn in_SpanMinutes(v: int) -> bool { -10518456960 <= v <= 10518456960 }
#[verifier::external_body]
pub fn verif_try_rfrom_SpanMinutes_8(r: ri8) -> (res: Result<ri64, Error>)
    ensures res.is_ok() <==> in_SpanMinutes(r.val as int), res.is_ok() ==> res.unwrap().val == r.val
{ unimplemented!() }
#[verifier::external_body]
pub fn verif_try_rfrom_SpanMinutes_16(r: ri16) -> (res: Result<ri64, Error>)
    ensures res.is_ok() <==> in_SpanMinutes(r.val as int), res.is_ok() ==> res.unwrap().val == r.val
{ unimplemented!() }
#[verifier::external_body]
pub fn verif_try_rfrom_SpanMinutes_32(r: ri32) -> (res: Result<ri64, Error>)
    ensures res.is_ok() <==> in_SpanMinutes(r.val as int), res.is_ok() ==> res.unwrap().val == r.val
{ unimplemented!() }
#[verifier::external_body]
pub fn verif_try_rfrom_SpanMinutes_64(r: ri64) -> (res: Result<ri64, Error>)
    ensures res.is_ok() <==> in_SpanMinutes(r.val as int), res.is_ok() ==> res.unwrap().val == r.val
{ unimplemented!() }
#[verifier::external_body]
pub fn verif_try_rfrom_SpanMinutes_128(r: ri128) -> (res: Result<ri64, Error>)
    ensures res.is_ok() <==> in_SpanMinutes(r.val as int), res.is_ok() ==> res.unwrap().val == r.val
{ unimplemented!() }
#[verifier::external_body]
pub fn verif_try_new_SpanMinutes(v: i64) -> (res: Result<ri64, Error>)
    ensures res.is_ok() <==> in_SpanMinutes(v as int), res.is_ok() ==> res.unwrap().val == v
{ unimplemented!() }
#[verifier::external_body]
pub fn verif_try_new128_SpanMinutes(v: i128) -> (res: Result<ri64, Error>)
    ensures res.is_ok() <==> in_SpanMinutes(v as int), res.is_ok() ==> res.unwrap().val == v
{ unimplemented!() }
// `SpanMinutes::MIN` / `SpanMinutes::MAX` (associated consts of type i128)
pub fn verif_MIN_SpanMinutes() -> (r: i128) ensures r == SpanMinutes_MIN() { -10518456960 }
pub fn verif_MAX_SpanMinutes() -> (r: i128) ensures r == SpanMinutes_MAX() { 10518456960 }
// `x.try_checked_mul("what", rhs)` with x: SpanMinutes -- Ok iff the exact product lies within SpanMinutes::MIN..=MAX
#[verifier::external_body]
pub fn verif_try_checked_mul_SpanMinutes<R: RInto<ri64>>(x: ri64, rhs: R) -> (res: Result<ri64, Error>)
    requires rhs.rinto_req(),
    ensures res.is_ok() <==> in_SpanMinutes(x.val * rhs.rinto_spec().val), res.is_ok() ==> res.unwrap().val == x.val * rhs.rinto_spec().val
{ unimplemented!() }
// `x.try_checked_add/sub("what", rhs)` and `x.checked_add/sub/mul(rhs)` with x: SpanMinutes -- fail iff the exact result leaves SpanMinutes::MIN..=MAX
#[verifier::external_body]
pub fn verif_try_checked_add_SpanMinutes<R: RInto<ri64>>(x: ri64, rhs: R) -> (res: Result<ri64, Error>)
    requires rhs.rinto_req(),
    ensures res.is_ok() <==> in_SpanMinutes(x.val + rhs.rinto_spec().val), res.is_ok() ==> res.unwrap().val == x.val + rhs.rinto_spec().val
{ unimplemented!() }
#[verifier::external_body]
pub fn verif_try_checked_sub_SpanMinutes<R: RInto<ri64>>(x: ri64, rhs: R) -> (res: Result<ri64, Error>)
    requires rhs.rinto_req(),
    ensures res.is_ok() <==> in_SpanMinutes(x.val - rhs.rinto_spec().val), res.is_ok() ==> res.unwrap().val == x.val - rhs.rinto_spec().val
{ unimplemented!() }
#[verifier::external_body]
pub fn verif_checked_add_SpanMinutes<R: RInto<ri64>>(x: ri64, rhs: R) -> (res: Option<ri64>)
    requires rhs.rinto_req(),
    ensures res.is_some() <==> in_SpanMinutes(x.val + rhs.rinto_spec().val), res.is_some() ==> res.unwrap().val == x.val + rhs.rinto_spec().val
{ unimplemented!() }
#[verifier::external_body]
pub fn verif_checked_sub_SpanMinutes<R: RInto<ri64>>(x: ri64, rhs: R) -> (res: Option<ri64>)
    requires rhs.rinto_req(),
    ensures res.is_some() <==> in_SpanMinutes(x.val - rhs.rinto_spec().val), res.is_some() ==> res.unwrap().val == x.val - rhs.rinto_spec().val
{ unimplemented!() }
#[verifier::external_body]
pub fn verif_checked_mul_SpanMinutes<R: RInto<ri64>>(x: ri64, rhs: R) -> (res: Option<ri64>)
    requires rhs.rinto_req(),
    ensures res.is_some() <==> in_SpanMinutes(x.val * rhs.rinto_spec().val), res.is_some() ==> res.unwrap().val == x.val * rhs.rinto_spec().val
{ unimplemented!() }
pub type SpanSeconds = ri64;
pub open spec fn SpanSeconds_MIN() -> int { -631107417600 }
pub open spec fn SpanSeconds_MAX() -> int { 631107417600 }
pub open spec fn in_SpanSeconds(v: int) -> bool { -631107417600 <= v <= 631107417600 }
#[verifier::external_body]
pub fn verif_try_rfrom_SpanSeconds_8(r: ri8) -> (res: Result<ri64, Error>)
    ensures res.is_ok() <==> in_SpanSeconds(r.val as int), res.is_ok() ==> res.unwrap().val == r.val
{ unimplemented!() }
#[verifier::external_body]
pub fn verif_try_rfrom_SpanSeconds_16(r: ri16) -> (res: Result<ri64, Error>)
    ensures res.is_ok() <==> in_SpanSeconds(r.val as int), res.is_ok() ==> res.unwrap().val == r.val
{ unimplemented!() }
#[verifier::external_body]
pub fn verif_try_rfrom_SpanSeconds_32(r: ri32) -> (res: Result<ri64, Error>)
    ensures res.is_ok() <==> in_SpanSeconds(r.val as int), res.is_ok() ==> res.unwrap().val == r.val
{ unimplemented!() }
#[verifier::external_body]
pub fn verif_try_rfrom_SpanSeconds_64(r: ri64) -> (res: Result<ri64, Error>)
    ensures res.is_ok() <==> in_SpanSeconds(r.val as int), res.is_ok() ==> res.unwrap().val == r.val
{ unimplemented!() }
#[verifier::external_body]
pub fn verif_try_rfrom_SpanSeconds_128(r: ri128) -> (res: Result<ri64, Error>)
    ensures res.is_ok() <==> in_SpanSeconds(r.val as int), res.is_ok() ==> res.unwrap().val == r.val
{ unimplemented!() }
#[verifier::external_body]
pub fn verif_try_new_SpanSeconds(v: i64) -> (res: Result<ri64, Error>)
    ensures res.is_ok() <==> in_SpanSeconds(v as int), res.is_ok() ==> res.unwrap().val == v
{ unimplemented!() }
#[verifier::external_body]
pub fn verif_try_new128_SpanSeconds(v: i128) -> (res: Result<ri64, Error>)
    ensures res.is_ok() <==> in_SpanSeconds(v as int), res.is_ok() ==> res.unwrap().val == v
{ unimplemented!() }
// `SpanSeconds::MIN` / `SpanSeconds::MAX` (associated consts of type i128)
pub fn verif_MIN_SpanSeconds() -> (r: i128) ensures r == SpanSeconds_MIN() { -631107417600 }
pub fn verif_MAX_SpanSeconds() -> (r: i128) ensures r == SpanSeconds_MAX() { 631107417600 }
// `x.try_checked_mul("what", rhs)` with x: SpanSeconds -- Ok iff the exact product lies within SpanSeconds::MIN..=MAX
#[verifier::external_body]
pub fn verif_try_checked_mul_SpanSeconds<R: RInto<ri64>>(x: ri64, rhs: R) -> (res: Result<ri64, Error>)
    requires rhs.rinto_req(),
    ensures res.is_ok() <==> in_SpanSeconds(x.val * rhs.rinto_spec().val), res.is_ok() ==> res.unwrap().val == x.val * rhs.rinto_spec().val
{ unimplemented!() }
// `x.try_checked_add/sub("what", rhs)` and `x.checked_add/sub/mul(rhs)` with x: SpanSeconds -- fail iff the exact result leaves SpanSeconds::MIN..=MAX
#[verifier::external_body]
pub fn verif_try_checked_add_SpanSeconds<R: RInto<ri64>>(x: ri64, rhs: R) -> (res: Result<ri64, Error>)
    requires rhs.rinto_req(),
    ensures res.is_ok() <==> in_SpanSeconds(x.val + rhs.rinto_spec().val), res.is_ok() ==> res.unwrap().val == x.val + rhs.rinto_spec().val
{ unimplemented!() }
#[verifier::external_body]
pub fn verif_try_checked_sub_SpanSeconds<R: RInto<ri64>>(x: ri64, rhs: R) -> (res: Result<ri64, Error>)
    requires rhs.rinto_req(),
    ensures res.is_ok() <==> in_SpanSeconds(x.val - rhs.rinto_spec().val), res.is_ok() ==> res.unwrap().val == x.val - rhs.rinto_spec().val
{ unimplemented!() }
#[verifier::external_body]
pub fn verif_checked_add_SpanSeconds<R: RInto<ri64>>(x: ri64, rhs: R) -> (res: Option<ri64>)
    requires rhs.rinto_req(),
    ensures res.is_some() <==> in_SpanSeconds(x.val + rhs.rinto_spec().val), res.is_some() ==> res.unwrap().val == x.val + rhs.rinto_spec().val
{ unimplemented!() }
#[verifier::external_body]
pub fn verif_checked_sub_SpanSeconds<R: RInto<ri64>>(x: ri64, rhs: R) -> (res: Option<ri64>)
    requires rhs.rinto_req(),
    ensures res.is_some() <==> in_SpanSeconds(x.val - rhs.rinto_spec().val), res.is_some() ==> res.unwrap().val == x.val - rhs.rinto_spec().val
{ unimplemented!() }
#[verifier::external_body]
pub fn verif_checked_mul_SpanSeconds<R: RInto<ri64>>(x: ri64, rhs: R) -> (res: Option<ri64>)
    requires rhs.rinto_req(),
    ensures res.is_some() <==> in_SpanSeconds(x.val * rhs.rinto_spec().val), res.is_some() ==> res.unwrap().val == x.val * rhs.rinto_spec().val
{ unimplemented!() }
pub type SpanMilliseconds = ri64;
pub open spec fn SpanMilliseconds_MIN() -> int { -631107417600000 }
pub open spec fn SpanMilliseconds_MAX() -> int { 631107417600000 }
pub open spec fn in_SpanMilliseconds(v: int) -> bool { -631107417600000 <= v <= 631107417600000 }
#[verifier::external_body]
pub fn verif_try_rfrom_SpanMilliseconds_8(r: ri8) -> (res: Result<ri64, Error>)
    ensures res.is_ok() <==> in_SpanMilliseconds(r.val as int), res.is_ok() ==> res.unwrap().val == r.val
{ unimplemented!() }
#[verifier::external_body]
pub fn verif_try_rfrom_SpanMilliseconds_16(r: ri16) -> (res: Result<ri64, Error>)
    ensures res.is_ok() <==> in_SpanMilliseconds(r.val as int), res.is_ok() ==> res.unwrap().val == r.val
{ unimplemented!() }
#[verifier::external_body]
pub fn verif_try_rfrom_SpanMilliseconds_32(r: ri32) -> (res: Result<ri64, Error>)
    ensures res.is_ok() <==> in_SpanMilliseconds(r.val as int), res.is_ok() ==> res.unwrap().val == r.val
{ unimplemented!() }
#[verifier::external_body]
pub fn verif_try_rfrom_SpanMilliseconds_64(r: ri64) -> (res: Result<ri64, Error>)
    ensures res.is_ok() <==> in_SpanMilliseconds(r.val as int), res.is_ok() ==> res.unwrap().val == r.val
{ unimplemented!() }
#[verifier::external_body]
pub fn verif_try_rfrom_SpanMilliseconds_128(r: ri128) -> (res: Result<ri64, Error>)
    ensures res.is_ok() <==> in_SpanMilliseconds(r.val as int), res.is_ok() ==> res.unwrap().val == r.val
{ unimplemented!() }
#[verifier::external_body]
pub fn verif_try_new_SpanMilliseconds(v: i64) -> (res: Result<ri64, Error>)
    ensures res.is_ok() <==> in_SpanMilliseconds(v as int), res.is_ok() ==> res.unwrap().val == v
{ unimplemented!() }
#[verifier::external_body]
pub fn verif_try_new128_SpanMilliseconds(v: i128) -> (res: Result<ri64, Error>)
    ensures res.is_ok() <==> in_SpanMilliseconds(v as int), res.is_ok() ==> res.unwrap().val == v
{ unimplemented!() }
// `SpanMilliseconds::MIN` / `SpanMilliseconds::MAX` (associated consts of type i128)
pub fn verif_MIN_SpanMilliseconds() -> (r: i128) ensures r == SpanMilliseconds_MIN() { -631107417600000 }
pub fn verif_MAX_SpanMilliseconds() -> (r: i128) ensures r == SpanMilliseconds_MAX() { 631107417600000 }
// `x.try_checked_mul("what", rhs)` with x: SpanMilliseconds -- Ok iff the exact product lies within SpanMilliseconds::MIN..=MAX
#[verifier::external_body]
pub fn verif_try_checked_mul_SpanMilliseconds<R: RInto<ri64>>(x: ri64, rhs: R) -> (res: Result<ri64, Error>)
    requires rhs.rinto_req(),
    ensures res.is_ok() <==> in_SpanMilliseconds(x.val * rhs.rinto_spec().val), res.is_ok() ==> res.unwrap().val == x.val * rhs.rinto_spec().val
{ unimplemented!() }
// `x.try_checked_add/sub("what", rhs)` and `x.checked_add/sub/mul(rhs)` with x: SpanMilliseconds -- fail iff the exact result leaves SpanMilliseconds::MIN..=MAX
#[verifier::external_body]
pub fn verif_try_checked_add_SpanMilliseconds<R: RInto<ri64>>(x: ri64, rhs: R) -> (res: Result<ri64, Error>)
    requires rhs.rinto_req(),
    ensures res.is_ok() <==> in_SpanMilliseconds(x.val + rhs.rinto_spec().val), res.is_ok() ==> res.unwrap().val == x.val + rhs.rinto_spec().val
{ unimplemented!() }
#[verifier::external_body]
pub fn verif_try_checked_sub_SpanMilliseconds<R: RInto<ri64>>(x: ri64, rhs: R) -> (res: Result<ri64, Error>)
    requires rhs.rinto_req(),
    ensures res.is_ok() <==> in_SpanMilliseconds(x.val - rhs.rinto_spec().val), res.is_ok() ==> res.unwrap().val == x.val - rhs.rinto_spec().val
{ unimplemented!() }
#[verifier::external_body]
pub fn verif_checked_add_SpanMilliseconds<R: RInto<ri64>>(x: ri64, rhs: R) -> (res: Option<ri64>)
    requires rhs.rinto_req(),
    ensures res.is_some() <==> in_SpanMilliseconds(x.val + rhs.rinto_spec().val), res.is_some() ==> res.unwrap().val == x.val + rhs.rinto_spec().val
{ unimplemented!() }
#[verifier::external_body]
pub fn verif_checked_sub_SpanMilliseconds<R: RInto<ri64>>(x: ri64, rhs: R) -> (res: Option<ri64>)
    requires rhs.rinto_req(),
    ensures res.is_some() <==> in_SpanMilliseconds(x.val - rhs.rinto_spec().val), res.is_some() ==> res.unwrap().val == x.val - rhs.rinto_spec().val
{ unimplemented!() }
#[verifier::external_body]
pub fn verif_checked_mul_SpanMilliseconds<R: RInto<ri64>>(x: ri64, rhs: R) -> (res: Option<ri64>)
    requires rhs.rinto_req(),
    ensures res.is_some() <==> in_SpanMilliseconds(x.val * rhs.rinto_spec().val), res.is_some() ==> res.unwrap().val == x.val * rhs.rinto_spec().val
{ unimplemented!() }
pub type SpanMicroseconds = ri64;
pub open spec fn SpanMicroseconds_MIN() -> int { -631107417600000000 }
pub open spec fn SpanMicroseconds_MAX() -> int { 631107417600000000 }
pub open spec fn in_SpanMicroseconds(v: int) -> bool { -631107417600000000 <= v <= 631107417600000000 }
#[verifier::external_body]
pub fn verif_try_rfrom_SpanMicroseconds_8(r: ri8) -> (res: Result<ri64, Error>)
    ensures res.is_ok() <==> in_SpanMicroseconds(r.val as int), res.is_ok() ==> res.unwrap().val == r.val
{ unimplemented!() }
#[verifier::external_body]
pub fn verif_try_rfrom_SpanMicroseconds_16(r: ri16) -> (res: Result<ri64, Error>)
    ensures res.is_ok() <==> in_SpanMicroseconds(r.val as int), res.is_ok() ==> res.unwrap().val == r.val
{ unimplemented!() }
#[verifier::external_body]
pub fn verif_try_rfrom_SpanMicroseconds_32(r: ri32) -> (res: Result<ri64, Error>)
    ensures res.is_ok() <==> in_SpanMicroseconds(r.val as int), res.is_ok() ==> res.unwrap().val == r.val
{ unimplemented!() }
#[verifier::external_body]
pub fn verif_try_rfrom_SpanMicroseconds_64(r: ri64) -> (res: Result<ri64, Error>)
    ensures res.is_ok() <==> in_SpanMicroseconds(r.val as int), res.is_ok() ==> res.unwrap().val == r.val
{ unimplemented!() }
#[verifier::external_body]
pub fn verif_try_rfrom_SpanMicroseconds_128(r: ri128) -> (res: Result<ri64, Error>)
    ensures res.is_ok() <==> in_SpanMicroseconds(r.val as int), res.is_ok() ==> res.unwrap().val == r.val
{ unimplemented!() }
#[verifier::external_body]
pub fn verif_try_new_SpanMicroseconds(v: i64) -> (res: Result<ri64, Error>)
    ensures res.is_ok() <==> in_SpanMicroseconds(v as int), res.is_ok() ==> res.unwrap().val == v
{ unimplemented!() }
#[verifier::external_body]
pub fn verif_try_new128_SpanMicroseconds(v: i128) -> (res: Result<ri64, Error>)
    ensures res.is_ok() <==> in_SpanMicroseconds(v as int), res.is_ok() ==> res.unwrap().val == v
{ unimplemented!() }
// `SpanMicroseconds::MIN` / `SpanMicroseconds::MAX` (associated consts of type i128)
pub fn verif_MIN_SpanMicroseconds() -> (r: i128) ensures r == SpanMicroseconds_MIN() { -631107417600000000 }
pub fn verif_MAX_SpanMicroseconds() -> (r: i128) ensures r == SpanMicroseconds_MAX() { 631107417600000000 }
// `x.try_checked_mul("what", rhs)` with x: SpanMicroseconds -- Ok iff the exact product lies within SpanMicroseconds::MIN..=MAX
#[verifier::external_body]
pub fn verif_try_checked_mul_SpanMicroseconds<R: RInto<ri64>>(x: ri64, rhs: R) -> (res: Result<ri64, Error>)
    requires rhs.rinto_req(),
    ensures res.is_ok() <==> in_SpanMicroseconds(x.val * rhs.rinto_spec().val), res.is_ok() ==> res.unwrap().val == x.val * rhs.rinto_spec().val
{ unimplemented!() }
// `x.try_checked_add/sub("what", rhs)` and `x.checked_add/sub/mul(rhs)` with x: SpanMicroseconds -- fail iff the exact result leaves SpanMicroseconds::MIN..=MAX
#[verifier::external_body]
pub fn verif_try_checked_add_SpanMicroseconds<R: RInto<ri64>>(x: ri64, rhs: R) -> (res: Result<ri64, Error>)
    requires rhs.rinto_req(),
    ensures res.is_ok() <==> in_SpanMicroseconds(x.val + rhs.rinto_spec().val), res.is_ok() ==> res.unwrap().val == x.val + rhs.rinto_spec().val
{ unimplemented!() }
#[verifier::external_body]
pub fn verif_try_checked_sub_SpanMicroseconds<R: RInto<ri64>>(x: ri64, rhs: R) -> (res: Result<ri64, Error>)
    requires rhs.rinto_req(),
    ensures res.is_ok() <==> in_SpanMicroseconds(x.val - rhs.rinto_spec().val), res.is_ok() ==> res.unwrap().val == x.val - rhs.rinto_spec().val
{ unimplemented!() }
#[verifier::external_body]
pub fn verif_checked_add_SpanMicroseconds<R: RInto<ri64>>(x: ri64, rhs: R) -> (res: Option<ri64>)
    requires rhs.rinto_req(),
    ensures res.is_some() <==> in_SpanMicroseconds(x.val + rhs.rinto_spec().val), res.is_some() ==> res.unwrap().val == x.val + rhs.rinto_spec().val
{ unimplemented!() }
#[verifier::external_body]
pub fn verif_checked_sub_SpanMicroseconds<R: RInto<ri64>>(x: ri64, rhs: R) -> (res: Option<ri64>)
    requires rhs.rinto_req(),
    ensures res.is_some() <==> in_SpanMicroseconds(x.val - rhs.rinto_spec().val), res.is_some() ==> res.unwrap().val == x.val - rhs.rinto_spec().val
{ unimplemented!() }
#[verifier::external_body]
pub fn verif_checked_mul_SpanMicroseconds<R: RInto<ri64>>(x: ri64, rhs: R) -> (res: Option<ri64>)
    requires rhs.rinto_req(),
    ensures res.is_some() <==> in_SpanMicroseconds(x.val * rhs.rinto_spec().val), res.is_some() ==> res.unwrap().val == x.val * rhs.rinto_spec().val
{ unimplemented!() }
pub type SpanNanoseconds = ri64;
pub open spec fn SpanNanoseconds_MIN() -> int { -9223372036854775807 }
pub open spec fn SpanNanoseconds_MAX() -> int { 9223372036854775807 }
pub open spec fn in_SpanNanoseconds(v: int) -> bool { -9223372036854775807 <= v <= 9223372036854775807 }
#[verifier::external_body]
pub fn verif_try_rfrom_SpanNanoseconds_8(r: ri8) -> (res: Result<ri64, Error>)
    ensures res.is_ok() <==> in_SpanNanoseconds(r.val as int), res.is_ok() ==> res.unwrap().val == r.val
{ unimplemented!() }
#[verifier::external_body]
pub fn verif_try_rfrom_SpanNanoseconds_16(r: ri16) -> (res: Result<ri64, Error>)
    ensures res.is_ok() <==> in_SpanNanoseconds(r.val as int), res.is_ok() ==> res.unwrap().val == r.val
{ unimplemented!() }
#[verifier::external_body]
pub fn verif_try_rfrom_SpanNanoseconds_32(r: ri32) -> (res: Result<ri64, Error>)
    ensures res.is_ok() <==> in_SpanNanoseconds(r.val as int), res.is_ok() ==> res.unwrap().val == r.val
{ unimplemented!() }
#[verifier::external_body]
pub fn verif_try_rfrom_SpanNanoseconds_64(r: ri64) -> (res: Result<ri64, Error>)
    ensures res.is_ok() <==> in_SpanNanoseconds(r.val as int), res.is_ok() ==> res.unwrap().val == r.val
{ unimplemented!() }
#[verifier::external_body]
pub fn verif_try_rfrom_SpanNanoseconds_128(r: ri128) -> (res: Result<ri64, Error>)
    ensures res.is_ok() <==> in_SpanNanoseconds(r.val as int), res.is_ok() ==> res.unwrap().val == r.val
{ unimplemented!() }
#[verifier::external_body]
pub fn verif_try_new_SpanNanoseconds(v: i64) -> (res: Result<ri64, Error>)
    ensures res.is_ok() <==> in_SpanNanoseconds(v as int), res.is_ok() ==> res.unwrap().val == v
{ unimplemented!() }
#[verifier::external_body]
pub fn verif_try_new128_SpanNanoseconds(v: i128) -> (res: Result<ri64, Error>)
    ensures res.is_ok() <==> in_SpanNanoseconds(v as int), res.is_ok() ==> res.unwrap().val == v
{ unimplemented!() }
// `SpanNanoseconds::MIN` / `SpanNanoseconds::MAX` (associated consts of type i128)
pub fn verif_MIN_SpanNanoseconds() -> (r: i128) ensures r == SpanNanoseconds_MIN() { -9223372036854775807 }
pub fn verif_MAX_SpanNanoseconds() -> (r: i128) ensures r == SpanNanoseconds_MAX() { 9223372036854775807 }
// `x.try_checked_mul("what", rhs)` with x: SpanNanoseconds -- Ok iff the exact product lies within SpanNanoseconds::MIN..=MAX
#[verifier::external_body]
pub fn verif_try_checked_mul_SpanNanoseconds<R: RInto<ri64>>(x: ri64, rhs: R) -> (res: Result<ri64, Error>)
    requires rhs.rinto_req(),
    ensures res.is_ok() <==> in_SpanNanoseconds(x.val * rhs.rinto_spec().val), res.is_ok() ==> res.unwrap().val == x.val * rhs.rinto_spec().val
{ unimplemented!() }
// `x.try_checked_add/sub("what", rhs)` and `x.checked_add/sub/mul(rhs)` with x: SpanNanoseconds -- fail iff the exact result leaves SpanNanoseconds::MIN..=MAX
#[verifier::external_body]
pub fn verif_try_checked_add_SpanNanoseconds<R: RInto<ri64>>(x: ri64, rhs: R) -> (res: Result<ri64, Error>)
    requires rhs.rinto_req(),
    ensures res.is_ok() <==> in_SpanNanoseconds(x.val + rhs.rinto_spec().val), res.is_ok() ==> res.unwrap().val == x.val + rhs.rinto_spec().val
{ unimplemented!() }
#[verifier::external_body]
pub fn verif_try_checked_sub_SpanNanoseconds<R: RInto<ri64>>(x: ri64, rhs: R) -> (res: Result<ri64, Error>)
    requires rhs.rinto_req(),
    ensures res.is_ok() <==> in_SpanNanoseconds(x.val - rhs.rinto_spec().val), res.is_ok() ==> res.unwrap().val == x.val - rhs.rinto_spec().val
{ unimplemented!() }
#[verifier::external_body]
pub fn verif_checked_add_SpanNanoseconds<R: RInto<ri64>>(x: ri64, rhs: R) -> (res: Option<ri64>)
    requires rhs.rinto_req(),
    ensures res.is_some() <==> in_SpanNanoseconds(x.val + rhs.rinto_spec().val), res.is_some() ==> res.unwrap().val == x.val + rhs.rinto_spec().val
{ unimplemented!() }
#[verifier::external_body]
pub fn verif_checked_sub_SpanNanoseconds<R: RInto<ri64>>(x: ri64, rhs: R) -> (res: Option<ri64>)
    requires rhs.rinto_req(),
    ensures res.is_some() <==> in_SpanNanoseconds(x.val - rhs.rinto_spec().val), res.is_some() ==> res.unwrap().val == x.val - rhs.rinto_spec().val
{ unimplemented!() }
#[verifier::external_body]
pub fn verif_checked_mul_SpanNanoseconds<R: RInto<ri64>>(x: ri64, rhs: R) -> (res: Option<ri64>)
    requires rhs.rinto_req(),
    ensures res.is_some() <==> in_SpanNanoseconds(x.val * rhs.rinto_spec().val), res.is_some() ==> res.unwrap().val == x.val * rhs.rinto_spec().val
{ unimplemented!() }
pub type SpanZoneOffset = ri32;
pub open spec fn SpanZoneOffset_MIN() -> int { -93599 }
pub open spec fn SpanZoneOffset_MAX() -> int { 93599 }
pub open spec fn in_SpanZoneOffset(v: int) -> bool { -93599 <= v <= 93599 }
#[verifier::external_body]
pub fn verif_try_rfrom_SpanZoneOffset_8(r: ri8) -> (res: Result<ri32, Error>)
    ensures res.is_ok() <==> in_SpanZoneOffset(r.val as int), res.is_ok() ==> res.unwrap().val == r.val
{ unimplemented!() }
#[verifier::external_body]
pub fn verif_try_rfrom_SpanZoneOffset_16(r: ri16) -> (res: Result<ri32, Error>)
    ensures res.is_ok() <==> in_SpanZoneOffset(r.val as int), res.is_ok() ==> res.unwrap().val == r.val
{ unimplemented!() }
#[verifier::external_body]
pub fn verif_try_rfrom_SpanZoneOffset_32(r: ri32) -> (res: Result<ri32, Error>)
    ensures res.is_ok() <==> in_SpanZoneOffset(r.val as int), res.is_ok() ==> res.unwrap().val == r.val
{ unimplemented!() }
#[verifier::external_body]
pub fn verif_try_rfrom_SpanZoneOffset_64(r: ri64) -> (res: Result<ri32, Error>)
    ensures res.is_ok() <==> in_SpanZoneOffset(r.val as int), res.is_ok() ==> res.unwrap().val == r.val
{ unimplemented!() }
#[verifier::external_body]
pub fn verif_try_rfrom_SpanZoneOffset_128(r: ri128) -> (res: Result<ri32, Error>)
    ensures res.is_ok() <==> in_SpanZoneOffset(r.val as int), res.is_ok() ==> res.unwrap().val == r.val
{ unimplemented!() }
#[verifier::external_body]
pub fn verif_try_new_SpanZoneOffset(v: i64) -> (res: Result<ri32, Error>)
    ensures res.is_ok() <==> in_SpanZoneOffset(v as int), res.is_ok() ==> res.unwrap().val == v
{ unimplemented!() }
#[verifier::external_body]
pub fn verif_try_new128_SpanZoneOffset(v: i128) -> (res: Result<ri32, Error>)
    ensures res.is_ok() <==> in_SpanZoneOffset(v as int), res.is_ok() ==> res.unwrap().val == v
{ unimplemented!() }
// `SpanZoneOffset::MIN` / `SpanZoneOffset::MAX` (associated consts of type i128)
pub fn verif_MIN_SpanZoneOffset() -> (r: i128) ensures r == SpanZoneOffset_MIN() { -93599 }
pub fn verif_MAX_SpanZoneOffset() -> (r: i128) ensures r == SpanZoneOffset_MAX() { 93599 }
// `x.try_checked_mul("what", rhs)` with x: SpanZoneOffset -- Ok iff the exact product lies within SpanZoneOffset::MIN..=MAX
#[verifier::external_body]
pub fn verif_try_checked_mul_SpanZoneOffset<R: RInto<ri32>>(x: ri32, rhs: R) -> (res: Result<ri32, Error>)
    requires rhs.rinto_req(),
    ensures res.is_ok() <==> in_SpanZoneOffset(x.val * rhs.rinto_spec().val), res.is_ok() ==> res.unwrap().val == x.val * rhs.rinto_spec().val
{ unimplemented!() }
// `x.try_checked_add/sub("what", rhs)` and `x.checked_add/sub/mul(rhs)` with x: SpanZoneOffset -- fail iff the exact result leaves SpanZoneOffset::MIN..=MAX
#[verifier::external_body]
pub fn verif_try_checked_add_SpanZoneOffset<R: RInto<ri32>>(x: ri32, rhs: R) -> (res: Result<ri32, Error>)
    requires rhs.rinto_req(),
    ensures res.is_ok() <==> in_SpanZoneOffset(x.val + rhs.rinto_spec().val), res.is_ok() ==> res.unwrap().val == x.val + rhs.rinto_spec().val
{ unimplemented!() }
#[verifier::external_body]
pub fn verif_try_checked_sub_SpanZoneOffset<R: RInto<ri32>>(x: ri32, rhs: R) -> (res: Result<ri32, Error>)
    requires rhs.rinto_req(),
    ensures res.is_ok() <==> in_SpanZoneOffset(x.val - rhs.rinto_spec().val), res.is_ok() ==> res.unwrap().val == x.val - rhs.rinto_spec().val
{ unimplemented!() }
#[verifier::external_body]
pub fn verif_checked_add_SpanZoneOffset<R: RInto<ri32>>(x: ri32, rhs: R) -> (res: Option<ri32>)
    requires rhs.rinto_req(),
    ensures res.is_some() <==> in_SpanZoneOffset(x.val + rhs.rinto_spec().val), res.is_some() ==> res.unwrap().val == x.val + rhs.rinto_spec().val
{ unimplemented!() }
#[verifier::external_body]
pub fn verif_checked_sub_SpanZoneOffset<R: RInto<ri32>>(x: ri32, rhs: R) -> (res: Option<ri32>)
    requires rhs.rinto_req(),
    ensures res.is_some() <==> in_SpanZoneOffset(x.val - rhs.rinto_spec().val), res.is_some() ==> res.unwrap().val == x.val - rhs.rinto_spec().val
{ unimplemented!() }
#[verifier::external_body]
pub fn verif_checked_mul_SpanZoneOffset<R: RInto<ri32>>(x: ri32, rhs: R) -> (res: Option<ri32>)
    requires rhs.rinto_req(),
    ensures res.is_some() <==> in_SpanZoneOffset(x.val * rhs.rinto_spec().val), res.is_some() ==> res.unwrap().val == x.val * rhs.rinto_spec().val
{ unimplemented!() }
pub type FractionalNanosecond = ri32;
pub open spec fn FractionalNanosecond_MIN() -> int { -999999999 }
pub open spec fn FractionalNanosecond_MAX() -> int { 999999999 }
pub open spec fn in_FractionalNanosecond(v: int) -> bool { -999999999 <= v <= 999999999 }
#[verifier::external_body]
pub fn verif_try_rfrom_FractionalNanosecond_8(r: ri8) -> (res: Result<ri32, Error>)
    ensures res.is_ok() <==> in_FractionalNanosecond(r.val as int), res.is_ok() ==> res.unwrap().val == r.val
{ unimplemented!() }
#[verifier::external_body]
pub fn verif_try_rfrom_FractionalNanosecond_16(r: ri16) -> (res: Result<ri32, Error>)
    ensures res.is_ok() <==> in_FractionalNanosecond(r.val as int), res.is_ok() ==> res.unwrap().val == r.val
{ unimplemented!() }
#[verifier::external_body]
pub fn verif_try_rfrom_FractionalNanosecond_32(r: ri32) -> (res: Result<ri32, Error>)
    ensures res.is_ok() <==> in_FractionalNanosecond(r.val as int), res.is_ok() ==> res.unwrap().val == r.val
{ unimplemented!() }
#[verifier::external_body]
pub fn verif_try_rfrom_FractionalNanosecond_64(r: ri64) -> (res: Result<ri32, Error>)
    ensures res.is_ok() <==> in_FractionalNanosecond(r.val as int), res.is_ok() ==> res.unwrap().val == r.val
{ unimplemented!() }
#[verifier::external_body]
pub fn verif_try_rfrom_FractionalNanosecond_128(r: ri128) -> (res: Result<ri32, Error>)
    ensures res.is_ok() <==> in_FractionalNanosecond(r.val as int), res.is_ok() ==> res.unwrap().val == r.val
{ unimplemented!() }
#[verifier::external_body]
pub fn verif_try_new_FractionalNanosecond(v: i64) -> (res: Result<ri32, Error>)
    ensures res.is_ok() <==> in_FractionalNanosecond(v as int), res.is_ok() ==> res.unwrap().val == v
{ unimplemented!() }
#[verifier::external_body]
pub fn verif_try_new128_FractionalNanosecond(v: i128) -> (res: Result<ri32, Error>)
    ensures res.is_ok() <==> in_FractionalNanosecond(v as int), res.is_ok() ==> res.unwrap().val == v
{ unimplemented!() }
// `FractionalNanosecond::MIN` / `FractionalNanosecond::MAX` (associated consts of type i128)
pub fn verif_MIN_FractionalNanosecond() -> (r: i128) ensures r == FractionalNanosecond_MIN() { -999999999 }
pub fn verif_MAX_FractionalNanosecond() -> (r: i128) ensures r == FractionalNanosecond_MAX() { 999999999 }
// `x.try_checked_mul("what", rhs)` with x: FractionalNanosecond -- Ok iff the exact product lies within FractionalNanosecond::MIN..=MAX
#[verifier::external_body]
pub fn verif_try_checked_mul_FractionalNanosecond<R: RInto<ri32>>(x: ri32, rhs: R) -> (res: Result<ri32, Error>)
    requires rhs.rinto_req(),
    ensures res.is_ok() <==> in_FractionalNanosecond(x.val * rhs.rinto_spec().val), res.is_ok() ==> res.unwrap().val == x.val * rhs.rinto_spec().val
{ unimplemented!() }
// `x.try_checked_add/sub("what", rhs)` and `x.checked_add/sub/mul(rhs)` with x: FractionalNanosecond -- fail iff the exact result leaves FractionalNanosecond::MIN..=MAX
#[verifier::external_body]
pub fn verif_try_checked_add_FractionalNanosecond<R: RInto<ri32>>(x: ri32, rhs: R) -> (res: Result<ri32, Error>)
    requires rhs.rinto_req(),
    ensures res.is_ok() <==> in_FractionalNanosecond(x.val + rhs.rinto_spec().val), res.is_ok() ==> res.unwrap().val == x.val + rhs.rinto_spec().val
{ unimplemented!() }
#[verifier::external_body]
pub fn verif_try_checked_sub_FractionalNanosecond<R: RInto<ri32>>(x: ri32, rhs: R) -> (res: Result<ri32, Error>)
    requires rhs.rinto_req(),
    ensures res.is_ok() <==> in_FractionalNanosecond(x.val - rhs.rinto_spec().val), res.is_ok() ==> res.unwrap().val == x.val - rhs.rinto_spec().val
{ unimplemented!() }
#[verifier::external_body]
pub fn verif_checked_add_FractionalNanosecond<R: RInto<ri32>>(x: ri32, rhs: R) -> (res: Option<ri32>)
    requires rhs.rinto_req(),
    ensures res.is_some() <==> in_FractionalNanosecond(x.val + rhs.rinto_spec().val), res.is_some() ==> res.unwrap().val == x.val + rhs.rinto_spec().val
{ unimplemented!() }
#[verifier::external_body]
pub fn verif_checked_sub_FractionalNanosecond<R: RInto<ri32>>(x: ri32, rhs: R) -> (res: Option<ri32>)
    requires rhs.rinto_req(),
    ensures res.is_some() <==> in_FractionalNanosecond(x.val - rhs.rinto_spec().val), res.is_some() ==> res.unwrap().val == x.val - rhs.rinto_spec().val
{ unimplemented!() }
#[verifier::external_body]
pub fn verif_checked_mul_FractionalNanosecond<R: RInto<ri32>>(x: ri32, rhs: R) -> (res: Option<ri32>)
    requires rhs.rinto_req(),
    ensures res.is_some() <==> in_FractionalNanosecond(x.val * rhs.rinto_spec().val), res.is_some() ==> res.unwrap().val == x.val * rhs.rinto_spec().val
{ unimplemented!() }
pub type ZonedDayNanoseconds = ri64;
pub open spec fn ZonedDayNanoseconds_MIN() -> int { 1000000000 }
pub open spec fn ZonedDayNanoseconds_MAX() -> int { 604800000000000 }
pub open spec fn in_ZonedDayNanoseconds(v: int) -> bool { 1000000000 <= v <= 604800000000000 }
#[verifier::external_body]
pub fn verif_try_rfrom_ZonedDayNanoseconds_8(r: ri8) -> (res: Result<ri64, Error>)
    ensures res.is_ok() <==> in_ZonedDayNanoseconds(r.val as int), res.is_ok() ==> res.unwrap().val == r.val
{ unimplemented!() }
#[verifier::external_body]
pub fn verif_try_rfrom_ZonedDayNanoseconds_16(r: ri16) -> (res: Result<ri64, Error>)
    ensures res.is_ok() <==> in_ZonedDayNanoseconds(r.val as int), res.is_ok() ==> res.unwrap().val == r.val
{ unimplemented!() }
#[verifier::external_body]
pub fn verif_try_rfrom_ZonedDayNanoseconds_32(r: ri32) -> (res: Result<ri64, Error>)
    ensures res.is_ok() <==> in_ZonedDayNanoseconds(r.val as int), res.is_ok() ==> res.unwrap().val == r.val
{ unimplemented!() }
#[verifier::external_body]
pub fn verif_try_rfrom_ZonedDayNanoseconds_64(r: ri64) -> (res: Result<ri64, Error>)
    ensures res.is_ok() <==> in_ZonedDayNanoseconds(r.val as int), res.is_ok() ==> res.unwrap().val == r.val
{ unimplemented!() }
#[verifier::external_body]
pub fn verif_try_rfrom_ZonedDayNanoseconds_128(r: ri128) -> (res: Result<ri64, Error>)
    ensures res.is_ok() <==> in_ZonedDayNanoseconds(r.val as int), res.is_ok() ==> res.unwrap().val == r.val
{ unimplemented!() }
#[verifier::external_body]
pub fn verif_try_new_ZonedDayNanoseconds(v: i64) -> (res: Result<ri64, Error>)
    ensures res.is_ok() <==> in_ZonedDayNanoseconds(v as int), res.is_ok() ==> res.unwrap().val == v
{ unimplemented!() }
#[verifier::external_body]
pub fn verif_try_new128_ZonedDayNanoseconds(v: i128) -> (res: Result<ri64, Error>)
    ensures res.is_ok() <==> in_ZonedDayNanoseconds(v as int), res.is_ok() ==> res.unwrap().val == v
{ unimplemented!() }
// `ZonedDayNanoseconds::MIN` / `ZonedDayNanoseconds::MAX` (associated consts of type i128)
pub fn verif_MIN_ZonedDayNanoseconds() -> (r: i128) ensures r == ZonedDayNanoseconds_MIN() { 1000000000 }
pub fn verif_MAX_ZonedDayNanoseconds() -> (r: i128) ensures r == ZonedDayNanoseconds_MAX() { 604800000000000 }
// `x.try_checked_mul("what", rhs)` with x: ZonedDayNanoseconds -- Ok iff the exact product lies within ZonedDayNanoseconds::MIN..=MAX
#[verifier::external_body]
pub fn verif_try_checked_mul_ZonedDayNanoseconds<R: RInto<ri64>>(x: ri64, rhs: R) -> (res: Result<ri64, Error>)
    requires rhs.rinto_req(),
    ensures res.is_ok() <==> in_ZonedDayNanoseconds(x.val * rhs.rinto_spec().val), res.is_ok() ==> res.unwrap().val == x.val * rhs.rinto_spec().val
{ unimplemented!() }
// `x.try_checked_add/sub("what", rhs)` and `x.checked_add/sub/mul(rhs)` with x: ZonedDayNanoseconds -- fail iff the exact result leaves ZonedDayNanoseconds::MIN..=MAX
#[verifier::external_body]
pub fn verif_try_checked_add_ZonedDayNanoseconds<R: RInto<ri64>>(x: ri64, rhs: R) -> (res: Result<ri64, Error>)
    requires rhs.rinto_req(),
    ensures res.is_ok() <==> in_ZonedDayNanoseconds(x.val + rhs.rinto_spec().val), res.is_ok() ==> res.unwrap().val == x.val + rhs.rinto_spec().val
{ unimplemented!() }
#[verifier::external_body]
pub fn verif_try_checked_sub_ZonedDayNanoseconds<R: RInto<ri64>>(x: ri64, rhs: R) -> (res: Result<ri64, Error>)
    requires rhs.rinto_req(),
    ensures res.is_ok() <==> in_ZonedDayNanoseconds(x.val - rhs.rinto_spec().val), res.is_ok() ==> res.unwrap().val == x.val - rhs.rinto_spec().val
{ unimplemented!() }
#[verifier::external_body]
pub fn verif_checked_add_ZonedDayNanoseconds<R: RInto<ri64>>(x: ri64, rhs: R) -> (res: Option<ri64>)
    requires rhs.rinto_req(),
    ensures res.is_some() <==> in_ZonedDayNanoseconds(x.val + rhs.rinto_spec().val), res.is_some() ==> res.unwrap().val == x.val + rhs.rinto_spec().val
{ unimplemented!() }
#[verifier::external_body]
pub fn verif_checked_sub_ZonedDayNanoseconds<R: RInto<ri64>>(x: ri64, rhs: R) -> (res: Option<ri64>)
    requires rhs.rinto_req(),
    ensures res.is_some() <==> in_ZonedDayNanoseconds(x.val - rhs.rinto_spec().val), res.is_some() ==> res.unwrap().val == x.val - rhs.rinto_spec().val
{ unimplemented!() }
#[verifier::external_body]
pub fn verif_checked_mul_ZonedDayNanoseconds<R: RInto<ri64>>(x: ri64, rhs: R) -> (res: Option<ri64>)
    requires rhs.rinto_req(),
    ensures res.is_some() <==> in_ZonedDayNanoseconds(x.val * rhs.rinto_spec().val), res.is_some() ==> res.unwrap().val == x.val * rhs.rinto_spec().val
{ unimplemented!() }
#[allow(non_camel_case_types)]
pub trait TryRInto_SpanYears: Sized {
    spec fn try_rinto_val(self) -> int;
    fn try_rinto(self, what: &'static str) -> (res: Result<ri16, Error>)
        ensures res.is_ok() <==> in_SpanYears(self.try_rinto_val()), res.is_ok() ==> res.unwrap().val == self.try_rinto_val();
}
impl TryRInto_SpanYears for ri8 {
    open spec fn try_rinto_val(self) -> int { self.val as int }
    fn try_rinto(self, what: &'static str) -> (res: Result<ri16, Error>) { verif_try_rfrom_SpanYears_8(self) }
}
impl TryRInto_SpanYears for ri16 {
    open spec fn try_rinto_val(self) -> int { self.val as int }
    fn try_rinto(self, what: &'static str) -> (res: Result<ri16, Error>) { verif_try_rfrom_SpanYears_16(self) }
}
impl TryRInto_SpanYears for ri32 {
    open spec fn try_rinto_val(self) -> int { self.val as int }
    fn try_rinto(self, what: &'static str) -> (res: Result<ri16, Error>) { verif_try_rfrom_SpanYears_32(self) }
}
impl TryRInto_SpanYears for ri64 {
    open spec fn try_rinto_val(self) -> int { self.val as int }
    fn try_rinto(self, what: &'static str) -> (res: Result<ri16, Error>) { verif_try_rfrom_SpanYears_64(self) }
}
impl TryRInto_SpanYears for ri128 {
    open spec fn try_rinto_val(self) -> int { self.val as int }
    fn try_rinto(self, what: &'static str) -> (res: Result<ri16, Error>) { verif_try_rfrom_SpanYears_128(self) }
}
#[allow(non_camel_case_types)]
pub trait TryRInto_SpanMonths: Sized {
    spec fn try_rinto_val(self) -> int;
    fn try_rinto(self, what: &'static str) -> (res: Result<ri32, Error>)
        ensures res.is_ok() <==> in_SpanMonths(self.try_rinto_val()), res.is_ok() ==> res.unwrap().val == self.try_rinto_val();
}
impl TryRInto_SpanMonths for ri8 {
    open spec fn try_rinto_val(self) -> int { self.val as int }
    fn try_rinto(self, what: &'static str) -> (res: Result<ri32, Error>) { verif_try_rfrom_SpanMonths_8(self) }
}
impl TryRInto_SpanMonths for ri16 {
    open spec fn try_rinto_val(self) -> int { self.val as int }
    fn try_rinto(self, what: &'static str) -> (res: Result<ri32, Error>) { verif_try_rfrom_SpanMonths_16(self) }
}
impl TryRInto_SpanMonths for ri32 {
    open spec fn try_rinto_val(self) -> int { self.val as int }
    fn try_rinto(self, what: &'static str) -> (res: Result<ri32, Error>) { verif_try_rfrom_SpanMonths_32(self) }
}
impl TryRInto_SpanMonths for ri64 {
    open spec fn try_rinto_val(self) -> int { self.val as int }
    fn try_rinto(self, what: &'static str) -> (res: Result<ri32, Error>) { verif_try_rfrom_SpanMonths_64(self) }
}
impl TryRInto_SpanMonths for ri128 {
    open spec fn try_rinto_val(self) -> int { self.val as int }
    fn try_rinto(self, what: &'static str) -> (res: Result<ri32, Error>) { verif_try_rfrom_SpanMonths_128(self) }
}
#[allow(non_camel_case_types)]
pub trait TryRInto_SpanWeeks: Sized {
    spec fn try_rinto_val(self) -> int;
    fn try_rinto(self, what: &'static str) -> (res: Result<ri32, Error>)
        ensures res.is_ok() <==> in_SpanWeeks(self.try_rinto_val()), res.is_ok() ==> res.unwrap().val == self.try_rinto_val();
}
impl TryRInto_SpanWeeks for ri8 {
    open spec fn try_rinto_val(self) -> int { self.val as int }
    fn try_rinto(self, what: &'static str) -> (res: Result<ri32, Error>) { verif_try_rfrom_SpanWeeks_8(self) }
}
impl TryRInto_SpanWeeks for ri16 {
    open spec fn try_rinto_val(self) -> int { self.val as int }
    fn try_rinto(self, what: &'static str) -> (res: Result<ri32, Error>) { verif_try_rfrom_SpanWeeks_16(self) }
}
impl TryRInto_SpanWeeks for ri32 {
    open spec fn try_rinto_val(self) -> int { self.val as int }
    fn try_rinto(self, what: &'static str) -> (res: Result<ri32, Error>) { verif_try_rfrom_SpanWeeks_32(self) }
}
impl TryRInto_SpanWeeks for ri64 {
    open spec fn try_rinto_val(self) -> int { self.val as int }
    fn try_rinto(self, what: &'static str) -> (res: Result<ri32, Error>) { verif_try_rfrom_SpanWeeks_64(self) }
}
impl TryRInto_SpanWeeks for ri128 {
    open spec fn try_rinto_val(self) -> int { self.val as int }
    fn try_rinto(self, what: &'static str) -> (res: Result<ri32, Error>) { verif_try_rfrom_SpanWeeks_128(self) }
}
#[allow(non_camel_case_types)]
pub trait TryRInto_SpanDays: Sized {
    spec fn try_rinto_val(self) -> int;
    fn try_rinto(self, what: &'static str) -> (res: Result<ri32, Error>)
        ensures res.is_ok() <==> in_SpanDays(self.try_rinto_val()), res.is_ok() ==> res.unwrap().val == self.try_rinto_val();
}
impl TryRInto_SpanDays for ri8 {
    open spec fn try_rinto_val(self) -> int { self.val as int }
    fn try_rinto(self, what: &'static str) -> (res: Result<ri32, Error>) { verif_try_rfrom_SpanDays_8(self) }
}
impl TryRInto_SpanDays for ri16 {
    open spec fn try_rinto_val(self) -> int { self.val as int }
    fn try_rinto(self, what: &'static str) -> (res: Result<ri32, Error>) { verif_try_rfrom_SpanDays_16(self) }
}
impl TryRInto_SpanDays for ri32 {
    open spec fn try_rinto_val(self) -> int { self.val as int }
    fn try_rinto(self, what: &'static str) -> (res: Result<ri32, Error>) { verif_try_rfrom_SpanDays_32(self) }
}
impl TryRInto_SpanDays for ri64 {
    open spec fn try_rinto_val(self) -> int { self.val as int }
    fn try_rinto(self, what: &'static str) -> (res: Result<ri32, Error>) { verif_try_rfrom_SpanDays_64(self) }
}
impl TryRInto_SpanDays for ri128 {
    open spec fn try_rinto_val(self) -> int { self.val as int }
    fn try_rinto(self, what: &'static str) -> (res: Result<ri32, Error>) { verif_try_rfrom_SpanDays_128(self) }
}
#[allow(non_camel_case_types)]
pub trait TryRInto_SpanHours: Sized {
    spec fn try_rinto_val(self) -> int;
    fn try_rinto(self, what: &'static str) -> (res: Result<ri32, Error>)
        ensures res.is_ok() <==> in_SpanHours(self.try_rinto_val()), res.is_ok() ==> res.unwrap().val == self.try_rinto_val();
}
impl TryRInto_SpanHours for ri8 {
    open spec fn try_rinto_val(self) -> int { self.val as int }
    fn try_rinto(self, what: &'static str) -> (res: Result<ri32, Error>) { verif_try_rfrom_SpanHours_8(self) }
}
impl TryRInto_SpanHours for ri16 {
    open spec fn try_rinto_val(self) -> int { self.val as int }
    fn try_rinto(self, what: &'static str) -> (res: Result<ri32, Error>) { verif_try_rfrom_SpanHours_16(self) }
}
impl TryRInto_SpanHours for ri32 {
    open spec fn try_rinto_val(self) -> int { self.val as int }
    fn try_rinto(self, what: &'static str) -> (res: Result<ri32, Error>) { verif_try_rfrom_SpanHours_32(self) }
}
impl TryRInto_SpanHours for ri64 {
    open spec fn try_rinto_val(self) -> int { self.val as int }
    fn try_rinto(self, what: &'static str) -> (res: Result<ri32, Error>) { verif_try_rfrom_SpanHours_64(self) }
}
impl TryRInto_SpanHours for ri128 {
    open spec fn try_rinto_val(self) -> int { self.val as int }
    fn try_rinto(self, what: &'static str) -> (res: Result<ri32, Error>) { verif_try_rfrom_SpanHours_128(self) }
}
#[allow(non_camel_case_types)]
pub trait TryRInto_SpanMinutes: Sized {
    spec fn try_rinto_val(self) -> int;
    fn try_rinto(self, what: &'static str) -> (res: Result<ri64, Error>)
        ensures res.is_ok() <==> in_SpanMinutes(self.try_rinto_val()), res.is_ok() ==> res.unwrap().val == self.try_rinto_val();
}
impl TryRInto_SpanMinutes for ri8 {
    open spec fn try_rinto_val(self) -> int { self.val as int }
    fn try_rinto(self, what: &'static str) -> (res: Result<ri64, Error>) { verif_try_rfrom_SpanMinutes_8(self) }
}
impl TryRInto_SpanMinutes for ri16 {
    open spec fn try_rinto_val(self) -> int { self.val as int }
    fn try_rinto(self, what: &'static str) -> (res: Result<ri64, Error>) { verif_try_rfrom_SpanMinutes_16(self) }
}
impl TryRInto_SpanMinutes for ri32 {
    open spec fn try_rinto_val(self) -> int { self.val as int }
    fn try_rinto(self, what: &'static str) -> (res: Result<ri64, Error>) { verif_try_rfrom_SpanMinutes_32(self) }
}
impl TryRInto_SpanMinutes for ri64 {
    open spec fn try_rinto_val(self) -> int { self.val as int }
    fn try_rinto(self, what: &'static str) -> (res: Result<ri64, Error>) { verif_try_rfrom_SpanMinutes_64(self) }
}
impl TryRInto_SpanMinutes for ri128 {
    open spec fn try_rinto_val(self) -> int { self.val as int }
    fn try_rinto(self, what: &'static str) -> (res: Result<ri64, Error>) { verif_try_rfrom_SpanMinutes_128(self) }
}
#[allow(non_camel_case_types)]
pub trait TryRInto_SpanSeconds: Sized {
    spec fn try_rinto_val(self) -> int;
    fn try_rinto(self, what: &'static str) -> (res: Result<ri64, Error>)
        ensures res.is_ok() <==> in_SpanSeconds(self.try_rinto_val()), res.is_ok() ==> res.unwrap().val == self.try_rinto_val();
}
impl TryRInto_SpanSeconds for ri8 {
    open spec fn try_rinto_val(self) -> int { self.val as int }
    fn try_rinto(self, what: &'static str) -> (res: Result<ri64, Error>) { verif_try_rfrom_SpanSeconds_8(self) }
}
impl TryRInto_SpanSeconds for ri16 {
    open spec fn try_rinto_val(self) -> int { self.val as int }
    fn try_rinto(self, what: &'static str) -> (res: Result<ri64, Error>) { verif_try_rfrom_SpanSeconds_16(self) }
}
impl TryRInto_SpanSeconds for ri32 {
    open spec fn try_rinto_val(self) -> int { self.val as int }
    fn try_rinto(self, what: &'static str) -> (res: Result<ri64, Error>) { verif_try_rfrom_SpanSeconds_32(self) }
}
impl TryRInto_SpanSeconds for ri64 {
    open spec fn try_rinto_val(self) -> int { self.val as int }
    fn try_rinto(self, what: &'static str) -> (res: Result<ri64, Error>) { verif_try_rfrom_SpanSeconds_64(self) }
}
impl TryRInto_SpanSeconds for ri128 {
    open spec fn try_rinto_val(self) -> int { self.val as int }
    fn try_rinto(self, what: &'static str) -> (res: Result<ri64, Error>) { verif_try_rfrom_SpanSeconds_128(self) }
}
#[allow(non_camel_case_types)]
pub trait TryRInto_SpanMilliseconds: Sized {
    spec fn try_rinto_val(self) -> int;
    fn try_rinto(self, what: &'static str) -> (res: Result<ri64, Error>)
        ensures res.is_ok() <==> in_SpanMilliseconds(self.try_rinto_val()), res.is_ok() ==> res.unwrap().val == self.try_rinto_val();
}
impl TryRInto_SpanMilliseconds for ri8 {
    open spec fn try_rinto_val(self) -> int { self.val as int }
    fn try_rinto(self, what: &'static str) -> (res: Result<ri64, Error>) { verif_try_rfrom_SpanMilliseconds_8(self) }
}
impl TryRInto_SpanMilliseconds for ri16 {
    open spec fn try_rinto_val(self) -> int { self.val as int }
    fn try_rinto(self, what: &'static str) -> (res: Result<ri64, Error>) { verif_try_rfrom_SpanMilliseconds_16(self) }
}
impl TryRInto_SpanMilliseconds for ri32 {
    open spec fn try_rinto_val(self) -> int { self.val as int }
    fn try_rinto(self, what: &'static str) -> (res: Result<ri64, Error>) { verif_try_rfrom_SpanMilliseconds_32(self) }
}
impl TryRInto_SpanMilliseconds for ri64 {
    open spec fn try_rinto_val(self) -> int { self.val as int }
    fn try_rinto(self, what: &'static str) -> (res: Result<ri64, Error>) { verif_try_rfrom_SpanMilliseconds_64(self) }
}
impl TryRInto_SpanMilliseconds for ri128 {
    open spec fn try_rinto_val(self) -> int { self.val as int }
    fn try_rinto(self, what: &'static str) -> (res: Result<ri64, Error>) { verif_try_rfrom_SpanMilliseconds_128(self) }
}
#[allow(non_camel_case_types)]
pub trait TryRInto_SpanMicroseconds: Sized {
    spec fn try_rinto_val(self) -> int;
    fn try_rinto(self, what: &'static str) -> (res: Result<ri64, Error>)
        ensures res.is_ok() <==> in_SpanMicroseconds(self.try_rinto_val()), res.is_ok() ==> res.unwrap().val == self.try_rinto_val();
}
impl TryRInto_SpanMicroseconds for ri8 {
    open spec fn try_rinto_val(self) -> int { self.val as int }
    fn try_rinto(self, what: &'static str) -> (res: Result<ri64, Error>) { verif_try_rfrom_SpanMicroseconds_8(self) }
}
impl TryRInto_SpanMicroseconds for ri16 {
    open spec fn try_rinto_val(self) -> int { self.val as int }
    fn try_rinto(self, what: &'static str) -> (res: Result<ri64, Error>) { verif_try_rfrom_SpanMicroseconds_16(self) }
}
impl TryRInto_SpanMicroseconds for ri32 {
    open spec fn try_rinto_val(self) -> int { self.val as int }
    fn try_rinto(self, what: &'static str) -> (res: Result<ri64, Error>) { verif_try_rfrom_SpanMicroseconds_32(self) }
}
impl TryRInto_SpanMicroseconds for ri64 {
    open spec fn try_rinto_val(self) -> int { self.val as int }
    fn try_rinto(self, what: &'static str) -> (res: Result<ri64, Error>) { verif_try_rfrom_SpanMicroseconds_64(self) }
}
impl TryRInto_SpanMicroseconds for ri128 {
    open spec fn try_rinto_val(self) -> int { self.val as int }
    fn try_rinto(self, what: &'static str) -> (res: Result<ri64, Error>) { verif_try_rfrom_SpanMicroseconds_128(self) }
}
#[allow(non_camel_case_types)]
pub trait TryRInto_SpanNanoseconds: Sized {
    spec fn try_rinto_val(self) -> int;
    fn try_rinto(self, what: &'static str) -> (res: Result<ri64, Error>)
        ensures res.is_ok() <==> in_SpanNanoseconds(self.try_rinto_val()), res.is_ok() ==> res.unwrap().val == self.try_rinto_val();
}
impl TryRInto_SpanNanoseconds for ri8 {
    open spec fn try_rinto_val(self) -> int { self.val as int }
    fn try_rinto(self, what: &'static str) -> (res: Result<ri64, Error>) { verif_try_rfrom_SpanNanoseconds_8(self) }
}
impl TryRInto_SpanNanoseconds for ri16 {
    open spec fn try_rinto_val(self) -> int { self.val as int }
    fn try_rinto(self, what: &'static str) -> (res: Result<ri64, Error>) { verif_try_rfrom_SpanNanoseconds_16(self) }
}
impl TryRInto_SpanNanoseconds for ri32 {
    open spec fn try_rinto_val(self) -> int { self.val as int }
    fn try_rinto(self, what: &'static str) -> (res: Result<ri64, Error>) { verif_try_rfrom_SpanNanoseconds_32(self) }
}
impl TryRInto_SpanNanoseconds for ri64 {
    open spec fn try_rinto_val(self) -> int { self.val as int }
    fn try_rinto(self, what: &'static str) -> (res: Result<ri64, Error>) { verif_try_rfrom_SpanNanoseconds_64(self) }
}
impl TryRInto_SpanNanoseconds for ri128 {
    open spec fn try_rinto_val(self) -> int { self.val as int }
    fn try_rinto(self, what: &'static str) -> (res: Result<ri64, Error>) { verif_try_rfrom_SpanNanoseconds_128(self) }
}
#[allow(non_camel_case_types)]
pub trait TryRInto_SpanZoneOffset: Sized {
    spec fn try_rinto_val(self) -> int;
    fn try_rinto(self, what: &'static str) -> (res: Result<ri32, Error>)
        ensures res.is_ok() <==> in_SpanZoneOffset(self.try_rinto_val()), res.is_ok() ==> res.unwrap().val == self.try_rinto_val();
}
impl TryRInto_SpanZoneOffset for ri8 {
    open spec fn try_rinto_val(self) -> int { self.val as int }
    fn try_rinto(self, what: &'static str) -> (res: Result<ri32, Error>) { verif_try_rfrom_SpanZoneOffset_8(self) }
}
impl TryRInto_SpanZoneOffset for ri16 {
    open spec fn try_rinto_val(self) -> int { self.val as int }
    fn try_rinto(self, what: &'static str) -> (res: Result<ri32, Error>) { verif_try_rfrom_SpanZoneOffset_16(self) }
}
impl TryRInto_SpanZoneOffset for ri32 {
    open spec fn try_rinto_val(self) -> int { self.val as int }
    fn try_rinto(self, what: &'static str) -> (res: Result<ri32, Error>) { verif_try_rfrom_SpanZoneOffset_32(self) }
}
impl TryRInto_SpanZoneOffset for ri64 {
    open spec fn try_rinto_val(self) -> int { self.val as int }
    fn try_rinto(self, what: &'static str) -> (res: Result<ri32, Error>) { verif_try_rfrom_SpanZoneOffset_64(self) }
}
impl TryRInto_SpanZoneOffset for ri128 {
    open spec fn try_rinto_val(self) -> int { self.val as int }
    fn try_rinto(self, what: &'static str) -> (res: Result<ri32, Error>) { verif_try_rfrom_SpanZoneOffset_128(self) }
}

// ---- include lib/rangeint_ext_spanround.vrs ----
// Hand-written extension of the rangeint model (lib/rangeint.vrs) for unit `spanround`.
// Same style as the generated file.  Nothing in this file is trusted: every function has a body that Verus checks
// (against the generated model), so there is no new obligation for Kani.

// ---- (S1) `i64::from(x)` / `x.into()` for a ranged integer x passed to an `I: Into<i64>` parameter (`Span::try_seconds(secs.rem_ceil(..))`
//           in Span::from_invariant_nanoseconds, Unit::Minute arm).  Release mode (src/util/rangeint.rs:1050-1104): widening for ri8..ri64,
//           `x.val as i64` for ri128 -- truncation is a precondition here, i.e. an obligation for the caller.  Same as E5 of rangeint_ext_civiladd.vrs.
pub trait VerifIntoI64: Sized {
    spec fn into_i64_req(self) -> bool;
    spec fn into_i64_spec(self) -> i64;
    fn verif_into_i64(self) -> (r: i64) requires self.into_i64_req() ensures r == self.into_i64_spec();
}
impl VerifIntoI64 for i64 {
    open spec fn into_i64_req(self) -> bool { true }
    open spec fn into_i64_spec(self) -> i64 { self }
    fn verif_into_i64(self) -> (r: i64) { self }
}
impl VerifIntoI64 for ri64 {
    open spec fn into_i64_req(self) -> bool { true }
    open spec fn into_i64_spec(self) -> i64 { self.val }
    fn verif_into_i64(self) -> (r: i64) { self.val }
}
impl VerifIntoI64 for ri128 {
    open spec fn into_i64_req(self) -> bool { i64::MIN <= self.val <= i64::MAX }
    open spec fn into_i64_spec(self) -> i64 { self.val as i64 }
    fn verif_into_i64(self) -> (r: i64) { self.val as i64 }
}

// ---- include lib/tdiv.vrs ----
pub proof fn lemma_tdiv(q: int, inc: int)
    requires inc > 0,
    ensures q == tdiv(q, inc) * inc + trem(q, inc), -inc < trem(q, inc) < inc,
            q >= 0 ==> 0 <= trem(q, inc) <= q, q <= 0 ==> q <= trem(q, inc) <= 0,
            -0x4000_0000_0000_0000_0000_0000 <= q <= 0x4000_0000_0000_0000_0000_0000 ==> -0x4000_0000_0000_0000_0000_0000 <= tdiv(q, inc) <= 0x4000_0000_0000_0000_0000_0000,
{
    if q >= 0 {
        vstd::arithmetic::div_mod::lemma_fundamental_div_mod(q, inc);
        vstd::arithmetic::div_mod::lemma_mod_bound(q, inc);
        assert(inc * (q / inc) == (q / inc) * inc) by (nonlinear_arith);
        assert(0 <= q / inc <= q) by (nonlinear_arith) requires q >= 0, inc > 0, q == inc * (q / inc) + q % inc, 0 <= q % inc < inc;
    } else {
        let p = -q;
        vstd::arithmetic::div_mod::lemma_fundamental_div_mod(p, inc);
        vstd::arithmetic::div_mod::lemma_mod_bound(p, inc);
        assert(inc * (p / inc) == (p / inc) * inc) by (nonlinear_arith);
        assert((-(p / inc)) * inc == -((p / inc) * inc)) by (nonlinear_arith);
        assert(0 <= p / inc <= p) by (nonlinear_arith) requires p >= 0, inc > 0, p == inc * (p / inc) + p % inc, 0 <= p % inc < inc;
    }
}

// ---- include lib/roundspec.vrs ----
// C10: what "rounding q to a multiple of inc under mode" means, from the property statement.
pub open spec fn is_half(mode: RoundMode) -> bool {
    mode == RoundMode::HalfCeil || mode == RoundMode::HalfFloor || mode == RoundMode::HalfExpand || mode == RoundMode::HalfTrunc || mode == RoundMode::HalfEven
}
pub open spec fn is_tie(q: int, inc: int, r: int) -> bool { 2 * (r - q) == inc || 2 * (r - q) == -inc }
pub open spec fn round_ok(mode: RoundMode, q: int, inc: int, r: int) -> bool {
    &&& r % inc == 0                                   // whole multiple of the increment
    &&& -inc < r - q < inc                             // differs by less than one increment
    &&& (mode == RoundMode::Ceil ==> r >= q)
    &&& (mode == RoundMode::Floor ==> r <= q)
    &&& (mode == RoundMode::Trunc ==> (if q >= 0 { 0 <= r <= q } else { q <= r <= 0 }))
    &&& (mode == RoundMode::Expand ==> (if q >= 0 { r >= q } else { r <= q }))
    &&& (is_half(mode) ==> -inc <= 2 * (r - q) <= inc)           // nearest
    &&& (mode == RoundMode::HalfCeil && is_tie(q, inc, r) ==> r > q)
    &&& (mode == RoundMode::HalfFloor && is_tie(q, inc, r) ==> r < q)
    &&& (mode == RoundMode::HalfExpand && is_tie(q, inc, r) ==> (if q >= 0 { r > q } else { r < q }))
    &&& (mode == RoundMode::HalfTrunc && is_tie(q, inc, r) ==> (if q >= 0 { r < q } else { r > q }))
    &&& (mode == RoundMode::HalfEven && is_tie(q, inc, r) ==> r % (2 * inc) == 0)
}
// the rounded value is unique: any two results satisfying round_ok coincide (so round_ok *defines* rounding)
pub proof fn lemma_round_unique(mode: RoundMode, q: int, inc: int, r1: int, r2: int)
    requires inc > 0, round_ok(mode, q, inc, r1), round_ok(mode, q, inc, r2),
    ensures r1 == r2,
{
    // both are multiples of inc within (q - inc, q + inc): they are equal or differ by exactly inc
    let k1 = r1 / inc; let k2 = r2 / inc;
    vstd::arithmetic::div_mod::lemma_fundamental_div_mod(r1, inc);
    vstd::arithmetic::div_mod::lemma_fundamental_div_mod(r2, inc);
    assert(r1 == inc * k1 && r2 == inc * k2);
    if r1 != r2 {
        assert(-2 * inc < r1 - r2 < 2 * inc);
        assert(r1 - r2 == inc * (k1 - k2)) by (nonlinear_arith) requires r1 == inc * k1, r2 == inc * k2;
        assert(k1 - k2 == 1 || k1 - k2 == -1) by (nonlinear_arith) requires r1 - r2 == inc * (k1 - k2), -2 * inc < r1 - r2 < 2 * inc, inc > 0, r1 != r2;
        let lo = if r1 < r2 { r1 } else { r2 };
        let hi = if r1 < r2 { r2 } else { r1 };
        if k1 - k2 == 1 { assert(r1 - r2 == inc) by (nonlinear_arith) requires r1 - r2 == inc * (k1 - k2), k1 - k2 == 1; }
        else { assert(r1 - r2 == -inc) by (nonlinear_arith) requires r1 - r2 == inc * (k1 - k2), k1 - k2 == -1; }
        assert(hi - lo == inc);
        // q lies strictly between lo and hi (both within inc of q and q is not a multiple, else r==q forced)
        assert(lo < q < hi || q == lo || q == hi);
        if q == lo || q == hi { assert(false); }   // then the other one is a full increment away
        if mode == RoundMode::HalfEven && is_tie(q, inc, r1) {
            // consecutive multiples of inc cannot both be multiples of 2*inc
            let klo = lo / inc;
            vstd::arithmetic::div_mod::lemma_fundamental_div_mod(lo, inc);
            assert(lo % inc == 0 && hi % inc == 0);
            assert(false) by {
                vstd::arithmetic::div_mod::lemma_fundamental_div_mod(lo, 2 * inc);
                vstd::arithmetic::div_mod::lemma_fundamental_div_mod(hi, 2 * inc);
                let a = lo / (2 * inc); let b = hi / (2 * inc);
                assert(lo == (2 * inc) * a && hi == (2 * inc) * b);
                assert(hi - lo == (2 * inc) * (b - a)) by (nonlinear_arith) requires lo == (2 * inc) * a, hi == (2 * inc) * b;
                assert(false) by (nonlinear_arith) requires hi - lo == inc, hi - lo == (2 * inc) * (b - a), inc > 0;
            }
        }
    }
}

// constants of src/util/t.rs (values re-checked against the real constants by Kani: c10_model::constants)
pub const NANOS_PER_MICRO: Constant = Constant(1_000);
pub const NANOS_PER_MILLI: Constant = Constant(1_000_000);
pub const NANOS_PER_SECOND: Constant = Constant(1_000_000_000);
pub const NANOS_PER_MINUTE: Constant = Constant(60_000_000_000);
pub const NANOS_PER_HOUR: Constant = Constant(3_600_000_000_000);
pub const NANOS_PER_CIVIL_DAY: Constant = Constant(86_400_000_000_000);
pub const NANOS_PER_CIVIL_WEEK: Constant = Constant(604_800_000_000_000);
// (the next six are read off src/util/t.rs:426-479; NOT yet in the Kani harness model_constants -- to be added there)
pub const MICROS_PER_MILLI: Constant = Constant(1_000);
pub const MILLIS_PER_SECOND: Constant = Constant(1_000);
pub const SECONDS_PER_MINUTE: Constant = Constant(60);
pub const MINUTES_PER_HOUR: Constant = Constant(60);
pub const HOURS_PER_CIVIL_DAY: Constant = Constant(24);
pub const DAYS_PER_CIVIL_WEEK: Constant = Constant(7);

pub trait VerifCtx: Sized { fn verif_with_context(self) -> Self; }
impl<T> VerifCtx for Result<T, Error> {
    #[verifier::external_body]
    fn verif_with_context(self) -> (r: Self) ensures r.is_ok() == self.is_ok(), self.is_ok() ==> r.unwrap() == self.unwrap() { unimplemented!() }
}

// derived `PartialOrd` on the fieldless enum Unit = order of discriminants (same trusted view as in rounders.vrs / span.vrs; Kani: c10_model::unit_order)
pub open spec fn unit_rank(u: Unit) -> int {
    match u { Unit::Year => 9, Unit::Month => 8, Unit::Week => 7, Unit::Day => 6, Unit::Hour => 5, Unit::Minute => 4,
              Unit::Second => 3, Unit::Millisecond => 2, Unit::Microsecond => 1, Unit::Nanosecond => 0 }
}
impl PartialOrdSpecImpl for Unit {
    open spec fn obeys_partial_cmp_spec() -> bool { true }
    open spec fn partial_cmp_spec(&self, other: &Unit) -> Option<Ordering> { Some(int_cmp(unit_rank(*self), unit_rank(*other))) }
}
impl PartialOrd for Unit {
    #[verifier::external_body]
    fn partial_cmp(&self, other: &Unit) -> Option<Ordering> { unimplemented!() }
}
/// nanoseconds in one `u` for the uniform units (rounders.vrs)
pub open spec fn unit_ns(u: Unit) -> int {
    match u { Unit::Nanosecond => 1, Unit::Microsecond => 1_000, Unit::Millisecond => 1_000_000, Unit::Second => 1_000_000_000,
              Unit::Minute => 60_000_000_000, Unit::Hour => 3_600_000_000_000, Unit::Day => 86_400_000_000_000, Unit::Week => 604_800_000_000_000,
              _ => 0 }
}
/// the rounding increment in nanoseconds: `increment` units of `smallest` (a name for the product, so that proofs can keep it folded)
pub open spec fn inc_ns(smallest: Unit, increment: int) -> int { unit_ns(smallest) * increment }

// ---- the abstract value of a span: ten signed integers (definitions of span.vrs, C12) ----------------------------------------
pub struct SV { pub y: int, pub mo: int, pub w: int, pub d: int, pub h: int, pub mi: int, pub s: int, pub ms: int, pub us: int, pub ns: int }
pub open spec fn iabs(a: int) -> int { if a < 0 { -a } else { a } }
pub open spec fn isgn(a: int) -> int { if a < 0 { -1 } else if a > 0 { 1 } else { 0 } }
pub open spec fn smul(s: int, m: int) -> int { if s > 0 { m } else if s < 0 { -m } else { 0 } }
pub open spec fn sv_zero() -> SV { SV { y: 0, mo: 0, w: 0, d: 0, h: 0, mi: 0, s: 0, ms: 0, us: 0, ns: 0 } }
pub open spec fn sv_get(a: SV, j: int) -> int {
    if j == 9 { a.y } else if j == 8 { a.mo } else if j == 7 { a.w } else if j == 6 { a.d } else if j == 5 { a.h } else if j == 4 { a.mi }
    else if j == 3 { a.s } else if j == 2 { a.ms } else if j == 1 { a.us } else if j == 0 { a.ns } else { 0 }
}
pub open spec fn sv_put(a: SV, j: int, x: int) -> SV {
    SV { y: if j == 9 { x } else { a.y }, mo: if j == 8 { x } else { a.mo }, w: if j == 7 { x } else { a.w }, d: if j == 6 { x } else { a.d },
         h: if j == 5 { x } else { a.h }, mi: if j == 4 { x } else { a.mi }, s: if j == 3 { x } else { a.s }, ms: if j == 2 { x } else { a.ms },
         us: if j == 1 { x } else { a.us }, ns: if j == 0 { x } else { a.ns } }
}
pub open spec fn sv_abs(a: SV) -> SV {
    SV { y: iabs(a.y), mo: iabs(a.mo), w: iabs(a.w), d: iabs(a.d), h: iabs(a.h), mi: iabs(a.mi), s: iabs(a.s), ms: iabs(a.ms), us: iabs(a.us), ns: iabs(a.ns) }
}
pub open spec fn sv_signed(s: int, a: SV) -> SV {
    SV { y: smul(s, a.y), mo: smul(s, a.mo), w: smul(s, a.w), d: smul(s, a.d), h: smul(s, a.h), mi: smul(s, a.mi), s: smul(s, a.s), ms: smul(s, a.ms), us: smul(s, a.us), ns: smul(s, a.ns) }
}
pub open spec fn sv_is_zero(a: SV) -> bool { a == sv_zero() }
pub open spec fn sv_nonneg(a: SV) -> bool { a.y >= 0 && a.mo >= 0 && a.w >= 0 && a.d >= 0 && a.h >= 0 && a.mi >= 0 && a.s >= 0 && a.ms >= 0 && a.us >= 0 && a.ns >= 0 }
pub open spec fn sv_nonpos(a: SV) -> bool { a.y <= 0 && a.mo <= 0 && a.w <= 0 && a.d <= 0 && a.h <= 0 && a.mi <= 0 && a.s <= 0 && a.ms <= 0 && a.us <= 0 && a.ns <= 0 }
/// -1 if some unit is negative, 1 if none is negative and some is positive, 0 otherwise
pub open spec fn sv_sign(a: SV) -> int { if !sv_nonneg(a) { -1 } else if sv_is_zero(a) { 0 } else { 1 } }
/// "all its non-zero units always share one sign"
pub open spec fn sv_one_sign(a: SV) -> bool { sv_nonneg(a) || sv_nonpos(a) }
pub open spec fn sv_in_limits(a: SV) -> bool {
    in_SpanYears(a.y) && in_SpanMonths(a.mo) && in_SpanWeeks(a.w) && in_SpanDays(a.d) && in_SpanHours(a.h) && in_SpanMinutes(a.mi)
    && in_SpanSeconds(a.s) && in_SpanMilliseconds(a.ms) && in_SpanMicroseconds(a.us) && in_SpanNanoseconds(a.ns)
}
pub open spec fn in_limit(j: int, v: int) -> bool {
    if j == 9 { in_SpanYears(v) } else if j == 8 { in_SpanMonths(v) } else if j == 7 { in_SpanWeeks(v) } else if j == 6 { in_SpanDays(v) }
    else if j == 5 { in_SpanHours(v) } else if j == 4 { in_SpanMinutes(v) } else if j == 3 { in_SpanSeconds(v) } else if j == 2 { in_SpanMilliseconds(v) }
    else if j == 1 { in_SpanMicroseconds(v) } else { in_SpanNanoseconds(v) }
}
/// jiff's rule for `span.<unit>(v)` (span.vrs): the unit's magnitude becomes |v|, the others are kept; a negative v makes the span negative, otherwise an
/// all-zero span is zero, otherwise a span that was zero becomes positive, otherwise the sign is kept
pub open spec fn spec_set(a: SV, j: int, v: int) -> SV {
    let m = sv_put(sv_abs(a), j, iabs(v));
    let sg = if v < 0 { -1 } else if sv_is_zero(m) { 0 } else if sv_is_zero(a) { 1 } else { sv_sign(a) };
    sv_signed(sg, m)
}
pub open spec fn sv_ok(a: SV) -> bool { sv_one_sign(a) && sv_in_limits(a) }
/// units of rank < lo zeroed (Span::without_lower) / units of rank >= lo zeroed (Span::only_lower)
pub open spec fn sv_from(a: SV, lo: int) -> SV {
    SV { y: if 9 < lo { 0 } else { a.y }, mo: if 8 < lo { 0 } else { a.mo }, w: if 7 < lo { 0 } else { a.w }, d: if 6 < lo { 0 } else { a.d }, h: if 5 < lo { 0 } else { a.h },
         mi: if 4 < lo { 0 } else { a.mi }, s: if 3 < lo { 0 } else { a.s }, ms: if 2 < lo { 0 } else { a.ms }, us: if 1 < lo { 0 } else { a.us }, ns: if 0 < lo { 0 } else { a.ns } }
}
pub open spec fn sv_below(a: SV, lo: int) -> SV {
    SV { y: if 9 >= lo { 0 } else { a.y }, mo: if 8 >= lo { 0 } else { a.mo }, w: if 7 >= lo { 0 } else { a.w }, d: if 6 >= lo { 0 } else { a.d }, h: if 5 >= lo { 0 } else { a.h },
         mi: if 4 >= lo { 0 } else { a.mi }, s: if 3 >= lo { 0 } else { a.s }, ms: if 2 >= lo { 0 } else { a.ms }, us: if 1 >= lo { 0 } else { a.us }, ns: if 0 >= lo { 0 } else { a.ns } }
}
/// the largest unit with a non-zero value (rank), 0 for the zero span
pub open spec fn sv_top(a: SV) -> int {
    if a.y != 0 { 9 } else if a.mo != 0 { 8 } else if a.w != 0 { 7 } else if a.d != 0 { 6 } else if a.h != 0 { 5 } else if a.mi != 0 { 4 }
    else if a.s != 0 { 3 } else if a.ms != 0 { 2 } else if a.us != 0 { 1 } else { 0 }
}

// ---- C11 specification: spans of uniform units as exact nanosecond counts -------------------------------------------------------
/// hours..nanoseconds in nanoseconds
pub open spec fn time_ns(a: SV) -> int {
    a.h * 3_600_000_000_000 + a.mi * 60_000_000_000 + a.s * 1_000_000_000 + a.ms * 1_000_000 + a.us * 1_000 + a.ns
}
/// the duration denoted by the uniform units: weeks = 7 x 24 h, days = 24 h; years and months do not count
pub open spec fn inv_ns(a: SV) -> int { a.w * 604_800_000_000_000 + a.d * 86_400_000_000_000 + time_ns(a) }
/// nanoseconds in one unit of rank j (== unit_ns of that unit), ranks 0..=7
pub open spec fn rank_ns(j: int) -> int {
    if j == 0 { 1 } else if j == 1 { 1_000 } else if j == 2 { 1_000_000 } else if j == 3 { 1_000_000_000 } else if j == 4 { 60_000_000_000 }
    else if j == 5 { 3_600_000_000_000 } else if j == 6 { 86_400_000_000_000 } else if j == 7 { 604_800_000_000_000 } else { 0 }
}
/// how many units of rank j make one unit of rank j + 1
pub open spec fn carry(j: int) -> int { if j <= 2 { 1_000 } else if j <= 4 { 60 } else if j == 5 { 24 } else { 7 } }
/// the largest unit Span::from_invariant_nanoseconds fills for `largest`: Year and Month are treated as Day
pub open spec fn top_rank(largest: Unit) -> int { if unit_rank(largest) >= 8 { 6 } else { unit_rank(largest) } }
/// n nanoseconds counted in whole units of rank j, truncated toward zero
pub open spec fn quot(n: int, j: int) -> int { tdiv(n, rank_ns(j)) }
/// n nanoseconds balanced up to the unit of rank `top`: the top unit takes the whole count, every lower unit the remainder below its carry limit
pub open spec fn bal_unit(n: int, top: int, j: int) -> int {
    if j > top { 0 } else if j == top { quot(n, j) } else { trem(quot(n, j), carry(j)) }
}
pub open spec fn bal(n: int, top: int) -> SV {
    SV { y: 0, mo: 0, w: bal_unit(n, top, 7), d: bal_unit(n, top, 6), h: bal_unit(n, top, 5), mi: bal_unit(n, top, 4), s: bal_unit(n, top, 3),
         ms: bal_unit(n, top, 2), us: bal_unit(n, top, 1), ns: bal_unit(n, top, 0) }
}
/// every unit below `top` is below its carry limit
pub open spec fn carried(a: SV, top: int) -> bool {
    &&& (0 < top ==> -1_000 < a.ns < 1_000) && (1 < top ==> -1_000 < a.us < 1_000) && (2 < top ==> -1_000 < a.ms < 1_000)
    &&& (3 < top ==> -60 < a.s < 60) && (4 < top ==> -60 < a.mi < 60) && (5 < top ==> -24 < a.h < 24) && (6 < top ==> -7 < a.d < 7)
}
/// "a exactly denotes n nanoseconds, balanced up to the unit of rank top": conservation, no unit above top, carry limits, one sign (that of n)
pub open spec fn balanced_as(a: SV, n: int, top: int) -> bool {
    &&& inv_ns(a) == n
    &&& a.y == 0 && a.mo == 0 && sv_top(a) <= top
    &&& carried(a, top)
    &&& (n >= 0 ==> sv_nonneg(a)) && (n <= 0 ==> sv_nonpos(a))
}
/// *the* multiple of inc that `mode` prescribes for q (unique: lemma_round_unique)
pub open spec fn rnd(mode: RoundMode, q: int, inc: int) -> int { choose|x: int| round_ok(mode, q, inc, x) }

pub proof fn lemma_rnd(mode: RoundMode, q: int, inc: int, x: int)
    requires inc > 0, round_ok(mode, q, inc, x),
    ensures rnd(mode, q, inc) == x, round_ok(mode, q, inc, rnd(mode, q, inc)),
{
    lemma_round_unique(mode, q, inc, rnd(mode, q, inc), x);
}
/// rounding never changes the sign
#[verifier::spinoff_prover]
pub proof fn lemma_round_sign(mode: RoundMode, q: int, inc: int, x: int)
    requires inc > 0, round_ok(mode, q, inc, x),
    ensures q >= 0 ==> x >= 0, q <= 0 ==> x <= 0, q - inc < x < q + inc, x % inc == 0,
{
    let k = x / inc;
    vstd::arithmetic::div_mod::lemma_fundamental_div_mod(x, inc);
    assert(x == inc * k);
    if q >= 0 { assert(k >= 0) by (nonlinear_arith) requires x == inc * k, x > -inc, inc > 0; assert(x >= 0) by (nonlinear_arith) requires x == inc * k, k >= 0, inc > 0; }
    if q <= 0 { assert(k <= 0) by (nonlinear_arith) requires x == inc * k, x < inc, inc > 0; assert(x <= 0) by (nonlinear_arith) requires x == inc * k, k <= 0, inc > 0; }
}
/// what `span.<unit>(v)` stores in that unit: v, except that a positive v put on a negative span is taken as a magnitude
pub open spec fn set_val(a: SV, v: int) -> int { if v > 0 && !sv_nonneg(a) { -v } else { v } }
/// unless a negative value is put on a positive span (which flips the other units), a setter replaces its unit and nothing else
pub proof fn lemma_set(a: SV, j: int, v: int)
    requires 0 <= j <= 9, sv_one_sign(a), v < 0 ==> sv_nonpos(a),
    ensures spec_set(a, j, v) == sv_put(a, j, set_val(a, v)),
{
}
pub proof fn lemma_set_all()
    ensures forall|a: SV, j: int, v: int| 0 <= j <= 9 && sv_one_sign(a) && (v < 0 ==> sv_nonpos(a)) ==> #[trigger] spec_set(a, j, v) == sv_put(a, j, set_val(a, v)),
{
    assert forall|a: SV, j: int, v: int| 0 <= j <= 9 && sv_one_sign(a) && (v < 0 ==> sv_nonpos(a)) implies #[trigger] spec_set(a, j, v) == sv_put(a, j, set_val(a, v)) by { lemma_set(a, j, v); }
}
/// one step of the chain of truncating divisions: tdiv(tdiv(n, a), b) == tdiv(n, a * b)
pub proof fn lemma_tdiv_step(n: int, a: int, b: int)
    requires a > 0, b > 0,
    ensures tdiv(tdiv(n, a), b) == tdiv(n, a * b), a * b > 0,
{
    assert(a * b > 0) by (nonlinear_arith) requires a > 0, b > 0;
    if n >= 0 {
        vstd::arithmetic::div_mod::lemma_div_denominator(n, a, b);
        vstd::arithmetic::div_mod::lemma_div_pos_is_pos(n, a);
    } else {
        vstd::arithmetic::div_mod::lemma_div_denominator(-n, a, b);
        vstd::arithmetic::div_mod::lemma_div_pos_is_pos(-n, a);
    }
}
/// the quotients Span::from_invariant_nanoseconds computes one after the other are the direct quotients
#[verifier::spinoff_prover]
pub proof fn lemma_quot_chain(n: int)
    ensures quot(n, 0) == n, quot(n, 1) == tdiv(n, 1_000), quot(n, 2) == tdiv(quot(n, 1), 1_000), quot(n, 3) == tdiv(quot(n, 2), 1_000), quot(n, 4) == tdiv(quot(n, 3), 60),
            quot(n, 5) == tdiv(quot(n, 4), 60), quot(n, 6) == tdiv(quot(n, 5), 24), quot(n, 7) == tdiv(quot(n, 6), 7),
{
    lemma_tdiv_step(n, 1_000, 1_000); lemma_tdiv_step(n, 1_000_000, 1_000); lemma_tdiv_step(n, 1_000_000_000, 60); lemma_tdiv_step(n, 60_000_000_000, 60);
    lemma_tdiv_step(n, 3_600_000_000_000, 24); lemma_tdiv_step(n, 86_400_000_000_000, 7);
}
/// every step of the chain: remainders below the carry limit, everything of n's sign
pub open spec fn chain_facts(n: int) -> bool {
    &&& forall|j: int| 0 <= j <= 6 ==> -carry(j) < #[trigger] trem(quot(n, j), carry(j)) < carry(j)
    &&& (n >= 0 ==> forall|j: int| 0 <= j <= 7 ==> #[trigger] quot(n, j) >= 0)
    &&& (n <= 0 ==> forall|j: int| 0 <= j <= 7 ==> #[trigger] quot(n, j) <= 0)
    &&& (n >= 0 ==> forall|j: int| 0 <= j <= 6 ==> #[trigger] trem(quot(n, j), carry(j)) >= 0)
    &&& (n <= 0 ==> forall|j: int| 0 <= j <= 6 ==> #[trigger] trem(quot(n, j), carry(j)) <= 0)
}
#[verifier::spinoff_prover]
pub proof fn lemma_chain(n: int)
    ensures chain_facts(n),
            quot(n, 0) == n, quot(n, 1) == tdiv(n, 1_000), quot(n, 2) == tdiv(quot(n, 1), 1_000), quot(n, 3) == tdiv(quot(n, 2), 1_000), quot(n, 4) == tdiv(quot(n, 3), 60),
            quot(n, 5) == tdiv(quot(n, 4), 60), quot(n, 6) == tdiv(quot(n, 5), 24), quot(n, 7) == tdiv(quot(n, 6), 7),
{
    lemma_quot_chain(n);
    lemma_tdiv(n, 1_000); lemma_tdiv(quot(n, 1), 1_000); lemma_tdiv(quot(n, 2), 1_000); lemma_tdiv(quot(n, 3), 60); lemma_tdiv(quot(n, 4), 60); lemma_tdiv(quot(n, 5), 24); lemma_tdiv(quot(n, 6), 7);
    assert forall|j: int| 0 <= j <= 6 implies -carry(j) < #[trigger] trem(quot(n, j), carry(j)) < carry(j) by {
        if j == 0 {} else if j == 1 {} else if j == 2 {} else if j == 3 {} else if j == 4 {} else if j == 5 {} else {}
    }
}
/// the balanced form denotes n: conservation, carry limits, one sign
#[verifier::spinoff_prover]
pub proof fn lemma_bal(n: int, top: int)
    requires 0 <= top <= 7,
    ensures balanced_as(bal(n, top), n, top), sv_one_sign(bal(n, top)),
{
    lemma_quot_chain(n);
    lemma_tdiv(n, 1_000); lemma_tdiv(quot(n, 1), 1_000); lemma_tdiv(quot(n, 2), 1_000); lemma_tdiv(quot(n, 3), 60); lemma_tdiv(quot(n, 4), 60); lemma_tdiv(quot(n, 5), 24); lemma_tdiv(quot(n, 6), 7);
}
/// the uniform units of a well-formed span denote less than 2^83 ns
#[verifier::spinoff_prover]
pub proof fn lemma_inv_bound(a: SV)
    requires sv_ok(a),
    ensures -0x8_0000_0000_0000_0000_0000 <= inv_ns(a) <= 0x8_0000_0000_0000_0000_0000, -0x8_0000_0000_0000_0000_0000 <= time_ns(a) <= 0x8_0000_0000_0000_0000_0000,
            sv_nonneg(a) ==> inv_ns(a) >= 0 && time_ns(a) >= 0, sv_nonpos(a) ==> inv_ns(a) <= 0 && time_ns(a) <= 0,
            time_ns(sv_below(a, 6)) == time_ns(a), inv_ns(sv_below(a, 6)) == time_ns(a),
{
}

// ---- Span: opaque, view = ten signed integers.  Contracts of span.vrs (C12), where `wf(s)` implies sv_ok(view(s)) (lemma_view) -----------------
#[verifier::external_body]
#[derive(Clone, Copy)]
pub struct Span { _p: () }
pub uninterp spec fn span_view(s: Span) -> SV;
/// type invariant of Span as far as this unit needs it: one sign, every unit within its documented limit
pub open spec fn span_wf(s: Span) -> bool { sv_ok(span_view(s)) }
impl Span {
    #[verifier::external_body]
    pub fn new() -> (r: Span) ensures span_wf(r), span_view(r) == sv_zero() { unimplemented!() }
    #[verifier::external_body]
    pub fn get_sign_ranged(&self) -> (r: Sign) requires span_wf(*self) ensures r.val == sv_sign(span_view(*self)) { unimplemented!() }
    #[verifier::external_body]
    pub fn get_years_ranged(&self) -> (r: SpanYears) requires span_wf(*self) ensures r.val == span_view(*self).y { unimplemented!() }
    #[verifier::external_body]
    pub fn get_months_ranged(&self) -> (r: SpanMonths) requires span_wf(*self) ensures r.val == span_view(*self).mo { unimplemented!() }
    #[verifier::external_body]
    pub fn get_weeks_ranged(&self) -> (r: SpanWeeks) requires span_wf(*self) ensures r.val == span_view(*self).w { unimplemented!() }
    #[verifier::external_body]
    pub fn get_days_ranged(&self) -> (r: SpanDays) requires span_wf(*self) ensures r.val == span_view(*self).d { unimplemented!() }
    #[verifier::external_body]
    pub fn get_hours_ranged(&self) -> (r: SpanHours) requires span_wf(*self) ensures r.val == span_view(*self).h { unimplemented!() }
    #[verifier::external_body]
    pub fn get_minutes_ranged(&self) -> (r: SpanMinutes) requires span_wf(*self) ensures r.val == span_view(*self).mi { unimplemented!() }
    #[verifier::external_body]
    pub fn get_seconds_ranged(&self) -> (r: SpanSeconds) requires span_wf(*self) ensures r.val == span_view(*self).s { unimplemented!() }
    #[verifier::external_body]
    pub fn get_milliseconds_ranged(&self) -> (r: SpanMilliseconds) requires span_wf(*self) ensures r.val == span_view(*self).ms { unimplemented!() }
    #[verifier::external_body]
    pub fn get_microseconds_ranged(&self) -> (r: SpanMicroseconds) requires span_wf(*self) ensures r.val == span_view(*self).us { unimplemented!() }
    #[verifier::external_body]
    pub fn get_nanoseconds_ranged(&self) -> (r: SpanNanoseconds) requires span_wf(*self) ensures r.val == span_view(*self).ns { unimplemented!() }
    // infallible setters: the argument's alias is the unit's limit
    #[verifier::external_body]
    pub fn years_ranged(self, years: SpanYears) -> (r: Span) requires span_wf(self), in_SpanYears(years.val as int)
        ensures span_wf(r), span_view(r) == spec_set(span_view(self), 9, years.val as int) { unimplemented!() }
    #[verifier::external_body]
    pub fn months_ranged(self, months: SpanMonths) -> (r: Span) requires span_wf(self), in_SpanMonths(months.val as int)
        ensures span_wf(r), span_view(r) == spec_set(span_view(self), 8, months.val as int) { unimplemented!() }
    #[verifier::external_body]
    pub fn weeks_ranged(self, weeks: SpanWeeks) -> (r: Span) requires span_wf(self), in_SpanWeeks(weeks.val as int)
        ensures span_wf(r), span_view(r) == spec_set(span_view(self), 7, weeks.val as int) { unimplemented!() }
    #[verifier::external_body]
    pub fn days_ranged(self, days: SpanDays) -> (r: Span) requires span_wf(self), in_SpanDays(days.val as int)
        ensures span_wf(r), span_view(r) == spec_set(span_view(self), 6, days.val as int) { unimplemented!() }
    // fallible setters taking any ranged integer
    #[verifier::external_body]
    pub fn try_days_ranged(self, days: impl TryRInto_SpanDays) -> (r: Result<Span, Error>) requires span_wf(self)
        ensures r.is_ok() <==> in_SpanDays(days.try_rinto_val()), r.is_ok() ==> span_wf(r.unwrap()) && span_view(r.unwrap()) == spec_set(span_view(self), 6, days.try_rinto_val()) { unimplemented!() }
    #[verifier::external_body]
    pub fn try_hours_ranged(self, hours: impl TryRInto_SpanHours) -> (r: Result<Span, Error>) requires span_wf(self)
        ensures r.is_ok() <==> in_SpanHours(hours.try_rinto_val()), r.is_ok() ==> span_wf(r.unwrap()) && span_view(r.unwrap()) == spec_set(span_view(self), 5, hours.try_rinto_val()) { unimplemented!() }
    #[verifier::external_body]
    pub fn try_minutes_ranged(self, minutes: impl TryRInto_SpanMinutes) -> (r: Result<Span, Error>) requires span_wf(self)
        ensures r.is_ok() <==> in_SpanMinutes(minutes.try_rinto_val()), r.is_ok() ==> span_wf(r.unwrap()) && span_view(r.unwrap()) == spec_set(span_view(self), 4, minutes.try_rinto_val()) { unimplemented!() }
    #[verifier::external_body]
    pub fn try_seconds_ranged(self, seconds: impl TryRInto_SpanSeconds) -> (r: Result<Span, Error>) requires span_wf(self)
        ensures r.is_ok() <==> in_SpanSeconds(seconds.try_rinto_val()), r.is_ok() ==> span_wf(r.unwrap()) && span_view(r.unwrap()) == spec_set(span_view(self), 3, seconds.try_rinto_val()) { unimplemented!() }
    #[verifier::external_body]
    pub fn try_milliseconds_ranged(self, milliseconds: impl TryRInto_SpanMilliseconds) -> (r: Result<Span, Error>) requires span_wf(self)
        ensures r.is_ok() <==> in_SpanMilliseconds(milliseconds.try_rinto_val()), r.is_ok() ==> span_wf(r.unwrap()) && span_view(r.unwrap()) == spec_set(span_view(self), 2, milliseconds.try_rinto_val()) { unimplemented!() }
    #[verifier::external_body]
    pub fn try_microseconds_ranged(self, microseconds: impl TryRInto_SpanMicroseconds) -> (r: Result<Span, Error>) requires span_wf(self)
        ensures r.is_ok() <==> in_SpanMicroseconds(microseconds.try_rinto_val()), r.is_ok() ==> span_wf(r.unwrap()) && span_view(r.unwrap()) == spec_set(span_view(self), 1, microseconds.try_rinto_val()) { unimplemented!() }
    #[verifier::external_body]
    pub fn try_nanoseconds_ranged(self, nanoseconds: impl TryRInto_SpanNanoseconds) -> (r: Result<Span, Error>) requires span_wf(self)
        ensures r.is_ok() <==> in_SpanNanoseconds(nanoseconds.try_rinto_val()), r.is_ok() ==> span_wf(r.unwrap()) && span_view(r.unwrap()) == spec_set(span_view(self), 0, nanoseconds.try_rinto_val()) { unimplemented!() }
    /// `try_seconds<I: Into<i64>>`: the conversion to i64 happens first (model S1: no truncation allowed), then span.vrs's contract for the i64
    #[verifier::external_body]
    pub fn try_seconds<I: VerifIntoI64>(self, seconds: I) -> (r: Result<Span, Error>) requires span_wf(self), seconds.into_i64_req()
        ensures r.is_ok() <==> in_SpanSeconds(seconds.into_i64_spec() as int), r.is_ok() ==> span_wf(r.unwrap()) && span_view(r.unwrap()) == spec_set(span_view(self), 3, seconds.into_i64_spec() as int) { unimplemented!() }
    #[verifier::external_body]
    pub fn get_units_ranged(&self, unit: Unit) -> (r: NoUnits) requires span_wf(*self) ensures r.val == sv_get(span_view(*self), unit_rank(unit)) { unimplemented!() }
    #[verifier::external_body]
    pub fn try_units_ranged(self, unit: Unit, value: NoUnits) -> (r: Result<Span, Error>) requires span_wf(self)
        ensures r.is_ok() <==> in_limit(unit_rank(unit), value.val as int), r.is_ok() ==> span_wf(r.unwrap()) && span_view(r.unwrap()) == spec_set(span_view(self), unit_rank(unit), value.val as int) { unimplemented!() }
    /// units `unit` and above zeroed / units below `unit` zeroed (contracts stated for Unit::Day, the only use here)
    #[verifier::external_body]
    pub fn only_lower(&self, unit: Unit) -> (r: Span) requires span_wf(*self), unit == Unit::Day
        ensures span_wf(r), span_view(r) == sv_below(span_view(*self), 6) { unimplemented!() }
    #[verifier::external_body]
    pub fn without_lower(&self, unit: Unit) -> (r: Span) requires span_wf(*self), unit == Unit::Day
        ensures span_wf(r), span_view(r) == sv_from(span_view(*self), 6) { unimplemented!() }
}

// ---- RoundMode::round_by_unit_in_nanoseconds: contract proved in rounders.vrs (C10) -------------------------------------------------
impl RoundMode {
    #[verifier::external_body]
    pub fn round_by_unit_in_nanoseconds(self, quantity: impl RInto<NoUnits128>, unit: Unit, increment: impl RInto<NoUnits128>) -> (res: NoUnits128)
        requires quantity.rinto_req(), increment.rinto_req(), unit_rank(unit) <= 7,
                 0 < inc_ns(unit, increment.rinto_spec().val as int) <= 0x7fff_ffff_ffff_ffff,
                 -0x4000_0000_0000_0000_0000_0000 <= quantity.rinto_spec().val <= 0x4000_0000_0000_0000_0000_0000,
        ensures round_ok(self, quantity.rinto_spec().val as int, inc_ns(unit, increment.rinto_spec().val as int), res.val as int)
    { unimplemented!() }
}

// ---- the reference datetime: `enum Relative` is the real one, its two payloads are opaque.  `Relative::checked_add` (C06/C08: DateTime/Zoned::checked_add)
//      and `to_nanosecond` are uninterpreted: all this unit says about them is that they are functions of (reference, span value) and that an
//      instant is a Timestamp's nanosecond count (UnixNanoseconds) ---------------------------------------------------------------------------
#[verifier::external_body]
pub struct RelativeZoned<'a> { _p: core::marker::PhantomData<&'a ()> }
#[verifier::external_body]
#[derive(Clone, Copy)]
pub struct RelativeCivil { _p: () }
impl<'a> Clone for RelativeZoned<'a> {
    #[verifier::external_body]
    fn clone(&self) -> (r: Self) ensures r == *self { unimplemented!() }
}
/// `reference + s` is representable
pub uninterp spec fn rel_add_ok(rel: Relative, s: SV) -> bool;
/// the instant `reference + s` in nanoseconds since the Unix epoch
pub uninterp spec fn rel_add_ns(rel: Relative, s: SV) -> int;
/// the instant of a reference datetime
pub uninterp spec fn rel_ns(rel: Relative) -> int;
impl<'a> Relative<'a> {
    #[verifier::external_body]
    pub fn checked_add(&self, span: Span) -> (r: Result<Relative<'a>, Error>) requires span_wf(span)
        ensures r.is_ok() == rel_add_ok(*self, span_view(span)), r.is_ok() ==> rel_ns(r.unwrap()) == rel_add_ns(*self, span_view(span)) { unimplemented!() }
    #[verifier::external_body]
    pub fn to_nanosecond(&self) -> (r: NoUnits128) ensures r.val == rel_ns(*self), in_UnixNanoseconds(r.val as int) { unimplemented!() }
}
/// clamp_relative_span succeeds iff `span[unit] + amount` is within the unit's limit and both additions succeed
pub open spec fn clamp_ok(rel: Relative, s: SV, j: int, amount: int) -> bool {
    in_limit(j, sv_get(s, j) + amount) && rel_add_ok(rel, s) && rel_add_ok(rel, spec_set(s, j, sv_get(s, j) + amount))
}
// ---- names used by the contracts of the two nudges ------------------------------------------------------------------------
/// Nudge::relative_invariant: the rounded count of nanoseconds
pub open spec fn ri_rnd(balanced: Span, smallest: Unit, increment: NoUnits128, mode: RoundMode) -> int { rnd(mode, inv_ns(span_view(balanced)), inc_ns(smallest, increment.val as int)) }
/// Nudge::relative_zoned_time.  cal = years..days of `balanced`; cal1 = the same with one more day in the span's direction;
/// r0, r1 = the instants reference + cal, reference + cal1 (so r1 - r0 is the real length of that day, negative for a negative span)
pub open spec fn zt_rel(rs: RelativeZoned) -> Relative { Relative::Zoned(rs) }
pub open spec fn zt_sg(b: Span) -> int { sv_sign(span_view(b)) }
pub open spec fn zt_cal(b: Span) -> SV { sv_from(span_view(b), 6) }
pub open spec fn zt_cal1(b: Span) -> SV { spec_set(zt_cal(b), 6, span_view(b).d + zt_sg(b)) }
pub open spec fn zt_ok(rs: RelativeZoned, b: Span) -> bool { clamp_ok(zt_rel(rs), zt_cal(b), 6, zt_sg(b)) }
pub open spec fn zt_r0(rs: RelativeZoned, b: Span) -> int { rel_add_ns(zt_rel(rs), zt_cal(b)) }
pub open spec fn zt_r1(rs: RelativeZoned, b: Span) -> int { rel_add_ns(zt_rel(rs), zt_cal1(b)) }
/// the sub-day part of `balanced`, rounded
pub open spec fn zt_x1(b: Span, i: int, mode: RoundMode) -> int { rnd(mode, time_ns(span_view(b)), i) }
/// by how much the rounded sub-day part exceeds the real length of the day
pub open spec fn zt_beyond(rs: RelativeZoned, b: Span, i: int, mode: RoundMode) -> int { zt_x1(b, i, mode) - (zt_r1(rs, b) - zt_r0(rs, b)) }
/// rounding reached (or passed) the end of the day: one day is added to the span
pub open spec fn zt_grow(rs: RelativeZoned, b: Span, i: int, mode: RoundMode) -> bool { zt_beyond(rs, b, i, mode) == 0 || isgn(zt_beyond(rs, b, i, mode)) == zt_sg(b) }
/// the sub-day part of the result
pub open spec fn zt_fin(rs: RelativeZoned, b: Span, i: int, mode: RoundMode) -> int {
    if zt_grow(rs, b, i, mode) { rnd(mode, zt_beyond(rs, b, i, mode), i) } else { zt_x1(b, i, mode) }
}

// ==== extracted from /repo ====

#[derive(Clone, Copy, Debug, Eq, PartialEq, Structural)]
pub enum RoundMode {
    
    
    
    
    
    Ceil,
    
    
    
    
    
    Floor,
    
    
    Expand,
    
    
    
    
    
    Trunc,
    
    
    HalfCeil,
    
    
    HalfFloor,
    
    
    
    
    
    
    
    
    HalfExpand,
    
    
    HalfTrunc,
    
    
    
    
    
    HalfEven,
}

#[derive(Clone, Copy, Debug, Eq, PartialEq, Structural)]
pub enum Unit {
    
    
    Year = 9,
    
    
    Month = 8,
    
    Week = 7,
    
    
    Day = 6,
    
    Hour = 5,
    
    
    Minute = 4,
    
    Second = 3,
    
    Millisecond = 2,
    
    Microsecond = 1,
    
    Nanosecond = 0,
}

impl Unit {
// @fn Unit::is_variable @src src/span.rs:4196
#[verifier::spinoff_prover]
pub fn is_variable(self) -> (r: bool)
    ensures
        r == (unit_rank(self) >= 6),
{
        matches!(self, Unit::Year | Unit::Month | Unit::Week | Unit::Day)
    }
}

impl Span {
// @fn Span::to_invariant_nanoseconds @src src/span.rs:2900
#[verifier::spinoff_prover]

    pub fn to_invariant_nanoseconds(&self) -> (r: NoUnits128)
    requires
        span_wf(*self),
    ensures
        r.val == inv_ns(span_view(*self)),
{
        let mut nanos = NoUnits128::rfrom(self.get_nanoseconds_ranged());
        nanos += NoUnits128::rfrom(self.get_microseconds_ranged())
            * NANOS_PER_MICRO;
        nanos += NoUnits128::rfrom(self.get_milliseconds_ranged())
            * NANOS_PER_MILLI;
        nanos +=
            NoUnits128::rfrom(self.get_seconds_ranged()) * NANOS_PER_SECOND;
        nanos +=
            NoUnits128::rfrom(self.get_minutes_ranged()) * NANOS_PER_MINUTE;
        nanos +=
            NoUnits128::rfrom(self.get_hours_ranged()) * NANOS_PER_HOUR;
        nanos +=
            NoUnits128::rfrom(self.get_days_ranged()) * NANOS_PER_CIVIL_DAY;
        nanos += NoUnits128::rfrom(self.get_weeks_ranged())
            * NANOS_PER_CIVIL_WEEK;
        nanos
    }
}

impl Span {
// @fn Span::from_invariant_nanoseconds @src src/span.rs:2742
#[verifier::spinoff_prover]
pub fn from_invariant_nanoseconds(
        largest: Unit,
        nanos: NoUnits128,
    ) -> (r: Result<Span, Error>)
    ensures
        r.is_ok() <==> in_limit(top_rank(largest), quot(nanos.val as int, top_rank(largest))),
    r.is_ok() ==> span_wf(r.unwrap()) && span_view(r.unwrap()) == bal(nanos.val as int, top_rank(largest)),
    r.is_ok() ==> balanced_as(span_view(r.unwrap()), nanos.val as int, top_rank(largest)),
{
        hide(spec_set); hide(tdiv); hide(trem); hide(quot);
        proof { lemma_chain(nanos.val as int); lemma_bal(nanos.val as int, top_rank(largest)); lemma_set_all(); }

        let mut span = Span::new();
        match largest {
            Unit::Week => {
                let micros = nanos.div_ceil(NANOS_PER_MICRO);
                span = span.try_nanoseconds_ranged(
                    nanos.rem_ceil(NANOS_PER_MICRO),
                )?;
                let millis = micros.div_ceil(MICROS_PER_MILLI);
                span = span.try_microseconds_ranged(
                    micros.rem_ceil(MICROS_PER_MILLI),
                )?;
                let secs = millis.div_ceil(MILLIS_PER_SECOND);
                span = span.try_milliseconds_ranged(
                    millis.rem_ceil(MILLIS_PER_SECOND),
                )?;
                let mins = secs.div_ceil(SECONDS_PER_MINUTE);
                span = span.try_seconds_ranged(
                    secs.rem_ceil(SECONDS_PER_MINUTE),
                )?;
                let hours = mins.div_ceil(MINUTES_PER_HOUR);
                span = span
                    .try_minutes_ranged(mins.rem_ceil(MINUTES_PER_HOUR))?;
                let days = hours.div_ceil(HOURS_PER_CIVIL_DAY);
                span = span.try_hours_ranged(
                    hours.rem_ceil(HOURS_PER_CIVIL_DAY),
                )?;
                let weeks = days.div_ceil(DAYS_PER_CIVIL_WEEK);
                span = span
                    .try_days_ranged(days.rem_ceil(DAYS_PER_CIVIL_WEEK))?;
                span = span.weeks_ranged(verif_try_rfrom_SpanWeeks_128(weeks)?);
                Ok(span)
            }
            Unit::Year | Unit::Month | Unit::Day => {
                
                let micros = nanos.div_ceil(NANOS_PER_MICRO);
                span = span.try_nanoseconds_ranged(
                    nanos.rem_ceil(NANOS_PER_MICRO),
                )?;
                let millis = micros.div_ceil(MICROS_PER_MILLI);
                span = span.try_microseconds_ranged(
                    micros.rem_ceil(MICROS_PER_MILLI),
                )?;
                let secs = millis.div_ceil(MILLIS_PER_SECOND);
                span = span.try_milliseconds_ranged(
                    millis.rem_ceil(MILLIS_PER_SECOND),
                )?;
                let mins = secs.div_ceil(SECONDS_PER_MINUTE);
                span = span.try_seconds_ranged(
                    secs.rem_ceil(SECONDS_PER_MINUTE),
                )?;
                let hours = mins.div_ceil(MINUTES_PER_HOUR);
                span = span
                    .try_minutes_ranged(mins.rem_ceil(MINUTES_PER_HOUR))?;
                let days = hours.div_ceil(HOURS_PER_CIVIL_DAY);
                span = span.try_hours_ranged(
                    hours.rem_ceil(HOURS_PER_CIVIL_DAY),
                )?;
                span = span.try_days_ranged(days)?;
                Ok(span)
            }
            Unit::Hour => {
                let micros = nanos.div_ceil(NANOS_PER_MICRO);
                span = span.try_nanoseconds_ranged(
                    nanos.rem_ceil(NANOS_PER_MICRO),
                )?;
                let millis = micros.div_ceil(MICROS_PER_MILLI);
                span = span.try_microseconds_ranged(
                    micros.rem_ceil(MICROS_PER_MILLI),
                )?;
                let secs = millis.div_ceil(MILLIS_PER_SECOND);
                span = span.try_milliseconds_ranged(
                    millis.rem_ceil(MILLIS_PER_SECOND),
                )?;
                let mins = secs.div_ceil(SECONDS_PER_MINUTE);
                span = span.try_seconds_ranged(
                    secs.rem_ceil(SECONDS_PER_MINUTE),
                )?;
                let hours = mins.div_ceil(MINUTES_PER_HOUR);
                span = span
                    .try_minutes_ranged(mins.rem_ceil(MINUTES_PER_HOUR))?;
                span = span.try_hours_ranged(hours)?;
                Ok(span)
            }
            Unit::Minute => {
                let micros = nanos.div_ceil(NANOS_PER_MICRO);
                span = span.try_nanoseconds_ranged(
                    nanos.rem_ceil(NANOS_PER_MICRO),
                )?;
                let millis = micros.div_ceil(MICROS_PER_MILLI);
                span = span.try_microseconds_ranged(
                    micros.rem_ceil(MICROS_PER_MILLI),
                )?;
                let secs = millis.div_ceil(MILLIS_PER_SECOND);
                span = span.try_milliseconds_ranged(
                    millis.rem_ceil(MILLIS_PER_SECOND),
                )?;
                let mins = secs.div_ceil(SECONDS_PER_MINUTE);
                span =
                    span.try_seconds(secs.rem_ceil(SECONDS_PER_MINUTE))?;
                span = span.try_minutes_ranged(mins)?;
                Ok(span)
            }
            Unit::Second => {
                let micros = nanos.div_ceil(NANOS_PER_MICRO);
                span = span.try_nanoseconds_ranged(
                    nanos.rem_ceil(NANOS_PER_MICRO),
                )?;
                let millis = micros.div_ceil(MICROS_PER_MILLI);
                span = span.try_microseconds_ranged(
                    micros.rem_ceil(MICROS_PER_MILLI),
                )?;
                let secs = millis.div_ceil(MILLIS_PER_SECOND);
                span = span.try_milliseconds_ranged(
                    millis.rem_ceil(MILLIS_PER_SECOND),
                )?;
                span = span.try_seconds_ranged(secs)?;
                Ok(span)
            }
            Unit::Millisecond => {
                let micros = nanos.div_ceil(NANOS_PER_MICRO);
                span = span.try_nanoseconds_ranged(
                    nanos.rem_ceil(NANOS_PER_MICRO),
                )?;
                let millis = micros.div_ceil(MICROS_PER_MILLI);
                span = span.try_microseconds_ranged(
                    micros.rem_ceil(MICROS_PER_MILLI),
                )?;
                span = span.try_milliseconds_ranged(millis)?;
                Ok(span)
            }
            Unit::Microsecond => {
                let micros = nanos.div_ceil(NANOS_PER_MICRO);
                span = span.try_nanoseconds_ranged(
                    nanos.rem_ceil(NANOS_PER_MICRO),
                )?;
                span = span.try_microseconds_ranged(micros)?;
                Ok(span)
            }
            Unit::Nanosecond => {
                span = span.try_nanoseconds_ranged(nanos)?;
                Ok(span)
            }
        }
    }
}

pub enum Relative<'a> {
    Civil(RelativeCivil),
    Zoned(RelativeZoned<'a>),
}

pub struct Nudge {
    
    pub span: Span,
    
    
    pub rounded_relative_end: NoUnits128,
    
    
    
    pub grew_big_unit: bool,
}

impl Nudge {
// @fn Nudge::relative_invariant @src src/span.rs:6378
#[verifier::spinoff_prover]
pub fn relative_invariant(
        balanced: Span,
        relative_end: NoUnits128,
        smallest: Unit,
        largest: Unit,
        increment: NoUnits128,
        mode: RoundMode,
    ) -> (r: Result<Nudge, Error>)
    requires
        span_wf(balanced), unit_rank(smallest) <= 7,
    0 < inc_ns(smallest, increment.val as int) <= 0x7fff_ffff_ffff_ffff,
    in_UnixNanoseconds(relative_end.val as int),
    ensures
        round_ok(mode, inv_ns(span_view(balanced)), inc_ns(smallest, increment.val as int), ri_rnd(balanced, smallest, increment, mode)),
    r.is_ok() <==> in_limit(top_rank(largest), quot(ri_rnd(balanced, smallest, increment, mode), top_rank(largest))),
    // years and months are kept; days and the sub-day units are those of the balanced form of the rounded count
    r.is_ok() ==> span_wf(r.unwrap().span) && span_view(r.unwrap().span).y == span_view(balanced).y && span_view(r.unwrap().span).mo == span_view(balanced).mo
        && sv_below(span_view(r.unwrap().span), 7) == sv_below(bal(ri_rnd(balanced, smallest, increment, mode), top_rank(largest)), 7),
    // conservation: the span's uniform units denote exactly the rounded count                                   *** FAILS: finding SR-1 ***
    r.is_ok() ==> inv_ns(span_view(r.unwrap().span)) == ri_rnd(balanced, smallest, increment, mode),
    // (what the code does meet: conservation when the weeks of `balanced` are the weeks of the balanced rounded count)
    r.is_ok() && span_view(balanced).w == bal(ri_rnd(balanced, smallest, increment, mode), top_rank(largest)).w ==> inv_ns(span_view(r.unwrap().span)) == ri_rnd(balanced, smallest, increment, mode),
    r.is_ok() ==> r.unwrap().rounded_relative_end.val == relative_end.val + (ri_rnd(balanced, smallest, increment, mode) - inv_ns(span_view(balanced))),
    r.is_ok() ==> r.unwrap().grew_big_unit == (isgn(quot(ri_rnd(balanced, smallest, increment, mode), 6) - quot(inv_ns(span_view(balanced)), 6)) == sv_sign(span_view(balanced))),
{
        hide(round_ok); hide(inc_ns); hide(tdiv); hide(trem); hide(spec_set);
        proof { lemma_inv_bound(span_view(balanced)); lemma_set_all(); }

        
        assert!(smallest <= Unit::Week);

        let sign = balanced.get_sign_ranged();
        let balanced_nanos = balanced.to_invariant_nanoseconds();
        let rounded_nanos = mode.round_by_unit_in_nanoseconds(
            balanced_nanos,
            smallest,
            increment,
        );
        proof {
            lemma_rnd(mode, inv_ns(span_view(balanced)), inc_ns(smallest, increment.val as int), rounded_nanos.val as int);
            lemma_round_sign(mode, inv_ns(span_view(balanced)), inc_ns(smallest, increment.val as int), rounded_nanos.val as int);
        }

        let span = Span::from_invariant_nanoseconds(largest, rounded_nanos)
            .verif_with_context()?
            .years_ranged(balanced.get_years_ranged())
            .months_ranged(balanced.get_months_ranged())
            .weeks_ranged(balanced.get_weeks_ranged());

        let diff_nanos = rounded_nanos - balanced_nanos;
        proof { lemma_tdiv(rounded_nanos.val as int, 86_400_000_000_000); lemma_tdiv(balanced_nanos.val as int, 86_400_000_000_000); }

        let diff_days = rounded_nanos.div_ceil(NANOS_PER_CIVIL_DAY)
            - balanced_nanos.div_ceil(NANOS_PER_CIVIL_DAY);
        let grew_big_unit = diff_days.signum() == sign;
        let rounded_relative_end = relative_end + diff_nanos;
        Ok(Nudge { span, rounded_relative_end, grew_big_unit })
    }
}

impl Nudge {
// @fn Nudge::relative_zoned_time @src src/span.rs:6478
#[verifier::spinoff_prover]
pub fn relative_zoned_time(
        balanced: Span,
        relative_start: &RelativeZoned<'_>,
        smallest: Unit,
        increment: NoUnits128,
        mode: RoundMode,
    ) -> (r: Result<Nudge, Error>)
    requires
        span_wf(balanced), unit_rank(smallest) <= 5,
    0 < inc_ns(smallest, increment.val as int) <= 86_400_000_000_000,
    ensures
        // (e) both roundings are the mode-prescribed ones
    round_ok(mode, time_ns(span_view(balanced)), inc_ns(smallest, increment.val as int), zt_x1(balanced, inc_ns(smallest, increment.val as int), mode)),
    zt_ok(*relative_start, balanced) && zt_grow(*relative_start, balanced, inc_ns(smallest, increment.val as int), mode)
        ==> round_ok(mode, zt_beyond(*relative_start, balanced, inc_ns(smallest, increment.val as int), mode), inc_ns(smallest, increment.val as int), zt_fin(*relative_start, balanced, inc_ns(smallest, increment.val as int), mode)),
    r.is_ok() <==> zt_ok(*relative_start, balanced) && in_SpanHours(quot(zt_fin(*relative_start, balanced, inc_ns(smallest, increment.val as int), mode), 5)),
    // (a) the sub-day part of the span is the final rounded count, balanced up to hours, and a whole multiple of the increment
    r.is_ok() ==> span_wf(r.unwrap().span) && sv_below(span_view(r.unwrap().span), 6) == bal(zt_fin(*relative_start, balanced, inc_ns(smallest, increment.val as int), mode), 5),
    r.is_ok() ==> time_ns(span_view(r.unwrap().span)) == zt_fin(*relative_start, balanced, inc_ns(smallest, increment.val as int), mode)
        && zt_fin(*relative_start, balanced, inc_ns(smallest, increment.val as int), mode) % inc_ns(smallest, increment.val as int) == 0,
    // (b) years, months and weeks are kept; days grow by one day in the span's direction exactly when rounding reached the end of the day
    r.is_ok() ==> span_view(r.unwrap().span).y == span_view(balanced).y && span_view(r.unwrap().span).mo == span_view(balanced).mo && span_view(r.unwrap().span).w == span_view(balanced).w,
    //     (rounded_relative_end moves to r1 = reference + (days + sign), so the span must say the same)          *** FAILS: finding SR-2 ***
    r.is_ok() ==> span_view(r.unwrap().span).d == (if zt_grow(*relative_start, balanced, inc_ns(smallest, increment.val as int), mode) { span_view(balanced).d + zt_sg(balanced) } else { span_view(balanced).d }),
    //     (what the code does meet: the same for positive spans and whenever no day is added)
    r.is_ok() && (zt_sg(balanced) > 0 || !zt_grow(*relative_start, balanced, inc_ns(smallest, increment.val as int), mode))
        ==> span_view(r.unwrap().span).d == (if zt_grow(*relative_start, balanced, inc_ns(smallest, increment.val as int), mode) { span_view(balanced).d + zt_sg(balanced) } else { span_view(balanced).d }),
    // (c) the instant reference + span
    r.is_ok() ==> r.unwrap().rounded_relative_end.val == (if zt_grow(*relative_start, balanced, inc_ns(smallest, increment.val as int), mode) { zt_r1(*relative_start, balanced) } else { zt_r0(*relative_start, balanced) })
        + zt_fin(*relative_start, balanced, inc_ns(smallest, increment.val as int), mode),
    // (d)
    r.is_ok() ==> r.unwrap().grew_big_unit == zt_grow(*relative_start, balanced, inc_ns(smallest, increment.val as int), mode),
{
        hide(round_ok); hide(inc_ns); hide(tdiv); hide(trem); hide(quot); hide(spec_set);
        proof { lemma_inv_bound(span_view(balanced)); lemma_set_all(); }

        let sign = balanced.get_sign_ranged();
        let time_nanos =
            balanced.only_lower(Unit::Day).to_invariant_nanoseconds();
        let mut rounded_time_nanos =
            mode.round_by_unit_in_nanoseconds(time_nanos, smallest, increment);
        proof {
            lemma_rnd(mode, time_ns(span_view(balanced)), inc_ns(smallest, increment.val as int), rounded_time_nanos.val as int);
            lemma_round_sign(mode, time_ns(span_view(balanced)), inc_ns(smallest, increment.val as int), rounded_time_nanos.val as int);
        }

        let (relative0, relative1) = clamp_relative_span(
            
            &Relative::Zoned(relative_start.clone()),
            balanced.without_lower(Unit::Day),
            Unit::Day,
            sign.rinto(),
        )?;
        let day_nanos = relative1 - relative0;
        let beyond_day_nanos = rounded_time_nanos - day_nanos;

        let mut day_delta = NoUnits::verif_N(0);
        let rounded_relative_end =
            if beyond_day_nanos == C(0) || beyond_day_nanos.signum() == sign {
                day_delta += C(1);
                rounded_time_nanos = mode.round_by_unit_in_nanoseconds(
                    beyond_day_nanos,
                    smallest,
                    increment,
                );
                proof {
                    lemma_rnd(mode, beyond_day_nanos.val as int, inc_ns(smallest, increment.val as int), rounded_time_nanos.val as int);
                    lemma_round_sign(mode, beyond_day_nanos.val as int, inc_ns(smallest, increment.val as int), rounded_time_nanos.val as int);
                }

                relative1 + rounded_time_nanos
            } else {
                relative0 + rounded_time_nanos
            };
        proof { lemma_bal(rounded_time_nanos.val as int, 5); }


        let span =
            Span::from_invariant_nanoseconds(Unit::Hour, rounded_time_nanos)
                .verif_with_context()?
                .years_ranged(balanced.get_years_ranged())
                .months_ranged(balanced.get_months_ranged())
                .weeks_ranged(balanced.get_weeks_ranged())
                .days_ranged(balanced.get_days_ranged() + day_delta);
        let grew_big_unit = day_delta != C(0);
        Ok(Nudge { span, rounded_relative_end, grew_big_unit })
    }
}

// @fn round_span_invariant @src src/span.rs:6615
#[verifier::spinoff_prover]
pub fn round_span_invariant(
    span: Span,
    smallest: Unit,
    largest: Unit,
    increment: NoUnits128,
    mode: RoundMode,
) -> (r: Result<Span, Error>)
    requires
        span_wf(span), unit_rank(smallest) <= 7, unit_rank(largest) <= 7,
    0 < inc_ns(smallest, increment.val as int) <= 0x7fff_ffff_ffff_ffff,
    ensures
        round_ok(mode, inv_ns(span_view(span)), inc_ns(smallest, increment.val as int), rnd(mode, inv_ns(span_view(span)), inc_ns(smallest, increment.val as int))),
    r.is_ok() <==> in_limit(unit_rank(largest), quot(rnd(mode, inv_ns(span_view(span)), inc_ns(smallest, increment.val as int)), unit_rank(largest))),
    r.is_ok() ==> span_wf(r.unwrap()) && span_view(r.unwrap()) == bal(rnd(mode, inv_ns(span_view(span)), inc_ns(smallest, increment.val as int)), unit_rank(largest)),
    r.is_ok() ==> balanced_as(span_view(r.unwrap()), rnd(mode, inv_ns(span_view(span)), inc_ns(smallest, increment.val as int)), unit_rank(largest)),
{
    hide(round_ok); hide(inc_ns); hide(tdiv); hide(trem); hide(quot);

    assert!(smallest <= Unit::Week);
    assert!(largest <= Unit::Week);
    let nanos = span.to_invariant_nanoseconds();
    proof { lemma_inv_bound(span_view(span)); }

    let rounded =
        mode.round_by_unit_in_nanoseconds(nanos, smallest, increment);
    proof { lemma_rnd(mode, inv_ns(span_view(span)), inc_ns(smallest, increment.val as int), rounded.val as int); }

    Span::from_invariant_nanoseconds(largest, rounded).verif_with_context()
}

// @fn clamp_relative_span @src src/span.rs:6651
#[verifier::spinoff_prover]
pub fn clamp_relative_span(
    relative: &Relative<'_>,
    span: Span,
    unit: Unit,
    amount: NoUnits,
) -> (r: Result<(NoUnits128, NoUnits128), Error>)
    requires
        span_wf(span),
    ensures
        r.is_ok() <==> clamp_ok(*relative, span_view(span), unit_rank(unit), amount.val as int),
    r.is_ok() ==> r.unwrap().0.val == rel_add_ns(*relative, span_view(span))
        && r.unwrap().1.val == rel_add_ns(*relative, spec_set(span_view(span), unit_rank(unit), sv_get(span_view(span), unit_rank(unit)) + amount.val))
        && in_UnixNanoseconds(r.unwrap().0.val as int) && in_UnixNanoseconds(r.unwrap().1.val as int),
{
    let amount = verif_try_checked_add_NoUnits(span.get_units_ranged(unit), amount)
        .verif_with_context()?;
    let span_amount =
        span.try_units_ranged(unit, amount).verif_with_context()?;
    let relative0 = relative.checked_add(span)?.to_nanosecond();
    let relative1 = relative.checked_add(span_amount)?.to_nanosecond();
    Ok((relative0, relative1))
}

// @fn requires_relative_date_err @src src/span.rs:6723
#[verifier::spinoff_prover]
pub fn requires_relative_date_err(unit: Unit) -> (r: Result<(), Error>)
    ensures
        r.is_err() <==> unit_rank(unit) >= 6,
{
    if unit.is_variable() {
        return Err(if matches!(unit, Unit::Week | Unit::Day) {
            verif_err()
        } else {
            verif_err()
        });
    }
    Ok(())
}

// ==== end extracted ====


} // verus!
fn main() {}
