#![allow(unused, non_snake_case, non_upper_case_globals)]
use vstd::prelude::*;
verus! {
// ---- include lib/stdspecs.vrs ----
// Specifications of core integer methods that vstd 0.2026.09.13 does not provide (trusted; each mirrors the std documentation).
// Included by every unit so that an edited body that starts using one of them is still decided.
pub assume_specification[ i8::div_euclid ](x: i8, y: i8) -> (r: i8) requires y != 0, !(x == i8::MIN && y == -1), ensures y > 0 ==> r as int == (x as int) / (y as int);
pub assume_specification[ i8::rem_euclid ](x: i8, y: i8) -> (r: i8) requires y != 0, !(x == i8::MIN && y == -1), ensures y > 0 ==> r as int == (x as int) % (y as int), y < 0 ==> r as int == (x as int) % (-(y as int));
pub assume_specification[ i8::abs ](x: i8) -> (r: i8) requires x != i8::MIN, ensures r as int == (if x < 0 { -(x as int) } else { x as int });
pub assume_specification[ i8::signum ](x: i8) -> (r: i8) ensures r == (if x > 0 { 1int } else if x < 0 { -1int } else { 0int });
pub assume_specification[ i8::is_positive ](x: i8) -> (r: bool) ensures r == (x > 0);
pub assume_specification[ i8::is_negative ](x: i8) -> (r: bool) ensures r == (x < 0);
pub assume_specification[ i8::checked_neg ](x: i8) -> (r: Option<i8>) ensures x == i8::MIN ==> r.is_none(), x != i8::MIN ==> r == Some((-x) as i8);
pub assume_specification[ i8::saturating_add ](x: i8, y: i8) -> (r: i8) ensures i8::MIN <= x + y <= i8::MAX ==> r == x + y, x + y > i8::MAX ==> r == i8::MAX, x + y < i8::MIN ==> r == i8::MIN;
pub assume_specification[ i8::saturating_sub ](x: i8, y: i8) -> (r: i8) ensures i8::MIN <= x - y <= i8::MAX ==> r == x - y, x - y > i8::MAX ==> r == i8::MAX, x - y < i8::MIN ==> r == i8::MIN;
pub assume_specification[ i8::saturating_neg ](x: i8) -> (r: i8) ensures x == i8::MIN ==> r == i8::MAX, x != i8::MIN ==> r == -x;
pub assume_specification[ i8::unsigned_abs ](x: i8) -> (r: u8) ensures r as int == (if x < 0 { -(x as int) } else { x as int });
pub assume_specification[ i8::checked_abs ](x: i8) -> (r: Option<i8>) ensures x == i8::MIN ==> r.is_none(), x != i8::MIN ==> r == Some((if x < 0 { -x } else { x as int }) as i8);
pub assume_specification[ i16::div_euclid ](x: i16, y: i16) -> (r: i16) requires y != 0, !(x == i16::MIN && y == -1), ensures y > 0 ==> r as int == (x as int) / (y as int);
pub assume_specification[ i16::rem_euclid ](x: i16, y: i16) -> (r: i16) requires y != 0, !(x == i16::MIN && y == -1), ensures y > 0 ==> r as int == (x as int) % (y as int), y < 0 ==> r as int == (x as int) % (-(y as int));
pub assume_specification[ i16::abs ](x: i16) -> (r: i16) requires x != i16::MIN, ensures r as int == (if x < 0 { -(x as int) } else { x as int });
pub assume_specification[ i16::signum ](x: i16) -> (r: i16) ensures r == (if x > 0 { 1int } else if x < 0 { -1int } else { 0int });
pub assume_specification[ i16::is_positive ](x: i16) -> (r: bool) ensures r == (x > 0);
pub assume_specification[ i16::is_negative ](x: i16) -> (r: bool) ensures r == (x < 0);
pub assume_specification[ i16::checked_neg ](x: i16) -> (r: Option<i16>) ensures x == i16::MIN ==> r.is_none(), x != i16::MIN ==> r == Some((-x) as i16);
pub assume_specification[ i16::saturating_add ](x: i16, y: i16) -> (r: i16) ensures i16::MIN <= x + y <= i16::MAX ==> r == x + y, x + y > i16::MAX ==> r == i16::MAX, x + y < i16::MIN ==> r == i16::MIN;
pub assume_specification[ i16::saturating_sub ](x: i16, y: i16) -> (r: i16) ensures i16::MIN <= x - y <= i16::MAX ==> r == x - y, x - y > i16::MAX ==> r == i16::MAX, x - y < i16::MIN ==> r == i16::MIN;
pub assume_specification[ i16::saturating_neg ](x: i16) -> (r: i16) ensures x == i16::MIN ==> r == i16::MAX, x != i16::MIN ==> r == -x;
pub assume_specification[ i16::unsigned_abs ](x: i16) -> (r: u16) ensures r as int == (if x < 0 { -(x as int) } else { x as int });
pub assume_specification[ i16::checked_abs ](x: i16) -> (r: Option<i16>) ensures x == i16::MIN ==> r.is_none(), x != i16::MIN ==> r == Some((if x < 0 { -x } else { x as int }) as i16);
pub assume_specification[ i32::div_euclid ](x: i32, y: i32) -> (r: i32) requires y != 0, !(x == i32::MIN && y == -1), ensures y > 0 ==> r as int == (x as int) / (y as int);
pub assume_specification[ i32::rem_euclid ](x: i32, y: i32) -> (r: i32) requires y != 0, !(x == i32::MIN && y == -1), ensures y > 0 ==> r as int == (x as int) % (y as int), y < 0 ==> r as int == (x as int) % (-(y as int));
pub assume_specification[ i32::abs ](x: i32) -> (r: i32) requires x != i32::MIN, ensures r as int == (if x < 0 { -(x as int) } else { x as int });
pub assume_specification[ i32::signum ](x: i32) -> (r: i32) ensures r == (if x > 0 { 1int } else if x < 0 { -1int } else { 0int });
pub assume_specification[ i32::is_positive ](x: i32) -> (r: bool) ensures r == (x > 0);
pub assume_specification[ i32::is_negative ](x: i32) -> (r: bool) ensures r == (x < 0);
pub assume_specification[ i32::checked_neg ](x: i32) -> (r: Option<i32>) ensures x == i32::MIN ==> r.is_none(), x != i32::MIN ==> r == Some((-x) as i32);
pub assume_specification[ i32::saturating_add ](x: i32, y: i32) -> (r: i32) ensures i32::MIN <= x + y <= i32::MAX ==> r == x + y, x + y > i32::MAX ==> r == i32::MAX, x + y < i32::MIN ==> r == i32::MIN;
pub assume_specification[ i32::saturating_sub ](x: i32, y: i32) -> (r: i32) ensures i32::MIN <= x - y <= i32::MAX ==> r == x - y, x - y > i32::MAX ==> r == i32::MAX, x - y < i32::MIN ==> r == i32::MIN;
pub assume_specification[ i32::saturating_neg ](x: i32) -> (r: i32) ensures x == i32::MIN ==> r == i32::MAX, x != i32::MIN ==> r == -x;
pub assume_specification[ i32::unsigned_abs ](x: i32) -> (r: u32) ensures r as int == (if x < 0 { -(x as int) } else { x as int });
pub assume_specification[ i32::checked_abs ](x: i32) -> (r: Option<i32>) ensures x == i32::MIN ==> r.is_none(), x != i32::MIN ==> r == Some((if x < 0 { -x } else { x as int }) as i32);
pub assume_specification[ i64::div_euclid ](x: i64, y: i64) -> (r: i64) requires y != 0, !(x == i64::MIN && y == -1), ensures y > 0 ==> r as int == (x as int) / (y as int);
pub assume_specification[ i64::rem_euclid ](x: i64, y: i64) -> (r: i64) requires y != 0, !(x == i64::MIN && y == -1), ensures y > 0 ==> r as int == (x as int) % (y as int), y < 0 ==> r as int == (x as int) % (-(y as int));
pub assume_specification[ i64::abs ](x: i64) -> (r: i64) requires x != i64::MIN, ensures r as int == (if x < 0 { -(x as int) } else { x as int });
pub assume_specification[ i64::signum ](x: i64) -> (r: i64) ensures r == (if x > 0 { 1int } else if x < 0 { -1int } else { 0int });
pub assume_specification[ i64::is_positive ](x: i64) -> (r: bool) ensures r == (x > 0);
pub assume_specification[ i64::is_negative ](x: i64) -> (r: bool) ensures r == (x < 0);
pub assume_specification[ i64::checked_neg ](x: i64) -> (r: Option<i64>) ensures x == i64::MIN ==> r.is_none(), x != i64::MIN ==> r == Some((-x) as i64);
pub assume_specification[ i64::saturating_add ](x: i64, y: i64) -> (r: i64) ensures i64::MIN <= x + y <= i64::MAX ==> r == x + y, x + y > i64::MAX ==> r == i64::MAX, x + y < i64::MIN ==> r == i64::MIN;
pub assume_specification[ i64::saturating_sub ](x: i64, y: i64) -> (r: i64) ensures i64::MIN <= x - y <= i64::MAX ==> r == x - y, x - y > i64::MAX ==> r == i64::MAX, x - y < i64::MIN ==> r == i64::MIN;
pub assume_specification[ i64::saturating_neg ](x: i64) -> (r: i64) ensures x == i64::MIN ==> r == i64::MAX, x != i64::MIN ==> r == -x;
pub assume_specification[ i64::unsigned_abs ](x: i64) -> (r: u64) ensures r as int == (if x < 0 { -(x as int) } else { x as int });
pub assume_specification[ i64::checked_abs ](x: i64) -> (r: Option<i64>) ensures x == i64::MIN ==> r.is_none(), x != i64::MIN ==> r == Some((if x < 0 { -x } else { x as int }) as i64);
pub assume_specification[ i128::div_euclid ](x: i128, y: i128) -> (r: i128) requires y != 0, !(x == i128::MIN && y == -1), ensures y > 0 ==> r as int == (x as int) / (y as int);
pub assume_specification[ i128::rem_euclid ](x: i128, y: i128) -> (r: i128) requires y != 0, !(x == i128::MIN && y == -1), ensures y > 0 ==> r as int == (x as int) % (y as int), y < 0 ==> r as int == (x as int) % (-(y as int));
pub assume_specification[ i128::abs ](x: i128) -> (r: i128) requires x != i128::MIN, ensures r as int == (if x < 0 { -(x as int) } else { x as int });
pub assume_specification[ i128::signum ](x: i128) -> (r: i128) ensures r == (if x > 0 { 1int } else if x < 0 { -1int } else { 0int });
pub assume_specification[ i128::is_positive ](x: i128) -> (r: bool) ensures r == (x > 0);
pub assume_specification[ i128::is_negative ](x: i128) -> (r: bool) ensures r == (x < 0);
pub assume_specification[ i128::checked_neg ](x: i128) -> (r: Option<i128>) ensures x == i128::MIN ==> r.is_none(), x != i128::MIN ==> r == Some((-x) as i128);
pub assume_specification[ i128::saturating_add ](x: i128, y: i128) -> (r: i128) ensures i128::MIN <= x + y <= i128::MAX ==> r == x + y, x + y > i128::MAX ==> r == i128::MAX, x + y < i128::MIN ==> r == i128::MIN;
pub assume_specification[ i128::saturating_sub ](x: i128, y: i128) -> (r: i128) ensures i128::MIN <= x - y <= i128::MAX ==> r == x - y, x - y > i128::MAX ==> r == i128::MAX, x - y < i128::MIN ==> r == i128::MIN;
pub assume_specification[ i128::saturating_neg ](x: i128) -> (r: i128) ensures x == i128::MIN ==> r == i128::MAX, x != i128::MIN ==> r == -x;
pub assume_specification[ i128::unsigned_abs ](x: i128) -> (r: u128) ensures r as int == (if x < 0 { -(x as int) } else { x as int });
pub assume_specification[ i128::checked_abs ](x: i128) -> (r: Option<i128>) ensures x == i128::MIN ==> r.is_none(), x != i128::MIN ==> r == Some((if x < 0 { -x } else { x as int }) as i128);

// T4: the four disambiguation strategies over opaque types.  `off_to_ts(o, dt)` is the (C02) instant of civil
// datetime dt under fixed offset o, None iff out of range.
#[verifier::external_body] #[derive(Debug)] pub struct Error { _p: () }
#[verifier::external_body] pub fn verif_err() -> Error { unimplemented!() }
#[verifier::external_body] #[derive(Clone, Copy)] pub struct Timestamp { _p: () }
#[verifier::external_body] #[derive(Clone, Copy)] pub struct DateTime { _p: () }
#[verifier::external_body] #[derive(Clone, Copy)] pub struct Offset { _p: () }
#[verifier::external_body] pub struct TimeZone { _p: () }
#[verifier::external_body] pub struct Zoned { _p: () }
impl vstd::std_specs::cmp::PartialEqSpecImpl for Offset { open spec fn obeys_eq_spec() -> bool { true } open spec fn eq_spec(&self, o: &Offset) -> bool { *self == *o } }
impl PartialEq for Offset { #[verifier::external_body] fn eq(&self, o: &Offset) -> bool { unimplemented!() } }
impl Eq for Offset {}
pub uninterp spec fn off_to_ts(o: Offset, dt: DateTime) -> Option<Timestamp>;
pub uninterp spec fn zoned_of(ts: Timestamp, tz: TimeZone) -> Zoned;     // Zoned::new(ts, tz) (C13: unit zoned)
impl Offset {
    #[verifier::external_body] pub fn to_timestamp(self, dt: DateTime) -> (r: Result<Timestamp, Error>)
        ensures r.is_ok() == off_to_ts(self, dt).is_some(), r.is_ok() ==> r.unwrap() == off_to_ts(self, dt).unwrap() { unimplemented!() }
}
impl Timestamp {
    #[verifier::external_body] pub fn to_zoned(self, tz: TimeZone) -> (r: Zoned) ensures r == zoned_of(self, tz) { unimplemented!() }
}
impl AmbiguousZoned {
    #[verifier::external_body] pub fn datetime(&self) -> (r: DateTime) ensures r == self.ts.dt { unimplemented!() }
    #[verifier::external_body] pub fn time_zone(&self) -> (r: &TimeZone) ensures *r == self.tz { unimplemented!() }
}
pub trait VerifCtx: Sized { fn verif_with_context(self) -> Self; }
impl<T> VerifCtx for Result<T, Error> {
    #[verifier::external_body]
    fn verif_with_context(self) -> (r: Self) ensures r.is_ok() == self.is_ok(), self.is_ok() ==> r.unwrap() == self.unwrap() { unimplemented!() }
}
/// C04, the documented choice of offset per strategy: in a gap `before` is the offset in force before the
/// gap (reading the skipped civil time with it gives the LATER instant), in a fold `before` gives the EARLIER instant
pub open spec fn pick(strategy: Disambiguation, a: AmbiguousOffset) -> Option<Offset> {
    match a {
        AmbiguousOffset::Unambiguous { offset } => Some(offset),
        AmbiguousOffset::Gap { before, after } => match strategy {
            Disambiguation::Compatible => Some(before),   // the instant after the gap
            Disambiguation::Earlier => Some(after),       // the instant before the gap
            Disambiguation::Later => Some(before),
            Disambiguation::Reject => None,
        },
        AmbiguousOffset::Fold { before, after } => match strategy {
            Disambiguation::Compatible => Some(before),   // the earlier of the two instants
            Disambiguation::Earlier => Some(before),
            Disambiguation::Later => Some(after),
            Disambiguation::Reject => None,
        },
    }
}
pub open spec fn resolve(strategy: Disambiguation, a: AmbiguousOffset, dt: DateTime) -> Option<Timestamp> {
    match pick(strategy, a) { Some(o) => off_to_ts(o, dt), None => None }
}
pub open spec fn res_ok(r: Result<Timestamp, Error>, want: Option<Timestamp>) -> bool {
    r.is_ok() == want.is_some() && (r.is_ok() ==> r.unwrap() == want.unwrap())
}
pub open spec fn zres_ok(r: Result<Zoned, Error>, want: Option<Timestamp>, tz: TimeZone) -> bool {
    r.is_ok() == want.is_some() && (r.is_ok() ==> r.unwrap() == zoned_of(want.unwrap(), tz))
}

// ==== extracted from /repo ====
#[derive(Clone, Copy)]

pub enum Disambiguation {
    
    
    
    
    
    
    Compatible,
    
    
    
    
    Earlier,
    
    
    
    
    Later,
    
    
    
    
    
    
    Reject,
}

#[derive(Clone, Copy)]
pub enum AmbiguousOffset {
    
    
    
    
    
    
    
    Unambiguous {
        
        
        
        
        offset: Offset,
    },
    
    
    
    
    
    Gap {
        
        
        
        
        before: Offset,
        
        
        
        
        after: Offset,
    },
    
    
    
    
    
    
    Fold {
        
        
        
        
        before: Offset,
        
        
        
        
        after: Offset,
    },
}

#[derive(Clone, Copy)]
pub struct AmbiguousTimestamp {
    pub dt: DateTime,
    pub offset: AmbiguousOffset,
}

pub struct AmbiguousZoned {
    pub ts: AmbiguousTimestamp,
    pub tz: TimeZone,
}

impl AmbiguousTimestamp {
// @fn AmbiguousTimestamp::new @src src/tz/ambiguous.rs:305
#[verifier::spinoff_prover]

    pub fn new(
        dt: DateTime,
        kind: AmbiguousOffset,
    ) -> (r: AmbiguousTimestamp)
    ensures
        r.dt == dt, r.offset == kind,
{
        AmbiguousTimestamp { dt, offset: kind }
    }
}

impl AmbiguousTimestamp {
// @fn AmbiguousTimestamp::offset @src src/tz/ambiguous.rs:387
#[verifier::spinoff_prover]

    pub fn offset(&self) -> (r: AmbiguousOffset)
    ensures
        r == self.offset,
{
        self.offset
    }
}

impl AmbiguousTimestamp {
// @fn AmbiguousTimestamp::is_ambiguous @src src/tz/ambiguous.rs:422
#[verifier::spinoff_prover]

    pub fn is_ambiguous(&self) -> (r: bool)
    ensures
        r == !(self.offset is Unambiguous),
{
        !matches!(self.offset(), AmbiguousOffset::Unambiguous { .. })
    }
}

impl AmbiguousTimestamp {
// @fn AmbiguousTimestamp::compatible @src src/tz/ambiguous.rs:479
#[verifier::spinoff_prover]

    pub fn compatible(self) -> (r: Result<Timestamp, Error>)
    ensures
        res_ok(r, resolve(Disambiguation::Compatible, self.offset, self.dt)),
{
        let offset = match self.offset() {
            AmbiguousOffset::Unambiguous { offset } => offset,
            AmbiguousOffset::Gap { before, .. } => before,
            AmbiguousOffset::Fold { before, .. } => before,
        };
        offset.to_timestamp(self.dt)
    }
}

impl AmbiguousTimestamp {
// @fn AmbiguousTimestamp::earlier @src src/tz/ambiguous.rs:539
#[verifier::spinoff_prover]

    pub fn earlier(self) -> (r: Result<Timestamp, Error>)
    ensures
        res_ok(r, resolve(Disambiguation::Earlier, self.offset, self.dt)),
{
        let offset = match self.offset() {
            AmbiguousOffset::Unambiguous { offset } => offset,
            AmbiguousOffset::Gap { after, .. } => after,
            AmbiguousOffset::Fold { before, .. } => before,
        };
        offset.to_timestamp(self.dt)
    }
}

impl AmbiguousTimestamp {
// @fn AmbiguousTimestamp::later @src src/tz/ambiguous.rs:599
#[verifier::spinoff_prover]

    pub fn later(self) -> (r: Result<Timestamp, Error>)
    ensures
        res_ok(r, resolve(Disambiguation::Later, self.offset, self.dt)),
{
        let offset = match self.offset() {
            AmbiguousOffset::Unambiguous { offset } => offset,
            AmbiguousOffset::Gap { before, .. } => before,
            AmbiguousOffset::Fold { after, .. } => after,
        };
        offset.to_timestamp(self.dt)
    }
}

impl AmbiguousTimestamp {
// @fn AmbiguousTimestamp::unambiguous @src src/tz/ambiguous.rs:654
#[verifier::spinoff_prover]

    pub fn unambiguous(self) -> (r: Result<Timestamp, Error>)
    ensures
        res_ok(r, resolve(Disambiguation::Reject, self.offset, self.dt)),
{
        let offset = match self.offset() {
            AmbiguousOffset::Unambiguous { offset } => offset,
            AmbiguousOffset::Gap { before, after } => {
                return Err(verif_err());
            }
            AmbiguousOffset::Fold { before, after } => {
                return Err(verif_err());
            }
        };
        offset.to_timestamp(self.dt)
    }
}

impl AmbiguousTimestamp {
// @fn AmbiguousTimestamp::disambiguate @src src/tz/ambiguous.rs:722
#[verifier::spinoff_prover]

    pub fn disambiguate(
        self,
        option: Disambiguation,
    ) -> (r: Result<Timestamp, Error>)
    ensures
        res_ok(r, resolve(option, self.offset, self.dt)),
{
        match option {
            Disambiguation::Compatible => self.compatible(),
            Disambiguation::Earlier => self.earlier(),
            Disambiguation::Later => self.later(),
            Disambiguation::Reject => self.unambiguous(),
        }
    }
}

impl AmbiguousZoned {
// @fn AmbiguousZoned::compatible @src src/tz/ambiguous.rs:1041
#[verifier::spinoff_prover]

    pub fn compatible(self) -> (r: Result<Zoned, Error>)
    ensures
        zres_ok(r, resolve(Disambiguation::Compatible, self.ts.offset, self.ts.dt), self.tz),
{
        let ts = self.ts.compatible().verif_with_context()?;
        Ok(ts.to_zoned(self.tz))
    }
}

impl AmbiguousZoned {
// @fn AmbiguousZoned::earlier @src src/tz/ambiguous.rs:1103
#[verifier::spinoff_prover]

    pub fn earlier(self) -> (r: Result<Zoned, Error>)
    ensures
        zres_ok(r, resolve(Disambiguation::Earlier, self.ts.offset, self.ts.dt), self.tz),
{
        let ts = self.ts.earlier().verif_with_context()?;
        Ok(ts.to_zoned(self.tz))
    }
}

impl AmbiguousZoned {
// @fn AmbiguousZoned::later @src src/tz/ambiguous.rs:1165
#[verifier::spinoff_prover]

    pub fn later(self) -> (r: Result<Zoned, Error>)
    ensures
        zres_ok(r, resolve(Disambiguation::Later, self.ts.offset, self.ts.dt), self.tz),
{
        let ts = self.ts.later().verif_with_context()?;
        Ok(ts.to_zoned(self.tz))
    }
}

impl AmbiguousZoned {
// @fn AmbiguousZoned::unambiguous @src src/tz/ambiguous.rs:1222
#[verifier::spinoff_prover]

    pub fn unambiguous(self) -> (r: Result<Zoned, Error>)
    ensures
        zres_ok(r, resolve(Disambiguation::Reject, self.ts.offset, self.ts.dt), self.tz),
{
        let ts = self.ts.unambiguous().verif_with_context()?;
        Ok(ts.to_zoned(self.tz))
    }
}

impl AmbiguousZoned {
// @fn AmbiguousZoned::disambiguate @src src/tz/ambiguous.rs:1289
#[verifier::spinoff_prover]

    pub fn disambiguate(self, option: Disambiguation) -> (r: Result<Zoned, Error>)
    ensures
        zres_ok(r, resolve(option, self.ts.offset, self.ts.dt), self.tz),
{
        match option {
            Disambiguation::Compatible => self.compatible(),
            Disambiguation::Earlier => self.earlier(),
            Disambiguation::Later => self.later(),
            Disambiguation::Reject => self.unambiguous(),
        }
    }
}

// ==== end extracted ====


} // verus!
fn main() {}
