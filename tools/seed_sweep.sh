#!/bin/bash
# usage: seed_sweep.sh unit [n]  -- proof-robustness check: verify build/<unit>.rs under n solver seeds
cd /verif && python3 -m vfw.extract contracts/verus/$1.vrs /repo > build/$1.rs 2>/dev/null; cd build
for seed in $(seq 0 $((${2:-6}-1))); do verus $1.rs --smt-option smt.random_seed=$seed 2>&1 | grep -E "verification results" | tr '\n' ' '; echo " seed=$seed"; done
