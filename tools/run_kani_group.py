#!/usr/bin/env python3
"""usage: run_kani_group.py GROUP [PROP|*] [quick|thorough] [harness ...]  -- run one Kani harness group and print per-harness results"""
import sys, os, time
sys.path.insert(0, os.path.dirname(os.path.dirname(os.path.abspath(__file__))))
from vfw import kani_run
g = sys.argv[1]; prop = sys.argv[2] if len(sys.argv) > 2 else "*"; tier = sys.argv[3] if len(sys.argv) > 3 else "thorough"
only = sys.argv[4:] or None
t = time.time()
r = kani_run.run_groups([g], os.environ.get("VERIF_REPO", "/repo"), prop, tier, only=only)
for h in r.harnesses:
    print("%-60s %-10s %7.1fs %s %s" % (h["name"], h["status"], h.get("time_s", 0.0), h.get("reason", ""), h.get("kind", "")))
    if h["status"] == "failed":
        print((h.get("detail") or "")[:2000])
        if h.get("witness"): print(h["witness"].get("decoded_any_values"))
    elif h["status"] == "undecided":
        print((h.get("detail") or "")[:600])
print("total %.0fs" % (time.time() - t))
