#!/bin/bash
# run every claimed check (quick tier) on the current /repo tree; prints one line per property
cd /verif
ids=$(python3 -c "import sys; sys.path.insert(0,'.'); from vfw import config; print(' '.join(sorted(config.PROPS)))")
fail=0
for p in $ids; do
  out=$(./check $p --tier ${1:-quick} 2>&1); rc=$?
  echo "$p rc=$rc $(echo "$out" | tail -1)"
  [ $rc -ne 0 ] && { fail=1; echo "$out" | grep -E "VIOLATION|UNDECIDED|FAILED-OBL" | head -5; }
done
exit $fail
