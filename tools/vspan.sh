#!/bin/sh
# helper: extract + verify unit span, filtered output
cd /verif && python3 -m vfw.extract contracts/verus/span.vrs /repo > build/span.rs && (cd build && time verus span.rs --multiple-errors ${1:-5} $2 $3 2>&1 | grep -v '^note\|^warning: type\|upper camel\|^\s*$' | grep -v "pub struct ri\|-->.*span.rs:[0-9]*:12$\|^ *|$" | head -${N:-150})
