#!/bin/bash
# tools/seed_matrix2.sh [seed-dir-name ...]: like seed_matrix.sh but never touches /repo: each seeded change is applied to a
# scratch rsync copy of /repo (under /var/tmp) and the quick check of its property runs with --repo on that copy.
cd /verif
S=/var/tmp/seedrepo.$$
trap 'rm -rf $S' EXIT
seeds=("$@"); [ ${#seeds[@]} -eq 0 ] && seeds=($(ls seeded))
for s in "${seeds[@]}"; do
  [ -f seeded/$s/patch.diff ] || continue
  prop=${s%%-*}
  rm -rf $S; mkdir -p $S; rsync -a --exclude target --exclude .git /repo/ $S/
  if ! (cd $S && patch -p1 -s --no-backup-if-mismatch < /verif/seeded/$s/patch.diff) >/dev/null 2>&1; then echo "$s: PATCH-DOES-NOT-APPLY"; continue; fi
  out=$(./check $prop --no-evidence --repo $S 2>&1); rc=$?
  v=$(echo "$out" | grep -c '^VIOLATION'); ob=$(echo "$out" | grep '^FAILED-OBLIGATION' | sed 's/.*obligation=\(.*\) backend=.*/\1/' | sort -u | tr '\n' ';')
  und=$(echo "$out" | grep '^UNDECIDED' | sed 's/.*obligation=\(\S*\) reason=\(.\{0,60\}\).*/\1[\2]/' | tr '\n' ' ')
  echo "$s: rc=$rc violations=$v failed=[$ob] undecided=[$und]"
done
