#!/usr/bin/env python3
"""keep_seed.py ID SEEDNAME 'needs' — copy a confirmed seeded change from /tmp/seed-out/ID into /verif/seeded/SEEDNAME/"""
import json, os, shutil, sys, re
pid, name, needs = sys.argv[1], sys.argv[2], sys.argv[3]
src = "/tmp/seed-out/%s" % pid
dst = "/verif/seeded/%s" % name
os.makedirs(dst, exist_ok=True)
shutil.copy(src + "/patch.diff", dst + "/patch.diff")
if os.path.isdir(dst + "/demo"):
    shutil.rmtree(dst + "/demo")
shutil.copytree(src + "/demo", dst + "/demo", ignore=shutil.ignore_patterns("target"))
if os.path.exists(src + "/NOTES.md"):
    shutil.copy(src + "/NOTES.md", dst + "/NOTES.md")
conf = open(src + "/confirm.log").read()
meta = {
    "property": pid,
    "author": "independent sub-agent given only the property text and a scratch worktree",
    "needs_to_manifest": needs,
    "files": sorted(set(re.findall(r"^\+\+\+ b/(.*)$", open(src + "/patch.diff").read(), re.M))),
    "confirmed_by_me": {
        "what_i_ran": "tools/confirm_seed.sh %s: in a scratch worktree, `cargo test --workspace --no-fail-fast --offline` with the patch applied, the demo with the patch, the demo without it" % pid,
        "suite_failed_groups_with_change": int(re.search(r"suite_failed_groups=(\d+)", conf).group(1)),
        "demo_rc_with_change": int(re.search(r"demo_with_rc=(\d+)", conf).group(1)),
        "demo_rc_without_change": int(re.search(r"demo_without_rc=(\d+)", conf).group(1)),
    },
    "demo": "demo/ is a cargo project depending on jiff by path (edit the path in demo/Cargo.toml to the tree under test); exits non-zero with the change",
}
json.dump(meta, open(dst + "/meta.json", "w"), indent=1)
print("kept", dst)
