#!/bin/bash
# tools/seed_matrix.sh [seed-dir-name ...]: apply each seeded change to /repo, run the quick check of its property
# (no evidence written), undo; prints one line per seed.  /repo must be clean.
cd /verif
[ -n "$(git -C /repo status --porcelain)" ] && { echo "/repo not clean"; exit 2; }
seeds=("$@"); [ ${#seeds[@]} -eq 0 ] && seeds=($(ls seeded))
for s in "${seeds[@]}"; do
  [ -f seeded/$s/patch.diff ] || continue
  prop=${s%%-*}
  if ! git -C /repo apply /verif/seeded/$s/patch.diff 2>/dev/null && ! git -C /repo apply -C1 /verif/seeded/$s/patch.diff 2>/dev/null; then
    echo "$s: PATCH-DOES-NOT-APPLY"; continue; fi
  out=$(./check $prop --no-evidence 2>&1); rc=$?
  git -C /repo checkout -- .
  v=$(echo "$out" | grep -c '^VIOLATION'); ob=$(echo "$out" | grep '^FAILED-OBLIGATION' | sed 's/.*obligation=\(\S*\).*/\1/' | sort -u | tr '\n' ' ')
  und=$(echo "$out" | grep '^UNDECIDED' | sed 's/.*obligation=\(\S*\) reason=\(.\{0,60\}\).*/\1[\2]/' | tr '\n' ' ')
  echo "$s: rc=$rc violations=$v failed=[$ob] undecided=[$und]"
done
