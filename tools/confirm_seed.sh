#!/bin/bash
# usage: confirm_seed.sh ID   -- re-checks a seeded change in its scratch worktree /tmp/wt-ID:
# suite passes with the change, demo fails with it, demo passes without it.  Writes /tmp/seed-out/ID/confirm.log
ID=$1; WT=/tmp/wt-$ID; OUT=/tmp/seed-out/$ID
export CARGO_TARGET_DIR=$WT/target CARGO_NET_OFFLINE=true
{
cd $WT || exit 9
git checkout -q -- . ; git apply $OUT/patch.diff || { echo "APPLY-FAILED"; exit 9; }
echo "== suite with change"; cargo test --workspace --no-fail-fast --offline 2>&1 | grep -E "^test result|FAILED|panicked" | sort | uniq -c
SUITE_FAIL=$(cargo test --workspace --no-fail-fast --offline 2>&1 | grep -c "test result: FAILED")
echo "suite_failed_groups=$SUITE_FAIL"
echo "== demo with change"; (cd $OUT/demo && CARGO_TARGET_DIR=$OUT/demo/target cargo run --offline -q >/dev/null 2>$OUT/demo_with.err; echo "demo_with_rc=$?")
git checkout -q -- .
echo "== demo without change"; (cd $OUT/demo && CARGO_TARGET_DIR=$OUT/demo/target cargo run --offline -q >/dev/null 2>$OUT/demo_without.err; echo "demo_without_rc=$?")
} > $OUT/confirm.log 2>&1
rm -rf $OUT/demo/target
tail -4 $OUT/confirm.log
