#!/bin/sh
# dev helper: persistent scratch copy for fast Kani iteration.  usage: kdev.sh [rel|dbg] [features|-] harness [extra cargo-kani args]
# (not used by the registered checks)
set -e
MODE=${1:-rel}; FEAT=${2:--}; H=$3; shift 3 || true
D=/var/tmp/kdev
mkdir -p $D
rsync -a --exclude target --exclude .git --exclude 'target-*' /repo/ $D/
mkdir -p $D/src/verif_kani
rm -f $D/src/verif_kani/*.rs
for f in /verif/contracts/kani/*.rs; do grep -q '^//@inject' $f || cp $f $D/src/verif_kani/; done
( echo '#![allow(unused, non_snake_case, static_mut_refs)]'; for f in $D/src/verif_kani/*.rs; do [ "$(basename $f)" = mod.rs ] || echo "pub mod $(basename $f .rs);"; done ) > $D/src/verif_kani/mod.rs
grep -q verif_kani $D/src/lib.rs || printf '\n#[cfg(kani)]\nmod verif_kani;\n' >> $D/src/lib.rs
cd $D
FE=""; [ "$FEAT" != "-" ] && FE="--features $FEAT"
if [ "$MODE" = rel ]; then export CARGO_PROFILE_DEV_DEBUG_ASSERTIONS=false; fi
export CARGO_TARGET_DIR=$D/target-$MODE-$FEAT
CARGO_NET_OFFLINE=true exec cargo kani --no-default-features $FE -Z function-contracts -Z stubbing -Z unstable-options --harness "$H" "$@" 2>&1 | grep -v "^warning\|^ *|\|^ *=\|^ *-->\|^$\|^help\|^[0-9]* [|+-]"
