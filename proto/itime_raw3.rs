use vstd::prelude::*;
verus! {
#[verifier::external_body]
#[derive(Debug)]
pub struct Error { _p: () }

pub assume_specification[ i64::div_euclid ](x: i64, y: i64) -> (r: i64)
    requires y != 0, !(x == i64::MIN && y == -1),
    ensures r as int == (x as int) / (y as int);
pub assume_specification[ i64::rem_euclid ](x: i64, y: i64) -> (r: i64)
    requires y != 0, !(x == i64::MIN && y == -1),
    ensures r as int == (x as int) % (y as int);
pub assume_specification[ i32::div_euclid ](x: i32, y: i32) -> (r: i32)
    requires y != 0, !(x == i32::MIN && y == -1),
    ensures r as int == (x as int) / (y as int);
pub assume_specification[ i32::rem_euclid ](x: i32, y: i32) -> (r: i32)
    requires y != 0, !(x == i32::MIN && y == -1),
    ensures r as int == (x as int) % (y as int);
pub assume_specification[ i8::rem_euclid ](x: i8, y: i8) -> (r: i8)
    requires y != 0, !(x == i8::MIN && y == -1),
    ensures r as int == (x as int) % (y as int);
pub assume_specification[ i8::abs ](x: i8) -> (r: i8)
    requires x != i8::MIN,
    ensures r as int == (if x < 0 { -(x as int) } else { x as int });
pub assume_specification<T, E, F: FnOnce(E) -> T>[ Result::<T, E>::unwrap_or_else ](r: Result<T, E>, f: F) -> (res: T)
    requires r is Err ==> f.requires((r->Err_0,)),
    ensures r is Ok ==> res == r->Ok_0, r is Err ==> f.ensures((r->Err_0,), res);
#[verifier::external_body]
pub fn verif_err() -> Error { unimplemented!() }




#[derive(Clone, Copy, Debug, Eq, PartialEq, PartialOrd, Ord)]
pub struct ITimestamp {
    pub second: i64,
    pub nanosecond: i32,
}

impl ITimestamp {
    const MIN: ITimestamp =
        ITimestamp { second: -377705023201, nanosecond: 0 };
    const MAX: ITimestamp =
        ITimestamp { second: 253402207200, nanosecond: 999_999_999 };

    /// Creates an `ITimestamp` from a Unix timestamp in seconds.
    pub const fn from_second(second: i64) -> ITimestamp {
        ITimestamp { second, nanosecond: 0 }
    }

    /// Converts a Unix timestamp with an offset to a Gregorian datetime.
    ///
    /// The offset should correspond to the number of seconds required to
    /// add to this timestamp to get the local time.
    pub const fn to_datetime(&self, offset: IOffset) -> IDateTime {
        let mut second = self.second; let mut nanosecond = self.nanosecond;
        second += offset.second as i64;
        let mut epoch_day = second.div_euclid(86_400) as i32;
        second = second.rem_euclid(86_400);
        if nanosecond < 0 {
            if second > 0 {
                second -= 1;
                nanosecond += 1_000_000_000;
            } else {
                epoch_day -= 1;
                second += 86_399;
                nanosecond += 1_000_000_000;
            }
        }

        let date = IEpochDay { epoch_day }.to_date();
        let mut time = ITimeSecond { second: second as i32 }.to_time();
        time.subsec_nanosecond = nanosecond;
        IDateTime { date, time }
    }
}

#[derive(Clone, Copy, Debug, Eq, PartialEq, PartialOrd, Ord)]
pub struct IOffset {
    pub second: i32,
}

impl IOffset {
    pub const UTC: IOffset = IOffset { second: 0 };
}

#[derive(Clone, Copy, Debug, Eq, PartialEq, PartialOrd, Ord)]
pub struct IDateTime {
    pub date: IDate,
    pub time: ITime,
}

impl IDateTime {
    const MIN: IDateTime = IDateTime { date: IDate::MIN, time: ITime::MIN };
    const MAX: IDateTime = IDateTime { date: IDate::MAX, time: ITime::MAX };

    /// Converts a Gregorian datetime and its offset to a Unix timestamp.
    ///
    /// The offset should correspond to the number of seconds required to
    /// subtract from this datetime in order to get to UTC.
    pub fn to_timestamp(&self, offset: IOffset) -> ITimestamp {
        let epoch_day = self.date.to_epoch_day().epoch_day;
        let mut second = (epoch_day as i64) * 86_400
            + (self.time.to_second().second as i64);
        let mut nanosecond = self.time.subsec_nanosecond;
        second -= offset.second as i64;
        if epoch_day < 0 && nanosecond != 0 {
            second += 1;
            nanosecond -= 1_000_000_000;
        }
        ITimestamp { second, nanosecond }
    }

    /// Converts a Gregorian datetime and its offset to a Unix timestamp.
    ///
    /// If the timestamp would overflow Jiff's timestamp range, then this
    /// returns `None`.
    ///
    /// The offset should correspond to the number of seconds required to
    /// subtract from this datetime in order to get to UTC.
    pub fn to_timestamp_checked(
        &self,
        offset: IOffset,
    ) -> Option<ITimestamp> {
        let ts = self.to_timestamp(offset);
        if !(ITimestamp::MIN <= ts && ts <= ITimestamp::MAX) {
            return None;
        }
        Some(ts)
    }
    pub fn saturating_add_seconds(&self, seconds: i32) -> IDateTime {
        self.checked_add_seconds(seconds).unwrap_or_else(|_e| {
            if seconds < 0 {
                IDateTime::MIN
            } else {
                IDateTime::MAX
            }
        })
    }
    pub fn checked_add_seconds(
        &self,
        seconds: i32,
    ) -> Result<IDateTime, Error> {
        let day_second =
            self.time.to_second().second.checked_add(seconds).ok_or_else(
                || verif_err(),
            )?;
        let days = day_second.div_euclid(86400);
        let second = day_second.rem_euclid(86400);
        let date = self.date.checked_add_days(days)?;
        let time = ITimeSecond { second }.to_time();
        Ok(IDateTime { date, time })
    }
}

#[derive(Clone, Copy, Debug, Eq, PartialEq, PartialOrd, Ord)]
pub struct IEpochDay {
    pub epoch_day: i32,
}

impl IEpochDay {
    const MIN: IEpochDay = IEpochDay { epoch_day: -4371587 };
    const MAX: IEpochDay = IEpochDay { epoch_day: 2932896 };

    /// Converts days since the Unix epoch to a Gregorian date.
    ///
    /// This is Neri-Schneider. There's no branching or divisions.
    ///
    /// Ref: <https://github.com/cassioneri/eaf/blob/684d3cc32d14eee371d0abe4f683d6d6a49ed5c1/algorithms/neri_schneider.hpp#L40C3-L40C34>
    pub const fn to_date(&self) -> IDate {
        let s: u32 = 82;
        let K: u32 = 719468 + 146097 * s;
        let L: u32 = 400 * s;

        let N_U = self.epoch_day as u32;
        let N = N_U.wrapping_add(K);

        let N_1 = 4 * N + 3;
        let C = N_1 / 146097;
        let N_C = (N_1 % 146097) / 4;

        let N_2 = 4 * N_C + 3;
        let P_2 = 2939745 * (N_2 as u64);
        let Z = (P_2 / 4294967296) as u32;
        let N_Y = (P_2 % 4294967296) as u32 / 2939745 / 4;
        let Y = 100 * C + Z;

        let N_3 = 2141 * N_Y + 197913;
        let M = N_3 / 65536;
        let D = (N_3 % 65536) / 2141;

        let J = N_Y >= 306;
        let year = Y.wrapping_sub(L).wrapping_add(J as u32) as i16;
        let month = (if J { M - 12 } else { M }) as i8;
        let day = (D + 1) as i8;
        IDate { year, month, day }
    }

    /// Returns the day of the week for this epoch day.
    pub const fn weekday(&self) -> IWeekday {
        // Based on Hinnant's approach here, although we use ISO weekday
        // numbering by default. Basically, this works by using the knowledge
        // that 1970-01-01 was a Thursday.
        //
        // Ref: http://howardhinnant.github.io/date_algorithms.html
        IWeekday::from_monday_zero_offset(
            (self.epoch_day + 3).rem_euclid(7) as i8
        )
    }

    /// Add the given number of days to this epoch day.
    ///
    /// If this would overflow an `i32` or result in an out-of-bounds epoch
    /// day, then this returns an error.
    pub fn checked_add(&self, amount: i32) -> Result<IEpochDay, Error> {
        let epoch_day = self.epoch_day;
        let sum = epoch_day.checked_add(amount).ok_or_else(|| {
            verif_err()
        })?;
        let ret = IEpochDay { epoch_day: sum };
        if !(IEpochDay::MIN <= ret && ret <= IEpochDay::MAX) {
            return Err(verif_err());
        }
        Ok(ret)
    }
}

#[derive(Clone, Copy, Debug, Eq, PartialEq, PartialOrd, Ord)]
pub struct IDate {
    pub year: i16,
    pub month: i8,
    pub day: i8,
}

impl IDate {
    const MIN: IDate = IDate { year: -9999, month: 1, day: 1 };
    const MAX: IDate = IDate { year: 9999, month: 12, day: 31 };

    /// Fallibly builds a new date.
    ///
    /// This checks that the given day is valid for the given year/month.
    ///
    /// No other conditions are checked. This assumes `year` and `month` are
    /// valid, and that `day >= 1`.
    pub fn try_new(
        year: i16,
        month: i8,
        day: i8,
    ) -> Result<IDate, Error> {
        if day > 28 {
            let max_day = days_in_month(year, month);
            if day > max_day {
                return Err(verif_err());
            }
        }
        Ok(IDate { year, month, day })
    }

    /// Returns the date corresponding to the day of the given year. The day
    /// of the year should be a value in `1..=366`, with `366` only being valid
    /// if `year` is a leap year.
    ///
    /// This assumes that `year` is valid, but returns an error if `day` is
    /// not in the range `1..=366`.
    pub fn from_day_of_year(
        year: i16,
        day: i16,
    ) -> Result<IDate, Error> {
        if !(1 <= day && day <= 366) {
            return Err(verif_err());
        }
        let start = IDate { year, month: 1, day: 1 }.to_epoch_day();
        let end = start
            .checked_add(i32::from(day) - 1)
            .map_err(|_e| {
                verif_err()
            })?
            .to_date();
        // If we overflowed into the next year, then `day` is too big.
        if year != end.year {
            // Can only happen given day=366 and this is a leap year.
            assert(day == 366);
            { let verif_da = !is_leap_year(year); assert(verif_da); }
            return Err(verif_err());
        }
        Ok(end)
    }

    /// Returns the date corresponding to the day of the given year. The day
    /// of the year should be a value in `1..=365`, with February 29 being
    /// completely ignored. That is, it is guaranteed that Febraury 29 will
    /// never be returned by this function. It is impossible.
    ///
    /// This assumes that `year` is valid, but returns an error if `day` is
    /// not in the range `1..=365`.
    pub fn from_day_of_year_no_leap(
        year: i16,
        mut day: i16,
    ) -> Result<IDate, Error> {
        if !(1 <= day && day <= 365) {
            return Err(verif_err());
        }
        if day >= 60 && is_leap_year(year) {
            day += 1;
        }
        // The boundary check above guarantees this always succeeds.
        Ok(IDate::from_day_of_year(year, day).unwrap())
    }

    /// Converts a Gregorian date to days since the Unix epoch.
    ///
    /// This is Neri-Schneider. There's no branching or divisions.
    ///
    /// Ref: https://github.com/cassioneri/eaf/blob/684d3cc32d14eee371d0abe4f683d6d6a49ed5c1/algorithms/neri_schneider.hpp#L83
    pub const fn to_epoch_day(&self) -> IEpochDay {
        let s: u32 = 82;
        let K: u32 = 719468 + 146097 * s;
        let L: u32 = 400 * s;

        let year = self.year as u32;
        let month = self.month as u32;
        let day = self.day as u32;

        let J = month <= 2;
        let Y = year.wrapping_add(L).wrapping_sub(J as u32);
        let M = if J { month + 12 } else { month };
        let D = day - 1;
        let C = Y / 100;

        let y_star = 1461 * Y / 4 - C + C / 4;
        let m_star = (979 * M - 2919) / 32;
        let N = y_star + m_star + D;

        let N_U = N.wrapping_sub(K);
        let epoch_day = N_U as i32;
        IEpochDay { epoch_day }
    }

    /// Returns the day of the week for this date.
    pub const fn weekday(&self) -> IWeekday {
        self.to_epoch_day().weekday()
    }

    /// Returns the `nth` weekday of the month represented by this date.
    ///
    /// `nth` must be non-zero and otherwise in the range `-5..=5`. If it
    /// isn't, an error is returned.
    ///
    /// This also returns an error if `abs(nth)==5` and there is no "5th"
    /// weekday of this month.
    pub fn nth_weekday_of_month(
        &self,
        nth: i8,
        weekday: IWeekday,
    ) -> Result<IDate, Error> {
        if nth == 0 || !(-5 <= nth && nth <= 5) {
            return Err(verif_err());
        }
        if nth > 0 {
            let first_weekday = self.first_of_month().weekday();
            let diff = weekday.since(first_weekday);
            let day = diff + 1 + (nth - 1) * 7;
            IDate::try_new(self.year, self.month, day)
        } else {
            let last = self.last_of_month();
            let last_weekday = last.weekday();
            let diff = last_weekday.since(weekday);
            let day = last.day - diff - (nth.abs() - 1) * 7;
            // Our math can go below 1 when nth is -5 and there is no "5th from
            // last" weekday in this month. Since this is outside the bounds
            // of `Day`, we can't let this boundary condition escape. So we
            // check it here.
            if day < 1 {
                return Err(verif_err());
            }
            IDate::try_new(self.year, self.month, day)
        }
    }

    /// Returns the day before this date.
    pub fn yesterday(self) -> Result<IDate, Error> {
        if self.day == 1 {
            if self.month == 1 {
                let year = self.year - 1;
                if year <= -10000 {
                    return Err(verif_err());
                }
                return Ok(IDate { year, month: 12, day: 31 });
            }
            let month = self.month - 1;
            let day = days_in_month(self.year, month);
            return Ok(IDate { month, day, ..self });
        }
        Ok(IDate { day: self.day - 1, ..self })
    }

    /// Returns the day after this date.
    pub fn tomorrow(self) -> Result<IDate, Error> {
        if self.day >= 28 && self.day == days_in_month(self.year, self.month) {
            if self.month == 12 {
                let year = self.year + 1;
                if year >= 10000 {
                    return Err(verif_err());
                }
                return Ok(IDate { year, month: 1, day: 1 });
            }
            let month = self.month + 1;
            return Ok(IDate { month, day: 1, ..self });
        }
        Ok(IDate { day: self.day + 1, ..self })
    }

    /// Returns the year one year before this date.
    pub fn prev_year(self) -> Result<i16, Error> {
        let year = self.year - 1;
        if year <= -10_000 {
            return Err(verif_err());
        }
        Ok(year)
    }

    /// Returns the year one year from this date.
    pub fn next_year(self) -> Result<i16, Error> {
        let year = self.year + 1;
        if year >= 10_000 {
            return Err(verif_err());
        }
        Ok(year)
    }

    /// Add the number of days to this date.
    pub fn checked_add_days(
        &self,
        amount: i32,
    ) -> Result<IDate, Error> {
        match amount {
            0 => Ok(*self),
            -1 => self.yesterday(),
            1 => self.tomorrow(),
            n => self.to_epoch_day().checked_add(n).map(|d| d.to_date()),
        }
    }
    fn first_of_month(&self) -> IDate {
        IDate { day: 1, ..*self }
    }
    fn last_of_month(&self) -> IDate {
        IDate { day: days_in_month(self.year, self.month), ..*self }
    }

    #[cfg(test)]
    pub fn at(
        &self,
        hour: i8,
        minute: i8,
        second: i8,
        subsec_nanosecond: i32,
    ) -> IDateTime {
        let time = ITime { hour, minute, second, subsec_nanosecond };
        IDateTime { date: *self, time }
    }
}

/// Represents a clock time.
///
/// This uses units of hours, minutes, seconds and fractional seconds (to
/// nanosecond precision).
#[derive(Clone, Copy, Debug, Eq, PartialEq, PartialOrd, Ord)]
pub struct ITime {
    pub hour: i8,
    pub minute: i8,
    pub second: i8,
    pub subsec_nanosecond: i32,
}

impl ITime {
    pub const ZERO: ITime =
        ITime { hour: 0, minute: 0, second: 0, subsec_nanosecond: 0 };
    pub const MIN: ITime =
        ITime { hour: 0, minute: 0, second: 0, subsec_nanosecond: 0 };
    pub const MAX: ITime = ITime {
        hour: 23,
        minute: 59,
        second: 59,
        subsec_nanosecond: 999_999_999,
    };
    pub const fn to_second(&self) -> ITimeSecond {
        let mut second: i32 = 0;
        second += (self.hour as i32) * 3600;
        second += (self.minute as i32) * 60;
        second += self.second as i32;
        ITimeSecond { second }
    }
    pub const fn to_nanosecond(&self) -> ITimeNanosecond {
        let mut nanosecond: i64 = 0;
        nanosecond += (self.hour as i64) * 3_600_000_000_000;
        nanosecond += (self.minute as i64) * 60_000_000_000;
        nanosecond += (self.second as i64) * 1_000_000_000;
        nanosecond += self.subsec_nanosecond as i64;
        ITimeNanosecond { nanosecond }
    }
}

/// Represents a single point in the day, to second precision.
#[derive(Clone, Copy, Debug, Eq, PartialEq, PartialOrd, Ord)]
pub struct ITimeSecond {
    pub second: i32,
}

impl ITimeSecond {
    pub const fn to_time(&self) -> ITime {
        let mut second = self.second;
        let mut time = ITime::ZERO;
        if second != 0 {
            time.hour = (second / 3600) as i8;
            second = second % 3600;
            if second != 0 {
                time.minute = (second / 60) as i8;
                time.second = (second % 60) as i8;
            }
        }
        time
    }
}

/// Represents a single point in the day, to nanosecond precision.
#[derive(Clone, Copy, Debug, Eq, PartialEq, PartialOrd, Ord)]
pub struct ITimeNanosecond {
    pub nanosecond: i64,
}

impl ITimeNanosecond {
    pub const fn to_time(&self) -> ITime {
        let mut nanosecond = self.nanosecond;
        let mut time = ITime::ZERO;
        if nanosecond != 0 {
            time.hour = (nanosecond / 3_600_000_000_000) as i8;
            nanosecond = nanosecond % 3_600_000_000_000;
            if nanosecond != 0 {
                time.minute = (nanosecond / 60_000_000_000) as i8;
                nanosecond = nanosecond % 60_000_000_000;
                if nanosecond != 0 {
                    time.second = (nanosecond / 1_000_000_000) as i8;
                    time.subsec_nanosecond =
                        (nanosecond % 1_000_000_000) as i32;
                }
            }
        }
        time
    }
}

/// Represents a weekday.
#[derive(Clone, Copy, Debug, Eq, PartialEq, PartialOrd, Ord)]
pub struct IWeekday {
    /// Range is `1..=6` with `1=Monday`.
    offset: i8,
}

impl IWeekday {
    /// Creates a weekday assuming the week starts on Monday and Monday is at
    /// offset `0`.
    pub const fn from_monday_zero_offset(offset: i8) -> IWeekday {
        assert!(0 <= offset && offset <= 6);
        IWeekday::from_monday_one_offset(offset + 1)
    }

    /// Creates a weekday assuming the week starts on Monday and Monday is at
    /// offset `1`.
    pub const fn from_monday_one_offset(offset: i8) -> IWeekday {
        assert!(1 <= offset && offset <= 7);
        IWeekday { offset }
    }

    /// Creates a weekday assuming the week starts on Sunday and Sunday is at
    /// offset `0`.
    pub const fn from_sunday_zero_offset(offset: i8) -> IWeekday {
        assert!(0 <= offset && offset <= 6);
        IWeekday::from_monday_zero_offset((offset - 1).rem_euclid(7))
    }

    /// Creates a weekday assuming the week starts on Sunday and Sunday is at
    /// offset `1`.
    #[cfg(test)] // currently dead code
    pub const fn from_sunday_one_offset(offset: i8) -> IWeekday {
        assert!(1 <= offset && offset <= 7);
        IWeekday::from_sunday_zero_offset(offset - 1)
    }

    /// Returns this weekday as an offset in the range `0..=6` where
    /// `0=Monday`.
    pub const fn to_monday_zero_offset(self) -> i8 {
        self.to_monday_one_offset() - 1
    }

    /// Returns this weekday as an offset in the range `1..=7` where
    /// `1=Monday`.
    pub const fn to_monday_one_offset(self) -> i8 {
        self.offset
    }

    /// Returns this weekday as an offset in the range `0..=6` where
    /// `0=Sunday`.
    #[cfg(test)] // currently dead code
    pub const fn to_sunday_zero_offset(self) -> i8 {
        (self.to_monday_zero_offset() + 1) % 7
    }

    /// Returns this weekday as an offset in the range `1..=7` where
    /// `1=Sunday`.
    #[cfg(test)] // currently dead code
    pub const fn to_sunday_one_offset(self) -> i8 {
        self.to_sunday_zero_offset() + 1
    }
    pub const fn since(self, other: IWeekday) -> i8 {
        (self.to_monday_zero_offset() - other.to_monday_zero_offset())
            .rem_euclid(7)
    }
}

#[derive(Clone, Copy, Debug, Eq, PartialEq)]
pub enum IAmbiguousOffset {
    Unambiguous { offset: IOffset },
    Gap { before: IOffset, after: IOffset },
    Fold { before: IOffset, after: IOffset },
}

/// Returns true if and only if the given year is a leap year.
///
/// A leap year is a year with 366 days. Typical years have 365 days.
pub const fn is_leap_year(year: i16) -> bool {
    // From: https://github.com/BurntSushi/jiff/pull/23
    let d = if year % 25 != 0 { 4 } else { 16 };
    (year % d) == 0
}

/// Return the number of days in the given year.
pub const fn days_in_year(year: i16) -> i16 {
    if is_leap_year(year) {
        366
    } else {
        365
    }
}

/// Return the number of days in the given month.
pub const fn days_in_month(year: i16, month: i8) -> i8 {
    // From: https://github.com/BurntSushi/jiff/pull/23
    if month == 2 {
        if is_leap_year(year) {
            29
        } else {
            28
        }
    } else {
        30 | (month ^ month >> 3)
    }
}


} // verus!
fn main() {}
