use vstd::prelude::*;
verus! {
#[verifier::external_body]
#[derive(Debug)]
pub struct Error { _p: () }

pub assume_specification[ i64::div_euclid ](x: i64, y: i64) -> (r: i64)
    requires y != 0, !(x == i64::MIN && y == -1),
    ensures r as int == (x as int) / (y as int);
pub assume_specification[ i64::rem_euclid ](x: i64, y: i64) -> (r: i64)
    requires y != 0, !(x == i64::MIN && y == -1),
    ensures r as int == (x as int) % (y as int);
pub assume_specification[ i32::div_euclid ](x: i32, y: i32) -> (r: i32)
    requires y != 0, !(x == i32::MIN && y == -1),
    ensures r as int == (x as int) / (y as int);
pub assume_specification[ i32::rem_euclid ](x: i32, y: i32) -> (r: i32)
    requires y != 0, !(x == i32::MIN && y == -1),
    ensures r as int == (x as int) % (y as int);
pub assume_specification[ i8::rem_euclid ](x: i8, y: i8) -> (r: i8)
    requires y != 0, !(x == i8::MIN && y == -1),
    ensures r as int == (x as int) % (y as int);
pub assume_specification[ i8::abs ](x: i8) -> (r: i8)
    requires x != i8::MIN,
    ensures r as int == (if x < 0 { -(x as int) } else { x as int });
pub assume_specification<T, E, F: FnOnce(E) -> T>[ Result::<T, E>::unwrap_or_else ](r: Result<T, E>, f: F) -> (res: T)
    requires r is Err ==> f.requires((r->Err_0,)),
    ensures r is Ok ==> res == r->Ok_0, r is Err ==> f.ensures((r->Err_0,), res);
#[verifier::external_body]
pub fn verif_err() -> Error { unimplemented!() }




#[derive(Clone, Copy, Debug, Eq, PartialEq, PartialOrd, Ord)]
pub struct ITimestamp {
    pub second: i64,
    pub nanosecond: i32,
}

impl ITimestamp {
    const MIN: ITimestamp =
        ITimestamp { second: -377705023201, nanosecond: 0 };
    const MAX: ITimestamp =
        ITimestamp { second: 253402207200, nanosecond: 999_999_999 };
    pub const fn from_second(second: i64) -> ITimestamp {
        ITimestamp { second, nanosecond: 0 }
    }
    pub const fn to_datetime(&self, offset: IOffset) -> IDateTime {
        let mut second = self.second; let mut nanosecond = self.nanosecond;
        second += offset.second as i64;
        let mut epoch_day = second.div_euclid(86_400) as i32;
        second = second.rem_euclid(86_400);
        if nanosecond < 0 {
            if second > 0 {
                second -= 1;
                nanosecond += 1_000_000_000;
            } else {
                epoch_day -= 1;
                second += 86_399;
                nanosecond += 1_000_000_000;
            }
        }

        let date = IEpochDay { epoch_day }.to_date();
        let mut time = ITimeSecond { second: second as i32 }.to_time();
        time.subsec_nanosecond = nanosecond;
        IDateTime { date, time }
    }
}

#[derive(Clone, Copy, Debug, Eq, PartialEq, PartialOrd, Ord)]
pub struct IOffset {
    pub second: i32,
}

impl IOffset {
    pub const UTC: IOffset = IOffset { second: 0 };
}

#[derive(Clone, Copy, Debug, Eq, PartialEq, PartialOrd, Ord)]
pub struct IDateTime {
    pub date: IDate,
    pub time: ITime,
}

impl IDateTime {
    const MIN: IDateTime = IDateTime { date: IDate::MIN, time: ITime::MIN };
    const MAX: IDateTime = IDateTime { date: IDate::MAX, time: ITime::MAX };
    pub fn to_timestamp(&self, offset: IOffset) -> ITimestamp {
        let epoch_day = self.date.to_epoch_day().epoch_day;
        let mut second = (epoch_day as i64) * 86_400
            + (self.time.to_second().second as i64);
        let mut nanosecond = self.time.subsec_nanosecond;
        second -= offset.second as i64;
        if epoch_day < 0 && nanosecond != 0 {
            second += 1;
            nanosecond -= 1_000_000_000;
        }
        ITimestamp { second, nanosecond }
    }
    pub fn to_timestamp_checked(
        &self,
        offset: IOffset,
    ) -> Option<ITimestamp> {
        let ts = self.to_timestamp(offset);
        if !(ITimestamp::MIN <= ts && ts <= ITimestamp::MAX) {
            return None;
        }
        Some(ts)
    }
    pub fn saturating_add_seconds(&self, seconds: i32) -> IDateTime {
        self.checked_add_seconds(seconds).unwrap_or_else(|_e| {
            if seconds < 0 {
                IDateTime::MIN
            } else {
                IDateTime::MAX
            }
        })
    }
    pub fn checked_add_seconds(
        &self,
        seconds: i32,
    ) -> Result<IDateTime, Error> {
        let day_second =
            self.time.to_second().second.checked_add(seconds).ok_or_else(
                || verif_err(),
            )?;
        let days = day_second.div_euclid(86400);
        let second = day_second.rem_euclid(86400);
        let date = self.date.checked_add_days(days)?;
        let time = ITimeSecond { second }.to_time();
        Ok(IDateTime { date, time })
    }
}

#[derive(Clone, Copy, Debug, Eq, PartialEq, PartialOrd, Ord)]
pub struct IEpochDay {
    pub epoch_day: i32,
}

impl IEpochDay {
    const MIN: IEpochDay = IEpochDay { epoch_day: -4371587 };
    const MAX: IEpochDay = IEpochDay { epoch_day: 2932896 };
    pub const fn to_date(&self) -> IDate {
        let s: u32 = 82;
        let K: u32 = 719468 + 146097 * s;
        let L: u32 = 400 * s;

        let N_U = self.epoch_day as u32;
        let N = N_U.wrapping_add(K);

        let N_1 = 4 * N + 3;
        let C = N_1 / 146097;
        let N_C = (N_1 % 146097) / 4;

        let N_2 = 4 * N_C + 3;
        let P_2 = 2939745 * (N_2 as u64);
        let Z = (P_2 / 4294967296) as u32;
        let N_Y = (P_2 % 4294967296) as u32 / 2939745 / 4;
        let Y = 100 * C + Z;

        let N_3 = 2141 * N_Y + 197913;
        let M = N_3 / 65536;
        let D = (N_3 % 65536) / 2141;

        let J = N_Y >= 306;
        let year = Y.wrapping_sub(L).wrapping_add(J as u32) as i16;
        let month = (if J { M - 12 } else { M }) as i8;
        let day = (D + 1) as i8;
        IDate { year, month, day }
    }
    pub const fn weekday(&self) -> IWeekday {
        // Based on Hinnant's approach here, although we use ISO weekday
        // numbering by default. Basically, this works by using the knowledge
        // that 1970-01-01 was a Thursday.
        //
        // Ref: http://howardhinnant.github.io/date_algorithms.html
        IWeekday::from_monday_zero_offset(
            (self.epoch_day + 3).rem_euclid(7) as i8
        )
    }
    pub fn checked_add(&self, amount: i32) -> Result<IEpochDay, Error> {
        let epoch_day = self.epoch_day;
        let sum = epoch_day.checked_add(amount).ok_or_else(|| {
            verif_err()
        })?;
        let ret = IEpochDay { epoch_day: sum };
        if !(IEpochDay::MIN <= ret && ret <= IEpochDay::MAX) {
            return Err(verif_err());
        }
        Ok(ret)
    }
}

#[derive(Clone, Copy, Debug, Eq, PartialEq, PartialOrd, Ord)]
pub struct IDate {
    pub year: i16,
    pub month: i8,
    pub day: i8,
}

impl IDate {
    const MIN: IDate = IDate { year: -9999, month: 1, day: 1 };
    const MAX: IDate = IDate { year: 9999, month: 12, day: 31 };
    pub fn try_new(
        year: i16,
        month: i8,
        day: i8,
    ) -> Result<IDate, Error> {
        if day > 28 {
            let max_day = days_in_month(year, month);
            if day > max_day {
                return Err(verif_err());
            }
        }
        Ok(IDate { year, month, day })
    }
    pub fn from_day_of_year(
        year: i16,
        day: i16,
    ) -> Result<IDate, Error> {
        if !(1 <= day && day <= 366) {
            return Err(verif_err());
        }
        let start = IDate { year, month: 1, day: 1 }.to_epoch_day();
        let end = start
            .checked_add(i32::from(day) - 1)
            .map_err(|_e| {
                verif_err()
            })?
            .to_date();
        // If we overflowed into the next year, then `day` is too big.
        if year != end.year {
            // Can only happen given day=366 and this is a leap year.
            assert(day == 366);
            { let verif_da = !is_leap_year(year); assert(verif_da); }
            return Err(verif_err());
        }
        Ok(end)
    }
    pub fn from_day_of_year_no_leap(
        year: i16,
        mut day: i16,
    ) -> Result<IDate, Error> {
        if !(1 <= day && day <= 365) {
            return Err(verif_err());
        }
        if day >= 60 && is_leap_year(year) {
            day += 1;
        }
        // The boundary check above guarantees this always succeeds.
        Ok(IDate::from_day_of_year(year, day).unwrap())
    }
    pub const fn to_epoch_day(&self) -> IEpochDay {
        let s: u32 = 82;
        let K: u32 = 719468 + 146097 * s;
        let L: u32 = 400 * s;

        let year = self.year as u32;
        let month = self.month as u32;
        let day = self.day as u32;

        let J = month <= 2;
        let Y = year.wrapping_add(L).wrapping_sub(J as u32);
        let M = if J { month + 12 } else { month };
        let D = day - 1;
        let C = Y / 100;

        let y_star = 1461 * Y / 4 - C + C / 4;
        let m_star = (979 * M - 2919) / 32;
        let N = y_star + m_star + D;

        let N_U = N.wrapping_sub(K);
        let epoch_day = N_U as i32;
        IEpochDay { epoch_day }
    }
    pub const fn weekday(&self) -> IWeekday {
        self.to_epoch_day().weekday()
    }
    pub fn nth_weekday_of_month(
        &self,
        nth: i8,
        weekday: IWeekday,
    ) -> Result<IDate, Error> {
        if nth == 0 || !(-5 <= nth && nth <= 5) {
            return Err(verif_err());
        }
        if nth > 0 {
            let first_weekday = self.first_of_month().weekday();
            let diff = weekday.since(first_weekday);
            let day = diff + 1 + (nth - 1) * 7;
            IDate::try_new(self.year, self.month, day)
        } else {
            let last = self.last_of_month();
            let last_weekday = last.weekday();
            let diff = last_weekday.since(weekday);
            let day = last.day - diff - (nth.abs() - 1) * 7;
            // Our math can go below 1 when nth is -5 and there is no "5th from
            // last" weekday in this month. Since this is outside the bounds
            // of `Day`, we can't let this boundary condition escape. So we
            // check it here.
            if day < 1 {
                return Err(verif_err());
            }
            IDate::try_new(self.year, self.month, day)
        }
    }
    pub fn yesterday(self) -> Result<IDate, Error> {
        if self.day == 1 {
            if self.month == 1 {
                let year = self.year - 1;
                if year <= -10000 {
                    return Err(verif_err());
                }
                return Ok(IDate { year, month: 12, day: 31 });
            }
            let month = self.month - 1;
            let day = days_in_month(self.year, month);
            return Ok(IDate { month, day, ..self });
        }
        Ok(IDate { day: self.day - 1, ..self })
    }
    pub fn tomorrow(self) -> Result<IDate, Error> {
        if self.day >= 28 && self.day == days_in_month(self.year, self.month) {
            if self.month == 12 {
                let year = self.year + 1;
                if year >= 10000 {
                    return Err(verif_err());
                }
                return Ok(IDate { year, month: 1, day: 1 });
            }
            let month = self.month + 1;
            return Ok(IDate { month, day: 1, ..self });
        }
        Ok(IDate { day: self.day + 1, ..self })
    }
    pub fn prev_year(self) -> Result<i16, Error> {
        let year = self.year - 1;
        if year <= -10_000 {
            return Err(verif_err());
        }
        Ok(year)
    }
    pub fn next_year(self) -> Result<i16, Error> {
        let year = self.year + 1;
        if year >= 10_000 {
            return Err(verif_err());
        }
        Ok(year)
    }
    pub fn checked_add_days(
        &self,
        amount: i32,
    ) -> Result<IDate, Error> {
        match amount {
            0 => Ok(*self),
            -1 => self.yesterday(),
            1 => self.tomorrow(),
            n => self.to_epoch_day().checked_add(n).map(|d| d.to_date()),
        }
    }
    fn first_of_month(&self) -> IDate {
        IDate { day: 1, ..*self }
    }
    fn last_of_month(&self) -> IDate {
        IDate { day: days_in_month(self.year, self.month), ..*self }
    }

    #[cfg(test)]
    pub fn at(
        &self,
        hour: i8,
        minute: i8,
        second: i8,
        subsec_nanosecond: i32,
    ) -> IDateTime {
        let time = ITime { hour, minute, second, subsec_nanosecond };
        IDateTime { date: *self, time }
    }
}
#[derive(Clone, Copy, Debug, Eq, PartialEq, PartialOrd, Ord)]
pub struct ITime {
    pub hour: i8,
    pub minute: i8,
    pub second: i8,
    pub subsec_nanosecond: i32,
}

impl ITime {
    pub const ZERO: ITime =
        ITime { hour: 0, minute: 0, second: 0, subsec_nanosecond: 0 };
    pub const MIN: ITime =
        ITime { hour: 0, minute: 0, second: 0, subsec_nanosecond: 0 };
    pub const MAX: ITime = ITime {
        hour: 23,
        minute: 59,
        second: 59,
        subsec_nanosecond: 999_999_999,
    };
    pub const fn to_second(&self) -> ITimeSecond {
        let mut second: i32 = 0;
        second += (self.hour as i32) * 3600;
        second += (self.minute as i32) * 60;
        second += self.second as i32;
        ITimeSecond { second }
    }
    pub const fn to_nanosecond(&self) -> ITimeNanosecond {
        let mut nanosecond: i64 = 0;
        nanosecond += (self.hour as i64) * 3_600_000_000_000;
        nanosecond += (self.minute as i64) * 60_000_000_000;
        nanosecond += (self.second as i64) * 1_000_000_000;
        nanosecond += self.subsec_nanosecond as i64;
        ITimeNanosecond { nanosecond }
    }
}
#[derive(Clone, Copy, Debug, Eq, PartialEq, PartialOrd, Ord)]
pub struct ITimeSecond {
    pub second: i32,
}

impl ITimeSecond {
    pub const fn to_time(&self) -> ITime {
        let mut second = self.second;
        let mut time = ITime::ZERO;
        if second != 0 {
            time.hour = (second / 3600) as i8;
            second = second % 3600;
            if second != 0 {
                time.minute = (second / 60) as i8;
                time.second = (second % 60) as i8;
            }
        }
        time
    }
}
#[derive(Clone, Copy, Debug, Eq, PartialEq, PartialOrd, Ord)]
pub struct ITimeNanosecond {
    pub nanosecond: i64,
}

impl ITimeNanosecond {
    pub const fn to_time(&self) -> ITime {
        let mut nanosecond = self.nanosecond;
        let mut time = ITime::ZERO;
        if nanosecond != 0 {
            time.hour = (nanosecond / 3_600_000_000_000) as i8;
            nanosecond = nanosecond % 3_600_000_000_000;
            if nanosecond != 0 {
                time.minute = (nanosecond / 60_000_000_000) as i8;
                nanosecond = nanosecond % 60_000_000_000;
                if nanosecond != 0 {
                    time.second = (nanosecond / 1_000_000_000) as i8;
                    time.subsec_nanosecond =
                        (nanosecond % 1_000_000_000) as i32;
                }
            }
        }
        time
    }
}
#[derive(Clone, Copy, Debug, Eq, PartialEq, PartialOrd, Ord)]
pub struct IWeekday {
    offset: i8,
}

impl IWeekday {
    pub const fn from_monday_zero_offset(offset: i8) -> IWeekday {
        assert!(0 <= offset && offset <= 6);
        IWeekday::from_monday_one_offset(offset + 1)
    }
    pub const fn from_monday_one_offset(offset: i8) -> IWeekday {
        assert!(1 <= offset && offset <= 7);
        IWeekday { offset }
    }
    pub const fn from_sunday_zero_offset(offset: i8) -> IWeekday {
        assert!(0 <= offset && offset <= 6);
        IWeekday::from_monday_zero_offset((offset - 1).rem_euclid(7))
    }
    #[cfg(test)] // currently dead code
    pub const fn from_sunday_one_offset(offset: i8) -> IWeekday {
        assert!(1 <= offset && offset <= 7);
        IWeekday::from_sunday_zero_offset(offset - 1)
    }
    pub const fn to_monday_zero_offset(self) -> i8 {
        self.to_monday_one_offset() - 1
    }
    pub const fn to_monday_one_offset(self) -> i8 {
        self.offset
    }
    #[cfg(test)] // currently dead code
    pub const fn to_sunday_zero_offset(self) -> i8 {
        (self.to_monday_zero_offset() + 1) % 7
    }
    #[cfg(test)] // currently dead code
    pub const fn to_sunday_one_offset(self) -> i8 {
        self.to_sunday_zero_offset() + 1
    }
    pub const fn since(self, other: IWeekday) -> i8 {
        (self.to_monday_zero_offset() - other.to_monday_zero_offset())
            .rem_euclid(7)
    }
}

#[derive(Clone, Copy, Debug, Eq, PartialEq)]
pub enum IAmbiguousOffset {
    Unambiguous { offset: IOffset },
    Gap { before: IOffset, after: IOffset },
    Fold { before: IOffset, after: IOffset },
}
pub const fn is_leap_year(year: i16) -> bool {
    // From: https://github.com/BurntSushi/jiff/pull/23
    let d = if year % 25 != 0 { 4 } else { 16 };
    (year % d) == 0
}
pub const fn days_in_year(year: i16) -> i16 {
    if is_leap_year(year) {
        366
    } else {
        365
    }
}
pub const fn days_in_month(year: i16, month: i8) -> i8 {
    // From: https://github.com/BurntSushi/jiff/pull/23
    if month == 2 {
        if is_leap_year(year) {
            29
        } else {
            28
        }
    } else {
        30 | (month ^ month >> 3)
    }
}


#[derive(Clone, Copy, Debug, Eq, PartialEq)]
pub struct PosixTimeZone<ABBREV> {
    pub std_abbrev: ABBREV,
    pub std_offset: PosixOffset,
    pub dst: Option<PosixDst<ABBREV>>,
}

#[derive(Clone, Copy, Debug, Eq, PartialEq)]
pub struct PosixDst<ABBREV> {
    pub abbrev: ABBREV,
    pub offset: PosixOffset,
    pub rule: PosixRule,
}

#[derive(Clone, Copy, Debug, Eq, PartialEq)]
pub struct PosixRule {
    pub start: PosixDayTime,
    pub end: PosixDayTime,
}

#[derive(Clone, Copy, Debug, Eq, PartialEq)]
pub struct PosixDayTime {
    pub date: PosixDay,
    pub time: PosixTime,
}

#[derive(Clone, Copy, Debug, Eq, PartialEq)]
pub enum PosixDay {
    JulianOne(i16),
    JulianZero(i16),
    WeekdayOfMonth {
        month: i8,
        week: i8,
        weekday: i8,
    },
}

#[derive(Clone, Copy, Debug, Eq, PartialEq)]
pub struct PosixTime {
    pub second: i32,
}

#[derive(Clone, Copy, Debug, Eq, PartialEq)]
pub struct PosixOffset {
    pub second: i32,
}

impl<ABBREV: AsRef<str>> PosixTimeZone<ABBREV> {
    pub fn to_offset(&self, timestamp: ITimestamp) -> IOffset {
        let std_offset = self.std_offset.to_ioffset();
        if self.dst.is_none() {
            return std_offset;
        }

        let dt = timestamp.to_datetime(IOffset::UTC);
        self.dst_info_utc(dt.date.year)
            .filter(|dst_info| dst_info.in_dst(dt))
            .map(|dst_info| dst_info.offset().to_ioffset())
            .unwrap_or_else(|| std_offset)
    }
    pub fn to_offset_info(
        &self,
        timestamp: ITimestamp,
    ) -> (IOffset, &'_ str, bool) {
        let std_offset = self.std_offset.to_ioffset();
        if self.dst.is_none() {
            return (std_offset, self.std_abbrev.as_ref(), false);
        }

        let dt = timestamp.to_datetime(IOffset::UTC);
        self.dst_info_utc(dt.date.year)
            .filter(|dst_info| dst_info.in_dst(dt))
            .map(|dst_info| {
                (
                    dst_info.offset().to_ioffset(),
                    dst_info.dst.abbrev.as_ref(),
                    true,
                )
            })
            .unwrap_or_else(|| (std_offset, self.std_abbrev.as_ref(), false))
    }
    pub fn to_ambiguous_kind(&self, dt: IDateTime) -> IAmbiguousOffset {
        let year = dt.date.year;
        let std_offset = self.std_offset.to_ioffset();
        let Some(dst_info) = self.dst_info_wall(year) else {
            return IAmbiguousOffset::Unambiguous { offset: std_offset };
        };
        let dst_offset = dst_info.offset().to_ioffset();
        let diff = dst_offset.second - std_offset.second;
        // When the difference between DST and standard is positive, that means
        // STD->DST results in a gap while DST->STD results in a fold. However,
        // when the difference is negative, that means STD->DST results in a
        // fold while DST->STD results in a gap. The former is by far the most
        // common. The latter is a bit weird, but real cases do exist. For
        // example, Dublin has DST in winter (UTC+01) and STD in the summer
        // (UTC+00).
        //
        // When the difference is zero, then we have a weird POSIX time zone
        // where a DST transition rule was specified, but was set to explicitly
        // be the same as STD. In this case, there can be no ambiguity. (The
        // zero case is strictly redundant. Both the diff < 0 and diff > 0
        // cases handle the zero case correctly. But we write it out for
        // clarity.)
        if diff == 0 {
            debug_assert_eq!(std_offset, dst_offset);
            IAmbiguousOffset::Unambiguous { offset: std_offset }
        } else if diff.is_negative() {
            // For DST transitions that always move behind one hour, ambiguous
            // timestamps only occur when the given civil datetime falls in the
            // standard time range.
            if dst_info.in_dst(dt) {
                IAmbiguousOffset::Unambiguous { offset: dst_offset }
            } else {
                let fold_start = dst_info.start.saturating_add_seconds(diff);
                let gap_end =
                    dst_info.end.saturating_add_seconds(diff.saturating_neg());
                if fold_start <= dt && dt < dst_info.start {
                    IAmbiguousOffset::Fold {
                        before: std_offset,
                        after: dst_offset,
                    }
                } else if dst_info.end <= dt && dt < gap_end {
                    IAmbiguousOffset::Gap {
                        before: dst_offset,
                        after: std_offset,
                    }
                } else {
                    IAmbiguousOffset::Unambiguous { offset: std_offset }
                }
            }
        } else {
            // For DST transitions that always move ahead one hour, ambiguous
            // timestamps only occur when the given civil datetime falls in the
            // DST range.
            if !dst_info.in_dst(dt) {
                IAmbiguousOffset::Unambiguous { offset: std_offset }
            } else {
                // PERF: I wonder if it makes sense to pre-compute these?
                // Probably not, because we have to do it based on year of
                // datetime given. But if we ever add a "caching" layer for
                // POSIX time zones, then it might be worth adding these to it.
                let gap_end = dst_info.start.saturating_add_seconds(diff);
                let fold_start =
                    dst_info.end.saturating_add_seconds(diff.saturating_neg());
                if dst_info.start <= dt && dt < gap_end {
                    IAmbiguousOffset::Gap {
                        before: std_offset,
                        after: dst_offset,
                    }
                } else if fold_start <= dt && dt < dst_info.end {
                    IAmbiguousOffset::Fold {
                        before: dst_offset,
                        after: std_offset,
                    }
                } else {
                    IAmbiguousOffset::Unambiguous { offset: dst_offset }
                }
            }
        }
    }
    pub fn previous_transition(
        &self,
        timestamp: ITimestamp,
    ) -> Option<(ITimestamp, IOffset, &'_ str, bool)> {
        let dt = timestamp.to_datetime(IOffset::UTC);
        let dst_info = self.dst_info_utc(dt.date.year)?;
        let (earlier, later) = dst_info.ordered();
        let (prev, dst_info) = if dt > later {
            (later, dst_info)
        } else if dt > earlier {
            (earlier, dst_info)
        } else {
            let prev_year = dt.date.prev_year().ok()?;
            let dst_info = self.dst_info_utc(prev_year)?;
            let (_, later) = dst_info.ordered();
            (later, dst_info)
        };

        let timestamp = prev.to_timestamp_checked(IOffset::UTC)?;
        let dt = timestamp.to_datetime(IOffset::UTC);
        let (offset, abbrev, dst) = if dst_info.in_dst(dt) {
            (dst_info.offset(), dst_info.dst.abbrev.as_ref(), true)
        } else {
            (&self.std_offset, self.std_abbrev.as_ref(), false)
        };
        Some((timestamp, offset.to_ioffset(), abbrev, dst))
    }
    pub fn next_transition(
        &self,
        timestamp: ITimestamp,
    ) -> Option<(ITimestamp, IOffset, &'_ str, bool)> {
        let dt = timestamp.to_datetime(IOffset::UTC);
        let dst_info = self.dst_info_utc(dt.date.year)?;
        let (earlier, later) = dst_info.ordered();
        let (next, dst_info) = if dt < earlier {
            (earlier, dst_info)
        } else if dt < later {
            (later, dst_info)
        } else {
            let next_year = dt.date.next_year().ok()?;
            let dst_info = self.dst_info_utc(next_year)?;
            let (earlier, _) = dst_info.ordered();
            (earlier, dst_info)
        };

        let timestamp = next.to_timestamp_checked(IOffset::UTC)?;
        let dt = timestamp.to_datetime(IOffset::UTC);
        let (offset, abbrev, dst) = if dst_info.in_dst(dt) {
            (dst_info.offset(), dst_info.dst.abbrev.as_ref(), true)
        } else {
            (&self.std_offset, self.std_abbrev.as_ref(), false)
        };
        Some((timestamp, offset.to_ioffset(), abbrev, dst))
    }
    fn dst_info_utc(&self, year: i16) -> Option<DstInfo<'_, ABBREV>> {
        let dst = self.dst.as_ref()?;
        // DST time starts with respect to standard time, so offset it by the
        // standard offset.
        let start =
            dst.rule.start.to_datetime(year, self.std_offset.to_ioffset());
        // DST time ends with respect to DST time, so offset it by the DST
        // offset.
        let end = dst.rule.end.to_datetime(year, dst.offset.to_ioffset());
        Some(DstInfo { dst, start, end })
    }
    fn dst_info_wall(&self, year: i16) -> Option<DstInfo<'_, ABBREV>> {
        let dst = self.dst.as_ref()?;
        // POSIX time zones express their DST transitions in terms of wall
        // clock time. Since this method specifically is returning wall
        // clock times, we don't want to offset our datetimes at all.
        let start = dst.rule.start.to_datetime(year, IOffset::UTC);
        let end = dst.rule.end.to_datetime(year, IOffset::UTC);
        Some(DstInfo { dst, start, end })
    }
}
impl PosixDayTime {
    pub fn to_datetime(&self, year: i16, offset: IOffset) -> IDateTime {
        let mkmin = || IDateTime {
            date: IDate { year, month: 1, day: 1 },
            time: ITime::MIN,
        };
        let mkmax = || IDateTime {
            date: IDate { year, month: 12, day: 31 },
            time: ITime::MAX,
        };
        let Some(date) = self.date.to_date(year) else { return mkmax() };
        // The range on `self.time` is `-604799..=604799`, and the range
        // on `offset.second` is `-93599..=93599`. Therefore, subtracting
        // them can never overflow an `i32`.
        let offset = self.time.second - offset.second;
        // If the time goes negative or above 86400, then we might have
        // to adjust our date.
        let days = offset.div_euclid(86400);
        let second = offset.rem_euclid(86400);

        let Ok(date) = date.checked_add_days(days) else {
            return if offset < 0 { mkmin() } else { mkmax() };
        };
        if date.year < year {
            mkmin()
        } else if date.year > year {
            mkmax()
        } else {
            let time = ITimeSecond { second }.to_time();
            IDateTime { date, time }
        }
    }
}
impl PosixDay {
    fn to_date(&self, year: i16) -> Option<IDate> {
        match *self {
            PosixDay::JulianOne(day) => {
                // Parsing validates that our day is 1-365 which will always
                // succeed for all possible year values. That is, every valid
                // year has a December 31.
                Some(
                    IDate::from_day_of_year_no_leap(year, day)
                        .expect("Julian `J day` should be in bounds"),
                )
            }
            PosixDay::JulianZero(day) => {
                // OK because our value for `day` is validated to be `0..=365`,
                // and since it is an `i16`, it is always valid to add 1.
                //
                // Also, while `day+1` is guaranteed to be in `1..=366`, it is
                // possible that `366` is invalid, for when `year` is not a
                // leap year. In this case, we throw our hands up, and ask the
                // caller to make a decision for how to deal with it. Why does
                // POSIX go out of its way to specifically not specify behavior
                // in error cases?
                IDate::from_day_of_year(year, day + 1).ok()
            }
            PosixDay::WeekdayOfMonth { month, week, weekday } => {
                let weekday = IWeekday::from_sunday_zero_offset(weekday);
                let first = IDate { year, month, day: 1 };
                let week = if week == 5 { -1 } else { week };
                debug_assert!(week == -1 || (1..=4).contains(&week));
                // This is maybe non-obvious, but this will always succeed
                // because it can only fail when the week number is one of
                // {-5, 0, 5}. Since we've validated that 'week' is in 1..=5,
                // we know it can't be 0. Moreover, because of the conditional
                // above and since `5` actually means "last weekday of month,"
                // that case will always translate to `-1`.
                //
                // Also, I looked at how other libraries deal with this case,
                // and almost all of them just do a bunch of inline hairy
                // arithmetic here. I suppose I could be reduced to such
                // things if perf called for it, but we have a nice civil date
                // abstraction. So use it, god damn it. (Well, we did, and now
                // we have a lower level IDate abstraction. But it's still
                // an abstraction!)
                Some(
                    first
                        .nth_weekday_of_month(week, weekday)
                        .expect("nth weekday always exists"),
                )
            }
        }
    }
}
impl PosixOffset {
    fn to_ioffset(&self) -> IOffset {
        IOffset { second: self.second }
    }
}
#[derive(Debug, Eq, PartialEq)]
struct DstInfo<'a, ABBREV> {
    dst: &'a PosixDst<ABBREV>,
    start: IDateTime,
    end: IDateTime,
}

impl<'a, ABBREV> DstInfo<'a, ABBREV> {
    fn in_dst(&self, utc_dt: IDateTime) -> bool {
        if self.start <= self.end {
            self.start <= utc_dt && utc_dt < self.end
        } else {
            !(self.end <= utc_dt && utc_dt < self.start)
        }
    }
    fn ordered(&self) -> (IDateTime, IDateTime) {
        if self.start <= self.end {
            (self.start, self.end)
        } else {
            (self.end, self.start)
        }
    }
    fn offset(&self) -> &PosixOffset {
        &self.dst.offset
    }
}
} // verus!
fn main() {}
