use vstd::prelude::*;
verus! {
pub const NANOS_PER_SEC: i32 = 1_000_000_000;
pub const NANOS_PER_MILLI: i32 = 1_000_000;
pub const MILLIS_PER_SEC: i64 = 1_000;
pub const MINS_PER_HOUR: i64 = 60;
pub const SECS_PER_MINUTE: i64 = 60;
#[derive(Clone, Copy)]
pub struct SignedDuration { pub secs: i64, pub nanos: i32 }

pub assume_specification[ i64::signum ](x: i64) -> (r: i64) ensures r == (if x > 0 { 1int } else if x < 0 { -1int } else { 0int });
pub assume_specification[ i32::signum ](x: i32) -> (r: i32) ensures r == (if x > 0 { 1int } else if x < 0 { -1int } else { 0int });
pub assume_specification[ i64::checked_neg ](x: i64) -> (r: Option<i64>) ensures x == i64::MIN ==> r.is_none(), x != i64::MIN ==> r == Some((-x) as i64);
pub assume_specification[ i64::abs ](x: i64) -> (r: i64) requires x != i64::MIN ensures r == (if x < 0 { -x } else { x as int });
pub assume_specification[ i32::abs ](x: i32) -> (r: i32) requires x != i32::MIN ensures r == (if x < 0 { -x } else { x as int });
pub assume_specification[ i64::is_positive ](x: i64) -> (r: bool) ensures r == (x > 0);
pub assume_specification[ i32::is_positive ](x: i32) -> (r: bool) ensures r == (x > 0);
pub assume_specification[ i64::is_negative ](x: i64) -> (r: bool) ensures r == (x < 0);
pub assume_specification[ i32::is_negative ](x: i32) -> (r: bool) ensures r == (x < 0);
impl SignedDuration {
    pub open spec fn wf(self) -> bool {
        -999_999_999 <= self.nanos <= 999_999_999 && !(self.secs > 0 && self.nanos < 0) && !(self.secs < 0 && self.nanos > 0)
    }
    pub open spec fn tot(self) -> int { self.secs as int * 1_000_000_000 + self.nanos as int }
}
pub open spec fn representable(t: int) -> bool { i64::MIN as int * 1_000_000_000 - 999_999_999 <= t <= i64::MAX as int * 1_000_000_000 + 999_999_999 }
impl SignedDuration {
pub const ZERO: SignedDuration = SignedDuration { secs: 0, nanos: 0 };
    pub const fn new(mut secs: i64, mut nanos: i32) -> SignedDuration {
        // When |nanos| exceeds 1 second, we balance the excess up to seconds.
        if !(-NANOS_PER_SEC < nanos && nanos < NANOS_PER_SEC) {
            // Never wraps or panics because NANOS_PER_SEC!={0,-1}.
            let addsecs = nanos / NANOS_PER_SEC;
            secs = match secs.checked_add(addsecs as i64) {
                Some(secs) => secs,
                None => panic!(
                    "nanoseconds overflowed seconds in SignedDuration::new"
                ),
            };
            // Never wraps or panics because NANOS_PER_SEC!={0,-1}.
            nanos = nanos % NANOS_PER_SEC;
        }
        // At this point, we're done if either unit is zero or if they have the
        // same sign.
        if nanos == 0 || secs == 0 || secs.signum() == (nanos.signum() as i64)
        {
            return SignedDuration::new_unchecked(secs, nanos);
        }
        // Otherwise, the only work we have to do is to balance negative nanos
        // into positive seconds, or positive nanos into negative seconds.
        if secs < 0 {
            { let verif_da = nanos > 0; assert(verif_da); }
            // Never wraps because adding +1 to a negative i64 never overflows.
            //
            // MSRV(1.79): Consider using `unchecked_add` here.
            secs += 1;
            // Never wraps because subtracting +1_000_000_000 from a positive
            // i32 never overflows.
            //
            // MSRV(1.79): Consider using `unchecked_sub` here.
            nanos -= NANOS_PER_SEC;
        } else {
            { let verif_da = secs > 0; assert(verif_da); }
            { let verif_da = nanos < 0; assert(verif_da); }
            // Never wraps because subtracting +1 from a positive i64 never
            // overflows.
            //
            // MSRV(1.79): Consider using `unchecked_add` here.
            secs -= 1;
            // Never wraps because adding +1_000_000_000 to a negative i32
            // never overflows.
            //
            // MSRV(1.79): Consider using `unchecked_add` here.
            nanos += NANOS_PER_SEC;
        }
        SignedDuration::new_unchecked(secs, nanos)
    }

    const fn new_unchecked(secs: i64, nanos: i32) -> (r: SignedDuration)
        requires -999_999_999 <= nanos <= 999_999_999, !(secs > 0 && nanos < 0), !(secs < 0 && nanos > 0),
        ensures r.secs == secs, r.nanos == nanos,
    {
        { let verif_da = nanos <= 999_999_999; assert(verif_da); }
        { let verif_da = nanos >= -999_999_999; assert(verif_da); }
        SignedDuration { secs, nanos }
    }

    pub const fn from_secs(secs: i64) -> SignedDuration {
        SignedDuration::new_unchecked(secs, 0)
    }

    pub const fn from_millis(millis: i64) -> SignedDuration {
        // OK because MILLIS_PER_SEC!={-1,0}.
        let secs = millis / MILLIS_PER_SEC;
        // OK because MILLIS_PER_SEC!={-1,0} and because
        // millis % MILLIS_PER_SEC can be at most 999, and 999 * 1_000_000
        // never overflows i32.
        let nanos = (millis % MILLIS_PER_SEC) as i32 * NANOS_PER_MILLI;
        SignedDuration::new_unchecked(secs, nanos)
    }

    pub const fn is_zero(&self) -> bool {
        self.secs == 0 && self.nanos == 0
    }

    pub const fn as_secs(&self) -> i64 {
        self.secs
    }

    pub const fn subsec_nanos(&self) -> i32 {
        self.nanos
    }

    pub const fn as_nanos(&self) -> i128 {
        // OK because 1_000_000_000 times any i64 will never overflow i128.
        let nanos = (self.secs as i128) * (NANOS_PER_SEC as i128);
        // OK because subsec_nanos maxes out at 999_999_999, and adding that to
        // i64::MAX*1_000_000_000 will never overflow a i128.
        nanos + (self.nanos as i128)
    }

    pub const fn checked_add(
        self,
        rhs: SignedDuration,
    ) -> (r: Option<SignedDuration>)
        requires self.wf(), rhs.wf(),
        ensures r is Some ==> r->0.wf() && r->0.tot() == self.tot() + rhs.tot(),
                r is None <==> !representable(self.tot() + rhs.tot()),
    {
        let Some(mut secs) = self.secs.checked_add(rhs.secs) else {
            return None;
        };
        // OK because `-999_999_999 <= nanos <= 999_999_999`, and so adding
        // them together will never overflow an i32.
        let mut nanos = self.nanos + rhs.nanos;
        // The below is effectively SignedDuration::new, but with checked
        // arithmetic. My suspicion is that there is probably a better way
        // to do this. The main complexity here is that 1) `|nanos|` might
        // now exceed 1 second and 2) the signs of `secs` and `nanos` might
        // not be the same. The other difference from SignedDuration::new is
        // that we know that `-1_999_999_998 <= nanos <= 1_999_999_998` since
        // `|SignedDuration::nanos|` is guaranteed to be less than 1 second. So
        // we can skip the div and modulus operations.

        // When |nanos| exceeds 1 second, we balance the excess up to seconds.
        if nanos != 0 {
            if nanos >= NANOS_PER_SEC {
                nanos -= NANOS_PER_SEC;
                secs = match secs.checked_add(1) {
                    None => return None,
                    Some(secs) => secs,
                };
            } else if nanos <= -NANOS_PER_SEC {
                nanos += NANOS_PER_SEC;
                secs = match secs.checked_sub(1) {
                    None => return None,
                    Some(secs) => secs,
                };
            }
            if secs != 0
                && nanos != 0
                && secs.signum() != (nanos.signum() as i64)
            {
                if secs < 0 {
                    { let verif_da = nanos > 0; assert(verif_da); }
                    // OK because secs<0.
                    secs += 1;
                    // OK because nanos>0.
                    nanos -= NANOS_PER_SEC;
                } else {
                    { let verif_da = secs > 0; assert(verif_da); }
                    { let verif_da = nanos < 0; assert(verif_da); }
                    // OK because secs>0.
                    secs -= 1;
                    // OK because nanos<0.
                    nanos += NANOS_PER_SEC;
                }
            }
        }
        Some(SignedDuration::new_unchecked(secs, nanos))
    }

    pub const fn checked_sub(
        self,
        rhs: SignedDuration,
    ) -> Option<SignedDuration> {
        let Some(rhs) = rhs.checked_neg() else { return None };
        self.checked_add(rhs)
    }

    pub const fn checked_mul(self, rhs: i32) -> (r: Option<SignedDuration>)
        requires self.wf(),
        ensures r is Some ==> r->0.wf() && r->0.tot() == self.tot() * rhs,
                r is None <==> !representable(self.tot() * rhs),
    {
        let rhs = rhs as i64;
        // Multiplying any two i32 values never overflows an i64.
        let nanos = (self.nanos as i64) * rhs;
        // OK since NANOS_PER_SEC!={-1,0}.
        let addsecs = nanos / (NANOS_PER_SEC as i64);
        // OK since NANOS_PER_SEC!={-1,0}.
        let nanos = (nanos % (NANOS_PER_SEC as i64)) as i32;
        let Some(secs) = self.secs.checked_mul(rhs) else { return None };
        let Some(secs) = secs.checked_add(addsecs) else { return None };
        Some(SignedDuration::new_unchecked(secs, nanos))
    }

    pub const fn checked_div(self, rhs: i32) -> Option<SignedDuration> {
        if rhs == 0 || (self.secs == i64::MIN && rhs == -1) {
            return None;
        }
        // OK since rhs!={-1,0}.
        let secs = self.secs / (rhs as i64);
        // OK since rhs!={-1,0}.
        let addsecs = self.secs % (rhs as i64);
        // OK since rhs!=0 and self.nanos>i32::MIN.
        let mut nanos = self.nanos / rhs;
        // OK since rhs!=0 and self.nanos>i32::MIN.
        let addnanos = self.nanos % rhs;
        let leftover_nanos =
            (addsecs * (NANOS_PER_SEC as i64)) + (addnanos as i64);
        nanos += (leftover_nanos / (rhs as i64)) as i32;
        { let verif_da = nanos < NANOS_PER_SEC; assert(verif_da); }
        Some(SignedDuration::new_unchecked(secs, nanos))
    }

    pub const fn checked_neg(self) -> Option<SignedDuration> {
        let Some(secs) = self.secs.checked_neg() else { return None };
        Some(SignedDuration::new_unchecked(
            secs,
            // Always OK because `-999_999_999 <= self.nanos <= 999_999_999`.
            -self.nanos,
        ))
    }

    pub const fn signum(self) -> i8 {
        if self.is_zero() {
            0
        } else if self.is_positive() {
            1
        } else {
            { let verif_da = self.is_negative(); assert(verif_da); }
            -1
        }
    }

    pub const fn abs(self) -> SignedDuration {
        SignedDuration::new_unchecked(self.secs.abs(), self.nanos.abs())
    }

    pub const fn as_hours(&self) -> i64 {
        self.as_secs() / (MINS_PER_HOUR * SECS_PER_MINUTE)
    }

    pub const fn from_hours(hours: i64) -> SignedDuration {
        // OK because (SECS_PER_MINUTE*MINS_PER_HOUR)!={-1,0}.
        let MIN_HOUR: i64 = i64::MIN / (SECS_PER_MINUTE * MINS_PER_HOUR);
        // OK because (SECS_PER_MINUTE*MINS_PER_HOUR)!={-1,0}.
        let MAX_HOUR: i64 = i64::MAX / (SECS_PER_MINUTE * MINS_PER_HOUR);
        // OK because (SECS_PER_MINUTE*MINS_PER_HOUR)!={-1,0}.
        if hours < MIN_HOUR {
            panic!("hours overflowed minimum number of SignedDuration seconds")
        }
        // OK because (SECS_PER_MINUTE*MINS_PER_HOUR)!={-1,0}.
        if hours > MAX_HOUR {
            panic!("hours overflowed maximum number of SignedDuration seconds")
        }
        SignedDuration::from_secs(hours * MINS_PER_HOUR * SECS_PER_MINUTE)
    }

    pub const fn is_positive(&self) -> bool {
        self.secs.is_positive() || self.nanos.is_positive()
    }

    pub const fn is_negative(&self) -> bool {
        self.secs.is_negative() || self.nanos.is_negative()
    }
}
} // verus!
fn main() {}
