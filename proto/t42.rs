use vstd::prelude::*;
verus! {

pub assume_specification<T, P: FnOnce(&T) -> bool>[ Option::<T>::filter ](o: Option<T>, p: P) -> (r: Option<T>)
    requires o is Some ==> p.requires((&o->0,)),
    ensures o is None ==> r is None,
            o is Some ==> (exists|b: bool| p.ensures((&o->0,), b) && (if b { r == o } else { r is None }));
#[derive(Clone, Copy, PartialEq, Eq)]
pub struct IOffset { pub second: i32 }
#[derive(Clone, Copy)]
pub struct IDateTime { pub k: i64 }   // stand-in: totally ordered key
pub struct PosixOffset { pub second: i32 }
impl PosixOffset { fn to_ioffset(&self) -> (r: IOffset) ensures r.second == self.second { IOffset { second: self.second } } }
pub struct PosixDst { pub offset: PosixOffset }
pub struct DstInfo<'a> { pub dst: &'a PosixDst, pub start: IDateTime, pub end: IDateTime }
impl<'a> DstInfo<'a> {
    pub open spec fn spec_in_dst(&self, dt: IDateTime) -> bool {
        if self.start.k <= self.end.k { self.start.k <= dt.k && dt.k < self.end.k } else { !(self.end.k <= dt.k && dt.k < self.start.k) }
    }
    fn in_dst(&self, utc_dt: IDateTime) -> (r: bool) ensures r == self.spec_in_dst(utc_dt) {
        if self.start.k <= self.end.k {
            self.start.k <= utc_dt.k && utc_dt.k < self.end.k
        } else {
            !(self.end.k <= utc_dt.k && utc_dt.k < self.start.k)
        }
    }
    fn offset(&self) -> (r: &PosixOffset) ensures r == &self.dst.offset { &self.dst.offset }
}
pub open spec fn spec_in(start: IDateTime, end: IDateTime, dt: IDateTime) -> bool {
    if start.k <= end.k { start.k <= dt.k && dt.k < end.k } else { !(end.k <= dt.k && dt.k < start.k) }
}
pub struct PosixTimeZone { pub std_offset: PosixOffset, pub dst: Option<PosixDst> }
impl PosixTimeZone {
    pub uninterp spec fn spec_info(&self, year: int) -> (IDateTime, IDateTime);
    #[verifier::external_body]
    fn dst_info_utc(&self, year: i16) -> (r: Option<DstInfo<'_>>)
        ensures r.is_some() == self.dst.is_some(),
                r.is_some() ==> *r.unwrap().dst == self.dst->0 && (r.unwrap().start, r.unwrap().end) == self.spec_info(year as int)
    { unimplemented!() }

    // body text from src/shared/posix.rs:50 (dt/year passed in to keep the experiment small)
    fn to_offset(&self, dt: IDateTime, year: i16) -> (r: IOffset)
        ensures self.dst.is_none() ==> r.second == self.std_offset.second,
                self.dst.is_some() ==> r.second == (if spec_in(self.spec_info(year as int).0, self.spec_info(year as int).1, dt) { self.dst.unwrap().offset.second } else { self.std_offset.second }),
    {
        let std_offset = self.std_offset.to_ioffset();
        if self.dst.is_none() {
            return std_offset;
        }
        self.dst_info_utc(year)
            .filter(|dst_info| dst_info.in_dst(dt))
            .map(|dst_info| dst_info.offset().to_ioffset())
            .unwrap_or_else(|| std_offset)
    }
}
}
fn main() {}
