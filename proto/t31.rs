use vstd::prelude::*;
verus! {

#[verifier::external_body] #[derive(Debug)] pub struct Error { _p: () }
#[verifier::external_body] pub fn verif_err() -> Error { unimplemented!() }
#[verifier::external_body] #[derive(Clone, Copy)] pub struct Span { _p: () }
#[verifier::external_body] #[derive(Clone, Copy)] pub struct Timestamp { _p: () }
#[verifier::external_body] #[derive(Clone, Copy)] pub struct DateTime { _p: () }
#[verifier::external_body] pub struct TimeZone { _p: () }
#[verifier::external_body] pub struct AmbiguousTimestamp { _p: () }
#[verifier::external_body] pub struct Zoned { _p: () }

// ---- abstract semantics (each is the postcondition of a contract proved elsewhere) ----
pub uninterp spec fn span_cal(s: Span) -> Span;            // years..days part
pub uninterp spec fn span_time(s: Span) -> Span;           // hours..nanoseconds part
pub uninterp spec fn span_is_zero(s: Span) -> bool;
pub uninterp spec fn dt_add(dt: DateTime, s: Span) -> Option<DateTime>;      // C08 reference semantics
pub uninterp spec fn ts_add(ts: Timestamp, s: Span) -> Option<Timestamp>;    // exact elapsed-time add (C02/C06)
pub uninterp spec fn resolve_compatible(tz: &TimeZone, dt: DateTime) -> Option<Timestamp>;   // C04 + strategy
pub uninterp spec fn mk_zoned(ts: Timestamp, tz: &TimeZone) -> Zoned;        // C13: the consistent Zoned for (ts, tz)

impl Span {
    #[verifier::external_body] pub fn only_calendar(self) -> (r: Span) ensures r == span_cal(self) { unimplemented!() }
    #[verifier::external_body] pub fn only_time(self) -> (r: Span) ensures r == span_time(self) { unimplemented!() }
    #[verifier::external_body] pub fn is_zero(self) -> (r: bool) ensures r == span_is_zero(self) { unimplemented!() }
}
impl DateTime {
    #[verifier::external_body] pub fn checked_add(self, s: Span) -> (r: Result<DateTime, Error>)
        ensures r.is_ok() == dt_add(self, s).is_some(), r.is_ok() ==> r.unwrap() == dt_add(self, s).unwrap() { unimplemented!() }
}
impl Timestamp {
    #[verifier::external_body] pub fn checked_add(self, s: Span) -> (r: Result<Timestamp, Error>)
        ensures r.is_ok() == ts_add(self, s).is_some(), r.is_ok() ==> r.unwrap() == ts_add(self, s).unwrap() { unimplemented!() }
    #[verifier::external_body] pub fn to_zoned(self, tz: TimeZone) -> (r: Zoned) ensures r == mk_zoned(self, &tz) { unimplemented!() }
}
impl TimeZone {
    #[verifier::external_body] pub fn to_ambiguous_timestamp(&self, dt: DateTime) -> (r: AmbiguousTimestamp) ensures r.tz_view() == self, r.dt_view() == dt { unimplemented!() }
    #[verifier::external_body] pub fn clone(&self) -> (r: TimeZone) ensures r == *self { unimplemented!() }
}
impl AmbiguousTimestamp {
    pub uninterp spec fn tz_view(&self) -> &TimeZone;
    pub uninterp spec fn dt_view(&self) -> DateTime;
    #[verifier::external_body] pub fn compatible(self) -> (r: Result<Timestamp, Error>)
        ensures r.is_ok() == resolve_compatible(self.tz_view(), self.dt_view()).is_some(),
                r.is_ok() ==> r.unwrap() == resolve_compatible(self.tz_view(), self.dt_view()).unwrap() { unimplemented!() }
}
impl Zoned {
    pub uninterp spec fn ts_view(&self) -> Timestamp;
    pub uninterp spec fn dt_view(&self) -> DateTime;
    pub uninterp spec fn tz_view(&self) -> &TimeZone;
    #[verifier::external_body] pub fn timestamp(&self) -> (r: Timestamp) ensures r == self.ts_view() { unimplemented!() }
    #[verifier::external_body] pub fn datetime(&self) -> (r: DateTime) ensures r == self.dt_view() { unimplemented!() }
    #[verifier::external_body] pub fn time_zone(&self) -> (r: &TimeZone) ensures r == self.tz_view() { unimplemented!() }
}
pub trait VerifCtx<T> { fn verif_with_context(self) -> Self; }
impl<T> VerifCtx<T> for Result<T, Error> {
    #[verifier::external_body]
    fn verif_with_context(self) -> (r: Self) ensures r.is_ok() == self.is_ok(), self.is_ok() ==> r.unwrap() == self.unwrap() { unimplemented!() }
}

// the law from the property statement
pub open spec fn zoned_add_spec(z: &Zoned, span: Span) -> Option<Zoned> {
    if span_is_zero(span_cal(span)) {
        match ts_add(z.ts_view(), span) { Some(ts) => Some(mk_zoned(ts, z.tz_view())), None => None }
    } else {
        match dt_add(z.dt_view(), span_cal(span)) {
            None => None,
            Some(dt) => match resolve_compatible(z.tz_view(), dt) {
                None => None,
                Some(ts) => match ts_add(ts, span_time(span)) { None => None, Some(ts2) => Some(mk_zoned(ts2, z.tz_view())) },
            },
        }
    }
}

impl Zoned {
    // body: src/zoned.rs:2208, with `.with_context(|| { err!(..) })` -> `.verif_with_context()` and `.map(|ts| ts.to_zoned(..))` kept
    fn checked_add_span(&self, span: Span) -> (res: Result<Zoned, Error>)
        ensures res.is_ok() == zoned_add_spec(self, span).is_some(),
                res.is_ok() ==> res.unwrap() == zoned_add_spec(self, span).unwrap(),
    {
        let span_calendar = span.only_calendar();
        if span_calendar.is_zero() {
            return self
                .timestamp()
                .checked_add(span)
                .map(|ts: Timestamp| -> (z: Zoned) ensures z == mk_zoned(ts, self.tz_view()) { ts.to_zoned(self.time_zone().clone()) })
                .verif_with_context();
        }
        let span_time = span.only_time();
        let dt =
            self.datetime().checked_add(span_calendar).verif_with_context()?;

        let tz = self.time_zone();
        let mut ts =
            tz.to_ambiguous_timestamp(dt).compatible().verif_with_context()?;
        ts = ts.checked_add(span_time).verif_with_context()?;
        Ok(ts.to_zoned(tz.clone()))
    }
}

} // verus!
fn main() {}
