use vstd::prelude::*;
verus! {

// ---- opaque views ----
#[verifier::external_body]
pub struct DateTime { _p: () }
impl DateTime {
    pub uninterp spec fn loc(&self) -> int;   // local seconds since epoch of this civil datetime (to the second)
}
#[derive(Clone, Copy)]
pub struct TzifDateTime { pub bits: i64 }
impl TzifDateTime {
    pub uninterp spec fn loc(&self) -> int;   // local seconds denoted by the packed civil datetime
}
// order of packed bits == order of local seconds (proved separately: TzifDateTime::new packing + rd monotone)
pub broadcast proof fn axiom_tzdt_order(a: TzifDateTime, b: TzifDateTime)
    ensures #![trigger a.loc(), b.loc()] (a.bits < b.bits) == (a.loc() < b.loc()), (a.bits == b.bits) == (a.loc() == b.loc())
{ admit(); }

#[verifier::external_body]
pub fn verif_tzdt_of(dt: &DateTime) -> (r: TzifDateTime) ensures r.loc() == dt.loc() { unimplemented!() }
#[verifier::external_body]
pub fn verif_lt(a: TzifDateTime, b: TzifDateTime) -> (r: bool) ensures r == (a.bits < b.bits) { unimplemented!() }

#[derive(Clone, Copy, PartialEq, Eq)]
pub enum TzifTransitionKind { Unambiguous, Gap, Fold }
pub struct TzifLocalTimeType { pub offset: i32, pub is_dst: bool }
#[derive(Clone, Copy)]
pub struct Offset { pub s: i32 }
impl Offset { pub fn from_seconds_unchecked(s: i32) -> (r: Offset) ensures r.s == s { Offset { s } } }
pub enum AmbiguousOffset {
    Unambiguous { offset: Offset },
    Gap { before: Offset, after: Offset },
    Fold { before: Offset, after: Offset },
}
#[verifier::external_body]
pub struct PosixTimeZone { _p: () }
impl PosixTimeZone {
    pub uninterp spec fn spec_amb(&self, loc: int) -> AmbiguousOffset;
    #[verifier::external_body]
    pub fn to_ambiguous_kind(&self, dt: DateTime) -> (r: AmbiguousOffset) ensures r == self.spec_amb(dt.loc()) { unimplemented!() }
}

#[verifier::external_body]
pub struct Tzif { _p: () }
impl Tzif {
    pub uninterp spec fn n(&self) -> int;
    pub uninterp spec fn ts(&self, i: int) -> int;
    pub uninterp spec fn off(&self, i: int) -> int;
    pub uninterp spec fn starts(&self) -> Seq<TzifDateTime>;
    pub uninterp spec fn ends(&self) -> Seq<TzifDateTime>;
    pub uninterp spec fn kinds(&self) -> Seq<TzifTransitionKind>;
    pub uninterp spec fn has_posix(&self) -> bool;
    pub uninterp spec fn posix(&self) -> PosixTimeZone;

    pub open spec fn min2(a: int, b: int) -> int { if a < b { a } else { b } }
    pub open spec fn max2(a: int, b: int) -> int { if a < b { b } else { a } }
    pub open spec fn start_loc(&self, i: int) -> int { if i == 0 { self.ts(0) + self.off(0) } else { self.ts(i) + Self::min2(self.off(i-1), self.off(i)) } }
    pub open spec fn end_loc(&self, i: int) -> int { if i == 0 { self.ts(0) + self.off(0) } else { self.ts(i) + Self::max2(self.off(i-1), self.off(i)) } }
    pub open spec fn kind_of(&self, i: int) -> TzifTransitionKind {
        if i == 0 || self.off(i-1) == self.off(i) { TzifTransitionKind::Unambiguous }
        else if self.off(i-1) < self.off(i) { TzifTransitionKind::Gap } else { TzifTransitionKind::Fold }
    }
    // data-structure invariant established by add_civil_datetimes_to_transitions (its own contract)
    pub open spec fn wf(&self) -> bool {
        &&& self.n() >= 1
        &&& self.starts().len() == self.n() && self.ends().len() == self.n() && self.kinds().len() == self.n()
        &&& forall|i: int| 0 <= i < self.n() ==> #[trigger] self.starts()[i].loc() == self.start_loc(i)
        &&& forall|i: int| 0 <= i < self.n() && self.kind_of(i) != TzifTransitionKind::Unambiguous ==> #[trigger] self.ends()[i].loc() == self.end_loc(i)
        &&& forall|i: int| 0 <= i < self.n() ==> #[trigger] self.kinds()[i] == self.kind_of(i)
        &&& forall|i: int| 0 <= i < self.n() ==> -93599 <= #[trigger] self.off(i) <= 93599
        // separation (data assumption): windows ordered and disjoint
        &&& forall|i: int, j: int| 0 <= i < j < self.n() ==> #[trigger] self.end_loc(i) <= #[trigger] self.start_loc(j)
        &&& forall|i: int, j: int| 0 <= i < j < self.n() ==> #[trigger] self.starts()[i].bits < #[trigger] self.starts()[j].bits
    }

    #[verifier::external_body]
    fn civil_starts(&self) -> (r: &[TzifDateTime]) ensures r@ == self.starts() { unimplemented!() }
    #[verifier::external_body]
    fn civil_ends(&self) -> (r: &[TzifDateTime]) ensures r@ == self.ends() { unimplemented!() }
    #[verifier::external_body]
    fn local_time_type(&self, transition_index: usize) -> (r: &TzifLocalTimeType)
        requires transition_index < self.n(),
        ensures r.offset == self.off(transition_index as int) { unimplemented!() }
    #[verifier::external_body]
    fn transition_kind(&self, transition_index: usize) -> (r: TzifTransitionKind)
        requires transition_index < self.n(),
        ensures r == self.kinds()[transition_index as int] { unimplemented!() }
    #[verifier::external_body]
    fn posix_tz(&self) -> (r: Option<&PosixTimeZone>) ensures r.is_some() == self.has_posix(), r.is_some() ==> *r.unwrap() == self.posix() { unimplemented!() }
}

#[verifier::external_body]
pub fn verif_binary_search_tzdt(s: &[TzifDateTime], x: &TzifDateTime) -> (r: Result<usize, usize>)
    ensures
        (forall|i: int, j: int| 0 <= i < j < s@.len() ==> s@[i].bits < s@[j].bits) ==> match r {
            Ok(i) => i < s@.len() && s@[i as int].bits == x.bits,
            Err(i) => i <= s@.len()
                && (forall|k: int| 0 <= k < i ==> s@[k].bits < x.bits)
                && (forall|k: int| i <= k < s@.len() ==> s@[k].bits > x.bits),
        }
{ unimplemented!() }

// the classification the statement prescribes, over the view
pub open spec fn spec_kind(tz: &Tzif, l: int) -> AmbiguousOffset
    recommends tz.wf()
{
    // governing index: last i with start_loc(i) <= l
    arbitrary()
}


pub open spec fn post(tz: &Tzif, l: int, i: int, res: AmbiguousOffset) -> bool {
    0 <= i < tz.n() && tz.start_loc(i) <= l && (i + 1 < tz.n() ==> l < tz.start_loc(i + 1)) && (
        if tz.kind_of(i) == TzifTransitionKind::Gap && l < tz.end_loc(i) {
            res matches AmbiguousOffset::Gap { before, after } && before.s == tz.off(i - 1) && after.s == tz.off(i)
        } else if tz.kind_of(i) == TzifTransitionKind::Fold && l < tz.end_loc(i) {
            res matches AmbiguousOffset::Fold { before, after } && before.s == tz.off(i - 1) && after.s == tz.off(i)
        } else if i == tz.n() - 1 && tz.has_posix() {
            res == tz.posix().spec_amb(l)
        } else {
            res matches AmbiguousOffset::Unambiguous { offset } && offset.s == tz.off(i)
        })
}
impl Tzif {
    pub fn to_ambiguous_kind(&self, dt: DateTime) -> (res: AmbiguousOffset)
        requires self.wf(), dt.loc() >= self.start_loc(0),
        ensures exists|i: int| post(self, dt.loc(), i, res),
    {
        broadcast use axiom_tzdt_order;
        let ghost l = dt.loc();
        let dtt = verif_tzdt_of(&dt);
        let (starts, ends) = (self.civil_starts(), self.civil_ends());
        assert!(!starts.is_empty(), "transitions is non-empty");
        assert(self.starts()[0].loc() == self.start_loc(0));
        let this_index = match verif_binary_search_tzdt(starts, &dtt) {
            Err(0) => unreachable!("impossible to come before DateTime::MIN"),
            Ok(i) => i,
            Err(i) => i.checked_sub(1).expect("i is non-zero"),
        };
        assert(this_index < starts.len());
        proof {
            let i = this_index as int;
            assert(self.starts()[i].loc() == self.start_loc(i));
            assert(self.start_loc(i) <= l);
            if i + 1 < self.n() { assert(self.starts()[i + 1].loc() == self.start_loc(i + 1)); assert(l < self.start_loc(i + 1)); }
            assert(self.kinds()[i] == self.kind_of(i));
            if self.kind_of(i) != TzifTransitionKind::Unambiguous { assert(self.ends()[i].loc() == self.end_loc(i)); }
        }

        let this_offset = self.local_time_type(this_index).offset;
        match self.transition_kind(this_index) {
            TzifTransitionKind::Gap if verif_lt(dtt, ends[this_index]) => {
                let prev_index = this_index.checked_sub(1).unwrap();
                let prev_offset = self.local_time_type(prev_index).offset;
                let verif_r = AmbiguousOffset::Gap {
                    before: Offset::from_seconds_unchecked(prev_offset),
                    after: Offset::from_seconds_unchecked(this_offset),
                };
                assert(post(self, l, this_index as int, verif_r));
                return verif_r;
            }
            TzifTransitionKind::Fold if verif_lt(dtt, ends[this_index]) => {
                let prev_index = this_index.checked_sub(1).unwrap();
                let prev_offset = self.local_time_type(prev_index).offset;
                let verif_r = AmbiguousOffset::Fold {
                    before: Offset::from_seconds_unchecked(prev_offset),
                    after: Offset::from_seconds_unchecked(this_offset),
                };
                assert(post(self, l, this_index as int, verif_r));
                return verif_r;
            }
            _ => {}
        }
        if this_index == starts.len() - 1 {
            if let Some(tz) = self.posix_tz() {
                let verif_r = tz.to_ambiguous_kind(dt);
                assert(post(self, l, this_index as int, verif_r));
                return verif_r;
            }
        }
        let verif_r = AmbiguousOffset::Unambiguous {
            offset: Offset::from_seconds_unchecked(this_offset),
        };
        assert(post(self, l, this_index as int, verif_r));
        verif_r
    }
}

} // verus!
fn main() {}
